//go:build verif

package verifkit

// fakezk.go - an in-process fake ZooKeeper server speaking the real client
// protocol ("jute" records in 4-byte length frames) over loopback TCP, good
// enough for github.com/go-zookeeper/zk v1.0.4 to run against unmodified.
//
// It is a test double: ONE linearizable tree behind ONE mutex.  Every request
// is applied, and its log entry appended, inside the same critical section, so
// the order of Log() is the linearization order.
//
// Deliberate differences from a real ensemble (see also the final report):
//   - no watches: the Watch flag of exists/getData/getChildren is decoded,
//     recorded in the log and otherwise ignored; setWatches is answered "ok";
//   - no ACL enforcement (setAuth is answered "ok"; an empty ACL list on
//     create is rejected with InvalidACL like the real server);
//   - no multi / getACL / setACL / reconfig / container / TTL nodes: answered
//     with Unimplemented (-6);
//   - the zxid is incremented by successful writes and by session
//     create/close/expire only (a real server also burns a zxid for a write
//     that fails);
//   - sessions never expire on their own unless SetAutoExpire(true).
//
// Only the standard library is imported (verifkit must stay a leaf package).

import (
	"crypto/rand"
	"encoding/binary"
	"errors"
	"fmt"
	"io"
	"net"
	"sort"
	"strings"
	"sync"
	"time"
)

// ---------------------------------------------------------------------------
// protocol constants

// Opcodes (request header "type").
const (
	zkOpCreate       int32 = 1
	zkOpDelete       int32 = 2
	zkOpExists       int32 = 3
	zkOpGetData      int32 = 4
	zkOpSetData      int32 = 5
	zkOpGetChildren  int32 = 8
	zkOpSync         int32 = 9
	zkOpPing         int32 = 11
	zkOpGetChildren2 int32 = 12
	zkOpClose        int32 = -11
	zkOpSetAuth      int32 = 100
	zkOpSetWatches   int32 = 101
)

// Op names as they appear in ZKRequestEvent.Op and ZKLogEntry.Op.
const (
	ZKOpCreate       = "create"
	ZKOpDelete       = "delete"
	ZKOpExists       = "exists"
	ZKOpGetData      = "getData"
	ZKOpSetData      = "setData"
	ZKOpGetChildren  = "getChildren"
	ZKOpSync         = "sync"
	ZKOpPing         = "ping"
	ZKOpGetChildren2 = "getChildren2"
	ZKOpClose        = "close"
	ZKOpSetAuth      = "setAuth"
	ZKOpSetWatches   = "setWatches"

	// Session lifecycle entries of the log (never seen by the hook).
	ZKOpSessionConnect    = "session.connect"    // new session created
	ZKOpSessionResume     = "session.resume"     // reconnect accepted, same session
	ZKOpSessionReject     = "session.reject"     // reconnect of an unknown/expired session or bad password, answered with session id 0
	ZKOpSessionDisconnect = "session.disconnect" // the connection of a live session went away (session stays)
	ZKOpSessionClose      = "session.close"      // closed by the client (opClose)
	ZKOpSessionExpire     = "session.expire"     // expired (ExpireSession or auto expiry)
)

var zkOpNames = map[int32]string{
	zkOpCreate:       ZKOpCreate,
	zkOpDelete:       ZKOpDelete,
	zkOpExists:       ZKOpExists,
	zkOpGetData:      ZKOpGetData,
	zkOpSetData:      ZKOpSetData,
	zkOpGetChildren:  ZKOpGetChildren,
	zkOpSync:         ZKOpSync,
	zkOpPing:         ZKOpPing,
	zkOpGetChildren2: ZKOpGetChildren2,
	zkOpClose:        ZKOpClose,
	zkOpSetAuth:      ZKOpSetAuth,
	zkOpSetWatches:   ZKOpSetWatches,
}

// Result codes (reply header "err"), as in ZKLogEntry.Err.
const (
	ZKErrOk                      int32 = 0
	ZKErrMarshalling             int32 = -5
	ZKErrUnimplemented           int32 = -6
	ZKErrBadArguments            int32 = -8
	ZKErrNoNode                  int32 = -101
	ZKErrBadVersion              int32 = -103
	ZKErrNoChildrenForEphemerals int32 = -108
	ZKErrNodeExists              int32 = -110
	ZKErrNotEmpty                int32 = -111
	ZKErrSessionExpired          int32 = -112
	ZKErrInvalidACL              int32 = -114
)

// Create flags.
const (
	zkFlagEphemeral int32 = 1
	zkFlagSequence  int32 = 2
)

const zkMaxFrame = 4 << 20 // refuse frames larger than this (real default: 1 MiB)

// ---------------------------------------------------------------------------
// exported types

// ZKSessionInfo is a snapshot of one session.
type ZKSessionInfo struct {
	ID         int64
	Timeout    time.Duration // negotiated session timeout
	Live       bool          // false once closed or expired
	Connected  bool          // a TCP connection is currently attached
	Order      int           // 1-based creation order
	Ephemerals []string      // sorted paths of the ephemeral nodes it owns
}

// ZKNodeInfo is a snapshot of one znode.
type ZKNodeInfo struct {
	Data           []byte
	Version        int32 // data version
	EphemeralOwner int64 // owning session id, 0 for persistent nodes
	Cversion       int32
	Czxid          int64
	Mzxid          int64
	Pzxid          int64
	NumChildren    int32
}

// ZKLogEntry is one entry of the server-side log.  Request entries are
// appended at the moment the request is applied (under the tree mutex), so the
// log order is the linearization order.  Requests that were dropped by the
// hook before being applied leave no entry.
type ZKLogEntry struct {
	Seq     int    // 1-based position in the log
	Req     int    // arrival number of the request (== ZKRequestEvent.Seq); 0 for session lifecycle entries
	Session int64  // session id
	Op      string // ZKOp* name, or "op(<n>)" for an opcode this server does not know
	Path    string // path argument
	Result  string // create: the path actually created (differs from Path for sequence nodes)
	Data    []byte // data argument of create/setData
	Version int32  // version argument of delete/setData
	Flags   int32  // flags argument of create
	Watch   bool   // the request asked for a watch (which this server never fires)
	Err     int32  // result code sent (or that would have been sent) to the client, 0 = ok
	Zxid    int64  // server zxid right after the entry was applied
	TimeNs  int64  // server wall clock, UnixNano
	// Removed lists (sorted) the ephemeral nodes deleted by a
	// session.close / session.expire entry.
	Removed []string
}

// ZKRequestEvent describes a decoded request to the hook.
type ZKRequestEvent struct {
	Session int64
	Op      string // ZKOp* name (pings and close included)
	Path    string
	Seq     int    // arrival number of the request at the server, 1-based, global
	Xid     int32  // client xid
	Data    []byte // create/setData
	Version int32  // delete/setData
	Flags   int32  // create
}

// ZKAction is the hook's verdict.  The zero value is ZKProceed.
type ZKAction struct {
	kind  int
	delay time.Duration
}

const (
	zkActProceed = iota
	zkActDropBeforeApply
	zkActApplyThenDrop
	zkActDelay
)

var (
	// ZKProceed: handle the request normally.
	ZKProceed = ZKAction{kind: zkActProceed}
	// ZKDropBeforeApply: close the connection; the request is NOT applied.
	ZKDropBeforeApply = ZKAction{kind: zkActDropBeforeApply}
	// ZKApplyThenDrop: apply the request, then close the connection without
	// sending the reply.
	ZKApplyThenDrop = ZKAction{kind: zkActApplyThenDrop}
)

// ZKDelay: sleep d (the connection's request pipeline stalls, like a slow
// server), then handle the request normally.
func ZKDelay(d time.Duration) ZKAction { return ZKAction{kind: zkActDelay, delay: d} }

// ---------------------------------------------------------------------------
// server state

type zkNode struct {
	data                []byte
	czxid, mzxid, pzxid int64
	ctime, mtime        int64 // ms since epoch
	version             int32 // data version
	cversion            int32 // child list version
	aversion            int32
	owner               int64 // ephemeral owner session id, 0 = persistent
	children            map[string]struct{}
}

type zkSession struct {
	id         int64
	passwd     []byte
	timeoutMs  int32
	live       bool
	order      int
	conn       *zkConn // currently attached connection, nil when disconnected
	lastHeard  time.Time
	ephemerals map[string]struct{}
}

type zkConn struct {
	nc   net.Conn
	sess *zkSession // nil until the handshake succeeded; guarded by ZKServer.mu
}

// ZKServer is the fake server.  All exported methods are safe for concurrent use.
type ZKServer struct {
	ln   net.Listener
	done chan struct{} // closed by Close
	wg   sync.WaitGroup

	mu          sync.Mutex // guards everything below
	closed      bool
	zxid        int64
	nodes       map[string]*zkNode // "/" always present
	sessions    map[int64]*zkSession
	nextSession int64
	conns       map[*zkConn]struct{}
	log         []ZKLogEntry
	reqSeq      int
	autoExpire  bool
	refuseAll   bool
	logPings    bool
	partitioned map[int64]bool
	minTimeout  time.Duration
	maxTimeout  time.Duration

	hookMu sync.RWMutex
	hook   func(ZKRequestEvent) ZKAction
}

// NewZKServer starts a server on 127.0.0.1:0.  It panics if it cannot listen.
func NewZKServer() *ZKServer {
	ln, err := net.Listen("tcp", "127.0.0.1:0")
	if err != nil {
		panic("fakezk: listen: " + err.Error())
	}
	now := time.Now().UnixMilli()
	s := &ZKServer{
		ln:          ln,
		done:        make(chan struct{}),
		nodes:       map[string]*zkNode{"/": {ctime: now, mtime: now, children: map[string]struct{}{}}},
		sessions:    map[int64]*zkSession{},
		nextSession: 1000,
		conns:       map[*zkConn]struct{}{},
		partitioned: map[int64]bool{},
	}
	s.wg.Add(2)
	go s.acceptLoop()
	go s.reaper()
	return s
}

// Addr returns "127.0.0.1:port".
func (s *ZKServer) Addr() string { return s.ln.Addr().String() }

// Close stops the listener, closes every connection and waits for all server
// goroutines to finish.  Sessions and the tree stay inspectable.  Idempotent.
func (s *ZKServer) Close() {
	s.mu.Lock()
	if !s.closed {
		s.closed = true
		close(s.done)
		s.ln.Close()
		for c := range s.conns {
			c.nc.Close()
		}
	}
	s.mu.Unlock()
	s.wg.Wait()
}

// SetAutoExpire switches real-time session expiry on or off (default off).
// While on, a live session expires when the server has received nothing
// (request or ping) on any connection of that session for the negotiated
// session timeout.  Switching it on gives every live session a fresh full
// timeout.  Granularity is about 10 ms.
func (s *ZKServer) SetAutoExpire(on bool) {
	s.mu.Lock()
	defer s.mu.Unlock()
	if on && !s.autoExpire {
		now := time.Now()
		for _, sess := range s.sessions {
			sess.lastHeard = now
		}
	}
	s.autoExpire = on
}

// SetSessionTimeoutBounds makes the server clamp the timeout requested by
// clients into [min, max] like a real server does (real default: 2 and 20
// ticks, i.e. 4 s and 40 s).  A zero bound is "no bound"; the default is no
// clamping at all, i.e. the client gets what it asks for.
func (s *ZKServer) SetSessionTimeoutBounds(min, max time.Duration) {
	s.mu.Lock()
	defer s.mu.Unlock()
	s.minTimeout, s.maxTimeout = min, max
}

// SetLogPings makes pings appear in Log() (default off; they are always shown
// to the hook and always count as "heard from the session").
func (s *ZKServer) SetLogPings(on bool) {
	s.mu.Lock()
	defer s.mu.Unlock()
	s.logPings = on
}

// SetHook installs (or with nil removes) the fault-injection hook.  It is
// consulted for every request after it has been decoded and before it is
// applied, on the goroutine of the request's connection and WITHOUT any server
// lock held, so it may call any ZKServer method.  It is called concurrently
// for requests of different connections.
func (s *ZKServer) SetHook(h func(ev ZKRequestEvent) ZKAction) {
	s.hookMu.Lock()
	defer s.hookMu.Unlock()
	s.hook = h
}

func (s *ZKServer) callHook(ev ZKRequestEvent) ZKAction {
	s.hookMu.RLock()
	h := s.hook
	s.hookMu.RUnlock()
	if h == nil {
		return ZKProceed
	}
	return h(ev)
}

// Sessions returns every session ever created, in creation order.
func (s *ZKServer) Sessions() []ZKSessionInfo {
	s.mu.Lock()
	defer s.mu.Unlock()
	out := make([]ZKSessionInfo, 0, len(s.sessions))
	for _, sess := range s.sessions {
		out = append(out, ZKSessionInfo{
			ID:         sess.id,
			Timeout:    time.Duration(sess.timeoutMs) * time.Millisecond,
			Live:       sess.live,
			Connected:  sess.conn != nil,
			Order:      sess.order,
			Ephemerals: sortedKeys(sess.ephemerals),
		})
	}
	sort.Slice(out, func(i, j int) bool { return out[i].Order < out[j].Order })
	return out
}

// ExpireSession expires a live session: all its ephemeral nodes are deleted
// atomically, the session is marked dead and its connection (if any) is
// closed.  A later reconnect carrying this id is answered with session id 0
// (the client reports StateExpired).  No-op for unknown or dead sessions.
func (s *ZKServer) ExpireSession(id int64) {
	s.mu.Lock()
	defer s.mu.Unlock()
	if sess := s.sessions[id]; sess != nil && sess.live {
		s.endSessionLocked(sess, ZKOpSessionExpire)
	}
}

// DropConnection closes the TCP connection of the session without expiring
// it.  A request that was already read from that connection may still be
// applied (as on a real server); its reply is lost.
func (s *ZKServer) DropConnection(id int64) {
	s.mu.Lock()
	defer s.mu.Unlock()
	if sess := s.sessions[id]; sess != nil && sess.conn != nil {
		s.detachLocked(sess.conn)
	}
}

// SetPartition cuts the session off from the server (blocked=true) or heals
// the cut.  While blocked, the session's current connection is dropped and any
// connect request carrying that session id is closed without an answer.  The
// session itself stays alive (unless it is expired by ExpireSession or auto
// expiry).  The id need not exist yet.
func (s *ZKServer) SetPartition(id int64, blocked bool) {
	s.mu.Lock()
	defer s.mu.Unlock()
	if !blocked {
		delete(s.partitioned, id)
		return
	}
	s.partitioned[id] = true
	if sess := s.sessions[id]; sess != nil && sess.conn != nil {
		s.detachLocked(sess.conn)
	}
}

// SetRefuseAll makes the server close every NEW connection right after
// accepting it, before reading anything; a connection that has not completed
// its handshake yet is closed without an answer too.  Established connections
// are untouched.
func (s *ZKServer) SetRefuseAll(on bool) {
	s.mu.Lock()
	defer s.mu.Unlock()
	s.refuseAll = on
}

// Dump returns a deep copy of the tree, the root "/" included.
func (s *ZKServer) Dump() map[string]ZKNodeInfo {
	s.mu.Lock()
	defer s.mu.Unlock()
	out := make(map[string]ZKNodeInfo, len(s.nodes))
	for p, n := range s.nodes {
		out[p] = ZKNodeInfo{
			Data:           cloneBytes(n.data),
			Version:        n.version,
			EphemeralOwner: n.owner,
			Cversion:       n.cversion,
			Czxid:          n.czxid,
			Mzxid:          n.mzxid,
			Pzxid:          n.pzxid,
			NumChildren:    int32(len(n.children)),
		}
	}
	return out
}

// Log returns a copy of the server-side log.
func (s *ZKServer) Log() []ZKLogEntry {
	s.mu.Lock()
	defer s.mu.Unlock()
	out := make([]ZKLogEntry, len(s.log))
	copy(out, s.log)
	return out
}

// ConnCount returns the number of open server-side TCP connections.
func (s *ZKServer) ConnCount() int {
	s.mu.Lock()
	defer s.mu.Unlock()
	return len(s.conns)
}

// ---------------------------------------------------------------------------
// goroutines: accept loop, expiry reaper, one per connection

func (s *ZKServer) acceptLoop() {
	defer s.wg.Done()
	for {
		nc, err := s.ln.Accept()
		if err != nil {
			select {
			case <-s.done:
				return
			default:
			}
			if errors.Is(err, net.ErrClosed) {
				return
			}
			time.Sleep(5 * time.Millisecond) // transient accept error
			continue
		}
		s.mu.Lock()
		if s.closed || s.refuseAll {
			s.mu.Unlock()
			nc.Close()
			continue
		}
		c := &zkConn{nc: nc}
		s.conns[c] = struct{}{}
		s.wg.Add(1)
		s.mu.Unlock()
		go s.serveConn(c)
	}
}

func (s *ZKServer) reaper() {
	defer s.wg.Done()
	t := time.NewTicker(10 * time.Millisecond)
	defer t.Stop()
	for {
		select {
		case <-s.done:
			return
		case now := <-t.C:
			s.mu.Lock()
			if s.autoExpire {
				for _, sess := range s.sessions {
					if sess.live && now.Sub(sess.lastHeard) >= time.Duration(sess.timeoutMs)*time.Millisecond {
						s.endSessionLocked(sess, ZKOpSessionExpire)
					}
				}
			}
			s.mu.Unlock()
		}
	}
}

func (s *ZKServer) serveConn(c *zkConn) {
	defer s.wg.Done()
	defer func() {
		s.mu.Lock()
		s.detachLocked(c)
		s.mu.Unlock()
	}()
	if !s.handshake(c) {
		return
	}
	for {
		frame, err := zkReadFrame(c.nc)
		if err != nil {
			return
		}
		if !s.serveRequest(c, frame) {
			return
		}
	}
}

// detachLocked closes the connection and forgets it.  If it is the current
// connection of a session, the session becomes "disconnected" (but stays
// live).  Safe to call more than once for the same connection.
func (s *ZKServer) detachLocked(c *zkConn) {
	c.nc.Close()
	delete(s.conns, c)
	if sess := c.sess; sess != nil && sess.conn == c {
		sess.conn = nil
		if sess.live {
			s.appendLogLocked(ZKLogEntry{Session: sess.id, Op: ZKOpSessionDisconnect})
		}
	}
}

func (s *ZKServer) appendLogLocked(e ZKLogEntry) {
	e.Seq = len(s.log) + 1
	e.Zxid = s.zxid
	e.TimeNs = time.Now().UnixNano()
	s.log = append(s.log, e)
}

// ---------------------------------------------------------------------------
// session handshake
//
// ConnectRequest  (client -> server, framed, NO request header):
//
//	int32  protocolVersion
//	int64  lastZxidSeen
//	int32  timeOut          (ms, requested)
//	int64  sessionId        (0 = new session)
//	buffer passwd           (16 bytes)
//	[bool  readOnly]        (sent by the Java client only)
//
// ConnectResponse (server -> client, framed, NO reply header):
//
//	int32  protocolVersion
//	int32  timeOut          (ms, negotiated; 0 if rejected)
//	int64  sessionId        (0 = "your session is expired")
//	buffer passwd
//	[bool  readOnly]        (only if the request carried it)
func (s *ZKServer) handshake(c *zkConn) bool {
	frame, err := zkReadFrame(c.nc)
	if err != nil {
		return false // e.g. a bare TCP connectivity probe
	}
	r := zkReader{b: frame}
	r.i32() // protocolVersion
	r.i64() // lastZxidSeen
	reqTimeout := r.i32()
	reqID := r.i64()
	reqPasswd := r.buf()
	if r.err != nil {
		return false
	}
	hasReadOnly := len(r.b) > 0

	s.mu.Lock()
	if s.closed || s.refuseAll || s.partitioned[reqID] {
		s.mu.Unlock()
		return false // closed without an answer
	}
	timeout := time.Duration(reqTimeout) * time.Millisecond
	if s.minTimeout > 0 && timeout < s.minTimeout {
		timeout = s.minTimeout
	}
	if s.maxTimeout > 0 && timeout > s.maxTimeout {
		timeout = s.maxTimeout
	}
	var sess *zkSession
	accepted := true
	switch {
	case reqID == 0:
		s.nextSession++
		sess = &zkSession{
			id:         s.nextSession,
			passwd:     make([]byte, 16),
			live:       true,
			order:      len(s.sessions) + 1,
			ephemerals: map[string]struct{}{},
		}
		if _, err := rand.Read(sess.passwd); err != nil {
			panic("fakezk: crypto/rand: " + err.Error())
		}
		s.sessions[sess.id] = sess
		s.zxid++ // createSession is a transaction
		s.attachLocked(sess, c, timeout)
		s.appendLogLocked(ZKLogEntry{Session: sess.id, Op: ZKOpSessionConnect})
	default:
		sess = s.sessions[reqID]
		if sess != nil && sess.live && string(sess.passwd) == string(reqPasswd) {
			s.attachLocked(sess, c, timeout)
			s.appendLogLocked(ZKLogEntry{Session: sess.id, Op: ZKOpSessionResume})
		} else {
			accepted = false
			s.appendLogLocked(ZKLogEntry{Session: reqID, Op: ZKOpSessionReject, Err: ZKErrSessionExpired})
		}
	}
	var w zkWriter
	w.i32(0)
	if accepted {
		w.i32(sess.timeoutMs)
		w.i64(sess.id)
		w.buf(sess.passwd)
	} else {
		w.i32(0)
		w.i64(0)
		w.buf(make([]byte, 16))
	}
	if hasReadOnly {
		w.boolean(false)
	}
	s.mu.Unlock()

	if zkWriteFrame(c.nc, w.b) != nil {
		return false
	}
	return accepted
}

// attachLocked makes c the connection of sess, closing a previous one.
func (s *ZKServer) attachLocked(sess *zkSession, c *zkConn, timeout time.Duration) {
	if old := sess.conn; old != nil && old != c {
		sess.conn = nil // no "session.disconnect" entry: the session is being moved
		s.detachLocked(old)
	}
	sess.conn = c
	sess.timeoutMs = int32(timeout / time.Millisecond)
	sess.lastHeard = time.Now()
	c.sess = sess
}

// endSessionLocked kills a live session (client close or expiry): one
// transaction that deletes all its ephemerals.
func (s *ZKServer) endSessionLocked(sess *zkSession, op string) {
	sess.live = false
	removed := sortedKeys(sess.ephemerals)
	s.zxid++
	for _, p := range removed {
		s.deleteNodeLocked(p)
	}
	if c := sess.conn; c != nil && op == ZKOpSessionExpire {
		sess.conn = nil
		s.detachLocked(c)
	}
	// On a client close the connection is closed by serveConn after the
	// reply has been written.
	s.appendLogLocked(ZKLogEntry{Session: sess.id, Op: op, Removed: removed})
}

// ---------------------------------------------------------------------------
// requests
//
// Request (client -> server, framed):  int32 xid, int32 type, <body>
// Reply   (server -> client, framed):  int32 xid, int64 zxid, int32 err, <body if err == 0>
//
// Bodies (jute):                              request                     | reply
//   create(1)        string path, buffer data, vector<ACL> acl, int32 flags | string path
//                    ACL = int32 perms, string scheme, string id
//   delete(2)        string path, int32 version                            | -
//   exists(3)        string path, bool watch                               | Stat
//   getData(4)       string path, bool watch                               | buffer data, Stat
//   setData(5)       string path, buffer data, int32 version               | Stat
//   getChildren(8)   string path, bool watch                               | vector<string>
//   sync(9)          string path                                           | string path
//   ping(11)         - (xid -2)                                            | -
//   getChildren2(12) string path, bool watch                               | vector<string>, Stat
//   close(-11)       -                                                     | -
//   setAuth(100)     int32 type, string scheme, buffer auth                | -
//   setWatches(101)  int64 relZxid, 3 x vector<string>                     | -
//
//   Stat = int64 czxid, mzxid, ctime, mtime; int32 version, cversion, aversion;
//          int64 ephemeralOwner; int32 dataLength, numChildren; int64 pzxid

type zkRequest struct {
	op      int32
	path    string
	data    []byte
	version int32
	flags   int32
	watch   bool
	aclLen  int
	bad     bool // body could not be decoded
}

func zkDecodeRequest(op int32, r *zkReader) zkRequest {
	q := zkRequest{op: op}
	switch op {
	case zkOpCreate:
		q.path = r.str()
		q.data = r.buf()
		q.aclLen = int(r.i32())
		for i := 0; i < q.aclLen && r.err == nil; i++ {
			r.i32() // perms
			r.str() // scheme
			r.str() // id
		}
		q.flags = r.i32()
	case zkOpDelete:
		q.path = r.str()
		q.version = r.i32()
	case zkOpExists, zkOpGetData, zkOpGetChildren2:
		q.path = r.str()
		q.watch = r.boolean()
	case zkOpGetChildren:
		q.path = r.str()
		q.watch = r.boolean()
	case zkOpSetData:
		q.path = r.str()
		q.data = r.buf()
		q.version = r.i32()
	case zkOpSync:
		q.path = r.str()
	}
	// ping, close: no body; setAuth, setWatches and unknown ops: body ignored.
	q.bad = r.err != nil
	return q
}

func zkOpName(op int32) string {
	if n, ok := zkOpNames[op]; ok {
		return n
	}
	return fmt.Sprintf("op(%d)", op)
}

// serveRequest handles one framed request; false means "close the connection".
func (s *ZKServer) serveRequest(c *zkConn, frame []byte) bool {
	r := zkReader{b: frame}
	xid := r.i32()
	op := r.i32()
	if r.err != nil {
		return false
	}
	q := zkDecodeRequest(op, &r)

	s.mu.Lock()
	sess := c.sess
	sess.lastHeard = time.Now()
	s.reqSeq++
	seq := s.reqSeq
	s.mu.Unlock()

	act := s.callHook(ZKRequestEvent{
		Session: sess.id, Op: zkOpName(op), Path: q.path, Seq: seq, Xid: xid,
		Data: cloneBytes(q.data), Version: q.version, Flags: q.flags,
	})
	switch act.kind {
	case zkActDropBeforeApply:
		return false
	case zkActDelay:
		t := time.NewTimer(act.delay)
		select {
		case <-t.C:
		case <-s.done:
			t.Stop()
			return false
		}
	}

	s.mu.Lock()
	reply, keep := s.applyLocked(sess, seq, xid, q)
	s.mu.Unlock()

	if act.kind == zkActApplyThenDrop {
		return false
	}
	if zkWriteFrame(c.nc, reply) != nil {
		return false
	}
	return keep
}

// applyLocked is the linearization point of a request: it applies it to the
// tree, appends the log entry and builds the reply frame.
func (s *ZKServer) applyLocked(sess *zkSession, seq int, xid int32, q zkRequest) (reply []byte, keep bool) {
	entry := ZKLogEntry{
		Req: seq, Session: sess.id, Op: zkOpName(q.op), Path: q.path,
		Data: cloneBytes(q.data), Version: q.version, Flags: q.flags, Watch: q.watch,
	}
	var body zkWriter
	code := ZKErrOk
	keep = true
	switch {
	case !sess.live:
		// A request of a session that died meanwhile is never applied.
		code, keep = ZKErrSessionExpired, false
	case q.bad:
		code = ZKErrMarshalling
	default:
		switch q.op {
		case zkOpPing, zkOpSetAuth, zkOpSetWatches:
			// nothing to do
		case zkOpClose:
			s.endSessionLocked(sess, ZKOpSessionClose)
			keep = false
		case zkOpCreate:
			var created string
			created, code = s.createLocked(sess, q)
			if code == ZKErrOk {
				entry.Result = created
				body.str(created)
			}
		case zkOpDelete:
			code = s.deleteLocked(q)
		case zkOpSetData:
			var n *zkNode
			if n, code = s.setDataLocked(q); code == ZKErrOk {
				body.stat(n)
			}
		case zkOpExists:
			if n := s.nodes[q.path]; n != nil {
				body.stat(n)
			} else {
				code = ZKErrNoNode
			}
		case zkOpGetData:
			if n := s.nodes[q.path]; n != nil {
				body.buf(n.data)
				body.stat(n)
			} else {
				code = ZKErrNoNode
			}
		case zkOpGetChildren, zkOpGetChildren2:
			if n := s.nodes[q.path]; n != nil {
				names := sortedKeys(n.children)
				body.i32(int32(len(names)))
				for _, name := range names {
					body.str(name)
				}
				if q.op == zkOpGetChildren2 {
					body.stat(n)
				}
			} else {
				code = ZKErrNoNode
			}
		case zkOpSync:
			body.str(q.path)
		default:
			code = ZKErrUnimplemented
		}
	}
	entry.Err = code
	if q.op != zkOpPing || s.logPings {
		s.appendLogLocked(entry)
	}
	var w zkWriter
	w.i32(xid)
	w.i64(s.zxid)
	w.i32(code)
	if code == ZKErrOk {
		w.b = append(w.b, body.b...)
	}
	return w.b, keep
}

func (s *ZKServer) createLocked(sess *zkSession, q zkRequest) (string, int32) {
	if q.flags < 0 || q.flags > zkFlagEphemeral|zkFlagSequence {
		return "", ZKErrUnimplemented // container / TTL nodes
	}
	sequential := q.flags&zkFlagSequence != 0
	if !zkValidPath(q.path, sequential) {
		return "", ZKErrBadArguments
	}
	if q.aclLen <= 0 {
		return "", ZKErrInvalidACL
	}
	if q.path == "/" && !sequential {
		return "", ZKErrNodeExists
	}
	parentPath, _ := zkSplitPath(q.path)
	parent := s.nodes[parentPath]
	if parent == nil {
		return "", ZKErrNoNode
	}
	if parent.owner != 0 {
		return "", ZKErrNoChildrenForEphemerals
	}
	path := q.path
	if sequential {
		// like the real server: the parent's cversion is the counter
		path = fmt.Sprintf("%s%010d", q.path, parent.cversion)
	}
	if s.nodes[path] != nil {
		return "", ZKErrNodeExists
	}
	_, name := zkSplitPath(path)
	s.zxid++
	now := time.Now().UnixMilli()
	n := &zkNode{
		data: cloneBytes(q.data), czxid: s.zxid, mzxid: s.zxid, pzxid: s.zxid,
		ctime: now, mtime: now, children: map[string]struct{}{},
	}
	if q.flags&zkFlagEphemeral != 0 {
		n.owner = sess.id
		sess.ephemerals[path] = struct{}{}
	}
	s.nodes[path] = n
	parent.children[name] = struct{}{}
	parent.cversion++
	parent.pzxid = s.zxid
	return path, ZKErrOk
}

func (s *ZKServer) deleteLocked(q zkRequest) int32 {
	if q.path == "/" || !zkValidPath(q.path, false) {
		return ZKErrBadArguments
	}
	n := s.nodes[q.path]
	if n == nil {
		return ZKErrNoNode
	}
	if q.version != -1 && q.version != n.version {
		return ZKErrBadVersion
	}
	if len(n.children) > 0 {
		return ZKErrNotEmpty
	}
	s.zxid++
	s.deleteNodeLocked(q.path)
	return ZKErrOk
}

// deleteNodeLocked unlinks an existing childless node at the current zxid.
func (s *ZKServer) deleteNodeLocked(path string) {
	n := s.nodes[path]
	if n == nil {
		return
	}
	delete(s.nodes, path)
	if n.owner != 0 {
		if owner := s.sessions[n.owner]; owner != nil {
			delete(owner.ephemerals, path)
		}
	}
	parentPath, name := zkSplitPath(path)
	if parent := s.nodes[parentPath]; parent != nil {
		delete(parent.children, name)
		parent.cversion++
		parent.pzxid = s.zxid
	}
}

func (s *ZKServer) setDataLocked(q zkRequest) (*zkNode, int32) {
	n := s.nodes[q.path]
	if n == nil {
		return nil, ZKErrNoNode
	}
	if q.version != -1 && q.version != n.version {
		return nil, ZKErrBadVersion
	}
	s.zxid++
	n.data = cloneBytes(q.data)
	n.version++
	n.mzxid = s.zxid
	n.mtime = time.Now().UnixMilli()
	return n, ZKErrOk
}

// ---------------------------------------------------------------------------
// paths

// zkValidPath: absolute, no empty components, no trailing slash (except the
// root, and except for sequence creates, whose suffix is appended).
func zkValidPath(p string, sequential bool) bool {
	if p == "" || p[0] != '/' {
		return false
	}
	if p == "/" {
		return true
	}
	if strings.HasSuffix(p, "/") {
		if !sequential {
			return false
		}
		p = p[:len(p)-1]
		if p == "" {
			return true // "/" + sequence number
		}
	}
	if strings.Contains(p, "//") || strings.ContainsRune(p, 0) {
		return false
	}
	return true
}

// zkSplitPath("/a/b") = "/a", "b"; zkSplitPath("/a") = "/", "a".
func zkSplitPath(p string) (parent, name string) {
	i := strings.LastIndexByte(p, '/')
	if i <= 0 {
		return "/", p[1:]
	}
	return p[:i], p[i+1:]
}

// ---------------------------------------------------------------------------
// framing and jute encoding (all integers big-endian)
//
//	frame  = int32 length, <length bytes>
//	int32  = 4 bytes;  int64 = 8 bytes;  bool = 1 byte (0/1)
//	buffer = int32 length (-1 = null), bytes
//	string = int32 length, UTF-8 bytes
//	vector = int32 count, elements

func zkReadFrame(nc net.Conn) ([]byte, error) {
	var hdr [4]byte
	if _, err := io.ReadFull(nc, hdr[:]); err != nil {
		return nil, err
	}
	n := int32(binary.BigEndian.Uint32(hdr[:]))
	if n < 0 || n > zkMaxFrame {
		return nil, fmt.Errorf("fakezk: bad frame length %d", n)
	}
	b := make([]byte, n)
	if _, err := io.ReadFull(nc, b); err != nil {
		return nil, err
	}
	return b, nil
}

func zkWriteFrame(nc net.Conn, payload []byte) error {
	b := make([]byte, 4+len(payload))
	binary.BigEndian.PutUint32(b, uint32(len(payload)))
	copy(b[4:], payload)
	nc.SetWriteDeadline(time.Now().Add(5 * time.Second))
	_, err := nc.Write(b)
	return err
}

var errZKShort = errors.New("fakezk: short packet")

// zkReader consumes b from the front; after the first error every getter
// returns a zero value and err stays set.
type zkReader struct {
	b   []byte
	err error
}

func (r *zkReader) take(n int) []byte {
	if r.err != nil || n < 0 || len(r.b) < n {
		r.err = errZKShort
		return nil
	}
	out := r.b[:n]
	r.b = r.b[n:]
	return out
}

func (r *zkReader) i32() int32 {
	if b := r.take(4); b != nil {
		return int32(binary.BigEndian.Uint32(b))
	}
	return 0
}

func (r *zkReader) i64() int64 {
	if b := r.take(8); b != nil {
		return int64(binary.BigEndian.Uint64(b))
	}
	return 0
}

func (r *zkReader) boolean() bool {
	if b := r.take(1); b != nil {
		return b[0] != 0
	}
	return false
}

// buf returns nil for a null buffer (length -1) and a fresh copy otherwise.
func (r *zkReader) buf() []byte {
	n := r.i32()
	if r.err != nil || n < 0 {
		return nil
	}
	b := r.take(int(n))
	if b == nil {
		return nil
	}
	return append(make([]byte, 0, len(b)), b...)
}

func (r *zkReader) str() string {
	n := r.i32()
	if r.err != nil || n <= 0 {
		return ""
	}
	return string(r.take(int(n)))
}

type zkWriter struct{ b []byte }

func (w *zkWriter) i32(v int32) { w.b = binary.BigEndian.AppendUint32(w.b, uint32(v)) }
func (w *zkWriter) i64(v int64) { w.b = binary.BigEndian.AppendUint64(w.b, uint64(v)) }
func (w *zkWriter) boolean(v bool) {
	if v {
		w.b = append(w.b, 1)
	} else {
		w.b = append(w.b, 0)
	}
}
func (w *zkWriter) buf(v []byte) {
	if v == nil {
		w.i32(-1)
		return
	}
	w.i32(int32(len(v)))
	w.b = append(w.b, v...)
}
func (w *zkWriter) str(v string) {
	w.i32(int32(len(v)))
	w.b = append(w.b, v...)
}
func (w *zkWriter) stat(n *zkNode) {
	w.i64(n.czxid)
	w.i64(n.mzxid)
	w.i64(n.ctime)
	w.i64(n.mtime)
	w.i32(n.version)
	w.i32(n.cversion)
	w.i32(n.aversion)
	w.i64(n.owner)
	w.i32(int32(len(n.data)))
	w.i32(int32(len(n.children)))
	w.i64(n.pzxid)
}

// ---------------------------------------------------------------------------
// small helpers

func cloneBytes(b []byte) []byte {
	if b == nil {
		return nil
	}
	return append(make([]byte, 0, len(b)), b...)
}

func sortedKeys(m map[string]struct{}) []string {
	out := make([]string, 0, len(m))
	for k := range m {
		out = append(out, k)
	}
	sort.Strings(out)
	return out
}
