//go:build verif

// Package verifkit is injected into /repo with `go test -overlay`; it is never
// part of a normal build (build tag verif + it does not exist in the tree).
package verifkit

import (
	"encoding/json"
	"fmt"
	"math/rand"
	"os"
	"path/filepath"
	"sort"
	"strconv"
	"strings"
)

// ---- Gallina literal printers -------------------------------------------

func Z(i int64) string { return "(" + strconv.FormatInt(i, 10) + ")%Z" }
func N(i uint64) string { return strconv.FormatUint(i, 10) + "%N" }
func Nat(i int) string  { return strconv.Itoa(i) + "%nat" }
func B(b bool) string {
	if b {
		return "true"
	}
	return "false"
}
func L(items []string) string { return "[" + strings.Join(items, "; ") + "]" }
func T(items ...string) string { return "(" + strings.Join(items, ", ") + ")" }
func Some(s string) string     { return "(Some " + s + ")" }
func None() string             { return "None" }
func Opt(ok bool, s string) string {
	if ok {
		return Some(s)
	}
	return None()
}
func ZL(xs []int64) string {
	r := make([]string, len(xs))
	for i, x := range xs {
		r[i] = Z(x)
	}
	return L(r)
}
func NL(xs []uint64) string {
	r := make([]string, len(xs))
	for i, x := range xs {
		r[i] = N(x)
	}
	return L(r)
}

// Str prints a Coq string literal (only printable ASCII is emitted verbatim).
func Str(s string) string {
	var b strings.Builder
	b.WriteString("\"")
	for _, c := range []byte(s) {
		if c == '"' {
			b.WriteString("\"\"")
		} else {
			b.WriteByte(c)
		}
	}
	b.WriteString("\"%string")
	return b.String()
}

// ---- output directory ----------------------------------------------------

type Out struct {
	Dir  string
	Tier string
	Seed int64
	Rng  *rand.Rand
}

func Open() *Out {
	o := &Out{Dir: os.Getenv("VERIF_OUT"), Tier: os.Getenv("VERIF_TIER")}
	if o.Dir == "" {
		o.Dir = os.TempDir()
	}
	if o.Tier == "" {
		o.Tier = "quick"
	}
	o.Seed, _ = strconv.ParseInt(os.Getenv("VERIF_SEED"), 10, 64)
	o.Rng = rand.New(rand.NewSource(o.Seed))
	_ = os.MkdirAll(o.Dir, 0o755)
	return o
}

func (o *Out) Thorough() bool { return o.Tier == "thorough" }

// CasesFile writes work/<ID>/<name>.v: imports, `Definition cases := [...]`,
// then evaluates `checker cases` with vm_compute and prints it.  The checker
// returns the list of indices (N) of mismatching cases.
func (o *Out) CasesFile(name string, imports []string, caseType string, cases []string, checker string, extra ...string) {
	var b strings.Builder
	b.WriteString("From Coq Require Import ZArith NArith List String Bool.\nImport ListNotations.\n")
	for _, im := range imports {
		b.WriteString("From Mysync Require Import " + im + ".\n")
	}
	b.WriteString("Definition cases : list (" + caseType + ") := [\n")
	for i, c := range cases {
		b.WriteString("  " + c)
		if i+1 < len(cases) {
			b.WriteString(";")
		}
		b.WriteString("\n")
	}
	b.WriteString("].\n")
	b.WriteString("Definition bad := Eval vm_compute in (" + checker + " cases).\nPrint bad.\n")
	for _, e := range extra {
		b.WriteString(e + "\n")
	}
	if err := os.WriteFile(filepath.Join(o.Dir, name+".v"), []byte(b.String()), 0o644); err != nil {
		panic(err)
	}
}

// Meta is what the Go side reports to the driver.
type Meta struct {
	Evaluations        int              `json:"evaluations"`
	DistinctNontrivial int              `json:"distinct_nontrivial"`
	Rule               string           `json:"rule"`
	Samples            []any            `json:"samples"`
	Exhaustive         bool             `json:"exhaustive"`
	Distribution       map[string]int   `json:"distribution"`
	Violations         []map[string]any `json:"violations"` // implementation-side monitor hits
	Cases              map[string][]any `json:"cases"`      // file -> per-index replayable input
	Notes              []string         `json:"notes"`
}

func NewMeta() *Meta {
	return &Meta{Distribution: map[string]int{}, Cases: map[string][]any{}}
}
func (m *Meta) Count(k string)       { m.Distribution[k]++ }
func (m *Meta) CountN(k string, n int) { m.Distribution[k] += n }
func (m *Meta) Violation(clause string, input any, detail string) {
	if len(m.Violations) < 400 {
		m.Violations = append(m.Violations, map[string]any{"clause": clause, "input": input, "detail": detail})
	}
}
func (m *Meta) Sample(s any) {
	if len(m.Samples) < 5 {
		m.Samples = append(m.Samples, s)
	}
}
func (o *Out) WriteMeta(name string, m *Meta) {
	b, err := json.MarshalIndent(m, "", " ")
	if err != nil {
		panic(err)
	}
	if err := os.WriteFile(filepath.Join(o.Dir, name+".meta.json"), b, 0o644); err != nil {
		panic(err)
	}
}

// Distinct counts distinct strings.
type Distinct map[string]struct{}

func (d Distinct) Add(s string) { d[s] = struct{}{} }
func (d Distinct) Len() int     { return len(d) }

func SortedKeys[V any](m map[string]V) []string {
	ks := make([]string, 0, len(m))
	for k := range m {
		ks = append(ks, k)
	}
	sort.Strings(ks)
	return ks
}

// Running records the input the harness is about to hand to the code under test.  If the process dies there (a panic
// in a goroutine the harness cannot recover from, a fatal runtime error) the driver finds the input that killed it.
func Running(kind string, in any) {
	dir := os.Getenv("VERIF_OUT")
	if dir == "" {
		return
	}
	b, err := json.Marshal(map[string]any{"kind": kind, "input": in})
	if err != nil {
		return
	}
	_ = os.WriteFile(filepath.Join(dir, "running.json"), b, 0o644)
}

// ReplayInput loads the JSON the driver passes with --replay (VERIF_REPLAY).
func ReplayInput(v any) bool {
	p := os.Getenv("VERIF_REPLAY")
	if p == "" {
		return false
	}
	b, err := os.ReadFile(p)
	if err != nil {
		panic(err)
	}
	var w struct {
		Input json.RawMessage `json:"input"`
	}
	if err := json.Unmarshal(b, &w); err != nil {
		panic(err)
	}
	if err := json.Unmarshal(w.Input, v); err != nil {
		panic(fmt.Sprintf("replay input: %v", err))
	}
	return true
}

// CorpusInputs returns the "input" fields of the replay files under
// $VERIF_CORPUS (minimised failures / known-finding witnesses; they run first).
func CorpusInputs() []json.RawMessage {
	dir := os.Getenv("VERIF_CORPUS")
	if dir == "" {
		return nil
	}
	files, _ := filepath.Glob(filepath.Join(dir, "*.json"))
	sort.Strings(files)
	var r []json.RawMessage
	for _, f := range files {
		b, err := os.ReadFile(f)
		if err != nil {
			continue
		}
		var w struct {
			Input json.RawMessage `json:"input"`
		}
		if json.Unmarshal(b, &w) == nil && len(w.Input) > 0 {
			r = append(r, w.Input)
		}
	}
	return r
}
