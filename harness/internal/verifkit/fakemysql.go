//go:build verif

package verifkit

// A fake MySQL cluster speaking enough of the client/server protocol (handshake
// v10, COM_QUERY with text result sets, COM_PING, COM_QUIT) for go-sql-driver
// with `interpolateParams=true`.  Reached through
// mysql_driver.RegisterDialContext("tcp", World.Dial) over net.Pipe, so the real
// mysql.Node / mysql.Cluster / database/sql code of mysync runs unmodified.
//
// The statement semantics implemented here are the trusted reading of MySQL
// written out in DESIGN.md Appendix C (and mirrored by coq/Env).

import (
	"runtime"
	"context"
	"fmt"
	"io"
	"net"
	"os"
	"regexp"
	"sort"
	"strconv"
	"strings"
	"syscall"
	"sync"
	"time"

	gomysql "github.com/go-mysql-org/go-mysql/mysql"
)

// ---------------------------------------------------------------- GTID helpers

func GtidParse(s string) *gomysql.MysqlGTIDSet {
	g, err := gomysql.ParseMysqlGTIDSet(s)
	if err != nil {
		panic(err)
	}
	return g.(*gomysql.MysqlGTIDSet)
}
func GtidUnion(a, b string) string {
	s := GtidParse(a)
	if b != "" {
		if err := s.Update(b); err != nil {
			panic(err)
		}
	}
	return s.String()
}
func GtidContains(a, b string) bool { return GtidParse(a).Contain(GtidParse(b)) }

// ---------------------------------------------------------------- node state

type Chan struct {
	Source   string
	IO, SQL  bool
	IOErrno  int
	SQLErrno int
	Sticky   bool // the SQL thread hits the same error again whenever it is started (until the channel is re-created)
}

// LagScale: unit of lags in the Gallina rendering (1 = seconds, 1000 = milliseconds); set by a harness that
// generates fractional lags, together with the thresholds it renders
var LagScale int64 = 1

type Node struct {
	ApplyHold bool // the SQL thread is busy (a long transaction): it applies nothing for now
	Host    string
	UUID    string
	Up      bool // mysqld process alive
	Version [3]int

	RO, SuperRO, Offline bool
	Executed, Retrieved  string
	PingErrno            int    // != 0: every ping is answered with this error
	Dropped              string // received transactions thrown away unexecuted by RESET REPLICA ALL / CHANGE REPLICATION SOURCE (ground truth for monitors)
	Chan                 *Chan // nil = no replication channel configured (a master)
	SSMaster, SSSlave    bool
	SSSlaveEffective     bool // latched when the IO thread last started
	WaitCount            int
	Flush, SyncBinlog    int
	StuckCommits         int    // commits waiting for a semi-sync ACK
	Lag                  *int64 // Seconds_Behind_Source when both threads run (nil -> 0)
	LagMilli             int64  // fractional part of the reported lag in thousandths (a replication_lag source with sub-second resolution)
	StartedAt            int64  // unix seconds of last mysqld start
	Binlogs              [][2]string
	ReadFile             string
	ReadPos              int64
	ReplMonDelay         *int64
	NextGno              int64
	Unkillable           bool // commits waiting for an ACK ignore KILL
	StickySQLErrno       int  // the SQL thread fails with this errno whenever it is started (a poisoned transaction)
	LagAlways            bool // report Seconds_Behind_Source even when a thread is stopped (stands for a custom replication_lag source)

	conns map[net.Conn]bool
}

// ---------------------------------------------------------------- transcript

// Entry is one external call observed at a fake (SQL statement or DCS call).
type Entry struct {
	Idx    int    `json:"idx"`
	Caller string `json:"caller"` // mysync instance (derived from the dialled port) or "" when unknown
	Host   string `json:"host"`   // target MySQL host; "" for DCS entries
	Kind   string `json:"kind"`   // statement / DCS op kind
	Arg    string `json:"arg"`    // canonical argument
	Raw    string `json:"raw"`
	Resp   string `json:"resp"` // Gallina term of type resp
	Err    string `json:"err"`
	TStart int64  `json:"t_start"`
	TEnd   int64  `json:"t_end"`
	Mut    bool   `json:"mut"` // mutating statement
	G      int64  `json:"g,omitempty"` // goroutine that issued the call (coordination calls only)
}

// Gid returns the id of the calling goroutine (harness-only: used to attribute
// coordination calls to the concurrent loops of one process).
func Gid() int64 {
	var buf [64]byte
	n := runtime.Stack(buf[:], false)
	f := strings.Fields(string(buf[:n]))
	if len(f) < 2 {
		return 0
	}
	id, _ := strconv.ParseInt(f[1], 10, 64)
	return id
}

// Fault describes what happens to the nth (0-based) matching statement.
type Fault struct {
	Host   string `json:"host"`
	Kind   string `json:"kind"` // "" = any
	Nth    int    `json:"nth"`
	Caller string `json:"caller"`
	Action string `json:"action"` // "err:<errno>" | "drop" (connection closed before apply) | "applydrop" | "hang" | "delay:<ms>" | "unchannel"
	seen   int
	used   bool
}

type World struct {
	Mu     sync.Mutex
	Nodes  map[string]*Node
	Trans  []Entry
	Faults []*Fault
	idx    int
	// Partition[caller][host] = true: caller cannot reach host (dial refused)
	Partition map[string]map[string]bool
	// CallerOfPort maps the dialled port to a mysync instance name
	CallerOfPort map[string]string
	// AutoReplicate: running replication threads fetch/apply everything available whenever a node is read
	AutoReplicate bool
	// Workload: if set, this (writable) node commits one new transaction whenever any statement arrives anywhere
	Workload string
	// CallHook is called (world NOT locked) when a process is about to make an external call (statement or
	// coordination operation); it may block: that is how a process is stopped between two calls.
	CallHook func(caller, port string)
	// OnStatement is called (world locked) before a statement is applied; used by monitors.
	OnStatement func(w *World, n *Node, caller, kind, arg string)
	// Severed callers: every statement from them is refused without effect (crash emulation)
	Severed map[string]bool
	unblock *sync.Cond
}

func NewWorld() *World {
	w := &World{Nodes: map[string]*Node{}, Partition: map[string]map[string]bool{}, CallerOfPort: map[string]string{}, Severed: map[string]bool{}, AutoReplicate: true}
	w.unblock = sync.NewCond(&w.Mu)
	return w
}

func (w *World) AddNode(n *Node) *Node {
	if n.conns == nil {
		n.conns = map[net.Conn]bool{}
	}
	if n.Version == [3]int{} {
		n.Version = [3]int{8, 0, 32}
	}
	if n.Flush == 0 {
		n.Flush = 1
	}
	if n.SyncBinlog == 0 {
		n.SyncBinlog = 1
	}
	if n.NextGno == 0 {
		n.NextGno = 1000
	}
	w.Nodes[n.Host] = n
	return n
}

func (w *World) nextIdx() int { w.idx++; return w.idx }

// Record appends a non-SQL entry (used by the in-memory DCS so that SQL and DCS
// calls share one total order).
func (w *World) Record(e Entry) int {
	w.Mu.Lock()
	defer w.Mu.Unlock()
	e.Idx = w.nextIdx()
	w.Trans = append(w.Trans, e)
	return e.Idx
}

func (w *World) Transcript() []Entry {
	w.Mu.Lock()
	defer w.Mu.Unlock()
	r := append([]Entry{}, w.Trans...)
	sort.SliceStable(r, func(i, j int) bool { return r[i].Idx < r[j].Idx })
	return r
}
func (w *World) ResetTranscript() {
	w.Mu.Lock()
	defer w.Mu.Unlock()
	w.Trans = nil
}

// Kill emulates a crash of mysqld. Call with w.Mu held.
func (w *World) KillLocked(n *Node) {
	n.Up = false
	for c := range n.conns {
		_ = c.Close()
	}
	n.conns = map[net.Conn]bool{}
	n.StuckCommits = 0
	w.unblock.Broadcast()
}

// ConnCountLocked: established connections over all servers.
func (w *World) ConnCountLocked() int {
	c := 0
	for _, n := range w.Nodes {
		c += len(n.conns)
	}
	return c
}

// DropConnsLocked closes all established connections to n (network cut).
func (w *World) DropConnsLocked(n *Node) {
	for c := range n.conns {
		_ = c.Close()
	}
	n.conns = map[net.Conn]bool{}
}

// ---------------------------------------------------------------- dialling

func (w *World) Dial(ctx context.Context, addr string) (net.Conn, error) {
	host, port, err := net.SplitHostPort(addr)
	if err != nil {
		return nil, err
	}
	w.Mu.Lock()
	caller := w.CallerOfPort[port]
	hk := w.CallHook
	w.Mu.Unlock()
	if hk != nil {
		hk(caller, port) // a stopped process does not even get to connect
	}
	w.Mu.Lock()
	n, ok := w.Nodes[host]
	refused := !ok || !n.Up || w.Severed[caller] || (w.Partition[caller] != nil && w.Partition[caller][host])
	if refused {
		if !w.Severed[caller] {
			now := time.Now().UnixNano()
			w.Trans = append(w.Trans, Entry{Idx: w.nextIdx(), Caller: caller, Host: host, Kind: "SRefused", Resp: "(RErr EConn)", Err: "refused", TStart: now, TEnd: now})
		}
		w.Mu.Unlock()
		return nil, &net.OpError{Op: "dial", Net: "tcp", Err: os.NewSyscallError("connect", syscall.ECONNREFUSED)}
	}
	client, server := net.Pipe()
	n.conns[server] = true
	w.Mu.Unlock()
	go w.serve(n, server, caller, port)
	return client, nil
}

// ---------------------------------------------------------------- wire protocol

func writePacket(c net.Conn, seq byte, payload []byte) error {
	hdr := []byte{byte(len(payload)), byte(len(payload) >> 8), byte(len(payload) >> 16), seq}
	_, err := c.Write(append(hdr, payload...))
	return err
}
func readPacket(c net.Conn) (byte, []byte, error) {
	hdr := make([]byte, 4)
	if _, err := io.ReadFull(c, hdr); err != nil {
		return 0, nil, err
	}
	l := int(hdr[0]) | int(hdr[1])<<8 | int(hdr[2])<<16
	payload := make([]byte, l)
	if _, err := io.ReadFull(c, payload); err != nil {
		return 0, nil, err
	}
	return hdr[3], payload, nil
}
func lenEncStr(s string) []byte {
	if len(s) < 251 {
		return append([]byte{byte(len(s))}, s...)
	}
	if len(s) < 1<<16 {
		return append([]byte{0xfc, byte(len(s)), byte(len(s) >> 8)}, s...)
	}
	return append([]byte{0xfd, byte(len(s)), byte(len(s) >> 8), byte(len(s) >> 16)}, s...)
}

var okPacket = []byte{0x00, 0x00, 0x00, 0x02, 0x00, 0x00, 0x00}
var eofPacket = []byte{0xfe, 0x00, 0x00, 0x02, 0x00}

func errPacket(code int, msg string) []byte {
	p := []byte{0xff, byte(code), byte(code >> 8), '#', 'H', 'Y', '0', '0', '0'}
	return append(p, msg...)
}

type result struct {
	ok    bool
	errno int
	msg   string
	cols  []string
	rows  [][]*string
	drop  bool // close the connection without answering
	gaveUp bool // the client closed the connection while the statement was blocked (context deadline)
}

func sp(s string) *string { return &s }
func b01(b bool) string {
	if b {
		return "1"
	}
	return "0"
}
func yesNo(b bool) string {
	if b {
		return "Yes"
	}
	return "No"
}

type session struct {
	lockWait time.Duration
	dead     chan struct{}
	port     string // the dialling process' port (one per process incarnation)
}

func (w *World) serve(n *Node, c net.Conn, caller, port string) {
	sess := &session{lockWait: 365 * 24 * time.Hour, dead: make(chan struct{}), port: port} // MySQL default lock_wait_timeout
	pkts := make(chan []byte)
	stop := make(chan struct{})
	defer close(stop)
	defer func() {
		_ = c.Close()
		w.Mu.Lock()
		delete(n.conns, c)
		w.unblock.Broadcast()
		w.Mu.Unlock()
	}()
	// handshake v10
	hs := []byte{0x0a}
	hs = append(hs, fmt.Sprintf("%d.%d.%d-fake\x00", n.Version[0], n.Version[1], n.Version[2])...)
	hs = append(hs, 1, 0, 0, 0)
	hs = append(hs, "abcdefgh"...)
	hs = append(hs, 0)
	caps := uint32(0x00000001 | 0x00000008 | 0x00000200 | 0x00002000 | 0x00008000 | 0x00080000)
	hs = append(hs, byte(caps), byte(caps>>8))
	hs = append(hs, 0x21)
	hs = append(hs, 0x02, 0x00)
	hs = append(hs, byte(caps>>16), byte(caps>>24))
	hs = append(hs, 21)
	hs = append(hs, make([]byte, 10)...)
	hs = append(hs, "ijklmnopqrst\x00"...)
	hs = append(hs, "mysql_native_password\x00"...)
	if err := writePacket(c, 0, hs); err != nil {
		return
	}
	seq, _, err := readPacket(c)
	if err != nil {
		return
	}
	if err := writePacket(c, seq+1, okPacket); err != nil {
		return
	}
	go func() {
		for {
			_, p, err := readPacket(c)
			if err != nil {
				// mark the session dead FIRST, then wake up statements blocked on this connection
				close(sess.dead)
				w.Mu.Lock()
				w.unblock.Broadcast()
				w.Mu.Unlock()
				return
			}
			select {
			case pkts <- p:
			case <-stop:
				close(sess.dead)
				return
			}
		}
	}()
	for {
		var p []byte
		select {
		case p = <-pkts:
		case <-sess.dead:
			return
		}
		if len(p) == 0 {
			return
		}
		switch p[0] {
		case 0x01: // COM_QUIT
			return
		case 0x0e, 0x02, 0x1f: // COM_PING, COM_INIT_DB, COM_RESET_CONNECTION
			if writePacket(c, 1, okPacket) != nil {
				return
			}
		case 0x03: // COM_QUERY
			res := w.query(n, sess, caller, string(p[1:]))
			if res.drop {
				return
			}
			if reply(c, res) != nil {
				return
			}
		default:
			if writePacket(c, 1, errPacket(1295, "command is not supported by the fake server")) != nil {
				return
			}
		}
	}
}

func reply(c net.Conn, res result) error {
	if res.errno != 0 {
		return writePacket(c, 1, errPacket(res.errno, res.msg))
	}
	if res.ok {
		return writePacket(c, 1, okPacket)
	}
	seq := byte(1)
	send := func(p []byte) error {
		err := writePacket(c, seq, p)
		seq++
		return err
	}
	if err := send([]byte{byte(len(res.cols))}); err != nil {
		return err
	}
	for _, col := range res.cols {
		var p []byte
		p = append(p, lenEncStr("def")...)
		p = append(p, lenEncStr("")...)
		p = append(p, lenEncStr("")...)
		p = append(p, lenEncStr("")...)
		p = append(p, lenEncStr(col)...)
		p = append(p, lenEncStr(col)...)
		p = append(p, 0x0c, 0x21, 0x00, 0xff, 0xff, 0x00, 0x00, 0xfd, 0x00, 0x00, 0x00, 0x00, 0x00)
		if err := send(p); err != nil {
			return err
		}
	}
	if err := send(eofPacket); err != nil {
		return err
	}
	for _, row := range res.rows {
		var p []byte
		for _, v := range row {
			if v == nil {
				p = append(p, 0xfb)
			} else {
				p = append(p, lenEncStr(*v)...)
			}
		}
		if err := send(p); err != nil {
			return err
		}
	}
	return send(eofPacket)
}

// ---------------------------------------------------------------- statements

var (
	spaceRe   = regexp.MustCompile(`\s+`)
	sourceRe  = regexp.MustCompile(`(?:MASTER|SOURCE)_HOST = '([^']*)'`)
	lockRe    = regexp.MustCompile(`^SET SESSION lock_wait_timeout = (\d+)$`)
	waitCntRe = regexp.MustCompile(`^SET GLOBAL rpl_semi_sync_master_wait_for_slave_count = '?(\d+)'?$`)
	flushRe   = regexp.MustCompile(`^SET GLOBAL innodb_flush_log_at_trx_commit = '?(\d+)'?$`)
	syncRe    = regexp.MustCompile(`^SET GLOBAL sync_binlog = '?(\d+)'?$`)
	killRe    = regexp.MustCompile(`^KILL '?(\d+)'?$`)
)

// Classify maps a statement to (kind, arg, mutating).  Kinds are the
// constructor names of coq/Base/Prog.v `stmt`.
func Classify(q string) (kind, arg string, mut bool) {
	uq := q
	has := func(p string) bool { return strings.HasPrefix(uq, p) }
	switch {
	case q == "SELECT 1 AS Ok":
		return "SPing", "", false
	case has("SELECT sys.version_major()"):
		return "SVersion", "", false
	case has("SHOW SLAVE STATUS"), has("SHOW REPLICA STATUS"):
		return "SShowReplica", "", false
	case has("SELECT @@GLOBAL.gtid_executed"):
		return "SGtidExecuted", "", false
	case has("SELECT @@server_uuid"):
		return "SUuid", "", false
	case has("SELECT @@read_only AS ReadOnly"):
		return "SIsReadOnly", "", false
	case has("SELECT @@GLOBAL.offline_mode"):
		return "SIsOffline", "", false
	case has("SELECT @@rpl_semi_sync_master_enabled"):
		return "SSemiStatus", "", false
	case has("SELECT @@GLOBAL.innodb_flush_log_at_trx_commit"):
		return "SReplSettings", "", false
	case strings.Contains(q, "AS LastStartup FROM performance_schema.global_status"):
		return "SStartupTime", "", false
	case q == "SHOW BINARY LOGS":
		return "SBinlogs", "", false
	case strings.Contains(q, "Waiting for semi-sync ACK from"):
		return "SWaitingAck", "", false
	case strings.Contains(q, "FROM information_schema.PROCESSLIST p"):
		return "SProcessIds", "", false
	case strings.Contains(q, "FROM information_schema.EVENTS"):
		return "SListEvents", "", false
	case strings.Contains(q, "AS delay FROM"):
		return "SReplMonDelay", "", false
	case q == "SET GLOBAL super_read_only = 1":
		return "SSetRO", "true", true
	case q == "SET GLOBAL read_only = 1, super_read_only = 0":
		return "SSetRO", "false", true
	case q == "SET GLOBAL read_only = 0":
		return "SSetWritable", "", true
	case q == "SET GLOBAL offline_mode = ON":
		return "SSetOffline", "", true
	case q == "SET GLOBAL offline_mode = OFF":
		return "SSetOnline", "", true
	case has("STOP SLAVE IO_THREAD"), has("STOP REPLICA IO_THREAD"):
		return "SStopIO", "", true
	case has("START SLAVE IO_THREAD"), has("START REPLICA IO_THREAD"):
		return "SStartIO", "", true
	case has("STOP SLAVE SQL_THREAD"), has("STOP REPLICA SQL_THREAD"):
		return "SStopSQL", "", true
	case has("START SLAVE SQL_THREAD"), has("START REPLICA SQL_THREAD"):
		return "SStartSQL", "", true
	case has("STOP SLAVE FOR"), has("STOP REPLICA FOR"):
		return "SStopRepl", "", true
	case has("START SLAVE FOR"), has("START REPLICA FOR"):
		return "SStartRepl", "", true
	case has("RESET SLAVE ALL"), has("RESET REPLICA ALL"):
		return "SResetReplAll", "", true
	case has("CHANGE MASTER TO"), has("CHANGE REPLICATION SOURCE TO"):
		m := sourceRe.FindStringSubmatch(q)
		if m == nil {
			return "SOtherStmt", "1", true
		}
		return "SChangeSource", m[1], true
	case q == "SET GLOBAL rpl_semi_sync_master_enabled = 1, rpl_semi_sync_slave_enabled = 0":
		return "SSemiSetMaster", "", true
	case q == "SET GLOBAL rpl_semi_sync_slave_enabled = 1, rpl_semi_sync_master_enabled = 0":
		return "SSemiSetSlave", "", true
	case q == "SET GLOBAL rpl_semi_sync_slave_enabled = 0, rpl_semi_sync_master_enabled = 0":
		return "SSemiDisable", "", true
	case waitCntRe.MatchString(q):
		return "SSetWaitCount", waitCntRe.FindStringSubmatch(q)[1], true
	case flushRe.MatchString(q):
		return "SSetFlush", flushRe.FindStringSubmatch(q)[1], true
	case syncRe.MatchString(q):
		return "SSetSyncBinlog", syncRe.FindStringSubmatch(q)[1], true
	case killRe.MatchString(q):
		return "SKill", killRe.FindStringSubmatch(q)[1], true
	case has("ALTER DEFINER"):
		return "SEnableEvent", "", true
	case lockRe.MatchString(q):
		return "SLockWait", lockRe.FindStringSubmatch(q)[1], false
	}
	return "SOtherStmt", "0", !(has("SELECT") || has("SHOW"))
}

func (w *World) findFault(host, caller, kind string) *Fault {
	for _, f := range w.Faults {
		if f.used || f.Host != host || (f.Kind != "" && f.Kind != kind) || (f.Caller != "" && f.Caller != caller) {
			continue
		}
		if f.seen == f.Nth {
			f.used = true
			return f
		}
		f.seen++
	}
	return nil
}

// replicate moves data along running replication threads of n. Call with w.Mu held.
// SourceReachableLocked: can the receiver thread of n reach its source right now?
// Snapshot: a copy of the node that does not share its channel with the live server (world locked)
func (n *Node) Snapshot() Node {
	c := *n
	if n.Chan != nil {
		ch := *n.Chan
		c.Chan = &ch
	}
	if n.Lag != nil {
		l := *n.Lag
		c.Lag = &l
	}
	return c
}

func (w *World) SourceReachableLocked(n *Node) bool {
	if n.Chan == nil {
		return false
	}
	src, ok := w.Nodes[n.Chan.Source]
	if !ok || !src.Up {
		return false
	}
	if p := w.Partition[n.Host]; p != nil && p[src.Host] {
		return false
	}
	return true
}

// ConnectingLocked: the receiver thread of n is started but cannot reach its source: MySQL shows it as
// Slave_IO_Running = Connecting with Last_IO_Errno 2003 and it reconnects by itself as soon as the source is back.
func (w *World) ConnectingLocked(n *Node) bool {
	return n.Chan != nil && n.Up && n.Chan.IO && !w.SourceReachableLocked(n)
}

func (w *World) ReplicateLocked(n *Node) {
	if n.Chan == nil || !n.Up {
		return
	}
	if n.Chan.IO && w.SourceReachableLocked(n) {
		src := w.Nodes[n.Chan.Source]
		n.Retrieved = GtidUnion(n.Retrieved, src.Executed)
	}
	if n.Chan.SQL && n.Chan.SQLErrno == 0 && !n.ApplyHold {
		n.Executed = GtidUnion(n.Executed, n.Retrieved)
	}
}

// AckersLocked: replicas that would acknowledge a commit of master m right now.
func (w *World) AckersLocked(m *Node) []string {
	var r []string
	for _, x := range w.Nodes {
		if x.Up && x.Chan != nil && x.Chan.Source == m.Host && x.Chan.IO && x.SSSlaveEffective && w.SourceReachableLocked(x) {
			r = append(r, x.Host)
		}
	}
	sort.Strings(r)
	return r
}

func (w *World) query(n *Node, sess *session, caller, raw string) result {
	q := strings.TrimSpace(spaceRe.ReplaceAllString(raw, " "))
	kind, arg, mut := Classify(q)
	if h := w.CallHook; h != nil && kind != "SLockWait" {
		h(caller, sess.port)
	}
	w.Mu.Lock()
	defer w.Mu.Unlock()
	if !n.Up || w.Severed[caller] {
		return result{drop: true}
	}
	if kind == "SLockWait" {
		s, _ := strconv.Atoi(arg)
		sess.lockWait = time.Duration(s) * time.Second
		return result{ok: true}
	}
	e := Entry{Caller: caller, Host: n.Host, Kind: kind, Arg: arg, Raw: q, Mut: mut, TStart: time.Now().UnixNano()}
	e.Idx = w.nextIdx()
	finish := func(res result, resp string) result {
		e.Resp = resp
		if res.errno != 0 {
			e.Err = strconv.Itoa(res.errno)
			e.Resp = RespErrno(res.errno)
		}
		if res.drop {
			e.Err = "drop"
			e.Resp = "(RErr EConn)"
		}
		if res.gaveUp {
			e.Err = "deadline"
			e.Resp = "(RErr EDeadline)"
		}
		e.TEnd = time.Now().UnixNano()
		w.Trans = append(w.Trans, e)
		return res
	}
	if f := w.findFault(n.Host, caller, kind); f != nil {
		switch {
		case strings.HasPrefix(f.Action, "err:"):
			code, _ := strconv.Atoi(strings.TrimPrefix(f.Action, "err:"))
			return finish(result{errno: code, msg: "injected"}, "")
		case f.Action == "drop":
			return finish(result{drop: true}, "")
		case f.Action == "hang":
			// wait until the client gives up (context deadline closes the connection)
			for {
				select {
				case <-sess.dead:
					e.Err = "deadline"
					e.Resp = "(RErr EDeadline)"
					e.TEnd = time.Now().UnixNano()
					w.Trans = append(w.Trans, e)
					return result{drop: true}
				default:
				}
				w.unblock.Wait()
			}
		case strings.HasPrefix(f.Action, "delay:"):
			ms, _ := strconv.Atoi(strings.TrimPrefix(f.Action, "delay:"))
			w.Mu.Unlock()
			time.Sleep(time.Duration(ms) * time.Millisecond)
			w.Mu.Lock()
		case f.Action == "unchannel":
			// somebody else (an operator, another tool) ran STOP REPLICA; RESET REPLICA ALL on this server just before
			// this statement arrived: the statement itself is then executed normally on a server without a channel
			n.Chan = nil
			n.Retrieved = ""
		case f.Action == "applydrop":
			if w.OnStatement != nil {
				w.OnStatement(w, n, caller, kind, arg)
			}
			res, _ := w.apply(n, sess, q, kind, arg)
			_ = res
			return finish(result{drop: true}, "")
		}
	}
	if w.Workload != "" {
		if m, ok := w.Nodes[w.Workload]; ok && m.Up && !m.RO && m.StuckCommits == 0 {
			m.NextGno++
			m.Executed = GtidUnion(m.Executed, fmt.Sprintf("%s:%d", m.UUID, m.NextGno))
		}
	}
	if w.OnStatement != nil {
		w.OnStatement(w, n, caller, kind, arg)
	}
	res, resp := w.apply(n, sess, q, kind, arg)
	return finish(res, resp)
}

// RespErrno maps a MySQL errno to the model's error enum.
func RespErrno(code int) string {
	switch code {
	case 1205:
		return "(RErr ELockWait)"
	}
	return "(RErr (EMysql " + Z(int64(code)) + "))"
}

// GtidGal prints a GTID set as the model's gtidset via the harness' dump format;
// set by the package that knows the uuid numbering.
var GtidGal = func(s string) string { return "[]" }

// HostGal prints a host name as N.
var HostGal = func(h string) string {
	if i := strings.LastIndex(h, "h"); i >= 0 {
		h = h[i:]
	}
	x, err := strconv.Atoi(strings.TrimPrefix(h, "h"))
	if err != nil {
		return "999%N"
	}
	return N(uint64(x))
}

// apply executes the statement (world locked) and returns the wire result and
// the Gallina response term.
func (w *World) apply(n *Node, sess *session, q, kind, arg string) (result, string) {
	okRes := result{ok: true}
	one := func(cols []string, vals ...*string) result { return result{cols: cols, rows: [][]*string{vals}} }
	newNames := n.Version[0] > 8 || (n.Version[0] == 8 && (n.Version[1] > 0 || n.Version[2] >= 22))
	switch kind {
	case "SPing":
		if n.PingErrno != 0 { // the server refuses ordinary work (1040 too many connections, 1129 host blocked ...): mysync calls such a ping "dubious"
			return result{errno: n.PingErrno, msg: "refused"}, ""
		}
		return one([]string{"Ok"}, sp("1")), "(RBool true)"
	case "SVersion":
		return one([]string{"MajorVersion", "MinorVersion", "PatchVersion"}, sp(fmt.Sprint(n.Version[0])), sp(fmt.Sprint(n.Version[1])), sp(fmt.Sprint(n.Version[2]))), "ROk"
	case "SShowReplica":
		replicaSyntax := strings.HasPrefix(q, "SHOW REPLICA STATUS")
		if replicaSyntax && !newNames {
			return result{errno: 1064, msg: "syntax"}, ""
		}
		cols := []string{"Master_Host", "Master_Port", "Master_Log_File", "Read_Master_Log_Pos", "Slave_IO_Running", "Slave_SQL_Running",
			"Last_Error", "Retrieved_Gtid_Set", "Executed_Gtid_Set", "Last_IO_Errno", "Last_IO_Error", "Last_SQL_Errno", "Seconds_Behind_Master"}
		if replicaSyntax {
			cols = []string{"Source_Host", "Source_Port", "Source_Log_File", "Read_Source_Log_Pos", "Replica_IO_Running", "Replica_SQL_Running",
				"Last_Error", "Retrieved_Gtid_Set", "Executed_Gtid_Set", "Last_IO_Errno", "Last_IO_Error", "Last_SQL_Errno", "Seconds_Behind_Source"}
		}
		if n.Chan == nil {
			return result{cols: cols}, "(RRepl None)"
		}
		if w.AutoReplicate {
			w.ReplicateLocked(n)
		}
		ioYes, ioErrno, ioShown := n.Chan.IO, n.Chan.IOErrno, yesNo(n.Chan.IO)
		if w.ConnectingLocked(n) {
			ioYes, ioErrno, ioShown = false, 2003, "Connecting"
		}
		var lag *string
		lagGal := "None"
		if (ioYes && n.Chan.SQL) || n.LagAlways {
			l := int64(0)
			if n.Lag != nil {
				l = *n.Lag
			}
			lag = sp(fmt.Sprint(l))
			lagGal = Some(Z(l * LagScale))
			if n.LagMilli != 0 {
				lag = sp(fmt.Sprintf("%d.%03d", l, n.LagMilli))
				lagGal = Some(Z(l*LagScale + n.LagMilli*LagScale/1000))
			}
		}
		file := n.ReadFile
		if file == "" {
			file = "binlog.000001"
		}
		resp := "(RRepl (Some {| rs_source := " + HostGal(n.Chan.Source) + "; rs_io := " + B(ioYes) + "; rs_sql := " + B(n.Chan.SQL) +
			"; rs_io_errno := " + Z(int64(ioErrno)) + "; rs_sql_errno := " + Z(int64(n.Chan.SQLErrno)) + "; rs_lag := " + lagGal +
			"; rs_executed := " + GtidGal(n.Executed) + "; rs_retrieved := " + GtidGal(n.Retrieved) + "; rs_file := " + BinlogGal(file) + "; rs_pos := " + Z(n.ReadPos) + " |}))"
		return one(cols, sp(n.Chan.Source), sp("3306"), sp(file), sp(fmt.Sprint(n.ReadPos)),
			sp(ioShown), sp(yesNo(n.Chan.SQL)), sp(""), sp(n.Retrieved), sp(n.Executed),
			sp(fmt.Sprint(ioErrno)), sp(""), sp(fmt.Sprint(n.Chan.SQLErrno)), lag), resp
	case "SGtidExecuted":
		if w.AutoReplicate {
			w.ReplicateLocked(n)
		}
		return one([]string{"Executed_Gtid_Set"}, sp(n.Executed)), "(RGtid " + GtidGal(n.Executed) + ")"
	case "SUuid":
		return one([]string{"server_uuid"}, sp(n.UUID)), "ROk"
	case "SIsReadOnly":
		return one([]string{"ReadOnly", "SuperReadOnly"}, sp(b01(n.RO)), sp(b01(n.SuperRO))), "(RFlags " + B(n.RO) + " " + B(n.SuperRO) + ")"
	case "SIsOffline":
		return one([]string{"OfflineMode"}, sp(b01(n.Offline))), "(RBool " + B(n.Offline) + ")"
	case "SSemiStatus":
		return one([]string{"MasterEnabled", "SlaveEnabled", "WaitSlaveCount"}, sp(b01(n.SSMaster)), sp(b01(n.SSSlave)), sp(fmt.Sprint(n.WaitCount))),
			"(RSemi " + B(n.SSMaster) + " " + B(n.SSSlave) + " " + Z(int64(n.WaitCount)) + ")"
	case "SReplSettings":
		return one([]string{"InnodbFlushLogAtTrxCommit", "SyncBinlog"}, sp(fmt.Sprint(n.Flush)), sp(fmt.Sprint(n.SyncBinlog))),
			"(RZ2 " + Z(int64(n.Flush)) + " " + Z(int64(n.SyncBinlog)) + ")"
	case "SStartupTime":
		// the model's times are ns relative to the synctest epoch (2000-01-01T00:00:00Z)
		return one([]string{"LastStartup"}, sp(fmt.Sprint(n.StartedAt))), "(RZ " + Z(n.StartedAt*1000000000-946684800*1000000000) + ")"
	case "SBinlogs":
		res := result{cols: []string{"Log_name", "File_size", "Encrypted"}}
		items := []string{}
		for _, b := range n.Binlogs {
			res.rows = append(res.rows, []*string{sp(b[0]), sp(b[1]), sp("No")})
			sz, _ := strconv.ParseInt(b[1], 10, 64)
			items = append(items, T(BinlogGal(b[0]), Z(sz)))
		}
		return res, "(RBinlogs " + L(items) + ")"
	case "SWaitingAck":
		return one([]string{"IsWaiting"}, sp(b01(n.StuckCommits > 0))), "(RBool " + B(n.StuckCommits > 0) + ")"
	case "SProcessIds":
		res := result{cols: []string{"ID"}}
		ids := []string{}
		for i := 0; i < n.StuckCommits; i++ {
			res.rows = append(res.rows, []*string{sp(fmt.Sprint(100 + i))})
			ids = append(ids, Z(int64(100+i)))
		}
		return res, "(RIds " + L(ids) + ")"
	case "SListEvents":
		return result{cols: []string{"EVENT_SCHEMA", "EVENT_NAME", "DEFINER"}}, "ROk"
	case "SReplMonDelay":
		if n.ReplMonDelay == nil {
			return result{errno: 1146, msg: "table doesn't exist"}, ""
		}
		return one([]string{"delay"}, sp(fmt.Sprint(*n.ReplMonDelay))), "(RZ " + Z(*n.ReplMonDelay) + ")"
	case "SSetRO":
		// blocks while commits wait for a semi-sync ACK (they hold the commit lock)
		if n.StuckCommits > 0 {
			deadline := time.Now().Add(sess.lockWait)
			timer := time.AfterFunc(sess.lockWait, func() { w.Mu.Lock(); w.unblock.Broadcast(); w.Mu.Unlock() })
			defer timer.Stop()
			for n.StuckCommits > 0 {
				select {
				case <-sess.dead:
					return result{drop: true, gaveUp: true}, ""
				default:
				}
				if !time.Now().Before(deadline) {
					return result{errno: 1205, msg: "Lock wait timeout exceeded; try restarting transaction"}, ""
				}
				w.unblock.Wait()
			}
		}
		n.RO = true
		n.SuperRO = arg == "true"
		return okRes, "ROk"
	case "SSetWritable":
		n.RO, n.SuperRO = false, false
		return okRes, "ROk"
	case "SSetOffline":
		n.Offline = true
		return okRes, "ROk"
	case "SSetOnline":
		n.Offline = false
		return okRes, "ROk"
	case "SStopIO":
		if n.Chan != nil {
			if w.AutoReplicate {
				w.ReplicateLocked(n)
			}
			n.Chan.IO = false
		}
		return okRes, "ROk"
	case "SStartIO":
		if n.Chan == nil {
			return result{errno: 1200, msg: "The server is not configured as replica"}, ""
		}
		n.Chan.IO = true
		n.Chan.IOErrno = 0
		n.SSSlaveEffective = n.SSSlave
		return okRes, "ROk"
	case "SStopSQL":
		if n.Chan != nil {
			n.Chan.SQL = false
		}
		return okRes, "ROk"
	case "SStartSQL":
		if n.Chan == nil {
			return result{errno: 1200, msg: "The server is not configured as replica"}, ""
		}
		n.Chan.SQL = !(n.Chan.Sticky && n.Chan.SQLErrno != 0)
		if n.StickySQLErrno != 0 {
			n.Chan.SQL, n.Chan.SQLErrno = false, n.StickySQLErrno
		}
		return okRes, "ROk"
	case "SStopRepl":
		if n.Chan != nil {
			if w.AutoReplicate {
				w.ReplicateLocked(n)
			}
			n.Chan.IO, n.Chan.SQL = false, false
		}
		return okRes, "ROk"
	case "SStartRepl":
		if n.Chan == nil {
			return result{errno: 1200, msg: "The server is not configured as replica"}, ""
		}
		n.Chan.IO, n.Chan.SQL = true, !(n.Chan.Sticky && n.Chan.SQLErrno != 0)
		n.Chan.IOErrno = 0
		if n.StickySQLErrno != 0 {
			n.Chan.SQL, n.Chan.SQLErrno = false, n.StickySQLErrno
		}
		n.SSSlaveEffective = n.SSSlave
		return okRes, "ROk"
	case "SResetReplAll":
		if n.Chan != nil && (n.Chan.IO || n.Chan.SQL) {
			return result{errno: 3081, msg: "This operation cannot be performed with running replication threads"}, ""
		}
		n.Chan = nil
		n.Dropped = GtidUnion(n.Dropped, n.Retrieved)
		n.Retrieved = ""
		return okRes, "ROk"
	case "SChangeSource":
		if n.Chan != nil && (n.Chan.IO || n.Chan.SQL) {
			return result{errno: 3021, msg: "This operation cannot be performed with a running replica io thread"}, ""
		}
		n.Chan = &Chan{Source: arg}
		n.Dropped = GtidUnion(n.Dropped, n.Retrieved)
		n.Retrieved = ""
		return okRes, "ROk"
	case "SSemiSetMaster":
		n.SSMaster, n.SSSlave = true, false
		return okRes, "ROk"
	case "SSemiSetSlave":
		n.SSMaster, n.SSSlave = false, true
		return okRes, "ROk"
	case "SSemiDisable":
		n.SSMaster, n.SSSlave = false, false
		if n.StuckCommits > 0 {
			n.StuckCommits = 0 // released: acknowledged to clients
			w.unblock.Broadcast()
		}
		return okRes, "ROk"
	case "SSetWaitCount":
		n.WaitCount, _ = strconv.Atoi(arg)
		return okRes, "ROk"
	case "SSetFlush":
		n.Flush, _ = strconv.Atoi(arg)
		return okRes, "ROk"
	case "SSetSyncBinlog":
		n.SyncBinlog, _ = strconv.Atoi(arg)
		return okRes, "ROk"
	case "SKill":
		if n.StuckCommits > 0 && !n.Unkillable {
			n.StuckCommits--
			w.unblock.Broadcast()
		}
		return okRes, "ROk"
	case "SEnableEvent":
		return okRes, "ROk"
	}
	if strings.HasPrefix(q, "SELECT") || strings.HasPrefix(q, "SHOW") {
		return result{errno: 1064, msg: "fake server: unhandled query: " + q}, ""
	}
	return okRes, "ROk"
}

// BinlogGal numbers binlog file names "binlog.00000N" -> N.
func BinlogGal(name string) string {
	i := strings.LastIndex(name, ".")
	x, err := strconv.Atoi(name[i+1:])
	if err != nil {
		return "0%N"
	}
	return N(uint64(x))
}
