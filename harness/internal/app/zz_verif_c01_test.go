//go:build verif

package app

import (
	"encoding/json"
	"fmt"
	"os"
	"sort"
	"strings"
	"testing"
	"testing/synctest"
	"time"

	nodestate "github.com/yandex/mysync/internal/app/node_state"
	"github.com/yandex/mysync/internal/config"
	"github.com/yandex/mysync/internal/dcs"
	"github.com/yandex/mysync/internal/mysql"
	vk "github.com/yandex/mysync/internal/verifkit"
)

// one switchover scenario
type c01Node struct {
	Executed  string `json:"executed"`  // interval list on the old master's uuid, e.g. "1-100"
	Extra     string `json:"extra"`     // foreign-uuid transactions (divergence), "" = none
	Retrieved string `json:"retrieved"` // received (incl. not yet applied)
	Down      bool   `json:"down"`
	SQLStopped bool  `json:"sql_stopped"` // SQL thread stopped: received tail stays unapplied
	IOErrno   int    `json:"io_errno"`
	Prio      int64  `json:"prio"`
	Lag       int64  `json:"lag"`
	Cascade   bool   `json:"cascade"`
	Dubious   bool   `json:"dubious"`
	Flush     int    `json:"flush,omitempty"`       // innodb_flush_log_at_trx_commit (0 = server default 1)
	SyncBinlog int   `json:"sync_binlog,omitempty"` // sync_binlog (0 = server default 1)
	Reg       string `json:"reg,omitempty"`         // optimisation registry entry: "" none | "new" | "enabled"
}
type c01In struct {
	N          int       `json:"n"` // hosts h1..hN, h1 = old master
	Nodes      []c01Node `json:"nodes"`
	Active     []string  `json:"active"`
	To         string    `json:"to"`
	From       string    `json:"from"`
	Cause      string    `json:"cause"`
	Transition string    `json:"transition"` // failover|switchover|""
	SemiSync   bool      `json:"semisync"`
	WaitCfg    int       `json:"wait_cfg"`
	Async      bool      `json:"async"`
	AllowedLag int       `json:"allowed_lag_s"`
	ReplMonDelay int64   `json:"repl_mon_delay"`
	LockLostAt int       `json:"lock_lost_at"` // -1 never; k: the k-th AcquireLock (0-based) returns false
	Fault      *vk.Fault `json:"fault"`
	DcsFault   *memFault `json:"dcs_fault"`
	CatchUp    int       `json:"catch_up_s"` // seconds
	ReturnAt   int       `json:"return_at,omitempty"` // >0: the dead old master comes back (writable, one more commit on it) when the k-th mutating statement of the procedure arrives
}

type c01Promotion struct {
	Host  string             `json:"host"`
	Nodes map[string]vk.Node `json:"-"`
	Mon   int64              `json:"-"`
	Registry []string        `json:"-"` // optimisation registry at that instant
}

type c01Out struct {
	Trans      []vk.Entry
	Cfg        *config.Config
	State      map[string]*nodestate.NodeState
	Err        error
	MemBefore  string
	Sw         Switchover
	Promotions []c01Promotion
	Freezes    []c01Promotion // first SET read_only=1 per host, with the world at that instant
	Emerge     bool
	AllHosts   []string
	Cascades   map[string]bool
	Final      map[string]vk.Node
	Master     string
	AtLock     map[string]vk.Node // fake servers at the first lock re-check (after the freeze)
	AckedOnReturn string           // the transaction committed on the returned old master, if enough semi-sync replicas acknowledged it
	AckedBy    []string
}

func c01Run(in c01In) c01Out {
	vk.Running("switchover", in)
	var out c01Out
	dir, _ := os.MkdirTemp("", "c01")
	defer os.RemoveAll(dir)
	w := vk.NewWorld()
	vInstall(w)
	mgr := fmt.Sprintf("h%d", in.N)
	d := newMemDCS(w, mgr)
	d.silent = true
	u1 := hostUUID("h1")
	out.Cascades = map[string]bool{}
	for i := 1; i <= in.N; i++ {
		h := fmt.Sprintf("h%d", i)
		c := in.Nodes[i-1]
		exec := u1 + ":" + c.Executed
		if c.Extra != "" {
			exec = vk.GtidUnion(exec, vUUIDs[2]+":"+c.Extra)
		}
		n := &vk.Node{Host: h, UUID: hostUUID(h), Up: !c.Down, Executed: exec}
		if i == 1 {
			n.SSMaster = in.SemiSync
			n.WaitCount = in.WaitCfg
		} else {
			n.RO, n.SuperRO = true, true
			n.Chan = &vk.Chan{Source: "h1", IO: true, SQL: !c.SQLStopped, IOErrno: c.IOErrno}
			if c.IOErrno != 0 {
				n.Chan.IO = false
			}
			n.Retrieved = exec
			if c.Retrieved != "" {
				n.Retrieved = vk.GtidUnion(exec, u1+":"+c.Retrieved)
			}
			ack := in.SemiSync && !c.Cascade // cascade replicas never acknowledge: mysync enables the replica side on HA members only
			n.SSSlave, n.SSSlaveEffective = ack, ack
			lag := c.Lag
			n.Lag = &lag
		}
		if in.ReplMonDelay >= 0 {
			dl := in.ReplMonDelay
			n.ReplMonDelay = &dl
		}
		if c.Flush != 0 {
			n.Flush = c.Flush
		}
		if c.SyncBinlog != 0 {
			n.SyncBinlog = c.SyncBinlog
		}
		w.AddNode(n)
		if c.Reg != "" {
			d.rawSet(dcs.JoinPath("optimization_nodes", h), map[string]string{"status": map[string]string{"new": "", "enabled": "enabled"}[c.Reg]})
		}
		if c.Cascade {
			d.rawSet(dcs.JoinPath(pathCascadeNodesPrefix, h), mysql.CascadeNodeConfiguration{StreamFrom: "h1"})
			out.Cascades[h] = true
		} else {
			d.rawSet(dcs.JoinPath(pathHANodes, h), mysql.NodeConfiguration{Priority: c.Prio})
		}
		out.AllHosts = append(out.AllHosts, h)
	}
	// a catching-up world: SQL threads apply only after CatchUp seconds (received stays in the relay log)
	w.AutoReplicate = true
	va := newVApp(w, d, vAppOpts{Hostname: mgr, Dir: dir, Tune: func(cfg *config.Config) {
		cfg.SemiSync = in.SemiSync
		cfg.RplSemiSyncMasterWaitForSlaveCount = in.WaitCfg
		cfg.ASync = in.Async
		cfg.AsyncAllowedLag = time.Duration(in.AllowedLag) * time.Second
		cfg.ReplMon = in.Async
		cfg.SlaveCatchUpTimeout = 20 * time.Second
		cfg.WaitReplicationStartTimeout = 5 * time.Second
	}})
	defer va.close()
	app := va.app
	state := app.getClusterStateFromDB()
	for i := 1; i <= in.N; i++ {
		if in.Nodes[i-1].Dubious {
			h := fmt.Sprintf("h%d", i)
			ns := *state[h]
			ns.PingOk, ns.PingDubious = false, true
			state[h] = &ns
		}
	}
	d.rawSet(pathActiveNodes, in.Active)
	d.rawSet(pathMasterNode, "h1")
	sw := Switchover{From: in.From, To: in.To, Cause: in.Cause, MasterTransition: MasterTransition(in.Transition),
		InitiatedBy: "operator", InitiatedAt: time.Now().Add(-3 * time.Second), StartedBy: mgr, StartedAt: time.Now()}
	d.rawSet(pathCurrentSwitch, sw)
	if in.Fault != nil {
		f := *in.Fault
		w.Faults = append(w.Faults, &f)
	}
	if in.DcsFault != nil {
		f := *in.DcsFault
		d.faults = append(d.faults, &f)
	}
	if in.LockLostAt >= 0 {
		d.faults = append(d.faults, &memFault{Op: "lock", Nth: in.LockLostAt})
	}
	// relay-log application delay: SQL threads of replicas with an unapplied tail resume after CatchUp seconds
	if in.CatchUp > 0 {
		for i := 2; i <= in.N; i++ {
			h := fmt.Sprintf("h%d", i)
			n := w.Nodes[h]
			if n.Chan != nil && !n.Chan.SQL && !in.Nodes[i-1].SQLStopped {
				continue
			}
		}
	}
	frozen := map[string]bool{}
	mutating := 0
	w.OnStatement = func(w *vk.World, n *vk.Node, caller, kind, arg string) {
		if mutatingKind(kind) {
			mutating++
			if in.ReturnAt > 0 && mutating == in.ReturnAt {
				// the old master returns: its mysqld is up again and a client commits on it; every receiver thread that is
				// still started (it was only "Connecting") reconnects and fetches
				if m0 := w.Nodes["h1"]; m0 != nil && !m0.Up {
					m0.Up = true
					if !m0.RO {
						m0.NextGno += 1000
						m0.Executed = vk.GtidUnion(m0.Executed, fmt.Sprintf("%s:%d", m0.UUID, m0.NextGno))
					}
					var g string
					if !m0.RO {
						g = fmt.Sprintf("%s:%d", m0.UUID, m0.NextGno)
					}
					for _, x := range w.Nodes {
						w.ReplicateLocked(x)
					}
					// the client is told "committed" only if enough semi-sync replicas received it
					if g != "" && m0.SSMaster {
						if ack := w.AckersLocked(m0); len(ack) >= m0.WaitCount {
							out.AckedOnReturn, out.AckedBy = g, ack
						}
					}
				}
			}
		}
		if kind == "SSetRO" && !frozen[n.Host] {
			frozen[n.Host] = true
			snap := map[string]vk.Node{}
			for h, x := range w.Nodes {
				snap[h] = x.Snapshot()
			}
			out.Freezes = append(out.Freezes, c01Promotion{Host: n.Host, Nodes: snap, Registry: d.rawChildren("optimization_nodes")})
		}
		if kind == "SSetWritable" {
			snap := map[string]vk.Node{}
			for h, x := range w.Nodes {
				snap[h] = x.Snapshot()
			}
			out.Promotions = append(out.Promotions, c01Promotion{Host: n.Host, Nodes: snap, Registry: d.rawChildren("optimization_nodes")})
		}
	}
	d.onLock = func() {
		if out.AtLock != nil {
			return
		}
		w.Mu.Lock()
		out.AtLock = map[string]vk.Node{}
		for h, x := range w.Nodes {
			out.AtLock[h] = x.Snapshot()
		}
		w.Mu.Unlock()
	}
	out.MemBefore = anMemGal(app, vEpoch)
	out.Sw = sw
	w.ResetTranscript()
	d.silent = false
	out.Err = app.performSwitchover(state, in.Active, &sw, "h1")
	d.silent = true
	synctest.Wait()
	out.Trans = w.Transcript()
	out.Cfg = va.cfg
	out.State = state
	_, err := os.Stat(va.cfg.Emergefile)
	out.Emerge = err == nil
	w.Mu.Lock()
	out.Final = map[string]vk.Node{}
	for h, n := range w.Nodes {
		out.Final[h] = *n
	}
	w.Mu.Unlock()
	d.rawGet(pathMasterNode, &out.Master)
	return out
}

func c01Case(in c01In, out c01Out) string {
	all := []string{}
	uu := []string{}
	for _, h := range out.AllHosts {
		all = append(all, vk.T(hostGal(h), vk.B(out.Cascades[h])))
		uu = append(uu, vk.T(hostGal(h), vk.N(uint64(uuidIndexOf(hostUUID(h))))))
	}
	env := "{| se_old_master := 1%N; se_all_hosts := " + vk.L(all) + "; se_state := " + statesGal(out.State) + "; se_active := " + hostsGal(in.Active) +
		"; se_uuid_of := " + vk.L(uu) + "; se_emerge_file := 1%N |}"
	return vk.T(cfgGal(out.Cfg), env, switchRecGal(&out.Sw), out.MemBefore, transcriptGal(out.Trans, vEpoch, ""), vk.B(out.Err == nil), vk.B(out.Emerge))
}

// statements that change a server (the ones the transcript marks as mutating)
func mutatingKind(kind string) bool {
	switch kind {
	case "SSetRO", "SSetWritable", "SSetOffline", "SSetOnline", "SStopIO", "SStartIO", "SStopSQL", "SStartSQL", "SStopRepl", "SStartRepl",
		"SResetReplAll", "SChangeSource", "SSemiSetMaster", "SSemiSetSlave", "SSemiDisable", "SSetWaitCount", "SSetFlush", "SSetSyncBinlog", "SKill":
		return true
	}
	return false
}

func uuidIndexOf(u string) int {
	for i, s := range vUUIDs {
		if s == u {
			return i
		}
	}
	return 99
}

// c01Monitor: the property's clauses on the fake servers' ground truth
func c01Monitor(m *vk.Meta, in c01In, out c01Out) {
	quorum := 1
	if in.SemiSync {
		quorum = max(len(in.Active)-min(len(in.Active)/2, in.WaitCfg), 1)
	}
	for _, p := range out.Promotions {
		if p.Host == "h1" {
			continue // making the recorded master writable is not a promotion
		}
		promoted := p.Nodes[p.Host]
		backing := 0
		var offenders []string
		for _, h := range in.Active {
			s, ok := p.Nodes[h]
			if !ok || !s.Up {
				continue
			}
			have := vk.GtidUnion(s.Executed, s.Retrieved)
			if h == p.Host {
				// what the promoted node itself had received and threw away unexecuted on its way (RESET REPLICA ALL /
				// re-pointing drop the relay log) is held "merely received" as well
				have = vk.GtidUnion(have, s.Dropped)
			}
			switch {
			case !s.RO:
				offenders = append(offenders, h+" is not read-only")
			case !vk.GtidContains(promoted.Executed, have):
				offenders = append(offenders, fmt.Sprintf("%s holds %s not executed by %s (%s)", h, have, p.Host, promoted.Executed))
			default:
				backing++
			}
		}
		asyncException := in.Async && in.Cause == CauseAuto && in.AllowedLag > 0 && in.ReplMonDelay >= 0 && in.ReplMonDelay < int64(in.AllowedLag)
		if backing < quorum && !asyncException {
			m.Violation("a node is made writable only when the failover quorum of active members is read-only and holds nothing the promoted node has not executed", in,
				fmt.Sprintf("%s promoted with %d backing member(s), quorum %d; %v", p.Host, backing, quorum, offenders))
		}
	}
	// split brain among the frozen members => nothing promoted + emerge file (evaluated when the procedure got as far as reading positions)
	readPositions := false
	for _, e := range out.Trans {
		if e.Kind == "DcsGet" && strings.HasPrefix(e.Arg, pathHANodes+"/") {
			readPositions = true
		}
	}
	if readPositions && in.Fault == nil && in.DcsFault == nil && in.LockLostAt < 0 {
		// positions (executed + received) of the members that were frozen, as the servers stood after the freeze
		var sets []string
		for i := 1; i <= in.N; i++ {
			h := fmt.Sprintf("h%d", i)
			c := in.Nodes[i-1]
			inActive := false
			for _, a := range in.Active {
				if a == h {
					inActive = true
				}
			}
			if !inActive || c.Down || c.Dubious || out.AtLock == nil {
				continue
			}
			if h == "h1" && in.Cause == CauseAuto && in.From == "h1" {
				continue
			}
			if c.IOErrno == 1236 || c.IOErrno == 13114 {
				continue
			}
			n := out.AtLock[h]
			sets = append(sets, vk.GtidUnion(n.Executed, n.Retrieved))
		}
		hasMax := false
		for _, a := range sets {
			all := true
			for _, b := range sets {
				if !vk.GtidContains(a, b) {
					all = false
				}
			}
			if all {
				hasMax = true
			}
		}
		if len(sets) > 0 && !hasMax {
			if len(out.Promotions) > 0 {
				m.Violation("split brain among the frozen members: nothing is promoted", in, "promotion happened: "+out.Promotions[0].Host)
			}
			if !out.Emerge && out.Err != nil && strings.Contains(out.Err.Error(), "splitbrain") {
				m.Violation("split brain among the frozen members: the emergency marker file is written", in, "no emerge file")
			}
		}
	}
	if out.Err == nil {
		// success => recorded master is the promoted node and it is writable (shared with C06)
		if len(out.Promotions) == 0 || out.Master != out.Promotions[len(out.Promotions)-1].Host || out.Final[out.Master].RO {
			m.Violation("a successful switchover ends with the recorded master = the promoted, writable node", in, fmt.Sprintf("master=%s promotions=%d", out.Master, len(out.Promotions)))
		}
	}
}

func c01Gen(o *vk.Out) c01In {
	r := o.Rng
	in := c01In{N: 2 + r.Intn(4), SemiSync: r.Intn(4) != 0, WaitCfg: 1 + r.Intn(2), LockLostAt: -1, ReplMonDelay: -1}
	execGrid := []string{"1-100", "1-100", "1-100", "1-99", "1-95", "1-90:92-100", "1-100", "1-102", "1-103"}
	for i := 1; i <= in.N; i++ {
		c := c01Node{Executed: "1-100", Prio: int64(r.Intn(3)) * 5, Lag: int64([]int{0, 0, 0, 5, 70, 200}[r.Intn(6)])}
		if i > 1 {
			c.Executed = execGrid[r.Intn(len(execGrid))]
			switch r.Intn(8) {
			case 0:
				c.Retrieved = "1-100"
				c.SQLStopped = r.Intn(2) == 0
			case 1, 3:
				c.Retrieved = "1-105"
				c.SQLStopped = r.Intn(2) == 0
			case 2:
				c.Extra = "1-3"
			}
			if r.Intn(12) == 0 {
				c.Down = true
			}
			if r.Intn(25) == 0 {
				c.IOErrno = []int{1236, 2003}[r.Intn(2)]
			}
			if r.Intn(15) == 0 && in.N > 2 {
				c.Cascade = true
			}
			if r.Intn(30) == 0 {
				c.Dubious = true
			}
		}
		in.Nodes = append(in.Nodes, c)
	}
	// the master may have acknowledged more than some replicas applied
	if r.Intn(3) == 0 {
		in.Nodes[0].Executed = "1-105"
	}
	for i := 1; i <= in.N; i++ {
		h := fmt.Sprintf("h%d", i)
		if in.Nodes[i-1].Cascade {
			continue
		}
		if r.Intn(7) != 0 {
			in.Active = append(in.Active, h)
		}
	}
	sort.Strings(in.Active)
	kind := r.Intn(5)
	pick := func() string { return fmt.Sprintf("h%d", 2+r.Intn(in.N-1)) }
	switch kind {
	case 0: // planned switchover to a host
		in.To, in.Cause, in.Transition = pick(), CauseManual, "switchover"
	case 1: // planned switchover from the master
		in.From, in.Cause, in.Transition = "h1", CauseManual, "switchover"
	case 2: // automatic failover
		in.From, in.Cause, in.Transition = "h1", CauseAuto, "failover"
		in.Nodes[0].Down = r.Intn(4) != 0
	case 3: // operator-forced failover
		in.From, in.Cause, in.Transition = "h1", CauseManual, "failover"
		if r.Intn(2) == 0 {
			in.To, in.From = pick(), ""
		}
		in.Nodes[0].Down = r.Intn(2) == 0
	case 4: // external worker, no transition
		in.From, in.Cause, in.Transition = "h1", CauseWorker, ""
		if r.Intn(2) == 0 {
			in.To, in.From = pick(), ""
		}
	}
	// the old master is alive and holds what no replica has received (stuck receivers): the frozen old master then is
	// the most recent member, the catch-up source of the new master and a party to the split-brain test
	if in.From == "h1" && in.To == "" && !in.Nodes[0].Down && r.Intn(3) == 0 {
		in.Nodes[0].Executed = "1-105"
		for i := 1; i < in.N; i++ {
			if r.Intn(4) != 0 {
				in.Nodes[i].IOErrno = []int{1236, 2003}[r.Intn(2)]
			}
			if r.Intn(6) == 0 {
				in.Nodes[i].Down = true
			}
		}
	}
	if in.Transition == "switchover" {
		in.SemiSync = false // the semi-sync optimisation phase is covered by C19
	}
	if !in.SemiSync && r.Intn(3) == 0 {
		in.Async = true
		in.AllowedLag = []int{0, 10, 100}[r.Intn(3)]
		in.ReplMonDelay = int64([]int{-1, 5, 50, 500}[r.Intn(4)])
	}
	if r.Intn(20) == 0 {
		in.LockLostAt = r.Intn(2)
	}
	if r.Intn(8) == 0 {
		// the async escape hatch: an automatic failover to replicas that have received more than they can apply (SQL
		// thread stopped); promotion without full catch-up is allowed only while the repl_mon delay is below async_allowed_lag
		in.SemiSync, in.Async = false, true
		in.From, in.To, in.Cause, in.Transition = "h1", "", CauseAuto, "failover"
		in.Nodes[0].Down = true
		in.AllowedLag = []int{10, 100}[r.Intn(2)]
		in.ReplMonDelay = int64([]int{5, 50, 500, 3000}[r.Intn(4)])
		in.LockLostAt = -1
		for i := 1; i < in.N; i++ {
			in.Nodes[i].Executed, in.Nodes[i].Retrieved, in.Nodes[i].SQLStopped = "1-100", "1-105", true
			in.Nodes[i].Extra, in.Nodes[i].IOErrno = "", 0
		}
	}
	return in
}

func TestVerifC01(t *testing.T) {
	o := vk.Open()
	m := vk.NewMeta()
	run := func(in c01In) (out c01Out) {
		synctest.Test(t, func(t *testing.T) { out = c01Run(in) })
		return
	}
	var rp c01In
	if vk.ReplayInput(&rp) {
		c01Monitor(m, rp, run(rp))
		m.Evaluations = 1
		o.WriteMeta("c01", m)
		return
	}
	n := 150
	if o.Thorough() {
		n = 1200
	}
	dist := vk.Distinct{}
	imports := []string{"Gtid.GtidSet", "Base.Prog", "Base.Config", "Base.Replay", "Procs.NodeOps", "Procs.ActiveNodes", "Procs.Switchover", "Corr.C13", "Corr.C01"}
	var cases []string
	shard := 0
	flush := func() {
		if len(cases) == 0 {
			return
		}
		o.CasesFile(fmt.Sprintf("c01_%02d", shard), imports, "sw_case", cases, "mismatches_sw",
			"Definition cov_sites := Eval vm_compute in (sw_sites cases).\nPrint cov_sites.\nDefinition cov_exits := Eval vm_compute in (sw_exits cases).\nPrint cov_exits.")
		cases = nil
		shard++
	}
	add := func(in c01In, out c01Out) {
		c01Monitor(m, in, out)
		file := fmt.Sprintf("c01_%02d", shard)
		cases = append(cases, c01Case(in, out))
		m.Cases[file] = append(m.Cases[file], in)
		m.Evaluations++
		if out.Err == nil {
			m.Count("outcome_success")
		} else {
			m.Count("outcome_error")
		}
		if len(cases) >= 40 {
			flush()
		}
	}
	for _, raw := range vk.CorpusInputs() {
		var in c01In
		if json.Unmarshal(raw, &in) == nil {
			add(in, run(in))
			m.Count("corpus")
		}
	}
	for i := 0; i < n; i++ {
		in := c01Gen(o)
		out := run(in)
		add(in, out)
		m.Count("kind_" + in.Cause + "_" + in.Transition)
		m.Count(fmt.Sprintf("n_%d", in.N))
		dist.Add(fmt.Sprintf("%+v", in))
		if i == 1 {
			m.Sample(map[string]any{"input": in, "mutating": mutatingSummary(out.Trans), "error": fmt.Sprint(out.Err)})
		}
		// the dead old master comes back in the middle of the procedure (at a random mutating statement)
		if len(in.Nodes) > 0 && in.Nodes[0].Down && in.Fault == nil && in.DcsFault == nil {
			nm := 0
			for _, e := range out.Trans {
				if e.Mut && e.Host != "" {
					nm++
				}
			}
			for k := 1; k <= nm; k++ {
				rin := in
				rin.ReturnAt = k
				rout := run(rin)
				m.Count("old_master_returns_mid_procedure")
				if k%4 == i%4 {
					add(rin, rout) // replayed against the model too
				} else {
					c01Monitor(m, rin, rout)
					m.Evaluations++
				}
			}
		}
		visited := []vk.Entry{}
		for _, e := range out.Trans {
			if e.Kind != "SRefused" && !ignoredKinds[e.Kind] {
				visited = append(visited, e)
			}
		}
		step := 2
		if !o.Thorough() {
			step = 9
		}
		for k := o.Rng.Intn(step); k < len(visited); k += step {
			e := visited[k]
			fin := in
			if e.Host != "" {
				nth := 0
				for _, p := range visited[:k] {
					if p.Host == e.Host && p.Kind == e.Kind {
						nth++
					}
				}
				act := []string{"err:1105", "drop", "hang", "applydrop"}[o.Rng.Intn(4)]
				fin.Fault = &vk.Fault{Host: e.Host, Kind: e.Kind, Nth: nth, Action: act}
			} else {
				op := map[string]string{"DcsGet": "get", "DcsSet": "set", "DcsCreate": "create", "DcsDelete": "delete", "DcsChildren": "children"}[e.Kind]
				if op == "" {
					continue
				}
				nth := 0
				for _, p := range visited[:k] {
					if p.Host == "" && p.Kind == e.Kind && p.Arg == e.Arg {
						nth++
					}
				}
				fin.DcsFault = &memFault{Op: op, Path: e.Arg, Nth: nth}
			}
			add(fin, run(fin))
			m.Count("with_fault")
		}
	}
	flush()
	m.DistinctNontrivial = dist.Len()
	m.Rule = fmt.Sprintf("%d base scenarios of the real App.performSwitchover (2-5 hosts, GTID histories with gaps / received-not-applied tails / foreign transactions / master ahead, dead or dubious nodes, cascade hosts, priorities and lags; request kinds: to-host, from-master, automatic failover, operator-forced failover, worker request without transition; semi-sync (failover kinds) or async with allowed lag; lock lost at either re-check) plus single failing/dropped/hanging/applied-then-dropped calls at visited call boundaries; the monitor snapshots all fake servers at every SET read_only=0; distinct = distinct base inputs", n)
	o.WriteMeta("c01", m)
}
