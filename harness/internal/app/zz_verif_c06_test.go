//go:build verif

package app

import (
	"encoding/json"
	"fmt"
	"strings"
	"testing"
	"testing/synctest"
	"time"

	vk "github.com/yandex/mysync/internal/verifkit"
)

func swIdent(sw *Switchover) string {
	if sw == nil {
		return ""
	}
	return fmt.Sprintf("%s>%s/%s/%s@%d by %s", sw.From, sw.To, sw.Cause, sw.MasterTransition, sw.InitiatedAt.UnixNano(), sw.InitiatedBy)
}

func swFromRaw(raw string) *Switchover {
	// raw = "(DcsSet PSwitch (VSwitch {...}))" is Gallina; the JSON is not kept in the transcript, so the monitor reads the tree
	return nil
}

// c06Monitor: the lifecycle of switch requests over the history of iterations
func c06Monitor(m *vk.Meta, in mgrIn, out mgrOut) {
	recordedOk, recordedRej := map[string]bool{}, map[string]bool{}
	for k, st := range out.Steps {
		if st.Panic != "" {
			continue
		}
		dcsFaulty := k == in.FaultAt && (in.DcsFault != nil || in.LockLostAt >= 0)
		before, after := mgrSwitchIn(st.Tree, pathCurrentSwitch), mgrSwitchIn(st.TreeAfter, pathCurrentSwitch)
		lastB, lastA := mgrSwitchIn(st.Tree, pathLastSwitch), mgrSwitchIn(st.TreeAfter, pathLastSwitch)
		rejB, rejA := mgrSwitchIn(st.Tree, pathLastRejectedSwitch), mgrSwitchIn(st.TreeAfter, pathLastRejectedSwitch)
		viol := func(clause, detail string, sig map[string]any) {
			v := map[string]any{"clause": clause, "input": in, "detail": fmt.Sprintf("iteration %d: %s", k, detail)}
			if sig != nil {
				v["signature"] = sig
			}
			m.Violations = append(m.Violations, v)
		}
		deletes, setsOk, setsRej, setsSwitch, creates, started := 0, 0, 0, 0, 0, false
		firstSwitchWrite := ""
		for _, e := range st.Trans {
			if e.Host != "" || e.Err != "" || strings.HasPrefix(e.Resp, "(RErr") {
				continue
			}
			switch {
			case e.Kind == "DcsDelete" && e.Arg == pathCurrentSwitch:
				deletes++
			case e.Kind == "DcsSet" && e.Arg == pathLastSwitch:
				setsOk++
			case e.Kind == "DcsSet" && e.Arg == pathLastRejectedSwitch:
				setsRej++
			case e.Kind == "DcsSet" && e.Arg == pathCurrentSwitch:
				setsSwitch++
				if strings.Contains(e.Raw, "sw_started := true") && strings.Contains(e.Raw, "sw_result := None") || setsSwitch == 1 && before != nil && before.Result == nil {
					started = true
				}
			case e.Kind == "DcsCreate" && e.Arg == pathCurrentSwitch:
				creates++
			default:
				continue
			}
			if firstSwitchWrite == "" {
				firstSwitchWrite = e.Kind + " " + e.Arg
			}
		}
		performed := false
		for _, e := range st.Trans {
			if e.Kind == "DcsChildren" && e.Arg == "optimization_nodes" && setsSwitch > 0 {
				performed = true
			}
		}
		// one terminal outcome per removal by the manager
		if deletes > 1 || setsOk+setsRej > 1 {
			viol("a request ends in exactly one terminal outcome", fmt.Sprintf("%d deletions, %d success and %d rejection records in one iteration", deletes, setsOk, setsRej), nil)
		}
		if !dcsFaulty {
			if deletes == 1 && setsOk+setsRej != 1 {
				viol("a request removed by the manager is recorded as succeeded or rejected", fmt.Sprintf("deleted, %d records written", setsOk+setsRej), nil)
			}
			if deletes == 0 && setsOk+setsRej > 0 {
				viol("a terminal record is written only for the request that is removed", "record written without removing the request", nil)
			}
		}
		if setsOk == 1 && lastA != nil {
			id := swIdent(lastA)
			if before != nil && swIdent(before) != id {
				viol("the terminal record is the pending request's own", "last_switch holds "+id+", pending was "+swIdent(before), nil)
			}
			if recordedRej[id] {
				viol("a request ends in exactly one terminal outcome", id+" recorded as rejected earlier and as succeeded now", nil)
			}
			recordedOk[id] = true
			// success => the recorded master is the promoted node and it is writable
			master := mgrMasterIn(st.TreeAfter)
			if n, ok := st.WorldAfter[master]; !ok || n.RO || (lastA.To != "" && lastA.To != master) || (lastA.From != "" && lastA.From == master) {
				viol("a request recorded as succeeded implies that the recorded master is the promoted node and that it is writable",
					fmt.Sprintf("master=%s ro=%v request %s", master, st.WorldAfter[master].RO, id), nil)
			}
		}
		if setsRej == 1 && rejA != nil {
			id := swIdent(rejA)
			if before != nil && swIdent(before) != id {
				viol("the terminal record is the pending request's own", "last_rejected_switch holds "+id+", pending was "+swIdent(before), nil)
			}
			if recordedOk[id] {
				viol("a request ends in exactly one terminal outcome", id+" recorded as succeeded earlier and as rejected now", nil)
			}
			recordedRej[id] = true
		}
		_, _ = lastB, rejB
		// never filed / written over a pending one
		if before != nil && after != nil && swIdent(before) != swIdent(after) && !(deletes == 1) {
			viol("a new request is never filed over a pending one", swIdent(before)+" replaced by "+swIdent(after), nil)
		}
		if before != nil && creates > 0 {
			viol("a new request is never filed over a pending one", "create succeeded while "+swIdent(before)+" was pending", nil)
		}
		if st.Raced {
			// the second initiator's request was there first: it must still be the pending one (or have been processed), never replaced
			if after != nil && !strings.HasPrefix(after.InitiatedBy, "operator") {
				viol("a new request is never filed over a pending one", "the manager's own request replaced the one filed meanwhile by "+in.RaceSwitch.Cause, nil)
			}
		}
		if before == nil || dcsFaulty || !st.LockHeld {
			continue
		}
		_, hasMaint := st.Tree[pathMaintenance]
		var maint Maintenance
		_ = json.Unmarshal([]byte(st.Tree[pathMaintenance]), &maint)
		parked := hasMaint && (maint.Mode != LightMode || before.MasterTransition == FailoverTransition)
		if parked || st.Next != stateManager {
			continue
		}
		aborted := false
		for _, ev := range in.Events {
			if ev.At == k+1 && ev.Kind == "abort" {
				aborted = true
			}
		}
		if in.AbortAtStmt > 0 && k == in.FaultAt {
			aborted = true
		}
		// did the iteration get as far as the request? (master identified, lists read)
		reached := false
		for _, e := range st.Trans {
			if e.Kind == "DcsGet" && e.Arg == pathCurrentSwitch {
				reached = true
			}
		}
		if !reached {
			continue
		}
		now := time.Unix(0, st.T0+vEpoch)
		timedOut := !before.InitiatedAt.IsZero() && now.Sub(before.InitiatedAt) > time.Duration(in.Cfg.Timeout)*time.Second
		overLimit := before.MasterTransition != FailoverTransition && in.Cfg.MaxAttempts > 0 && before.RunCount >= in.Cfg.MaxAttempts
		stillPending := after != nil && swIdent(after) == swIdent(before)
		if timedOut && stillPending {
			viol("a request never stays pending past the switchover timeout", fmt.Sprintf("%s initiated %ds ago (timeout %ds) is still pending, run_count %d -> %d",
				swIdent(before), int(now.Sub(before.InitiatedAt)/time.Second), in.Cfg.Timeout, before.RunCount, after.RunCount),
				map[string]any{"cause": "timed-out request is written back by FailSwitchover instead of being finished"})
		}
		if !timedOut && overLimit && stillPending {
			viol("a planned switchover never stays pending past the configured attempt limit", fmt.Sprintf("%s run_count %d, limit %d", swIdent(before), before.RunCount, in.Cfg.MaxAttempts), nil)
		}
		if !timedOut && !overLimit && before.RunCount > 0 && !aborted {
			// approved earlier: must be started again, not re-judged
			if !started && firstSwitchWrite != "" && !strings.HasPrefix(firstSwitchWrite, "DcsSet "+pathCurrentSwitch) {
				viol("an approved request is not re-judged on retry", fmt.Sprintf("%s (run_count %d): first write was %s", swIdent(before), before.RunCount, firstSwitchWrite), nil)
			}
		}
		// an attempt that was started (the request stored as started) and left the request pending has failed - also when it
		// was given up before it touched any node (a host answering pings with a dubious error); a lost lock is no attempt
		if (performed || started && !dcsFaulty && st.Panic == "" && setsSwitch >= 2) && stillPending && !aborted && !timedOut {
			if after.RunCount != before.RunCount+1 {
				viol("each failed attempt is counted", fmt.Sprintf("%s run_count %d -> %d after a failed attempt", swIdent(before), before.RunCount, after.RunCount), nil)
			}
		}
	}
}

func c06Gen(o *vk.Out) mgrIn {
	r := o.Rng
	n := 2 + r.Intn(3)
	in := mgrIn{Master: "h1", Iter: 2 + r.Intn(5), Gap: []int{1, 5, 31, 70}[r.Intn(4)], LockLostAt: -1,
		Cfg: mgrCfg{Failover: true, Delay: 0, Cooldown: 0, Timeout: []int{60, 120, 300}[r.Intn(3)], MaxAttempts: []int{0, 1, 2, 3}[r.Intn(4)], SemiSync: false, DisableSSOnMaint: true}}
	for i := 1; i <= n; i++ {
		c := mgrNode{Prio: int64(r.Intn(2)) * 5}
		if i > 1 {
			switch r.Intn(9) {
			case 0:
				c.Down = true
			case 1:
				c.Stopped = true
			case 2:
				c.Exec = "1-90" // behind: catch-up needed
			case 3:
				c.Dubious = true // answers the manager's pings with 1040: every attempt is given up at once - and counted
			}
		}
		in.Nodes = append(in.Nodes, c)
	}
	for i := 1; i <= n; i++ {
		if r.Intn(6) != 0 {
			in.Active = append(in.Active, fmt.Sprintf("h%d", i))
		}
	}
	pick := func() string { return fmt.Sprintf("h%d", 2+r.Intn(n-1)) }
	mk := func() *mgrSwitch {
		s := &mgrSwitch{Cause: CauseManual, Transition: "switchover", InitiatedAgo: []int{0, 3, 40, 100, 250, 400, -1}[r.Intn(7)], RunCount: []int{0, 0, 0, 1, 2, 3}[r.Intn(6)]}
		switch r.Intn(5) {
		case 0:
			s.To = pick()
		case 1:
			s.From = "h1"
		case 2:
			s.From, s.Cause, s.Transition = "h1", CauseAuto, "failover"
		case 3:
			s.From, s.Transition = "h1", "failover"
		case 4:
			s.From, s.Cause, s.Transition = "h1", CauseWorker, ""
			if r.Intn(2) == 0 {
				s.To, s.From = pick(), ""
			}
		}
		s.Failed = s.RunCount > 0
		return s
	}
	in.Switch = mk()
	// something that makes attempts fail for a while: the target is down / cut, or the old master unreachable for a planned switchover
	switch r.Intn(5) {
	case 0:
		if in.Switch.To != "" {
			idx := int(hostN(in.Switch.To)) - 1
			in.Nodes[idx].Down = true
		}
	case 1:
		in.Nodes[0].Down, in.Nodes[0].Health = true, "pingfail"
	case 2:
		in.Fault = &vk.Fault{Host: pick(), Kind: []string{"SSetRO", "SStopIO", "SChangeSource", "SSetWritable", "SStopRepl"}[r.Intn(5)], Nth: 0, Action: "err:1105"}
		in.FaultAt = r.Intn(in.Iter)
	}
	for k := 1; k < in.Iter; k++ {
		switch r.Intn(10) {
		case 0:
			in.Events = append(in.Events, mgrEvent{At: k, Kind: "abort"})
		case 1:
			in.Events = append(in.Events, mgrEvent{At: k, Kind: "switch", Switch: mk()}) // a second initiator: ignored while one is pending
		case 2:
			in.Events = append(in.Events, mgrEvent{At: k, Kind: "up", Host: 1 + r.Intn(n)})
		case 3:
			in.Events = append(in.Events, mgrEvent{At: k, Kind: "maint", Maint: &mgrMaint{Light: true, Paused: r.Intn(2) == 0}})
		case 4:
			in.Events = append(in.Events, mgrEvent{At: k, Kind: "restart"})
		}
	}
	if r.Intn(12) == 0 {
		in.AbortAtStmt, in.FaultAt = 1+r.Intn(6), 0
	}
	if r.Intn(5) == 0 {
		// concurrent initiators: the master is dead, the manager is about to file a failover, an operator files first
		in.Switch = nil
		in.Nodes[0].Down, in.Nodes[0].Health = true, "pingfail"
		if n > 2 {
			in.Nodes[1].Stopped = true
		}
		in.Nodes[len(in.Nodes)-1].Down = false
		in.Fault, in.FaultAt = nil, r.Intn(2)
		in.RaceSwitch = mk()
		in.RaceSwitch.RunCount, in.RaceSwitch.Failed, in.RaceSwitch.InitiatedAgo = 0, false, 0
	}
	// planned switchovers with semi-sync run the speed-up phase (C19): not part of this model
	return in
}

func TestVerifC06(t *testing.T) {
	o := vk.Open()
	m := vk.NewMeta()
	var rp mgrIn
	if vk.ReplayInput(&rp) {
		var out mgrOut
		synctest.Test(t, func(t *testing.T) { out = mgrRun(rp) })
		c06Monitor(m, rp, out)
		m.Evaluations = 1
		o.WriteMeta("c06", m)
		return
	}
	n := 120
	if o.Thorough() {
		n = 1200
	}
	mgrDrive(t, o, m, c06Monitor, "c06", n, c06Gen)
	mgrDrive(t, o, m, c06Monitor, "c06g", n/2, mgrGen)
	m.Rule = "2-6 iterations of the real App.stateManager with a pending request of every kind and initiator (CLI, worker without transition, automatic), run counts 0-3, attempt limit 0-3, timeout 60-300 s with 1-70 s between iterations, attempts failing because of dead / failing servers, operator abort between iterations or in the middle of the procedure, second initiators, light maintenance, manager restarts; distinct = distinct inputs"
	o.WriteMeta("c06", m)
}
