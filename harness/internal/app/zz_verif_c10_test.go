//go:build verif

package app

import (
	"encoding/json"
	"fmt"
	"os"
	"sort"
	"strings"
	"testing"
	"testing/synctest"
	"time"

	nodestate "github.com/yandex/mysync/internal/app/node_state"
	"github.com/yandex/mysync/internal/config"
	"github.com/yandex/mysync/internal/dcs"
	"github.com/yandex/mysync/internal/mysql"
	vk "github.com/yandex/mysync/internal/verifkit"
)

// one node of a repair scenario
type c10Node struct {
	RO       bool   `json:"ro"`
	Offline  bool   `json:"offline"`
	Source   string `json:"source"`   // "" = no channel (claims to be master); else source host
	Threads  string `json:"threads"`  // running | stopped | error | perm
	SemiSync string `json:"semisync"` // none | master | slave
	Cascade  string `json:"cascade"`  // "" = HA node; else configured stream_from
	Down     bool   `json:"down"`
	Exec     string `json:"exec"`     // executed intervals on the master's uuid
	Extra    string `json:"extra"`    // foreign transactions
	Lag      int64  `json:"lag"`
	Unregistered bool `json:"unregistered"` // exists in the network, not in the registry (decoy)
	Sticky       bool `json:"sticky"`       // the replication error comes back on every start
}
type c10In struct {
	Nodes      []c10Node `json:"nodes"` // nodes[0] = recorded master h1
	Aggressive bool      `json:"aggressive"`
	MaxAttempts int      `json:"max_attempts"`
	SemiSync   bool      `json:"semisync"`
	Passes     int       `json:"passes"`
	Gap        int       `json:"gap_s"` // seconds between passes
	Fault      *vk.Fault `json:"fault"`
	DcsFault   *memFault `json:"dcs_fault"`
	Mgr        int       `json:"mgr"`          // the manager runs on h<Mgr> (0 = h1)
	RemoveAfter int      `json:"remove_after"` // after the first pass h<RemoveAfter> is removed from the registry (0 = none)
	Workload   bool      `json:"workload"`     // the master keeps committing
	Detach     bool      `json:"detach,omitempty"` // the removed host is also detached by the operator: replication stopped, made writable
	Pulse      bool      `json:"pulse,omitempty"` // one more transaction reaches a replicating cascade replica just before its STOP REPLICA takes effect
}

// a successful or attempted re-pointing, with the ground truth at that instant
type c10Move struct {
	Pass     int
	Host     string
	To       string
	MyExec   string
	ToExec   string
	ToKnown  bool
}

type c10Pass struct {
	Trans     []vk.Entry
	State     map[string]*nodestate.NodeState
	StateDcs  map[string]*nodestate.NodeState
	Orders    [][]string
	MemBefore string
	MemAfter  string
	Emerge    bool
	Before    map[string]vk.Node
	After     map[string]vk.Node
	T         int64
	Panic     string
	PanicSite string
}
type c10Out struct {
	Passes   []c10Pass
	Cfg      *config.Config
	Hosts    []string // registered
	AllNodes []string
	Master   string
	Recovery map[string]bool
	Removed  string
	Moves    []c10Move
}

func repairMemGal(a *App) string {
	hs := []string{}
	for h := range a.replRepairState {
		hs = append(hs, h)
	}
	sort.Strings(hs)
	items := []string{}
	for _, h := range hs {
		st := a.replRepairState[h]
		items = append(items, vk.T(hostGal(h), "{| rp_last_attempt := "+vk.Z(nsOf(st.LastAttempt))+"; rp_start_count := "+vk.Z(int64(st.History[StartSlave]))+
			"; rp_reset_count := "+vk.Z(int64(st.History[ResetSlave]))+"; rp_last_gtid := "+vk.GtidGal(st.LastGTIDExecuted)+" |}"))
	}
	fs := []string{}
	for _, h := range vTimingHosts(a.t, StreamFromFailedAt) {
		fs = append(fs, vk.T(hostGal(h), vk.Z(nsOf(a.t.Get(StreamFromFailedAt, h)))))
	}
	return "{| rm_repair := " + vk.L(items) + "; rm_stream_failed_at := " + vk.L(fs) + " |}"
}

func c10Run(in c10In) c10Out {
	vk.Running("repair", in)
	var out c10Out
	dir, _ := os.MkdirTemp("", "c10")
	defer os.RemoveAll(dir)
	w := vk.NewWorld()
	vInstall(w)
	mgr := "h1"
	if in.Mgr > 0 {
		mgr = fmt.Sprintf("h%d", in.Mgr)
	}
	d := newMemDCS(w, mgr)
	d.silent = true
	u1 := hostUUID("h1")
	if in.Workload {
		w.Workload = "h1"
	}
	for i, c := range in.Nodes {
		h := fmt.Sprintf("h%d", i+1)
		exec := u1 + ":" + c.Exec
		if c.Extra != "" {
			exec = vk.GtidUnion(exec, vUUIDs[2]+":"+c.Extra)
		}
		n := &vk.Node{Host: h, UUID: hostUUID(h), Up: !c.Down, Executed: exec, Retrieved: "", RO: c.RO, SuperRO: c.RO, Offline: c.Offline}
		if c.Source != "" {
			n.Chan = &vk.Chan{Source: c.Source, IO: true, SQL: true}
			n.Retrieved = exec
			switch c.Threads {
			case "stopped":
				n.Chan.SQL = false
			case "error":
				n.Chan.SQL = false
				n.Chan.SQLErrno = 1062
				n.Chan.Sticky = c.Sticky
				if c.Sticky {
					n.StickySQLErrno = 1062
				}
			case "perm":
				n.Chan.SQL = false
				n.Chan.SQLErrno = 1146
			}
			lag := c.Lag
			n.Lag = &lag
		}
		switch c.SemiSync {
		case "master":
			n.SSMaster, n.WaitCount = true, 1
		case "slave":
			n.SSSlave, n.SSSlaveEffective = true, true
		}
		w.AddNode(n)
		out.AllNodes = append(out.AllNodes, h)
		if c.Unregistered {
			continue
		}
		out.Hosts = append(out.Hosts, h)
		if c.Cascade != "" {
			d.rawSet(dcs.JoinPath(pathCascadeNodesPrefix, h), mysql.CascadeNodeConfiguration{StreamFrom: c.Cascade})
		} else {
			d.rawSet(dcs.JoinPath(pathHANodes, h), mysql.NodeConfiguration{})
		}
	}
	out.Master = "h1"
	w.AutoReplicate = true
	va := newVApp(w, d, vAppOpts{Hostname: mgr, Dir: dir, Tune: func(cfg *config.Config) {
		cfg.SemiSync = in.SemiSync
		cfg.ReplicationRepairAggressiveMode = in.Aggressive
		cfg.ReplicationRepairMaxAttempts = in.MaxAttempts
		cfg.ReplicationRepairCooldown = time.Minute
		cfg.WaitReplicationStartTimeout = 3 * time.Second
	}})
	defer va.close()
	app := va.app
	d.rawSet(pathMasterNode, "h1")
	d.rawSet(pathActiveNodes, []string{"h1"})
	if in.Fault != nil {
		f := *in.Fault
		w.Faults = append(w.Faults, &f)
	}
	if in.DcsFault != nil {
		f := *in.DcsFault
		d.faults = append(d.faults, &f)
	}
	curPass := 0
	w.OnStatement = func(w *vk.World, n *vk.Node, caller, kind, arg string) {
		switch kind {
		case "SChangeSource":
			mv := c10Move{Pass: curPass, Host: n.Host, To: arg, MyExec: n.Executed}
			if x, ok := w.Nodes[arg]; ok {
				mv.ToExec, mv.ToKnown = x.Executed, true
			}
			out.Moves = append(out.Moves, mv)
		case "SStopRepl":
			if !in.Pulse || n.Chan == nil || !n.Chan.IO || !n.Chan.SQL || n.Chan.SQLErrno != 0 {
				return
			}
			m := w.Nodes["h1"]
			if m == nil || !m.Up || m.RO || m.StuckCommits != 0 {
				return
			}
			m.NextGno++
			m.Executed = vk.GtidUnion(m.Executed, fmt.Sprintf("%s:%d", m.UUID, m.NextGno))
			if src, ok := w.Nodes[n.Chan.Source]; ok && src != m {
				w.ReplicateLocked(src)
			}
			w.ReplicateLocked(n)
		}
	}
	for p := 0; p < in.Passes; p++ {
		curPass = p
		_ = app.cluster.UpdateHostsInfo()
		state := app.getClusterStateFromDB()
		stateDcs := map[string]*nodestate.NodeState{}
		for h, ns := range state {
			c := *ns
			stateDcs[h] = &c
		}
		var pass c10Pass
		snap := func() map[string]vk.Node {
			w.Mu.Lock()
			defer w.Mu.Unlock()
			r := map[string]vk.Node{}
			for h, n := range w.Nodes {
				r[h] = n.Snapshot()
			}
			return r
		}
		pass.Before = snap()
		pass.T = time.Now().UnixNano() - vEpoch
		pass.MemBefore = repairMemGal(app)
		w.ResetTranscript()
		d.silent = false
		func() {
			defer func() {
				if r := recover(); r != nil {
					pass.Panic = fmt.Sprint(r)
					pass.PanicSite = vPanicSite()
				}
			}()
			app.repairCluster(state, stateDcs, "h1")
		}()
		d.silent = true
		synctest.Wait()
		pass.Trans = w.Transcript()
		pass.After = snap()
		pass.State, pass.StateDcs = state, stateDcs
		pass.MemAfter = repairMemGal(app)
		_, err := os.Stat(va.cfg.Emergefile)
		pass.Emerge = err == nil
		// candidate processing orders
		seen := map[string]bool{}
		var base []string
		for _, e := range pass.Trans {
			h := e.Host
			if h == "" || e.Kind == "SRefused" || ignoredKinds[e.Kind] || (e.Kind == "SReplSettings" && h == "h1") {
				continue
			}
			if !seen[h] {
				seen[h] = true
				base = append(base, h)
			}
		}
		var floating, silent []string
		for _, h := range out.Hosts {
			if seen[h] {
				continue
			}
			st := state[h]
			if st != nil && st.PingOk && st.IsCascade && !st.IsMaster {
				floating = append(floating, h)
			} else {
				silent = append(silent, h)
			}
		}
		cands := [][]string{base}
		for _, r := range floating {
			var next [][]string
			for _, c := range cands {
				for pos := 0; pos <= len(c); pos++ {
					next = append(next, append(append(append([]string{}, c[:pos]...), r), c[pos:]...))
				}
			}
			cands = next
		}
		for _, c := range cands {
			pass.Orders = append(pass.Orders, append(append([]string{}, c...), silent...))
		}
		out.Passes = append(out.Passes, pass)
		if pass.Panic != "" {
			break // the daemon is dead
		}
		if p == 0 && in.RemoveAfter > 0 {
			h := fmt.Sprintf("h%d", in.RemoveAfter)
			d.rawDelete(dcs.JoinPath(pathHANodes, h))
			d.rawDelete(dcs.JoinPath(pathCascadeNodesPrefix, h))
			nh := []string{}
			for _, x := range out.Hosts {
				if x != h {
					nh = append(nh, x)
				}
			}
			out.Hosts = nh
			out.Removed = h
			if in.Detach {
				// decommissioning: the operator stops replication on the host and opens it for writes; it is no longer mysync's
				w.Mu.Lock()
				if n := w.Nodes[h]; n != nil {
					n.RO, n.SuperRO = false, false
					if n.Chan != nil {
						n.Chan.IO, n.Chan.SQL = false, false
					}
				}
				w.Mu.Unlock()
			}
		}
		time.Sleep(time.Duration(in.Gap) * time.Second)
	}
	out.Cfg = va.cfg
	out.Recovery = map[string]bool{}
	for _, h := range out.Hosts {
		out.Recovery[h] = d.rawHas(dcs.JoinPath(pathRecovery, h))
	}
	return out
}

func c10Cases(in c10In, out c10Out) []string {
	uu := []string{}
	for _, h := range out.AllNodes {
		uu = append(uu, vk.T(hostGal(h), vk.N(uint64(uuidIndexOf(hostUUID(h))))))
	}
	var cs []string
	for _, p := range out.Passes {
		env := "{| re_master := 1%N; re_state := " + statesGal(p.State) + "; re_state_dcs := " + statesGal(p.StateDcs) + "; re_order := []; re_uuid_of := " + vk.L(uu) + "; re_emerge_file := 1%N |}"
		ol := []string{}
		for _, o := range p.Orders {
			ol = append(ol, hostsGal(o))
		}
		cs = append(cs, vk.T(cfgGal(out.Cfg), env, vk.L(ol), p.MemBefore, transcriptGal(p.Trans, vEpoch, ""), p.MemAfter, vk.B(p.Emerge), vk.Z(p.T), vk.B(p.Panic != "")))
	}
	return cs
}

// c10Monitor: safety clauses on every pass, convergence after the fault-free passes
func c10Monitor(m *vk.Meta, in c10In, out c10Out) {
	resets := map[string][]int64{}
	for pi, p := range out.Passes {
		registered := map[string]bool{}
		for _, h := range out.Hosts {
			registered[h] = true
		}
		if pi == 0 && out.Removed != "" {
			registered[out.Removed] = true
		}
		for _, e := range p.Trans {
			if e.Host != "" && !registered[e.Host] {
				m.Violation("never sends a statement to a host that is not registered", in, fmt.Sprintf("pass %d: %s -> %s", pi, e.Kind, e.Host))
			}
			if e.Kind == "SChangeSource" && e.Arg == e.Host {
				m.Violation("never points a server at itself", in, e.Host)
			}
			if e.Kind == "DcsSet" && e.Arg == pathMasterNode {
				m.Violation("never changes the recorded master", in, fmt.Sprintf("pass %d", pi))
			}
			if e.Kind == "SResetReplAll" && e.Err == "" {
				resets[e.Host] = append(resets[e.Host], e.TEnd)
				if !in.Aggressive {
					m.Violation("never resets a replica's replication configuration unless aggressive repair is enabled", in, e.Host)
				}
			}
		}
	}
	for h, ts := range resets {
		if len(ts) > in.MaxAttempts {
			m.Violation("resets a replica's replication configuration at most the per-method attempt limit", in, fmt.Sprintf("%s: %d resets, limit %d", h, len(ts), in.MaxAttempts))
		}
		for i := 1; i < len(ts); i++ {
			if ts[i]-ts[i-1] < int64(time.Minute) {
				m.Violation("resets respect the repair cooldown", in, fmt.Sprintf("%s: %ds apart", h, (ts[i]-ts[i-1])/1e9))
			}
		}
	}
	// convergence (fault-free, master healthy, >= 3 passes): every reachable registered HA node is read-only and,
	// unless its replication is broken beyond repair, a running replica of the master; stale masters offline + marked
	if in.Fault == nil && in.DcsFault == nil && in.Passes >= 3 && !in.Nodes[0].Down && in.Nodes[0].Source == "" {
		last := out.Passes[len(out.Passes)-1].After
		for i, c := range in.Nodes {
			h := fmt.Sprintf("h%d", i+1)
			if i == 0 || c.Down || c.Unregistered || c.Cascade != "" || h == out.Removed {
				continue
			}
			n := last[h]
			if !n.RO {
				m.Violation("repeated iterations make every reachable HA node read-only", in, h+" still writable")
			}
			if c.Source == "" { // stale master
				if !n.Offline || !out.Recovery[h] {
					m.Violation("stale masters are taken offline and marked for recovery", in, fmt.Sprintf("%s offline=%v marked=%v", h, n.Offline, out.Recovery[h]))
				}
				continue
			}
			broken := c.Threads == "perm" || c.Threads == "error" || c.Sticky
			if broken && c.Source != "h1" && (n.Chan == nil || n.Chan.Source != "h1") {
				// re-pointing does not depend on the state of the threads: an error of the receiver (the old source purged
				// its logs) is exactly what pointing the replica at the master cures, and no repair attempt was spent on it
				m.Violation("repeated iterations make every reachable HA node a replica of the recorded master (a replica in error that follows another host is re-pointed all the same)", in, fmt.Sprintf("%s chan=%+v", h, n.Chan))
			}
			if !broken {
				if n.Chan == nil || n.Chan.Source != "h1" || !n.Chan.IO || !n.Chan.SQL {
					m.Violation("repeated iterations make every reachable HA node a running replica of the recorded master", in, fmt.Sprintf("%s chan=%+v", h, n.Chan))
				}
			}
		}
	}
}

func c10Gen(o *vk.Out) c10In {
	r := o.Rng
	in := c10In{Aggressive: r.Intn(2) == 0, MaxAttempts: 1 + r.Intn(2), SemiSync: r.Intn(2) == 0, Passes: []int{1, 3, 3, 5}[r.Intn(4)], Gap: []int{5, 61, 61}[r.Intn(3)]}
	n := 3 + r.Intn(2)
	in.Nodes = append(in.Nodes, c10Node{RO: r.Intn(6) == 0, Offline: false, Source: "", SemiSync: []string{"none", "master"}[r.Intn(2)], Exec: "1-100"})
	for i := 2; i <= n; i++ {
		c := c10Node{RO: r.Intn(4) != 0, Offline: r.Intn(6) == 0, Source: "h1", Threads: []string{"running", "running", "stopped", "error", "perm"}[r.Intn(5)],
			SemiSync: []string{"none", "slave", "master"}[r.Intn(3)], Exec: []string{"1-100", "1-100", "1-90"}[r.Intn(3)], Lag: int64([]int{0, 0, 10, 400}[r.Intn(4)])}
		switch r.Intn(7) {
		case 0:
			c.Source = "" // stale master
			c.RO = r.Intn(2) == 0
		case 1:
			c.Source = fmt.Sprintf("h%d", 2+r.Intn(n-1)) // wrong source (maybe itself)
			if c.Source == fmt.Sprintf("h%d", i) {
				c.Source = "h9"
			}
		}
		if r.Intn(12) == 0 {
			c.Down = true
		}
		c.Sticky = c.Threads == "error" && r.Intn(2) == 0
		in.Nodes = append(in.Nodes, c)
	}
	// cascade replicas (stream_from: any host - chains, cycles, self-reference)
	nc := r.Intn(3)
	total := len(in.Nodes) + nc
	for k := nc; k > 0; k-- {
		sf := fmt.Sprintf("h%d", 1+r.Intn(total))
		c := c10Node{RO: true, Source: []string{"h1", sf, "h2"}[r.Intn(3)], Threads: []string{"running", "running", "stopped", "error"}[r.Intn(4)], SemiSync: "none",
			Cascade: sf, Exec: []string{"1-100", "1-90", "1-100"}[r.Intn(3)], Lag: int64([]int{0, 10, 400}[r.Intn(3)])}
		if r.Intn(8) == 0 {
			c.Extra = "1-2"
		}
		in.Nodes = append(in.Nodes, c)
	}
	// unregistered decoy
	if r.Intn(3) == 0 {
		in.Nodes = append(in.Nodes, c10Node{RO: false, Source: "", Exec: "1-50", Unregistered: true})
	}
	if r.Intn(3) == 0 {
		in.Mgr = 2 + r.Intn(n-1)
	}
	if in.Passes > 1 && r.Intn(5) == 0 {
		in.RemoveAfter = 2 + r.Intn(total-1)
		if r.Intn(2) == 0 && in.Mgr > 0 {
			in.RemoveAfter = in.Mgr // the manager's own host leaves the registry
		}
	}
	in.Workload = r.Intn(3) == 0
	in.Pulse = nc > 0 && r.Intn(3) == 0
	return in
}

func c10Drive(t *testing.T, o *vk.Out, m *vk.Meta, monitor func(*vk.Meta, c10In, c10Out), prefix string, n int) {
	run := func(in c10In) (out c10Out) {
		synctest.Test(t, func(t *testing.T) { out = c10Run(in) })
		return
	}
	dist := vk.Distinct{}
	imports := []string{"Gtid.GtidSet", "Base.Prog", "Base.Config", "Base.Replay", "Procs.NodeOps", "Procs.ActiveNodes", "Procs.Repair", "Corr.C13", "Corr.C10"}
	var cases []string
	shard := 0
	flush := func() {
		if len(cases) == 0 {
			return
		}
		o.CasesFile(fmt.Sprintf("%s_%02d", prefix, shard), imports, "repair_case", cases, "mismatches_repair")
		cases = nil
		shard++
	}
	add := func(in c10In, out c10Out) {
		monitor(m, in, out)
		for _, c := range c10Cases(in, out) {
			file := fmt.Sprintf("%s_%02d", prefix, shard)
			cases = append(cases, c)
			m.Cases[file] = append(m.Cases[file], in)
			m.Evaluations++
			if len(cases) >= 80 {
				flush()
			}
		}
	}
	for _, raw := range vk.CorpusInputs() {
		var in c10In
		if json.Unmarshal(raw, &in) == nil {
			add(in, run(in))
		}
	}
	// a cascade replica that fell back to the master while its configured source was away; the source is back, healthy,
	// replicating with a small lag - and still behind the cascade replica (or level with it): always
	for _, srcExec := range []string{"1-50", "1-99", "1-100"} {
		for _, mgr := range []int{0, 3} {
			in := c10In{Passes: 2, Gap: 5, MaxAttempts: 3, Mgr: mgr,
				Nodes: []c10Node{{RO: false, Source: "", Threads: "", SemiSync: "none", Exec: "1-100"},
					{RO: true, Source: "h1", Threads: "running", SemiSync: "none", Exec: srcExec, Lag: 2},
					{RO: true, Source: "h1", Threads: "running", SemiSync: "none", Exec: "1-100"},
					{RO: true, Source: "h1", Threads: "running", SemiSync: "none", Exec: "1-100", Cascade: "h2"}}}
			add(in, run(in))
		}
	}
	// membership changes between passes, always: a host (also the manager's own) leaves the registry while it still
	// needs repair - from then on it must not be touched
	for _, mgr := range []int{0, 2, 3} {
		for _, rem := range []int{2, 3} {
			for _, st := range []c10Node{{RO: false, Source: "h1", Threads: "running", SemiSync: "none", Exec: "1-100"},
				{RO: true, Source: "h1", Threads: "stopped", SemiSync: "none", Exec: "1-100"},
				{RO: true, Source: "h3", Threads: "running", SemiSync: "none", Exec: "1-100"}} {
				in := c10In{Passes: 3, Gap: 5, MaxAttempts: 3, Mgr: mgr, RemoveAfter: rem, Detach: true,
					Nodes: []c10Node{{RO: false, Source: "", Threads: "", SemiSync: "master", Exec: "1-100"},
						{RO: true, Source: "h1", Threads: "running", SemiSync: "none", Exec: "1-100"},
						{RO: true, Source: "h1", Threads: "running", SemiSync: "none", Exec: "1-100"}}}
				in.Nodes[rem-1] = st
				add(in, run(in))
				m.Count("host_leaves_registry")
			}
		}
	}
	for i := 0; i < n; i++ {
		in := c10Gen(o)
		out := run(in)
		add(in, out)
		m.Count(fmt.Sprintf("nodes_%d", len(in.Nodes)))
		m.Count(fmt.Sprintf("passes_%d", in.Passes))
		for _, p := range out.Passes {
			for _, e := range p.Trans {
				if e.Mut && e.Host != "" {
					m.Count("stmt_" + e.Kind)
				}
			}
		}
		dist.Add(fmt.Sprintf("%+v", in))
		if i == 3 {
			m.Sample(map[string]any{"input": in, "mutating_pass1": mutatingSummary(out.Passes[0].Trans)})
		}
		// targeted: a statement of the reset algorithm fails right after RESET REPLICA ALL ran
		{
			var all []vk.Entry
			for _, p := range out.Passes {
				all = append(all, p.Trans...)
			}
			for k, e := range all {
				if e.Kind == "SResetReplAll" && e.Err == "" {
					for j := k + 1; j < len(all) && j < k+4; j++ {
						if all[j].Host == e.Host && (all[j].Kind == "SStartRepl" || all[j].Kind == "SChangeSource") {
							nth := 0
							for _, p := range all[:j] {
								if p.Host == e.Host && p.Kind == all[j].Kind {
									nth++
								}
							}
							fin := in
							fin.Fault = &vk.Fault{Host: e.Host, Kind: all[j].Kind, Nth: nth, Action: "err:1872"}
							add(fin, run(fin))
							m.Count("with_fault_in_reset_algorithm")
						}
					}
					break
				}
			}
		}
		if i%2 == 0 {
			var visited []vk.Entry
			for _, p := range out.Passes {
				for _, e := range p.Trans {
					if e.Kind != "SRefused" && !ignoredKinds[e.Kind] {
						visited = append(visited, e)
					}
				}
			}
			if len(visited) > 0 {
				k := o.Rng.Intn(len(visited))
				e := visited[k]
				fin := in
				if e.Host != "" {
					nth := 0
					for _, p := range visited[:k] {
						if p.Host == e.Host && p.Kind == e.Kind {
							nth++
						}
					}
					fin.Fault = &vk.Fault{Host: e.Host, Kind: e.Kind, Nth: nth, Action: []string{"err:1105", "drop", "applydrop"}[o.Rng.Intn(3)]}
					if e.Kind == "SShowReplica" && o.Rng.Intn(2) == 0 {
						fin.Fault.Action = "unchannel" // the channel is removed from outside right before the status is read
					}
				} else if op := map[string]string{"DcsGet": "get", "DcsSet": "set", "DcsCreate": "create", "DcsChildren": "children"}[e.Kind]; op != "" {
					fin.DcsFault = &memFault{Op: op, Path: e.Arg, Nth: 0}
				}
				if fin.Fault != nil || fin.DcsFault != nil {
					add(fin, run(fin))
					m.Count("with_fault")
				}
			}
		}
	}
	flush()
	m.DistinctNontrivial = dist.Len()
	m.Rule = fmt.Sprintf("%d scenarios x 1-5 passes of the real App.repairCluster on 3-4 HA nodes + 0-2 cascade replicas (+ an unregistered decoy): read-only/offline flags, replication source in {master, other, none (stale master)}, threads running/stopped/error/permanent error, semi-sync flags, divergent GTIDs, cyclic / self / dangling stream_from, aggressive repair on/off, attempt limit 1-2, 5s or 61s between passes, single failing calls; distinct = distinct inputs", n)
	_ = strings.TrimSpace
}

func TestVerifC10(t *testing.T) {
	o := vk.Open()
	m := vk.NewMeta()
	var rp c10In
	if vk.ReplayInput(&rp) {
		var out c10Out
		synctest.Test(t, func(t *testing.T) { out = c10Run(rp) })
		c10Monitor(m, rp, out)
		m.Evaluations = 1
		o.WriteMeta("c10", m)
		return
	}
	n := 200
	if o.Thorough() {
		n = 2000
	}
	c10Drive(t, o, m, c10Monitor, "c10", n)
	o.WriteMeta("c10", m)
}

// ---------------------------------------------------------------- the master's side of the canonical state
// "repeated manager iterations ... bring the master online, writable and to the semi-sync setting implied by the active list":
// the real stateManager over healthy clusters whose master starts offline / read-only / with its semi-sync side off or
// waiting for the wrong number of replicas; judged on the fake servers after the fault-free iterations.
func c10MasterGen(o *vk.Out) mgrIn {
	r := o.Rng
	n := 2 + r.Intn(3)
	in := mgrIn{Master: "h1", Iter: 4, Gap: 5, FaultAt: -1, LockLostAt: -1,
		Cfg: mgrCfg{Failover: true, Delay: 30, Cooldown: 3600, Timeout: 300, MaxAttempts: 3, SemiSync: r.Intn(4) != 0}}
	for i := 0; i < n; i++ {
		in.Nodes = append(in.Nodes, mgrNode{})
	}
	in.Nodes[0].SS = []string{"", "off", "on", "count2", "off_count2"}[r.Intn(5)]
	in.Nodes[0].Offline = r.Intn(4) == 0
	in.Nodes[0].ReadOnly = r.Intn(3) == 0
	in.Nodes[0].ROOnly = in.Nodes[0].ReadOnly && r.Intn(2) == 0
	// the published list: the master alone (it was alone for a while), everything, or missing
	switch r.Intn(3) {
	case 0:
		in.Active = []string{"h1"}
	case 1:
		for i := 1; i <= n; i++ {
			in.Active = append(in.Active, fmt.Sprintf("h%d", i))
		}
	}
	return in
}

func c10MasterMonitor(m *vk.Meta, in mgrIn, out mgrOut) {
	if in.Fault != nil || in.DcsFault != nil || in.LockLostAt >= 0 || len(out.Steps) < 3 {
		return
	}
	last := out.Steps[len(out.Steps)-1]
	if last.Panic != "" {
		return
	}
	ms, ok := last.WorldAfter["h1"]
	if !ok {
		return
	}
	viol := func(what string) {
		m.Violations = append(m.Violations, map[string]any{"clause": "repeated manager iterations bring the master online, writable and to the semi-sync setting implied by the active list",
			"input": map[string]any{"master_side": in}, "detail": fmt.Sprintf("after %d iterations: %s", len(out.Steps), what), "signature": nil})
	}
	if ms.Offline {
		viol("the master is still offline")
	}
	if ms.RO {
		viol("the master is still read-only")
	}
	active := mgrActiveIn(last.TreeAfter)
	replicas := 0
	for _, h := range active {
		if h != "h1" {
			replicas++
		}
	}
	if in.Cfg.SemiSync {
		implied := min(len(active)/2, 1) // configured count 1
		if replicas > 0 && implied > 0 {
			if !ms.SSMaster {
				viol(fmt.Sprintf("active list %v contains replicas but rpl_semi_sync_master_enabled is off", active))
			} else if ms.WaitCount != implied {
				viol(fmt.Sprintf("active list %v implies waiting for %d, the master waits for %d", active, implied, ms.WaitCount))
			}
		}
	} else if ms.SSMaster {
		viol("semi-sync is not configured but the master's side is on")
	}
}

func TestVerifC10Master(t *testing.T) {
	o := vk.Open()
	m := vk.NewMeta()
	var rp struct {
		MasterSide *mgrIn `json:"master_side"`
	}
	if vk.ReplayInput(&rp) && rp.MasterSide != nil {
		var out mgrOut
		synctest.Test(t, func(t *testing.T) { out = mgrRun(*rp.MasterSide) })
		c10MasterMonitor(m, *rp.MasterSide, out)
		m.Evaluations = 1
		o.WriteMeta("c10m", m)
		return
	}
	n := 60
	if o.Thorough() {
		n = 600
	}
	mgrDrive(t, o, m, c10MasterMonitor, "c10m", n, c10MasterGen)
	m.Rule = "4 iterations of the real stateManager over healthy 2-4 node clusters; the master starts offline / read-only / semi-sync side off, on, or waiting for 2; active list = master alone, all, or missing; judged on the fake servers after the last iteration (fault-free runs)"
	o.WriteMeta("c10m", m)
}
