//go:build verif

package app

import (
	"fmt"
	"os"
	"testing"
	"testing/synctest"

	nodestate "github.com/yandex/mysync/internal/app/node_state"
	"github.com/yandex/mysync/internal/config"
	"github.com/yandex/mysync/internal/dcs"
	"github.com/yandex/mysync/internal/mysql"
	vk "github.com/yandex/mysync/internal/verifkit"
)

type c18Rep struct {
	Usage    int    `json:"usage"` // hundredths of a percent, -1 = no disk report
	Semi     bool   `json:"semi"`
	State    string `json:"state"` // running|stopped|error|none
	IsMaster bool   `json:"is_master"`
}
type c18In struct {
	MasterUsage int      `json:"master_usage"` // hundredths of a percent; -1 = missing; -2 = total 0 ; -3 = used>total
	MasterFlag  bool     `json:"master_is_master_in_dcs"`
	Reps        []c18Rep `json:"reps"`
	SemiSync    bool     `json:"semisync"`
	WaitCount   int      `json:"wait_count"` // master's wait count; -1 = semi-sync state unknown
	RO          bool     `json:"ro"`
	SuperRO     bool     `json:"super_ro"`
	Keep        bool     `json:"keep_super_writable"`
	Critical    int      `json:"critical"`     // hundredths
	NotCritical int      `json:"not_critical"` // hundredths
	Fault       string   `json:"fault"`        // "", "ro:err", "rw:err", "dcs:err"
}

type c18Out struct {
	Trans       []vk.Entry
	T0          int64
	Cfg         *config.Config
	MasterState *nodestate.NodeState
	States      map[string]*nodestate.NodeState
	After       vk.Node
	LowSpace    *bool
}

func diskOf(u int) *nodestate.DiskState {
	switch {
	case u == -1:
		return nil
	case u == -2:
		return &nodestate.DiskState{Used: 5, Total: 0}
	case u == -3:
		return &nodestate.DiskState{Used: 20000, Total: 10000}
	}
	if u >= c18Fine {
		return &nodestate.DiskState{Used: uint64(u - c18Fine), Total: 100000} // thousandths of a percent
	}
	return &nodestate.DiskState{Used: uint64(u), Total: 10000}
}

// c18Fine: usage values >= c18Fine are thousandths of a percent (u - c18Fine), for values within a rounding error of a threshold
const c18Fine = 1000000

func c18Run(in c18In) c18Out {
	var out c18Out
	dir, _ := os.MkdirTemp("", "c18")
	defer os.RemoveAll(dir)
	w := vk.NewWorld()
	vInstall(w)
	d := newMemDCS(w, "h1")
	d.silent = true
	n := 1 + len(in.Reps)
	for i := 1; i <= n; i++ {
		d.rawSet(dcs.JoinPath(pathHANodes, fmt.Sprintf("h%d", i)), mysql.NodeConfiguration{})
	}
	master := w.AddNode(&vk.Node{Host: "h1", UUID: hostUUID("h1"), Up: true, Executed: gset("h1", "1-10"), RO: in.RO, SuperRO: in.SuperRO})
	for i := 2; i <= n; i++ {
		h := fmt.Sprintf("h%d", i)
		w.AddNode(&vk.Node{Host: h, UUID: hostUUID(h), Up: true, Executed: gset("h1", "1-10"), RO: true, SuperRO: true, Chan: &vk.Chan{Source: "h1", IO: true, SQL: true}})
	}
	switch in.Fault {
	case "ro:err":
		for i := 0; i < 4; i++ {
			w.Faults = append(w.Faults, &vk.Fault{Host: "h1", Kind: "SSetRO", Nth: 0, Action: "err:1290"})
		}
	case "rw:err":
		w.Faults = append(w.Faults, &vk.Fault{Host: "h1", Kind: "SSetWritable", Nth: 0, Action: "err:1290"})
	case "dcs:err":
		d.faults = append(d.faults, &memFault{Op: "set", Path: pathLowSpace, Nth: 0})
	}
	va := newVApp(w, d, vAppOpts{Hostname: "h2", Dir: dir, Tune: func(cfg *config.Config) {
		cfg.SemiSync = in.SemiSync
		cfg.CriticalDiskUsage = float64(in.Critical) / 100
		cfg.NotCriticalDiskUsage = float64(in.NotCritical) / 100
		cfg.KeepSuperWritableOnCriticalDiskUsage = in.Keep
	}})
	defer va.close()
	ms := &nodestate.NodeState{PingOk: true, IsMaster: true, IsReadOnly: in.RO, IsSuperReadOnly: in.SuperRO}
	if in.WaitCount >= 0 {
		ms.SemiSyncState = &nodestate.SemiSyncState{MasterEnabled: in.WaitCount > 0, WaitSlaveCount: in.WaitCount}
	}
	states := map[string]*nodestate.NodeState{}
	states["h1"] = &nodestate.NodeState{PingOk: true, IsMaster: in.MasterFlag, DiskState: diskOf(in.MasterUsage)}
	for i, r := range in.Reps {
		h := fmt.Sprintf("h%d", i+2)
		ns := &nodestate.NodeState{PingOk: true, IsMaster: r.IsMaster, DiskState: diskOf(r.Usage), SemiSyncState: &nodestate.SemiSyncState{SlaveEnabled: r.Semi}}
		if r.State != "none" {
			ns.SlaveState = &nodestate.SlaveState{MasterHost: "h1", ReplicationState: r.State}
		}
		states[h] = ns
	}
	w.ResetTranscript()
	d.silent = false
	va.app.repairReadOnlyOnMaster(va.app.cluster.Get("h1"), ms, states)
	d.silent = true
	synctest.Wait()
	out.Trans = w.Transcript()
	out.Cfg = va.cfg
	out.MasterState = ms
	out.States = states
	w.Mu.Lock()
	out.After = *master
	w.Mu.Unlock()
	var ls bool
	if d.rawGet(pathLowSpace, &ls) {
		out.LowSpace = &ls
	}
	return out
}

// independent reading of the property
func c18Monitor(m *vk.Meta, in c18In, out c18Out) {
	usage := func(u int) float64 {
		switch u {
		case -2:
			return 0
		case -3:
			return 100
		}
		if u >= c18Fine {
			return float64(u-c18Fine) / 1000
		}
		return float64(u) / 100
	}
	crit, ncrit := float64(in.Critical)/100, float64(in.NotCritical)/100
	needRO := false
	masterGrey := false
	if in.MasterUsage != -1 && in.MasterFlag {
		if usage(in.MasterUsage) >= crit {
			needRO = true
		} else if usage(in.MasterUsage) > ncrit {
			masterGrey = true
		}
	}
	running, low, normal := 0, 0, 0
	for _, r := range in.Reps {
		if r.Usage == -1 || !in.SemiSync || !r.Semi || r.State != "running" {
			continue
		}
		running++
		if usage(r.Usage) >= crit {
			low++
		} else if usage(r.Usage) <= ncrit {
			normal++
		}
	}
	noGoodReplica := false
	if running > 0 {
		if in.WaitCount >= 0 && low > running-in.WaitCount {
			needRO = true
		} else if normal == 0 {
			noGoodReplica = true
		}
	}
	var setRO, setRW *vk.Entry
	for i := range out.Trans {
		e := &out.Trans[i]
		if e.Kind == "SSetRO" && setRO == nil {
			setRO = e
		}
		if e.Kind == "SSetWritable" {
			setRW = e
		}
		if e.Mut && e.Host != "" && e.Host != "h1" {
			m.Violation("only the master is touched by the disk guard", in, e.Kind+" on "+e.Host)
		}
	}
	wantSuper := !in.Keep
	alreadyInMode := in.RO && (in.SuperRO == wantSuper)
	if needRO {
		if (setRO != nil) != !alreadyInMode {
			m.Violation("read-only at critical usage (unless already in the required mode)", in, fmt.Sprintf("need_ro=true already=%v issued=%v", alreadyInMode, setRO != nil))
		}
		if setRO != nil && setRO.Arg != fmt.Sprint(wantSuper) {
			m.Violation("super-read-only unless configured to keep super users writable", in, "SET read-only super="+setRO.Arg)
		}
		if setRW != nil {
			m.Violation("never made writable while read-only is needed", in, "")
		}
	} else {
		if setRO != nil {
			m.Violation("read-only only at critical usage", in, "SET read-only issued")
		}
		mayWrite := !masterGrey && !noGoodReplica
		if (setRW != nil) != (mayWrite && in.RO) {
			m.Violation("writable again only when master (and a running semi-sync replica, if any) is at or below the non-critical level", in,
				fmt.Sprintf("may_write=%v ro=%v issued=%v", mayWrite, in.RO, setRW != nil))
		}
	}
	// low-space flag follows the last successful change
	if in.Fault == "" || (in.Fault == "ro:err" && setRO == nil) || (in.Fault == "rw:err" && setRW == nil) {
		switch {
		case setRO != nil:
			if out.LowSpace == nil || !*out.LowSpace {
				m.Violation("low-space flag follows the last change", in, "flag not true after read-only")
			}
		case setRW != nil:
			if out.LowSpace == nil || *out.LowSpace {
				m.Violation("low-space flag follows the last change", in, "flag not false after writable")
			}
		default:
			if out.LowSpace != nil {
				m.Violation("low-space flag untouched when nothing changed", in, "flag written")
			}
		}
	}
	if ((in.Fault == "ro:err" && setRO != nil) || (in.Fault == "rw:err" && setRW != nil)) && out.LowSpace != nil {
		m.Violation("low-space flag written only after a successful change", in, "flag written after failed statement")
	}
}

func c18Gen(o *vk.Out) c18In {
	r := o.Rng
	grid := []int{0, 8999, 9000, 9001, 9250, 9499, 9500, 9501, 10000, -1, -2, -3}
	in := c18In{MasterUsage: grid[r.Intn(len(grid))], MasterFlag: r.Intn(8) != 0, SemiSync: r.Intn(5) != 0, WaitCount: []int{0, 1, 1, 2, -1}[r.Intn(5)],
		RO: r.Intn(2) == 0, Keep: r.Intn(2) == 0, Critical: 9500, NotCritical: []int{9500, 9000, 9000}[r.Intn(3)]}
	if in.RO {
		in.SuperRO = r.Intn(2) == 0
	}
	k := r.Intn(4)
	for i := 0; i < k; i++ {
		in.Reps = append(in.Reps, c18Rep{Usage: grid[r.Intn(len(grid))], Semi: r.Intn(4) != 0, State: []string{"running", "running", "running", "stopped", "error", "none"}[r.Intn(6)], IsMaster: r.Intn(10) == 0})
	}
	if r.Intn(6) == 0 {
		in.Fault = []string{"ro:err", "rw:err", "dcs:err"}[r.Intn(3)]
	}
	if r.Intn(4) == 0 {
		// within a rounding error (0.004 points) of a threshold: the comparison is with the exact usage
		th := []int{in.Critical, in.NotCritical}[r.Intn(2)]
		in.MasterUsage = c18Fine + th*10 + []int{-4, 4, -1, 1}[r.Intn(4)]
		in.MasterFlag = true
	}
	return in
}

func c18Case(in c18In, out c18Out) string {
	return vk.T(cfgGal(out.Cfg), "1%N", nsGal(out.MasterState), statesGal(out.States), transcriptGal(out.Trans, 0, ""))
}

func TestVerifC18(t *testing.T) {
	o := vk.Open()
	m := vk.NewMeta()
	run := func(in c18In) (out c18Out) {
		synctest.Test(t, func(t *testing.T) { out = c18Run(in) })
		return
	}
	var rp c18In
	if vk.ReplayInput(&rp) {
		c18Monitor(m, rp, run(rp))
		m.Evaluations = 1
		o.WriteMeta("c18", m)
		return
	}
	n := 1500
	if o.Thorough() {
		n = 15000
	}
	dist := vk.Distinct{}
	imports := []string{"Gtid.GtidSet", "Base.Prog", "Base.Config", "Base.Replay", "Procs.NodeOps", "Procs.DiskGuard", "Corr.C13", "Corr.C18"}
	var cases []string
	shard := 0
	for i := 0; i < n; i++ {
		in := c18Gen(o)
		out := run(in)
		c18Monitor(m, in, out)
		file := fmt.Sprintf("c18_%02d", shard)
		cases = append(cases, c18Case(in, out))
		m.Cases[file] = append(m.Cases[file], in)
		m.Evaluations++
		act := "none"
		for _, e := range out.Trans {
			if e.Kind == "SSetRO" {
				act = "set_ro"
			}
			if e.Kind == "SSetWritable" {
				act = "set_writable"
			}
		}
		m.Count("action_" + act)
		m.Count("fault_" + in.Fault)
		m.Count(fmt.Sprintf("replicas_%d", len(in.Reps)))
		dist.Add(fmt.Sprintf("%+v", in))
		if i == 5 {
			m.Sample(map[string]any{"input": in, "action": act})
		}
		if len(cases) >= 500 {
			o.CasesFile(file, imports, "guard_case", cases, "mismatches_guard")
			cases = nil
			shard++
		}
	}
	if len(cases) > 0 {
		o.CasesFile(fmt.Sprintf("c18_%02d", shard), imports, "guard_case", cases, "mismatches_guard")
	}
	m.DistinctNontrivial = dist.Len()
	m.Rule = fmt.Sprintf("%d scenarios of the real App.repairReadOnlyOnMaster: master usage and 0-3 replicas from {0, thresholds +-0.01, 92.5, 100, missing, total=0, used>total}, semi-sync on/off, running/stopped/error/none replication, ack count 0-2/unknown, read-only/super state, both keep-super settings, not_critical = critical or lower, injected statement/DCS faults; distinct = distinct inputs", n)
	o.WriteMeta("c18", m)
}
