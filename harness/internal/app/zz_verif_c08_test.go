//go:build verif

package app

import (
	"fmt"
	"os"
	"testing"
	"testing/synctest"
	"time"

	"github.com/yandex/mysync/internal/config"
	"github.com/yandex/mysync/internal/dcs"
	"github.com/yandex/mysync/internal/mysql"
	vk "github.com/yandex/mysync/internal/verifkit"
)

// one scenario of the lost-state handler
type c08In struct {
	N            int      `json:"n"`              // HA hosts h1..hN ; local = h1
	LocalHA      bool     `json:"local_ha"`       // false: local is registered as cascade only
	LocalMaster  bool     `json:"local_master"`   // local has no replication channel
	Conds        []string `json:"conds"`          // condition of h2..hN
	SemiSync     bool     `json:"semisync"`
	DisableRO    bool     `json:"disable_ro"`
	WaitCount    int      `json:"wait_count"`     // local @@wait_for_slave_count
	Connected    bool     `json:"connected"`
	LostAgo      int      `json:"lost_ago_s"`     // -1: no loss clock; else clock set that many seconds ago
	Delay        int      `json:"inactivation_delay_s"`
	Stuck        int      `json:"stuck"`          // commits waiting for ACK on local
	Unkillable   bool     `json:"unkillable"`
	ExcludeUsers bool     `json:"exclude_users"`
	LocalFault   string   `json:"local_fault"` // "", "ro:err:1290", "ro:hang", "ro:drop", "ack:err", "offline:err", "semidisable:err", "ping:err", "isro:err"
	LocalRO      bool     `json:"local_ro"`
	Passes       int      `json:"passes,omitempty"` // >1: stateLost is run that many times, 5 s apart (the injected fault is transient: it hits the first pass only)
}

var c08Conds = []string{"streaming", "nosemi", "stopped_io", "stopped_sql", "wrong_source", "is_master", "refusing", "timeout", "semi_err", "status_err"}

type c08Out struct {
	State      string
	LostAt     int64 // ns since t0, -1 = zero
	Trans      []vk.Entry
	T0         int64
	Cfg        *config.Config
	LocalAfter vk.Node
	Others     map[string]vk.Node
}

func c08Run(in c08In) c08Out {
	var out c08Out
	dir, _ := os.MkdirTemp("", "c08")
	defer os.RemoveAll(dir)
	w := vk.NewWorld()
	vInstall(w)
	d := newMemDCS(w, "h1")
	d.silent = true
	t0 := time.Now()
	for i := 1; i <= in.N; i++ {
		h := fmt.Sprintf("h%d", i)
		if i == 1 && !in.LocalHA {
			d.rawSet(dcs.JoinPath(pathCascadeNodesPrefix, h), mysql.CascadeNodeConfiguration{StreamFrom: "h2"})
			continue
		}
		d.rawSet(dcs.JoinPath(pathHANodes, h), mysql.NodeConfiguration{Priority: 0})
	}
	local := w.AddNode(&vk.Node{Host: "h1", UUID: hostUUID("h1"), Up: true, Executed: gset("h1", "1-100"), SSMaster: in.SemiSync && in.LocalMaster,
		WaitCount: in.WaitCount, StuckCommits: in.Stuck, RO: in.LocalRO, SuperRO: in.LocalRO})
	local.Unkillable = in.Unkillable
	if !in.LocalMaster {
		local.Chan = &vk.Chan{Source: "h2", IO: true, SQL: true}
		local.RO, local.SuperRO = true, true
	}
	for i := 2; i <= in.N; i++ {
		h := fmt.Sprintf("h%d", i)
		n := w.AddNode(&vk.Node{Host: h, UUID: hostUUID(h), Up: true, Executed: gset("h1", "1-100"), RO: true, SuperRO: true,
			Chan: &vk.Chan{Source: "h1", IO: true, SQL: true}, SSSlave: true, SSSlaveEffective: true})
		switch in.Conds[i-2] {
		case "nosemi":
			n.SSSlave, n.SSSlaveEffective = false, false
		case "stopped_io":
			n.Chan.IO = false
		case "stopped_sql":
			n.Chan.SQL = false
		case "wrong_source":
			// a running replica of ANOTHER, reachable source (the rest of the cluster failed over to it)
			n.Chan.Source = "h9"
			if _, ok := w.Nodes["h9"]; !ok {
				w.AddNode(&vk.Node{Host: "h9", UUID: hostUUID("h9"), Up: true, Executed: gset("h1", "1-100")})
			}
		case "is_master":
			n.Chan = nil
		case "refusing":
			n.Up = false
		case "timeout":
			for p := 0; p < max(in.Passes, 1); p++ { // black-holed in every pass
				w.Faults = append(w.Faults, &vk.Fault{Host: h, Kind: "SShowReplica", Nth: 0, Action: "hang"})
			}
		case "semi_err":
			w.Faults = append(w.Faults, &vk.Fault{Host: h, Kind: "SSemiStatus", Nth: 0, Action: "err:1105"})
		case "status_err":
			w.Faults = append(w.Faults, &vk.Fault{Host: h, Kind: "SShowReplica", Nth: 0, Action: "err:1105"})
		}
	}
	switch in.LocalFault {
	case "ro:err:1290":
		w.Faults = append(w.Faults, &vk.Fault{Host: "h1", Kind: "SSetRO", Nth: 0, Action: "err:1290"}, &vk.Fault{Host: "h1", Kind: "SSetRO", Nth: 0, Action: "err:1290"},
			&vk.Fault{Host: "h1", Kind: "SSetRO", Nth: 0, Action: "err:1290"}, &vk.Fault{Host: "h1", Kind: "SSetRO", Nth: 0, Action: "err:1290"})
	case "ro:hang":
		for i := 0; i < 4; i++ {
			w.Faults = append(w.Faults, &vk.Fault{Host: "h1", Kind: "SSetRO", Nth: 0, Action: "hang"})
		}
	case "ro:drop":
		w.Faults = append(w.Faults, &vk.Fault{Host: "h1", Kind: "SSetRO", Nth: 0, Action: "drop"})
	case "ack:err":
		w.Faults = append(w.Faults, &vk.Fault{Host: "h1", Kind: "SWaitingAck", Nth: 0, Action: "err:1105"})
	case "offline:err":
		w.Faults = append(w.Faults, &vk.Fault{Host: "h1", Kind: "SSetOffline", Nth: 0, Action: "err:1105"})
	case "semidisable:err":
		w.Faults = append(w.Faults, &vk.Fault{Host: "h1", Kind: "SSemiDisable", Nth: 0, Action: "err:1105"})
	case "ping:err":
		w.Faults = append(w.Faults, &vk.Fault{Host: "h1", Kind: "SPing", Nth: 0, Action: "err:1040"})
	case "isro:err":
		w.Faults = append(w.Faults, &vk.Fault{Host: "h1", Kind: "SIsReadOnly", Nth: 0, Action: "err:1105"})
	}
	va := newVApp(w, d, vAppOpts{Hostname: "h1", Dir: dir, Tune: func(cfg *config.Config) {
		cfg.SemiSync = in.SemiSync
		cfg.DisableSetReadonlyOnLost = in.DisableRO
		cfg.InactivationDelay = time.Duration(in.Delay) * time.Second
		if in.ExcludeUsers {
			cfg.ExcludeUsers = []string{"admin"}
		}
	}})
	defer va.close()
	d.connected = in.Connected
	if in.LostAgo >= 0 {
		va.app.t.Set(ZKHALost, "h1", t0.Add(-time.Duration(in.LostAgo)*time.Second))
	}
	w.ResetTranscript()
	d.silent = false
	// IsConnected must answer although "disconnected": the memory DCS answers locally
	st := va.app.stateLost()
	for p := 1; p < in.Passes; p++ {
		time.Sleep(5 * time.Second)
		st = va.app.stateLost()
	}
	d.silent = true
	synctest.Wait() // let the fake servers finish recording hung statements
	out.State = string(st)
	la := va.app.t.Get(ZKHALost, "h1")
	out.LostAt = -1
	if !la.IsZero() {
		out.LostAt = la.UnixNano() - t0.UnixNano()
	}
	out.Trans = w.Transcript()
	out.T0 = t0.UnixNano()
	out.Cfg = va.cfg
	w.Mu.Lock()
	out.LocalAfter = *local
	out.Others = map[string]vk.Node{}
	for h, n := range w.Nodes {
		out.Others[h] = *n
	}
	w.Mu.Unlock()
	return out
}

func stateGal(s string) string {
	return map[string]string{"FirstRun": "StFirstRun", "Manager": "StManager", "Candidate": "StCandidate", "Lost": "StLost", "Maintenance": "StMaintenance"}[s]
}

func c08Case(in c08In, out c08Out) string {
	ha := []string{}
	for i := 1; i <= in.N; i++ {
		if i == 1 && !in.LocalHA {
			continue
		}
		ha = append(ha, fmt.Sprintf("h%d", i))
	}
	lostAt := "None"
	if in.LostAgo >= 0 {
		lostAt = vk.Some(vk.Z(-int64(in.LostAgo) * int64(time.Second)))
	}
	obsLost := "None"
	if out.LostAt != -1 {
		obsLost = vk.Some(vk.Z(out.LostAt))
	}
	env := "{| le_local := 1%N; le_ha_hosts := " + hostsGal(ha) + "; le_local_is_ha := " + vk.B(in.LocalHA) +
		"; le_local_is_cascade := " + vk.B(!in.LocalHA) + "; le_lost_at := " + lostAt + " |}"
	return vk.T(cfgGal(out.Cfg), env, transcriptGal(out.Trans, out.T0, ""), stateGal(out.State), obsLost)
}

// c08Monitor evaluates the property's clauses on the implementation's run.
func c08MonitorCalls(m *vk.Meta, in c08In, out c08Out) {
	// never promotes, re-points or un-fences anything while disconnected
	for _, e := range out.Trans {
		switch e.Kind {
		case "SSetWritable", "SChangeSource", "SResetReplAll", "SStartRepl", "SStartIO", "SStartSQL", "SSetOnline":
			m.Violation("while disconnected it never promotes, re-points or un-fences anything", in, fmt.Sprintf("%s on %s", e.Kind, e.Host))
		}
		if e.Mut && e.Host != "" && e.Host != "h1" {
			m.Violation("only the local node is changed in the lost state", in, fmt.Sprintf("%s on %s", e.Kind, e.Host))
		}
	}
}

func c08Monitor(m *vk.Meta, in c08In, out c08Out) {
	c08MonitorCalls(m, in, out)
	if in.Connected {
		return
	}
	haCount := in.N
	if !in.LocalHA {
		haCount = in.N - 1
	}
	attemptedRO := false
	for _, e := range out.Trans {
		if e.Kind == "SSetRO" && e.Host == "h1" {
			attemptedRO = true
		}
	}
	noop := haCount == 1 || !in.LocalHA || in.DisableRO
	if in.LocalFault == "ping:err" || in.LocalFault == "isro:err" {
		return // local node state unreadable: role unknown, outside the decision table
	}
	// live group
	good, unreachable := 0, 0
	for i := 2; i <= in.N; i++ {
		switch in.Conds[i-2] {
		case "streaming":
			good++
		case "nosemi":
			if !in.SemiSync {
				good++
			}
		case "timeout":
			unreachable++
		case "semi_err":
			if !in.SemiSync {
				good++
			}
		}
	}
	needed := haCount - 1
	if in.SemiSync {
		needed = in.WaitCount
	}
	live := in.LocalMaster && good >= needed
	elapsed := 0
	if unreachable > 0 {
		elapsed = 5 // db_lost_check_timeout spent waiting for the unreachable replica
	}
	postpone := unreachable > 0 && (in.LostAgo < 0 || in.LostAgo+elapsed <= in.Delay)
	mustFence := !noop && !live && !postpone
	if mustFence != attemptedRO {
		m.Violation("fence exactly when not provably safe (and not postponed / disabled / single node / non-HA)", in,
			fmt.Sprintf("must_fence=%v attempted_read_only=%v live_group=%v good=%d needed=%d unreachable=%d", mustFence, attemptedRO, live, good, needed, unreachable))
	}
	if mustFence && in.LocalFault == "" && !(in.Stuck > 0 && in.LocalMaster == false) {
		// with no injected SQL fault the node must end read-only; stuck commits on a master are cut (offline + semi-sync off)
		if !out.LocalAfter.RO {
			m.Violation("fenced node ends read-only (cutting sessions / disabling semi-sync when commits hang)", in,
				fmt.Sprintf("read_only=%v offline=%v semi_master=%v stuck=%d", out.LocalAfter.RO, out.LocalAfter.Offline, out.LocalAfter.SSMaster, out.LocalAfter.StuckCommits))
		}
	}
}

func c08Gen(o *vk.Out, i int) c08In {
	r := o.Rng
	in := c08In{N: 1 + r.Intn(4), LocalHA: r.Intn(8) != 0, LocalMaster: r.Intn(3) != 0, SemiSync: r.Intn(3) != 0, DisableRO: r.Intn(10) == 0,
		WaitCount: r.Intn(3), Connected: r.Intn(12) == 0, LostAgo: []int{-1, -1, 0, 10, 24, 26, 30, 31, 100}[r.Intn(9)], Delay: 30,
		ExcludeUsers: r.Intn(2) == 0, LocalRO: false}
	if !in.LocalHA && in.N == 1 {
		in.N = 2
	}
	for j := 2; j <= in.N; j++ {
		c := "streaming"
		if r.Intn(2) == 0 {
			c = c08Conds[r.Intn(len(c08Conds))]
		}
		in.Conds = append(in.Conds, c)
	}
	if in.LocalMaster && r.Intn(3) == 0 {
		in.Stuck = 1 + r.Intn(2)
		in.Unkillable = r.Intn(3) != 0
	}
	if r.Intn(4) == 0 {
		in.LocalFault = []string{"ro:err:1290", "ro:hang", "ro:drop", "ack:err", "offline:err", "semidisable:err", "ping:err", "isro:err"}[r.Intn(8)]
	}
	return in
}

func TestVerifC08(t *testing.T) {
	o := vk.Open()
	m := vk.NewMeta()
	run := func(in c08In) (out c08Out) {
		synctest.Test(t, func(t *testing.T) { out = c08Run(in) })
		return
	}
	var rp c08In
	if vk.ReplayInput(&rp) {
		out := run(rp)
		c08Monitor(m, rp, out)
		m.Evaluations = 1
		o.WriteMeta("c08", m)
		return
	}
	n := 400
	if o.Thorough() {
		n = 4000
	}
	dist := vk.Distinct{}
	var cases []string
	shard := 0
	for i := 0; i < n; i++ {
		in := c08Gen(o, i)
		out := run(in)
		c08Monitor(m, in, out)
		file := fmt.Sprintf("c08_%02d", shard)
		cases = append(cases, c08Case(in, out))
		m.Cases[file] = append(m.Cases[file], in)
		m.Evaluations++
		role := "replica"
		if in.LocalMaster {
			role = "master"
		}
		m.Count("role_" + role)
		m.Count("fault_" + in.LocalFault)
		m.Count(fmt.Sprintf("n_%d", in.N))
		m.Count("result_" + out.State)
		for _, c := range in.Conds {
			m.Count("cond_" + c)
		}
		if len(out.Trans) > 2 {
			dist.Add(fmt.Sprintf("%+v", in))
		}
		if i == 3 {
			m.Sample(map[string]any{"input": in, "state": out.State, "mutating": mutatingSummary(out.Trans)})
		}
		if len(cases) >= 100 {
			o.CasesFile(file, []string{"Gtid.GtidSet", "Base.Prog", "Base.Config", "Base.Replay", "Procs.NodeOps", "Procs.Lost", "Corr.C13", "Corr.C08"}, "lost_case", cases, "mismatches_lost", "Definition cov_sites := Eval vm_compute in (lost_sites cases).\nPrint cov_sites.")
			cases = nil
			shard++
		}
	}
	if len(cases) > 0 {
		o.CasesFile(fmt.Sprintf("c08_%02d", shard), []string{"Gtid.GtidSet", "Base.Prog", "Base.Config", "Base.Replay", "Procs.NodeOps", "Procs.Lost", "Corr.C13", "Corr.C08"}, "lost_case", cases, "mismatches_lost", "Definition cov_sites := Eval vm_compute in (lost_sites cases).\nPrint cov_sites.")
	}
	// the lost state persists: four passes, a transient SQL fault in the first one only.  Whatever failed then, a node that must
	// be fenced ends up read-only (with its stuck commits cut) once the fault is over.
	for i := 0; i < n/2; i++ {
		in := c08Gen(o, i)
		in.Connected, in.DisableRO, in.LocalHA, in.LostAgo, in.Passes = false, false, true, -1, 4
		if in.N < 2 {
			in.N, in.Conds = 2, []string{"stopped_io"}
		}
		for j := range in.Conds {
			switch in.Conds[j] {
			case "timeout", "semi_err", "status_err": // one-shot conditions would change the verdict between passes
				in.Conds[j] = "stopped_sql"
			}
		}
		if in.LocalFault == "ro:hang" || in.LocalFault == "ping:err" || in.LocalFault == "isro:err" || in.LocalFault == "" {
			in.LocalFault = []string{"semidisable:err", "offline:err", "ack:err", "ro:err:1290", "ro:drop"}[o.Rng.Intn(5)]
		}
		if o.Rng.Intn(3) == 0 {
			// a replica that stays unreachable (black-holed in every pass) with the loss clock already older than the delay:
			// the postponement is over, a failed fence attempt is retried in the next pass, not after another delay
			in.Conds[0], in.LostAgo = "timeout", 100
		}
		if in.LocalMaster && o.Rng.Intn(2) == 0 {
			in.Stuck, in.Unkillable = 1+o.Rng.Intn(2), true
		}
		one := in
		one.Passes, one.LocalFault = 1, ""
		ref := run(one)
		out := run(in)
		m.Evaluations++
		m.Count("multi_pass_fault_" + in.LocalFault)
		c08MonitorCalls(m, in, out)
		// the reference run (no fault, one pass) tells whether this situation is one that must be fenced
		fencedRef := ref.LocalAfter.RO
		if fencedRef && !out.LocalAfter.RO {
			m.Violation("a node that has to be fenced is read-only (stuck commits cut, semi-sync off) once a transient failure of one fencing step is over", in,
				fmt.Sprintf("after %d passes: read_only=%v offline=%v semi_master=%v stuck=%d (a single fault-free pass fences it)", in.Passes, out.LocalAfter.RO, out.LocalAfter.Offline, out.LocalAfter.SSMaster, out.LocalAfter.StuckCommits))
		}
	}
	m.DistinctNontrivial = dist.Len()
	m.Rule = fmt.Sprintf("%d scenarios of the real App.stateLost over fake MySQL servers under testing/synctest: cluster size 1-4, local role master/replica/non-HA, per-replica condition in %v, semi-sync on/off, wait count 0-2, fencing disabled or not, loss clock none/<,=,> inactivation delay, stuck (un)killable commits, injected SQL faults on the local node; distinct = distinct inputs whose run issued more than 2 external calls", n, c08Conds)
	o.WriteMeta("c08", m)
}
