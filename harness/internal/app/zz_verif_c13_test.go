//go:build verif

package app

import (
	"fmt"
	"sort"
	"strings"
	"testing"

	gomysql "github.com/go-mysql-org/go-mysql/mysql"
	"github.com/google/uuid"

	"github.com/yandex/mysync/internal/mysql/gtids"
	vk "github.com/yandex/mysync/internal/verifkit"
)

// ---- GTID test vocabulary shared by C13/C14 -----------------------------

var vUUIDs = []string{
	"00000000-0000-0000-0000-000000000000", // index 0 unused
	"6dbc5d2c-5d88-11ee-8c99-0242ac120001",
	"6dbc5d2c-5d88-11ee-8c99-0242ac120002",
	"6dbc5d2c-5d88-11ee-8c99-0242ac120003",
}
var vTags = []string{"", "tagx", "other_1"}

// preEntry is one (uuid, tag, closed intervals) section written into a string.
type preEntry struct {
	U   int        `json:"u"`
	T   int        `json:"t"`
	Ivs [][2]int64 `json:"ivs"`
}
type preSet []preEntry

// render builds a GTID string; noise adds tag case/space variation and leaves
// duplicate uuid sections as separate comma parts.
func (p preSet) render(noise bool, rng func(int) int) string {
	parts := []string{}
	for _, e := range p {
		var b strings.Builder
		u := vUUIDs[e.U]
		if noise && rng(2) == 0 {
			u = strings.ToUpper(u)
		}
		b.WriteString(u)
		if e.T != 0 {
			tg := vTags[e.T]
			if noise {
				switch rng(3) {
				case 0:
					tg = strings.ToUpper(tg)
				case 1:
					tg = " " + tg + " "
				}
			}
			b.WriteString(":" + tg)
		}
		for _, iv := range e.Ivs {
			if iv[0] == iv[1] {
				b.WriteString(fmt.Sprintf(":%d", iv[0]))
			} else {
				b.WriteString(fmt.Sprintf(":%d-%d", iv[0], iv[1]))
			}
		}
		s := b.String()
		if noise && rng(3) == 0 {
			s = " " + s
		}
		parts = append(parts, s)
	}
	return strings.Join(parts, ",")
}

func (p preSet) gal() string {
	es := []string{}
	for _, e := range p {
		ivs := []string{}
		for _, iv := range e.Ivs {
			ivs = append(ivs, vk.T(vk.Z(iv[0]), vk.Z(iv[1])))
		}
		es = append(es, vk.T(vk.N(uint64(e.U)), vk.N(uint64(e.T)), vk.L(ivs)))
	}
	return vk.L(es)
}

func uuidIndex(u uuid.UUID) int {
	for i, s := range vUUIDs {
		if uuid.MustParse(s) == u {
			return i
		}
	}
	return 99
}
func tagIndex(t gomysql.Tag) int {
	for i, s := range vTags {
		if t.String() == s {
			return i
		}
	}
	return 99
}

// dumpSet prints the parsed structure exactly as stored.
func dumpSet(g gtids.GTIDSet) string {
	ms := g.(*gomysql.MysqlGTIDSet)
	type ent struct {
		u, t int
		s    string
	}
	var es []ent
	for u, tm := range *ms {
		for t, sl := range tm {
			ivs := []string{}
			for _, iv := range sl {
				ivs = append(ivs, vk.T(vk.Z(iv.Start), vk.Z(iv.Stop)))
			}
			es = append(es, ent{uuidIndex(u), tagIndex(t), vk.L(ivs)})
		}
	}
	sort.Slice(es, func(i, j int) bool { return es[i].u < es[j].u || (es[i].u == es[j].u && es[i].t < es[j].t) })
	out := []string{}
	for _, e := range es {
		out = append(out, vk.T(vk.N(uint64(e.u)), vk.N(uint64(e.t)), e.s))
	}
	return vk.L(out)
}

// bitset reference: the set of (u,t,g) triples
type txn struct {
	u, t int
	g    int64
}

func refOf(g gtids.GTIDSet) map[txn]bool {
	r := map[txn]bool{}
	ms := g.(*gomysql.MysqlGTIDSet)
	for u, tm := range *ms {
		for t, sl := range tm {
			for _, iv := range sl {
				for x := iv.Start; x < iv.Stop; x++ {
					r[txn{uuidIndex(u), tagIndex(t), x}] = true
				}
			}
		}
	}
	return r
}
func refOfPre(p preSet) map[txn]bool {
	r := map[txn]bool{}
	for _, e := range p {
		for _, iv := range e.Ivs {
			for x := iv[0]; x <= iv[1]; x++ {
				r[txn{e.U, e.T, x}] = true
			}
		}
	}
	return r
}
func refSubset(a, b map[txn]bool) bool {
	for k := range a {
		if !b[k] {
			return false
		}
	}
	return true
}
func refEq(a, b map[txn]bool) bool { return refSubset(a, b) && refSubset(b, a) }
func refMinus(a, b map[txn]bool) map[txn]bool {
	r := map[txn]bool{}
	for k := range a {
		if !b[k] {
			r[k] = true
		}
	}
	return r
}

func parseDiffMsg(msg string) (kind int, ds, dr string, ok bool) {
	switch {
	case msg == "replica gtid equal source":
		return 0, "", "", true
	case strings.HasPrefix(msg, "split brain! source ahead on: "):
		rest := strings.TrimPrefix(msg, "split brain! source ahead on: ")
		p := strings.SplitN(rest, "; replica ahead on: ", 2)
		if len(p) != 2 {
			return 0, "", "", false
		}
		return 2, p[0], p[1], true
	case strings.HasPrefix(msg, "source ahead on: "):
		return 1, strings.TrimPrefix(msg, "source ahead on: "), "", true
	case strings.HasPrefix(msg, "replica ahead on: "):
		return 3, "", strings.TrimPrefix(msg, "replica ahead on: "), true
	}
	return 0, "", "", false
}

type c13PairIn struct {
	A  preSet `json:"a"` // replica
	B  preSet `json:"b"` // source/master
	Mu int    `json:"mu"`
	SA string `json:"sa"`
	SB string `json:"sb"`
}

// runs the real functions on one pair, returns the Gallina case and feeds the monitor
func c13Pair(m *vk.Meta, in c13PairIn) string {
	a := gtids.ParseGtidSet(in.SA)
	b := gtids.ParseGtidSet(in.SB)
	mu := uuid.MustParse(vUUIDs[in.Mu])
	behind := gtids.IsSlaveBehindOrEqual(a, b)
	ahead := gtids.IsSlaveAhead(a, b)
	split := gtids.IsSplitBrained(a, b, mu)
	msg, err := gtids.GTIDDiff(a, b)
	kind, dss, drs, ok := parseDiffMsg(msg)
	if err != nil || !ok {
		m.Violation("GTIDDiff returns a definite classification", in, fmt.Sprintf("msg=%q err=%v", msg, err))
		kind = 9
	}
	ds := gtids.ParseGtidSet(dss)
	dr := gtids.ParseGtidSet(drs)
	// ---- implementation-side monitor against the bitset reference
	ra, rb := refOfPre(in.A), refOfPre(in.B)
	if !refEq(refOf(a), ra) || !refEq(refOf(b), rb) {
		m.Violation("parser keeps exactly the written transactions", in, "parsed set differs from the written one")
	}
	sub := refSubset(ra, rb)
	if behind != sub {
		m.Violation("behind-or-equal iff subset", in, fmt.Sprintf("behind=%v subset=%v", behind, sub))
	}
	if ahead != !sub {
		m.Violation("ahead is the negation of behind-or-equal", in, fmt.Sprintf("ahead=%v subset=%v", ahead, sub))
	}
	if sub && split {
		m.Violation("subset is never split-brained", in, "IsSplitBrained=true for a subset")
	}
	foreign := false
	for k := range refMinus(ra, rb) {
		if k.u != in.Mu {
			foreign = true
		}
	}
	if foreign && !split {
		m.Violation("foreign extra transaction is always split-brained", in, "IsSplitBrained=false")
	}
	if !refEq(refOf(ds), refMinus(rb, ra)) || !refEq(refOf(dr), refMinus(ra, rb)) {
		m.Violation("difference text names exactly the two set differences", in, fmt.Sprintf("msg=%q", msg))
	}
	wantKind := 0
	switch e1, e2 := len(refMinus(rb, ra)) == 0, len(refMinus(ra, rb)) == 0; {
	case e1 && e2:
		wantKind = 0
	case !e1 && e2:
		wantKind = 1
	case !e1 && !e2:
		wantKind = 2
	default:
		wantKind = 3
	}
	if kind != wantKind {
		m.Violation("difference message kind matches emptiness of the differences", in, fmt.Sprintf("msg=%q", msg))
	}
	return "{| pc_a := " + in.A.gal() + "; pc_b := " + in.B.gal() + "; pc_mu := " + vk.N(uint64(in.Mu)) +
		"; pc_da := " + dumpSet(a) + "; pc_db := " + dumpSet(b) +
		"; pc_behind := " + vk.B(behind) + "; pc_ahead := " + vk.B(ahead) + "; pc_split := " + vk.B(split) +
		"; pc_kind := " + vk.Z(int64(kind)) + "; pc_ds := " + dumpSet(ds) + "; pc_dr := " + dumpSet(dr) +
		"; pc_contain_ba := " + vk.B(b.Contain(a)) + "; pc_equal := " + vk.B(b.Equal(a)) + " |}"
}

// subsetsToPre turns a bitmask over a small universe into a preSet
func maskToPre(mask int, universe []txn) preSet {
	by := map[[2]int][]int64{}
	for i, x := range universe {
		if mask&(1<<i) != 0 {
			k := [2]int{x.u, x.t}
			by[k] = append(by[k], x.g)
		}
	}
	keys := [][2]int{}
	for k := range by {
		keys = append(keys, k)
	}
	sort.Slice(keys, func(i, j int) bool { return keys[i][0] < keys[j][0] || (keys[i][0] == keys[j][0] && keys[i][1] < keys[j][1]) })
	var p preSet
	for _, k := range keys {
		e := preEntry{U: k[0], T: k[1]}
		for _, g := range by[k] {
			e.Ivs = append(e.Ivs, [2]int64{g, g})
		}
		p = append(p, e)
	}
	return p
}

func randPre(o *vk.Out, nu, nt int, maxg int64) preSet {
	var p preSet
	n := o.Rng.Intn(4)
	for i := 0; i < n; i++ {
		e := preEntry{U: 1 + o.Rng.Intn(nu), T: o.Rng.Intn(nt)}
		k := 1 + o.Rng.Intn(3)
		for j := 0; j < k; j++ {
			a := 1 + o.Rng.Int63n(maxg)
			b := a + o.Rng.Int63n(1+maxg/4)
			if o.Rng.Intn(3) == 0 {
				b = a
			}
			e.Ivs = append(e.Ivs, [2]int64{a, b})
		}
		p = append(p, e)
	}
	return p
}

// derive makes a set related to p: subset, superset, equal or perturbed
func derivePre(o *vk.Out, p preSet, nu, nt int, maxg int64) preSet {
	switch o.Rng.Intn(5) {
	case 0:
		return append(preSet{}, p...)
	case 1: // superset
		return append(append(preSet{}, p...), randPre(o, nu, nt, maxg)...)
	case 2: // subset: drop entries / shrink intervals
		var q preSet
		for _, e := range p {
			if o.Rng.Intn(3) == 0 {
				continue
			}
			e2 := preEntry{U: e.U, T: e.T}
			for _, iv := range e.Ivs {
				if iv[1] > iv[0] && o.Rng.Intn(2) == 0 {
					iv[1]--
				}
				e2.Ivs = append(e2.Ivs, iv)
			}
			q = append(q, e2)
		}
		return q
	case 3:
		return randPre(o, nu, nt, maxg)
	default: // p plus one extra transaction somewhere
		q := append(preSet{}, p...)
		g := 1 + o.Rng.Int63n(maxg+3)
		return append(q, preEntry{U: 1 + o.Rng.Intn(nu), T: o.Rng.Intn(nt), Ivs: [][2]int64{{g, g}}})
	}
}

type c13PosIn struct {
	Hosts []int    `json:"hosts"`
	Sets  []preSet `json:"sets"`
	Strs  []string `json:"strs"`
	Lags  []int64  `json:"lags"`
}

func c13Pos(m *vk.Meta, in c13PosIn) string {
	var ps []nodePosition
	refs := []map[txn]bool{}
	items := []string{}
	for i := range in.Hosts {
		ps = append(ps, nodePosition{host: fmt.Sprintf("h%d", in.Hosts[i]), gtidset: gtids.ParseGtidSet(in.Strs[i]), lag: float64(in.Lags[i])})
		refs = append(refs, refOfPre(in.Sets[i]))
		items = append(items, vk.T(vk.N(uint64(in.Hosts[i])), in.Sets[i].gal(), vk.Z(in.Lags[i])))
	}
	host, set, split := findMostRecentNodeAndDetectSplitbrain(ps)
	// monitor: is there a position containing all others?
	exists := false
	for i := range refs {
		all := true
		for j := range refs {
			if !refSubset(refs[j], refs[i]) {
				all = false
			}
		}
		if all {
			exists = true
		}
	}
	if split == exists {
		m.Violation("split brain reported exactly when no position contains all others", in, fmt.Sprintf("split=%v maximum_exists=%v", split, exists))
	}
	obs := vk.None()
	if !split {
		idx := -1
		for i := range ps {
			if ps[i].host == host {
				idx = i
			}
		}
		if idx < 0 {
			m.Violation("most recent node is one of the offered nodes", in, "host="+host)
		} else {
			for j := range refs {
				if !refSubset(refs[j], refOf(set)) {
					m.Violation("most recent node's set contains all the others", in, "host="+host)
				}
			}
		}
		var hn int
		fmt.Sscanf(host, "h%d", &hn)
		obs = vk.Some(vk.T(vk.N(uint64(hn)), dumpSet(set)))
	}
	return vk.T(vk.L(items), obs)
}

func TestVerifC13(t *testing.T) {
	o := vk.Open()
	m := vk.NewMeta()
	var rp struct {
		Pair *c13PairIn `json:"pair"`
		Pos  *c13PosIn  `json:"pos"`
	}
	if vk.ReplayInput(&rp) {
		if rp.Pair != nil {
			c13Pair(m, *rp.Pair)
		}
		if rp.Pos != nil {
			c13Pos(m, *rp.Pos)
		}
		m.Evaluations = 1
		o.WriteMeta("c13", m)
		return
	}
	dist := vk.Distinct{}
	rng := func(n int) int { return o.Rng.Intn(n) }
	var pairs []string
	addPair := func(a, b preSet, mu int, noise bool, file string) {
		in := c13PairIn{A: a, B: b, Mu: mu, SA: a.render(noise, rng), SB: b.render(noise, rng)}
		nb := len(m.Violations)
		c := c13Pair(m, in)
		// wrap replay input
		for i := nb; i < len(m.Violations); i++ {
			m.Violations[i]["input"] = map[string]any{"pair": in}
		}
		pairs = append(pairs, c)
		m.Cases[file] = append(m.Cases[file], map[string]any{"pair": in})
		m.Evaluations++
		if len(a) > 0 && len(b) > 0 {
			dist.Add(in.SA + "|" + in.SB)
		}
		if len(m.Samples) < 2 && len(a) > 1 && len(b) > 1 {
			m.Sample(map[string]any{"replica": in.SA, "source": in.SB, "master_uuid": mu})
		}
	}
	flush := func(file string) {
		o.CasesFile(file, []string{"Gtid.GtidSet", "Corr.C13"}, "pair_case", pairs, "mismatches_pair")
		pairs = nil
	}
	// (1) exhaustive small universe: U1:{1..4} U2:{1,2}  (64 sets, all 4096 ordered pairs), master uuid alternates
	uni := []txn{{1, 0, 1}, {1, 0, 2}, {1, 0, 3}, {1, 0, 4}, {2, 0, 1}, {2, 0, 2}}
	if o.Thorough() {
		uni = []txn{{1, 0, 1}, {1, 0, 2}, {1, 0, 3}, {1, 0, 4}, {2, 0, 1}, {2, 0, 2}, {2, 1, 1}}
	}
	n := 1 << len(uni)
	shard := 0
	for a := 0; a < n; a++ {
		for b := 0; b < n; b++ {
			addPair(maskToPre(a, uni), maskToPre(b, uni), 1+(a+b)%2, false, fmt.Sprintf("c13_pairs_%02d", shard))
			if len(pairs) >= 1024 {
				flush(fmt.Sprintf("c13_pairs_%02d", shard))
				shard++
			}
		}
	}
	m.CountN("pairs_exhaustive", n*n)
	// (2) random larger sets with gaps, 3 uuids, tags, noise, duplicate sections
	nr := 1500
	if o.Thorough() {
		nr = 12000
	}
	for i := 0; i < nr; i++ {
		a := randPre(o, 3, 3, 40)
		b := derivePre(o, a, 3, 3, 40)
		if o.Rng.Intn(2) == 0 {
			a, b = b, a
		}
		addPair(a, b, 1+o.Rng.Intn(3), true, fmt.Sprintf("c13_pairs_%02d", shard))
		if len(pairs) >= 1024 {
			flush(fmt.Sprintf("c13_pairs_%02d", shard))
			shard++
		}
	}
	m.CountN("pairs_random", nr)
	if len(pairs) > 0 {
		flush(fmt.Sprintf("c13_pairs_%02d", shard))
	}
	// (3) position lists of length 1..5
	var poss []string
	np := 1500
	if o.Thorough() {
		np = 10000
	}
	for i := 0; i < np; i++ {
		k := 1 + o.Rng.Intn(5)
		in := c13PosIn{}
		base := randPre(o, 2, 2, 12)
		for j := 0; j < k; j++ {
			var s preSet
			if j == 0 || o.Rng.Intn(4) == 0 {
				s = randPre(o, 2, 2, 12)
			} else {
				s = derivePre(o, base, 2, 2, 12)
			}
			if o.Rng.Intn(3) == 0 {
				base = s
			}
			in.Hosts = append(in.Hosts, j+1)
			in.Sets = append(in.Sets, s)
			in.Strs = append(in.Strs, s.render(false, rng))
			in.Lags = append(in.Lags, int64(o.Rng.Intn(4)))
		}
		nb := len(m.Violations)
		poss = append(poss, c13Pos(m, in))
		for x := nb; x < len(m.Violations); x++ {
			m.Violations[x]["input"] = map[string]any{"pos": in}
		}
		m.Cases["c13_pos"] = append(m.Cases["c13_pos"], map[string]any{"pos": in})
		m.Evaluations++
		m.Count(fmt.Sprintf("pos_len_%d", k))
		dist.Add("pos|" + strings.Join(in.Strs, "|"))
		if i == 7 {
			m.Sample(map[string]any{"positions": in.Strs, "lags": in.Lags})
		}
	}
	o.CasesFile("c13_pos", []string{"Gtid.GtidSet", "Corr.C13"}, "pos_case", poss, "mismatches_pos")
	m.DistinctNontrivial = dist.Len()
	m.Exhaustive = false
	m.Rule = fmt.Sprintf("all %d ordered pairs of subsets of a %d-transaction universe (2 uuids%s) + %d random pairs (3 uuids, 3 tags, gaps, overlapping/duplicate sections, case/space noise) through the real parser and gtids.{IsSlaveBehindOrEqual,IsSlaveAhead,IsSplitBrained,GTIDDiff}, Contain, Equal; %d random position lists of length 1-5 through findMostRecentNodeAndDetectSplitbrain; distinct = distinct (replica,source) string pairs with both non-empty + distinct position lists", n*n, len(uni), map[bool]string{true: ", one tag", false: ""}[o.Thorough()], nr, np)
	o.WriteMeta("c13", m)
}
