//go:build verif

package app

import (
	"strings"
	"encoding/json"
	"fmt"
	"os"
	"sort"
	"testing"
	"testing/synctest"
	"time"

	nodestate "github.com/yandex/mysync/internal/app/node_state"
	"github.com/yandex/mysync/internal/config"
	"github.com/yandex/mysync/internal/dcs"
	"github.com/yandex/mysync/internal/mysql"
	vk "github.com/yandex/mysync/internal/verifkit"
)

// situation of one replica (h2..hN)
var c04Situations = []string{"sync", "joining", "dead", "dead_health_ok", "dubious", "stopped", "error", "diverged", "lost_master", "cascade", "recovery", "recovery_dead", "recovery_dead_health_ok", "recovery_dubious", "lag_moving", "lag_stuck", "sync_not_in_list", "ahead"}

type c04In struct {
	N           int      `json:"n"`
	Sits        []string `json:"sits"` // for h2..hN
	OldActive   []string `json:"old_active"`
	SemiSync    bool     `json:"semisync"`
	WaitCfg     int      `json:"wait_cfg"`
	MasterFirst bool     `json:"master_first"`
	MasterWait  int      `json:"master_wait"`   // current wait count on master
	MasterSS    bool     `json:"master_ss"`     // semi-sync master enabled
	FailedAgo   []int    `json:"failed_ago_s"`  // per replica: -1 none, else seconds
	Fault       *vk.Fault `json:"fault"`
	DcsFault    *memFault `json:"dcs_fault"`
	FaultAt     int       `json:"fault_at"`     // -1 none; else index of visited call to fail (resolved into Fault/DcsFault)
}

type c04Out struct {
	Trans     []vk.Entry
	T0        int64
	Cfg       *config.Config
	State     map[string]*nodestate.NodeState
	StateDcs  map[string]*nodestate.NodeState
	MemBefore string
	MemAfter  string
	Err       error
	Nodes     map[string]vk.Node
	Before    map[string]vk.Node
	Published []string
	HasList   bool
}

func c04Run(in c04In) c04Out {
	vk.Running("active", in)
	var out c04Out
	dir, _ := os.MkdirTemp("", "c04")
	defer os.RemoveAll(dir)
	w := vk.NewWorld()
	vInstall(w)
	d := newMemDCS(w, "h1")
	d.silent = true
	t0 := time.Now()
	base := gset("h1", "1-100")
	master := w.AddNode(&vk.Node{Host: "h1", UUID: hostUUID("h1"), Up: true, Executed: base, SSMaster: in.MasterSS, WaitCount: in.MasterWait,
		Binlogs: [][2]string{{"binlog.000001", "1000"}, {"binlog.000002", "500000000"}, {"binlog.000003", "4000"}}})
	d.rawSet(dcs.JoinPath(pathHANodes, "h1"), mysql.NodeConfiguration{})
	for i := 2; i <= in.N; i++ {
		h := fmt.Sprintf("h%d", i)
		sit := in.Sits[i-2]
		n := w.AddNode(&vk.Node{Host: h, UUID: hostUUID(h), Up: true, Executed: base, Retrieved: base, RO: true, SuperRO: true,
			Chan: &vk.Chan{Source: "h1", IO: true, SQL: true}, SSSlave: true, SSSlaveEffective: true, ReadFile: "binlog.000003", ReadPos: 4000})
		if sit == "cascade" {
			d.rawSet(dcs.JoinPath(pathCascadeNodesPrefix, h), mysql.CascadeNodeConfiguration{StreamFrom: "h1"})
			n.SSSlave, n.SSSlaveEffective = false, false
		} else {
			d.rawSet(dcs.JoinPath(pathHANodes, h), mysql.NodeConfiguration{})
		}
		switch sit {
		case "joining", "sync_not_in_list":
			if sit == "joining" {
				n.SSSlave, n.SSSlaveEffective = false, false
			}
		case "stopped":
			n.Chan.SQL = false
		case "error":
			n.Chan.SQL = false
			n.Chan.SQLErrno = 1062
		case "diverged":
			n.Executed = vk.GtidUnion(base, vUUIDs[2]+":1-3")
		case "ahead":
			n.Executed = vk.GtidUnion(base, hostUUID("h1")+":101-102")
			n.SSSlave, n.SSSlaveEffective = false, false
		case "lost_master":
			n.Chan = nil
			n.RO, n.SuperRO = false, false
		case "recovery", "recovery_dead", "recovery_dead_health_ok", "recovery_dubious":
			d.rawSet(pathRecovery, nil)
			d.rawSet(dcs.JoinPath(pathRecovery, h), nil)
		case "lag_moving", "lag_stuck":
			n.SSSlave, n.SSSlaveEffective = false, false
			n.ReadFile, n.ReadPos = "binlog.000002", 1000
		}
	}
	va := newVApp(w, d, vAppOpts{Hostname: "h1", Dir: dir, Tune: func(cfg *config.Config) {
		cfg.SemiSync = in.SemiSync
		cfg.RplSemiSyncMasterWaitForSlaveCount = in.WaitCfg
		cfg.MasterFirstAdjustSSOrder = in.MasterFirst
	}})
	defer va.close()
	app := va.app
	// manager's view (not recorded): the real getClusterStateFromDB
	state := app.getClusterStateFromDB()
	stateDcs := map[string]*nodestate.NodeState{}
	for h, ns := range state {
		c := *ns
		stateDcs[h] = &c
	}
	// situations that only show after the view was taken / differ between the two views
	for i := 2; i <= in.N; i++ {
		h := fmt.Sprintf("h%d", i)
		switch strings.TrimPrefix(in.Sits[i-2], "recovery_") {
		case "dead", "dead_health_ok", "dubious":
			w.Mu.Lock()
			w.KillLocked(w.Nodes[h])
			w.Mu.Unlock()
			ns := *state[h]
			ns.PingOk = false
			ns.SlaveState = nil
			ns.SemiSyncState = nil
			ns.PingDubious = strings.TrimPrefix(in.Sits[i-2], "recovery_") == "dubious"
			state[h] = &ns
			if strings.TrimPrefix(in.Sits[i-2], "recovery_") == "dead" {
				c := ns
				stateDcs[h] = &c
			}
		case "lag_stuck":
			app.slaveReadPositions[h] = fmt.Sprintf("%s%019d", "binlog.000002", 1000)
		case "lag_moving":
			app.slaveReadPositions[h] = fmt.Sprintf("%s%019d", "binlog.000002", 10)
		}
		if i-2 < len(in.FailedAgo) && in.FailedAgo[i-2] >= 0 {
			app.t.Set(NodeFailedAt, h, t0.Add(-time.Duration(in.FailedAgo[i-2])*time.Second))
		}
	}
	d.rawSet(pathActiveNodes, in.OldActive)
	d.rawSet(pathMasterNode, "h1")
	if in.Fault != nil {
		f := *in.Fault
		w.Faults = append(w.Faults, &f)
	}
	if in.DcsFault != nil {
		f := *in.DcsFault
		d.faults = append(d.faults, &f)
	}
	out.MemBefore = anMemGal(app, t0.UnixNano())
	w.Mu.Lock()
	out.Before = map[string]vk.Node{}
	for h, n := range w.Nodes {
		out.Before[h] = n.Snapshot()
	}
	w.Mu.Unlock()
	w.ResetTranscript()
	d.silent = false
	out.Err = app.updateActiveNodes(state, stateDcs, in.OldActive, "h1")
	d.silent = true
	synctest.Wait()
	out.Trans = w.Transcript()
	out.T0 = t0.UnixNano()
	out.Cfg = va.cfg
	out.State, out.StateDcs = state, stateDcs
	out.MemAfter = anMemGal(app, t0.UnixNano())
	w.Mu.Lock()
	out.Nodes = map[string]vk.Node{}
	for h, n := range w.Nodes {
		out.Nodes[h] = *n
	}
	_ = master
	w.Mu.Unlock()
	out.HasList = d.rawGet(pathActiveNodes, &out.Published)
	return out
}

func c04Case(in c04In, out c04Out) string {
	env := "{| ae_master := 1%N; ae_master_uuid := 1%N; ae_state := " + statesGal(out.State) + "; ae_state_dcs := " + statesGal(out.StateDcs) +
		"; ae_old_active := " + hostsGal(in.OldActive) + " |}"
	return vk.T(cfgGal(out.Cfg), env, out.MemBefore, transcriptGal(out.Trans, out.T0, ""), vk.B(out.Err != nil), out.MemAfter)
}

// implementation-side monitor: membership clauses + eviction guard + (a)/(b)
func c04Monitor(m *vk.Meta, in c04In, out c04Out) {
	inList := func(h string) bool {
		for _, x := range out.Published {
			if x == h {
				return true
			}
		}
		return false
	}
	wasIn := func(h string) bool {
		for _, x := range in.OldActive {
			if x == h {
				return true
			}
		}
		return false
	}
	published := false
	var pingsBefore int
	for _, e := range out.Trans {
		if e.Kind == "SPing" && e.Host == "h1" && e.Err == "" {
			pingsBefore++
		}
		if e.Kind == "DcsSet" && e.Arg == pathActiveNodes && e.Resp == "ROk" {
			published = true
			evicts := false
			for _, h := range in.OldActive {
				if !inList(h) {
					evicts = true
				}
			}
			if evicts && pingsBefore == 0 {
				m.Violation("members are evicted only while the manager can reach the master", in, "list shrunk without a successful master ping in the same update")
			}
		}
	}
	// (a) and (b) for a completed, fault-free update on a healthy master (semi-sync configurations)
	if in.SemiSync && out.Err == nil && in.Fault == nil && in.DcsFault == nil && out.HasList {
		// (whether or not this update wrote the list: an update that decides nothing has to be done is a completed iteration too)
		for h, n := range out.Nodes {
			if h == "h1" || !n.Up || n.Chan == nil {
				continue
			}
			cascade := false
			for i := 2; i <= in.N; i++ {
				if fmt.Sprintf("h%d", i) == h && in.Sits[i-2] == "cascade" {
					cascade = true
				}
			}
			if !cascade && n.SSSlave && !inList(h) {
				m.Violation("(a) every reachable HA replica with semi-sync acknowledgement enabled is in the published list", in, h+" has rpl_semi_sync_slave_enabled=1 and is not in "+fmt.Sprint(out.Published))
			}
		}
		mn := out.Nodes["h1"]
		req := min(len(out.Published)/2, in.WaitCfg)
		eff := 0
		if mn.SSMaster {
			eff = mn.WaitCount
		}
		if eff < req {
			mv := m
			mv.Violations = append(mv.Violations, map[string]any{"clause": "(b) the master waits for at least the number of acknowledgements implied by the published list", "input": in,
				"detail": fmt.Sprintf("list=%v implies %d, master waits for %d (enabled=%v)", out.Published, req, mn.WaitCount, mn.SSMaster),
				"signature": map[string]any{"cause": map[string]string{"other": "unclassified"}[c04Kind(in)] + map[string]string{"download-lagging replica published": "download-lagging replica published while the count is computed without it"}[c04Kind(in)]}})
		}
	}
	if !published {
		return
	}
	for i := 2; i <= in.N; i++ {
		h := fmt.Sprintf("h%d", i)
		sit := in.Sits[i-2]
		switch sit {
		case "cascade":
			if inList(h) {
				m.Violation("the list never contains cascade replicas", in, h)
			}
		case "recovery", "recovery_dead", "recovery_dead_health_ok", "recovery_dubious":
			if inList(h) {
				m.Violation("the list never contains hosts marked for recovery", in, h+" ("+sit+")")
			}
		case "diverged":
			if inList(h) {
				m.Violation("the list never contains replicas with diverged transactions", in, h)
			}
		case "stopped", "error", "lost_master":
			if inList(h) {
				m.Violation("the list never contains replicas that are not replicating from the master", in, h+" "+sit)
			}
		case "lag_moving", "lag_stuck":
			if inList(h) && !out.Nodes[h].SSSlave {
				m.Violations = append(m.Violations, map[string]any{"clause": "the list never contains replicas still too far behind in download to be made semi-sync", "input": in,
					"detail": h + " (" + sit + ") is published in " + fmt.Sprint(out.Published) + " with rpl_semi_sync_slave_enabled=0", "signature": map[string]any{"cause": "download-lagging replica published while the count is computed without it"}})
			}
		case "dead":
			ago := -1
			if i-2 < len(in.FailedAgo) {
				ago = in.FailedAgo[i-2]
			}
			if inList(h) && (ago >= 30 || !wasIn(h)) {
				m.Violation("unreachable replicas leave the list after the inactivation delay (and never join)", in, fmt.Sprintf("%s failed %ds ago", h, ago))
			}
		}
	}
}

// c04AB evaluates (a) and (b) of the property on a snapshot of the fake servers and a list
func c04AB(in c04In, nodes map[string]vk.Node, list []string) (a, b bool) {
	a, b = true, true
	inl := map[string]bool{}
	for _, h := range list {
		inl[h] = true
	}
	for h, n := range nodes {
		if h == "h1" || !n.Up || n.Chan == nil {
			continue
		}
		cascade := false
		for i := 2; i <= in.N; i++ {
			if fmt.Sprintf("h%d", i) == h && in.Sits[i-2] == "cascade" {
				cascade = true
			}
		}
		if !cascade && n.SSSlave && !inl[h] {
			a = false
		}
	}
	mn := nodes["h1"]
	eff := 0
	if mn.SSMaster {
		eff = mn.WaitCount
	}
	if eff < min(len(list)/2, in.WaitCfg) {
		b = false
	}
	return
}

// c04Prefix: an update cut short by a failed call must not destroy (a)/(b) where they held before it.
// Each hit is classified by root cause (the finding signature).
func c04Prefix(m *vk.Meta, in c04In, out c04Out) {
	if !in.SemiSync || (in.Fault == nil && in.DcsFault == nil) {
		return
	}
	a0, b0 := c04AB(in, out.Before, in.OldActive)
	listAfter := in.OldActive
	if out.HasList {
		listAfter = out.Published
	}
	a1, b1 := c04AB(in, out.Nodes, listAfter)
	inl := func(l []string, h string) bool {
		for _, x := range l {
			if x == h {
				return true
			}
		}
		return false
	}
	sameList := fmt.Sprint(listAfter) == fmt.Sprint(in.OldActive)
	if a0 && !a1 {
		cause := "unclassified"
		for h, n := range out.Nodes {
			if h == "h1" || !n.Up || n.Chan == nil || !n.SSSlave || inl(listAfter, h) {
				continue
			}
			if inl(in.OldActive, h) {
				cause = "evicted from the list although disabling its semi-sync failed"
			} else if cause == "unclassified" {
				cause = "semi-sync enabled on a joining replica before the list containing it is published"
			}
		}
		m.Violations = append(m.Violations, map[string]any{"clause": "an update cut short by a failed call does not destroy (a) where it held before", "input": in,
			"detail": fmt.Sprintf("old list %v, list after %v", in.OldActive, listAfter), "signature": map[string]any{"cause": cause, "failing_call": c04FailingCall(in)}})
	}
	if b0 && !b1 {
		cause := "unclassified"
		switch {
		case sameList:
			cause = "master acknowledgement count lowered before the smaller list is published"
		case c04Kind(in) != "other":
			cause = "download-lagging replica published while the count is computed without it"
		default:
			cause = "larger list published although raising the master acknowledgement count failed"
		}
		m.Violations = append(m.Violations, map[string]any{"clause": "an update cut short by a failed call does not destroy (b) where it held before", "input": in,
			"detail": fmt.Sprintf("old list %v, list after %v, master wait=%d enabled=%v", in.OldActive, listAfter, out.Nodes["h1"].WaitCount, out.Nodes["h1"].SSMaster),
			"signature": map[string]any{"cause": cause, "failing_call": c04FailingCall(in)}})
	}
}

// c04FailingCall names the injected failure of the run: statement kind @ master|replica, or the coordination operation
func c04FailingCall(in c04In) string {
	switch {
	case in.Fault != nil:
		role := "replica"
		if in.Fault.Host == "h1" {
			role = "master"
		}
		return in.Fault.Kind + "@" + role
	case in.DcsFault != nil:
		return "dcs:" + in.DcsFault.Op + ":" + strings.SplitN(in.DcsFault.Path, "/", 2)[0]
	}
	return "none"
}

// c04Kind classifies the input for known-finding signatures
func c04Kind(in c04In) string {
	for _, s := range in.Sits {
		if s == "lag_moving" {
			return "download-lagging replica published"
		}
	}
	return "other"
}

func c04Gen(o *vk.Out) c04In {
	r := o.Rng
	in := c04In{N: 2 + r.Intn(4), SemiSync: r.Intn(6) != 0, WaitCfg: 1 + r.Intn(3), MasterFirst: r.Intn(2) == 0, FaultAt: -1}
	old := []string{"h1"}
	nsync := 0
	for i := 2; i <= in.N; i++ {
		s := "sync"
		if r.Intn(2) == 0 {
			s = c04Situations[r.Intn(len(c04Situations))]
		}
		in.Sits = append(in.Sits, s)
		h := fmt.Sprintf("h%d", i)
		switch s {
		case "sync":
			old = append(old, h)
			nsync++
		case "joining", "sync_not_in_list", "cascade", "lag_moving", "lag_stuck", "ahead":
		default:
			if r.Intn(3) != 0 {
				old = append(old, h)
			}
		}
		in.FailedAgo = append(in.FailedAgo, []int{-1, -1, 5, 29, 30, 31, 100}[r.Intn(7)])
	}
	if r.Intn(8) == 0 {
		old = []string{"h1"}
	}
	if r.Intn(15) == 0 {
		old = nil
	}
	sort.Strings(old)
	in.OldActive = old
	// master's current semi-sync setting: consistent with the old list most of the time
	req := min(len(old)/2, in.WaitCfg)
	if r.Intn(4) == 0 {
		req = r.Intn(3)
	}
	in.MasterWait = max(req, 1)
	in.MasterSS = req > 0 && in.SemiSync
	if r.Intn(10) == 0 {
		in.MasterSS = !in.MasterSS
	}
	return in
}

func TestVerifC04(t *testing.T) {
	o := vk.Open()
	m := vk.NewMeta()
	run := func(in c04In) (out c04Out) {
		synctest.Test(t, func(t *testing.T) { out = c04Run(in) })
		return
	}
	var rp c04In
	if vk.ReplayInput(&rp) {
		out := run(rp)
		c04Monitor(m, rp, out)
		c04Prefix(m, rp, out)
		m.Evaluations = 1
		o.WriteMeta("c04", m)
		return
	}
	n := 250
	if o.Thorough() {
		n = 2500
	}
	dist := vk.Distinct{}
	imports := []string{"Gtid.GtidSet", "Base.Prog", "Base.Config", "Base.Replay", "Procs.NodeOps", "Procs.ActiveNodes", "Corr.C13", "Corr.C04"}
	var cases []string
	shard := 0
	flush := func() {
		if len(cases) == 0 {
			return
		}
		o.CasesFile(fmt.Sprintf("c04_%02d", shard), imports, "an_case", cases, "mismatches_an", "Definition cov_sites := Eval vm_compute in (an_sites cases).\nPrint cov_sites.")
		cases = nil
		shard++
	}
	add := func(in c04In, out c04Out) {
		c04Monitor(m, in, out)
		c04Prefix(m, in, out)
		file := fmt.Sprintf("c04_%02d", shard)
		cases = append(cases, c04Case(in, out))
		m.Cases[file] = append(m.Cases[file], in)
		m.Evaluations++
		if len(cases) >= 60 {
			flush()
		}
	}
	for _, raw := range vk.CorpusInputs() {
		var in c04In
		if json.Unmarshal(raw, &in) == nil {
			add(in, run(in))
			m.Count("corpus")
		}
	}
	// steady membership, only the master's side is off: every listed replica is a healthy acker, nothing joins or
	// leaves, the master's plugin is off or its count is wrong (mysqld restarted, an operator touched it)
	for nn := 2; nn <= 5; nn++ {
		for wc := 1; wc <= 3; wc++ {
			for _, mf := range []bool{false, true} {
				in := c04In{N: nn, SemiSync: true, WaitCfg: wc, MasterFirst: mf, FaultAt: -1}
				old := []string{"h1"}
				for i := 2; i <= nn; i++ {
					in.Sits = append(in.Sits, "sync")
					in.FailedAgo = append(in.FailedAgo, -1)
					old = append(old, fmt.Sprintf("h%d", i))
				}
				in.OldActive = old
				req := min(len(old)/2, wc)
				for _, v := range []struct {
					w  int
					ss bool
				}{{max(req, 1), false}, {req + 1, true}, {max(req-1, 1), req > 1}} {
					x := in
					x.MasterWait, x.MasterSS = v.w, v.ss
					add(x, run(x))
					m.Count("steady_master_side_off")
				}
			}
		}
	}
	for i := 0; i < n; i++ {
		in := c04Gen(o)
		out := run(in)
		add(in, out)
		for _, s := range in.Sits {
			m.Count("sit_" + s)
		}
		m.Count(fmt.Sprintf("n_%d", in.N))
		dist.Add(fmt.Sprintf("%+v", in))
		if i == 2 {
			m.Sample(map[string]any{"input": in, "mutating": mutatingSummary(out.Trans), "published": out.Published})
		}
		// the same scenario with a single failing call at each visited call boundary (quick: a sample of them)
		visited := []vk.Entry{}
		for _, e := range out.Trans {
			if e.Kind != "SRefused" && !ignoredKinds[e.Kind] {
				visited = append(visited, e)
			}
		}
		step := 1
		if !o.Thorough() {
			step = 3
		}
		for k := o.Rng.Intn(step); k < len(visited); k += step {
			e := visited[k]
			fin := in
			if e.Host != "" {
				nth := 0
				for _, p := range visited[:k] {
					if p.Host == e.Host && p.Kind == e.Kind {
						nth++
					}
				}
				act := []string{"err:1105", "drop", "hang", "applydrop"}[o.Rng.Intn(4)]
				fin.Fault = &vk.Fault{Host: e.Host, Kind: e.Kind, Nth: nth, Action: act}
			} else {
				op := map[string]string{"DcsGet": "get", "DcsSet": "set", "DcsCreate": "create", "DcsDelete": "delete", "DcsChildren": "children"}[e.Kind]
				if op == "" {
					continue
				}
				nth := 0
				for _, p := range visited[:k] {
					if p.Host == "" && p.Kind == e.Kind && p.Arg == e.Arg {
						nth++
					}
				}
				fin.DcsFault = &memFault{Op: op, Path: e.Arg, Nth: nth}
			}
			fin.FaultAt = k
			add(fin, run(fin))
			m.Count("with_fault")
		}
	}
	flush()
	m.DistinctNontrivial = dist.Len()
	m.Rule = fmt.Sprintf("%d base scenarios of the real App.updateActiveNodes (2-5 nodes; per replica one of %v; old list consistent or not; configured count 1-3; both adjustment orders; semi-sync on/off; failure clocks around the inactivation delay) plus the same scenario with one failing / dropped / hanging / applied-then-dropped call at visited call boundaries; manager view obtained by the real getClusterStateFromDB; distinct = distinct base inputs", n, c04Situations)
	o.WriteMeta("c04", m)
}
