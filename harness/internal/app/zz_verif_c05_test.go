//go:build verif

package app

import (
	"encoding/json"
	"fmt"
	"strings"
	"testing"
	"testing/synctest"
	"time"

	"github.com/yandex/mysync/internal/dcs"
	vk "github.com/yandex/mysync/internal/verifkit"
)

func mgrSwitchIn(tree map[string]string, key string) *Switchover {
	b, ok := tree[key]
	if !ok {
		return nil
	}
	var sw Switchover
	if json.Unmarshal([]byte(b), &sw) != nil {
		return nil
	}
	return &sw
}

func mgrMasterIn(tree map[string]string) string {
	var m string
	_ = json.Unmarshal([]byte(tree[pathMasterNode]), &m)
	return m
}

func mgrActiveIn(tree map[string]string) []string {
	var a []string
	_ = json.Unmarshal([]byte(tree[pathActiveNodes]), &a)
	return a
}

// c05Monitor: every automatic failover request that appears was filed with every gate open (ground truth of
// the fakes and the harness' own record of what each iteration could observe)
func c05Monitor(m *vk.Meta, in mgrIn, out mgrOut) {
	faultFree := func(k int) bool {
		return !(k == in.FaultAt && (in.Fault != nil || in.DcsFault != nil || in.LockLostAt >= 0 || in.AbortAtStmt > 0))
	}
	badHealth := func(st mgrStep, master string) (bad, fsro, crash bool) {
		ns := st.Health[master]
		if ns == nil {
			return true, false, false
		}
		crash = ns.DaemonState != nil && ns.DaemonState.CrashRecovery
		return !ns.PingOk || ns.IsFileSystemReadonly, ns.IsFileSystemReadonly, crash
	}
	mgrHost := fmt.Sprintf("h%d", len(in.Nodes))
	if in.MgrHost > 0 && in.MgrHost <= len(in.Nodes) {
		mgrHost = fmt.Sprintf("h%d", in.MgrHost)
	}
	for k, st := range out.Steps {
		filed := false
		for _, e := range st.Trans {
			if e.Kind == "DcsCreate" && e.Arg == pathCurrentSwitch && e.Err == "" && e.Resp == "ROk" {
				filed = true
			}
		}
		master := mgrMasterIn(st.Tree)
		masterNode, known := st.WorldBefore[master]
		_, hasMaint := st.Tree[pathMaintenance]
		_, hasSwitch := st.Tree[pathCurrentSwitch]
		if filed {
			viol := func(clause, detail string) { m.Violation(clause, in, fmt.Sprintf("iteration %d: %s", k, detail)) }
			sw := mgrSwitchIn(st.TreeAfter, pathCurrentSwitch)
			if sw == nil || sw.Cause != CauseAuto {
				continue
			}
			if !in.Cfg.Failover {
				viol("an automatic failover is filed only if automatic failover is enabled", "failover: false")
			}
			if hasMaint {
				unread := false
				for _, e := range st.Trans {
					if e.Kind == "DcsGet" && e.Arg == pathMaintenance && e.Resp != "(RErr ENotFound)" && strings.HasPrefix(e.Resp, "(RErr") {
						unread = true
					}
				}
				v := map[string]any{"clause": "an automatic failover is filed only if no maintenance mode (full or light) is active", "input": in,
					"detail": fmt.Sprintf("iteration %d: %s", k, st.Tree[pathMaintenance])}
				if unread && !st.Files["maintenance"] {
					v["signature"] = map[string]any{"cause": "maintenance record unreadable in this iteration and no marker file: treated as no maintenance"}
				}
				m.Violations = append(m.Violations, v)
			}
			if hasSwitch {
				viol("an automatic failover is filed only if no other switch request is active", st.Tree[pathCurrentSwitch])
			}
			if master == "" || !known {
				continue
			}
			bad, fsro, crash := badHealth(st, master)
			crashExempt := crash && in.Cfg.ResetupCrashed
			if !bad && !crashExempt {
				viol("an automatic failover is filed only if the master's health record is bad", fmt.Sprintf("health of %s is good", master))
			}
			if !faultFree(k) {
				continue
			}
			if !fsro && !crashExempt {
				// (a) not every other HA node still replicating
				ha, repl := 0, 0
				for i, c := range in.Nodes {
					h := fmt.Sprintf("h%d", i+1)
					if c.Cascade || h == master {
						continue
					}
					if _, reg := st.WorldBefore[h]; !reg {
						continue
					}
					ha++
					n := st.WorldBefore[h]
					// replicating = both threads running, and the receiver is connected (with its source gone it is "Connecting")
					if n.Up && n.Chan != nil && n.Chan.IO && n.Chan.SQL {
						if src, ok := st.WorldBefore[n.Chan.Source]; ok && src.Up && !(h == mgrHost && st.CutNow[n.Chan.Source]) { // the replica on the manager's own host shares the manager's network
							repl++
						}
					}
				}
				if repl > 0 && repl == ha {
					viol("an automatic failover is not filed while every other HA node is still replicating", fmt.Sprintf("%d of %d replicas replicating", repl, ha))
				}
				// (b) bad at every evaluation by the current manager for at least the delay
				// an iteration evaluates the record iff it got as far as reading "no pending request"
				evaluated := func(s mgrStep) bool {
					for _, e := range s.Trans {
						if e.Kind == "DcsGet" && e.Arg == pathCurrentSwitch && e.Resp == "(RErr ENotFound)" {
							return true
						}
					}
					return false
				}
				first := k
				for j := k; j > 0 && !out.Steps[j].Restarted; j-- {
					p := out.Steps[j-1]
					if !evaluated(p) {
						continue
					}
					b, _, _ := badHealth(p, mgrMasterIn(p.Tree))
					if !b || mgrMasterIn(p.Tree) != master {
						break
					}
					first = j - 1
				}
				if since := st.T0 - out.Steps[first].T0; since < int64(in.Cfg.Delay)*int64(time.Second) {
					viol("an automatic failover is filed only after the master's health record has been bad at every evaluation by the current manager for at least the failover delay",
						fmt.Sprintf("bad for %ds, delay %ds", since/int64(time.Second), in.Cfg.Delay))
				}
			}
			// quorum of alive replicas in the published list
			active := mgrActiveIn(st.Tree)
			alive := 0
			for _, h := range active {
				n, ok := st.WorldBefore[h]
				idx := int(hostN(h)) - 1
				if ok && n.Up && n.Chan != nil && n.PingErrno == 0 && idx >= 0 && idx < len(in.Nodes) && !in.Nodes[idx].Cascade {
					alive++
				}
			}
			need := 1
			if in.Cfg.SemiSync {
				need = max(len(active)-min(len(active)/2, 1), 1)
			}
			if alive < need {
				viol("an automatic failover is filed only if the alive replicas in the published active list reach the failover quorum", fmt.Sprintf("alive %d of %v, quorum %d", alive, active, need))
			}
			if last := mgrSwitchIn(st.Tree, pathLastSwitch); last != nil && last.Result != nil && last.Cause == CauseAuto {
				ago := time.Duration(st.T0+vEpoch-last.Result.FinishedAt.UnixNano()) / time.Second
				if int(ago) < in.Cfg.Cooldown {
					viol("an automatic failover is filed only if the last successful automatic failover finished at least the cooldown ago", fmt.Sprintf("%ds ago, cooldown %ds", ago, in.Cfg.Cooldown))
				}
			}
			_ = masterNode
		}
		// suspicious master: unreachable for the manager, health record good
		unreachable := known && (!masterNode.Up || st.CutNow[master])
		if unreachable && faultFree(k) && !hasMaint && !hasSwitch && st.Panic == "" {
			bad, _, _ := badHealth(st, master)
			if !bad {
				if filed {
					m.Violation("a manager that cannot reach the master while the master's own health record is good files nothing", in, fmt.Sprintf("iteration %d", k))
				}
				for _, e := range st.Trans {
					if e.Mut && e.Host != "" {
						m.Violation("a manager that cannot reach the master while the master's own health record is good performs no repair in that iteration", in,
							fmt.Sprintf("iteration %d: %s %s on %s", k, e.Kind, e.Arg, e.Host))
						break
					}
				}
			}
		}
	}
}

func c05Gen(o *vk.Out) mgrIn {
	r := o.Rng
	if r.Intn(12) == 0 {
		// the "seems zk problems" gate in a cluster WITH a cascade replica: the master's own mysync reports it dead (or its
		// record is gone) while mysqld is fine and every HA replica still replicates; nothing may be filed however long
		n := 3 + r.Intn(2)
		in := mgrIn{Master: "h1", Iter: 4 + r.Intn(2), Gap: []int{2, 5, 16}[r.Intn(3)], LockLostAt: -1,
			Cfg: mgrCfg{Failover: true, Delay: []int{0, 3, 10}[r.Intn(3)], Cooldown: 0, Timeout: 300, MaxAttempts: 3, SemiSync: r.Intn(2) == 0, DisableSSOnMaint: true}}
		for i := 1; i <= n; i++ {
			in.Nodes = append(in.Nodes, mgrNode{})
			if i < n {
				in.Active = append(in.Active, fmt.Sprintf("h%d", i))
			}
		}
		in.Nodes[n-1].Cascade = true
		in.Nodes[0].Health = []string{"pingfail", "missing"}[r.Intn(2)]
		in.MgrHost = 2
		return in
	}
	if r.Intn(12) == 0 {
		// the suspicious-master guard with the crash flag: the manager cannot reach the master, the master's own record is good
		// and says "restarted after a crash", resetup_crashed_hosts is on, the replicas replicate: nothing is filed, nothing repaired
		n := 3 + r.Intn(2)
		in := mgrIn{Master: "h1", Iter: 3 + r.Intn(2), Gap: []int{2, 5}[r.Intn(2)], LockLostAt: -1,
			Cfg: mgrCfg{Failover: true, Delay: []int{0, 3}[r.Intn(2)], Cooldown: 0, Timeout: 300, MaxAttempts: 3, ResetupCrashed: true, SemiSync: r.Intn(2) == 0, DisableSSOnMaint: true}}
		for i := 1; i <= n; i++ {
			in.Nodes = append(in.Nodes, mgrNode{})
			in.Active = append(in.Active, fmt.Sprintf("h%d", i))
		}
		in.Nodes[0].Cut, in.Nodes[0].Health = true, "crash"
		in.MgrHost = 2
		return in
	}
	if r.Intn(12) == 0 {
		// the quorum gate: the master is dead, one replica of the published list is alive (replication stopped, so the
		// zk-problems gate is open) and another answers the manager's pings with 1040 while its own mysync reports it healthy
		in := mgrIn{Master: "h1", Iter: 4, Gap: 5, LockLostAt: -1, Active: []string{"h1", "h2", "h3"},
			Cfg: mgrCfg{Failover: true, Delay: 3, Cooldown: 0, Timeout: 300, MaxAttempts: 3, SemiSync: r.Intn(2) == 0, DisableSSOnMaint: true}}
		in.Nodes = []mgrNode{{Down: true, Health: "pingfail"}, {Stopped: true}, {Dubious: true}}
		if !in.Cfg.SemiSync {
			in.Active = []string{"h1", "h3"}
		}
		in.MgrHost = 2
		return in
	}
	n := 2 + r.Intn(3)
	in := mgrIn{Master: "h1", Iter: 2 + r.Intn(4), Gap: []int{1, 2, 5, 16}[r.Intn(4)], LockLostAt: -1,
		Cfg: mgrCfg{Failover: r.Intn(6) != 0, Delay: []int{0, 3, 10, 30}[r.Intn(4)], Cooldown: []int{0, 600, 3600}[r.Intn(3)], Timeout: 300,
			MaxAttempts: 3, ResetupCrashed: r.Intn(3) == 0, SemiSync: r.Intn(2) == 0, DisableSSOnMaint: true}}
	for i := 1; i <= n; i++ {
		c := mgrNode{}
		if i > 1 {
			switch r.Intn(8) {
			case 0:
				c.Down = true
			case 1:
				c.Stopped = true
			case 2:
				if n > 2 {
					c.Cascade = true
				}
			}
		}
		in.Nodes = append(in.Nodes, c)
	}
	for i := 1; i <= n; i++ {
		if !in.Nodes[i-1].Cascade && r.Intn(5) != 0 {
			in.Active = append(in.Active, fmt.Sprintf("h%d", i))
		}
	}
	// how the master fails
	switch r.Intn(7) {
	case 0, 1:
		in.Nodes[0].Down, in.Nodes[0].Health = true, "pingfail"
	case 2:
		in.Nodes[0].Down, in.Nodes[0].Health = true, "missing"
	case 3:
		in.Nodes[0].Cut = true // the manager cannot reach it, its own mysync reports it healthy: suspicious
	case 4:
		in.Nodes[0].Health = []string{"fsro", "crash"}[r.Intn(2)]
	case 5:
		in.Nodes[0].Health = "pingfail" // reachable for the manager, its own mysync says dead
	}
	if in.Nodes[0].Cut && r.Intn(2) == 0 {
		// unreachable for the manager, its own mysync reports it healthy - and restarted after a crash (the after-crash
		// failover path must not get in front of the suspicious-master guard)
		in.Nodes[0].Health = "crash"
		in.Cfg.ResetupCrashed = true
	}
	if r.Intn(8) == 0 {
		// dead (or unreachable) with the crash flag in its record: only resetup_crashed_hosts lifts the delay and the replication gate
		in.Nodes[0].Health = "crashfail"
		in.Nodes[0].Down = r.Intn(2) == 0
	}
	if r.Intn(3) == 0 {
		in.Last = &mgrLast{Cause: []string{CauseAuto, CauseAuto, CauseManual}[r.Intn(3)], FinishedAgo: []int{10, 700, 4000}[r.Intn(3)], NoResult: r.Intn(12) == 0}
	}
	if r.Intn(6) == 0 {
		in.Maint = &mgrMaint{Paused: r.Intn(2) == 0, Light: r.Intn(3) != 0}
	}
	if r.Intn(8) == 0 {
		in.Switch = &mgrSwitch{From: "h1", Cause: CauseAuto, Transition: "failover", InitiatedAgo: 2}
	}
	if r.Intn(5) == 0 {
		// flapping health record of an unreachable master: bad, good, bad - the delay must restart
		in.Nodes[0].Cut, in.Nodes[0].Health = true, "pingfail"
		if len(in.Nodes) > 1 {
			in.Nodes[1].Stopped = true
		}
		in.Iter, in.Gap, in.Cfg.Delay, in.Cfg.Failover = 3+r.Intn(2), []int{2, 5}[r.Intn(2)], []int{3, 8}[r.Intn(2)], true
		in.Maint, in.Switch = nil, nil
		in.Events = []mgrEvent{{At: 1, Kind: "health", Host: 1, Health: ""}, {At: 2, Kind: "health", Host: 1, Health: "pingfail"}}
		return in
	}
	for k := 1; k < in.Iter; k++ {
		switch r.Intn(9) {
		case 0:
			in.Events = append(in.Events, mgrEvent{At: k, Kind: "down", Host: 1}, mgrEvent{At: k, Kind: "health", Host: 1, Health: "pingfail"})
		case 1:
			in.Events = append(in.Events, mgrEvent{At: k, Kind: "up", Host: 1}, mgrEvent{At: k, Kind: "health", Host: 1, Health: ""})
		case 2:
			in.Events = append(in.Events, mgrEvent{At: k, Kind: "health", Host: 1, Health: []string{"", "pingfail", "missing", "fsro", "crash", "crashfail"}[r.Intn(6)]})
		case 3:
			in.Events = append(in.Events, mgrEvent{At: k, Kind: "restart"})
		case 4:
			in.Events = append(in.Events, mgrEvent{At: k, Kind: "nomaint"})
		case 5:
			in.Events = append(in.Events, mgrEvent{At: k, Kind: "abort"})
		}
	}
	return in
}

func TestVerifC05(t *testing.T) {
	o := vk.Open()
	m := vk.NewMeta()
	var rp mgrIn
	if vk.ReplayInput(&rp) {
		var out mgrOut
		synctest.Test(t, func(t *testing.T) { out = mgrRun(rp) })
		c05Monitor(m, rp, out)
		m.Evaluations = 1
		o.WriteMeta("c05", m)
		return
	}
	n := 120
	if o.Thorough() {
		n = 1200
	}
	mgrDrive(t, o, m, c05Monitor, "c05", n, c05Gen)
	mgrDrive(t, o, m, c05Monitor, "c05g", n/2, mgrGen)
	m.Rule = "2-5 iterations of the real App.stateManager over 2-4 hosts: master dead / unreachable-but-healthy / read-only filesystem / crash-recovered / reported dead by its own mysync, failover on/off, delay 0-30 s, cooldown, last switch auto/manual/none, maintenance full/light, pending requests, replica states, active lists, health flips and manager restarts between iterations, single failing calls; distinct = distinct inputs"
	_ = dcs.ErrNotFound
	o.WriteMeta("c05", m)
}
