//go:build verif

package app

import (
	"encoding/json"
	"fmt"
	"os"
	"strings"
	"testing"
	"testing/synctest"
	"time"

	"github.com/yandex/mysync/internal/config"
	"github.com/yandex/mysync/internal/dcs"
	"github.com/yandex/mysync/internal/mysql"
	vk "github.com/yandex/mysync/internal/verifkit"
)

// the marked host is h2; h1 is (usually) the recorded master, h3 a bystander
type c11In struct {
	Rel      string    `json:"rel"`  // my transactions vs the master's: behind | equal | ahead | diverged
	Repl     string    `json:"repl"` // none (no channel) | running | stopped | error
	RO       bool      `json:"ro"`
	Stuck    int       `json:"stuck"`   // commits waiting for a semi-sync ACK
	Resetup  bool      `json:"resetup"` // resetup file already there
	Marked   bool      `json:"marked"`
	Master   string    `json:"master"` // h1 | h2 | "" | h9
	Ticks    int       `json:"ticks"`
	Gap      int       `json:"gap_s"`
	Fault    *vk.Fault `json:"fault"`
	DcsFault *memFault `json:"dcs_fault"`
	FaultAt  int       `json:"fault_at"`
	FixAt    int       `json:"fix_at"` // >0: before this tick the manager repairs the host (read-only replica of h1, caught up)
}
type c11Step struct {
	Trans                   []vk.Entry
	Panic                   string
	MemBefore               string
	StuckBefore, StuckAfter int64
	T0                      int64
	FileBefore, FileAfter   bool
	MarkBefore, MarkAfter   bool
	Before, After           map[string]vk.Node
}
type c11Out struct {
	Steps []c11Step
	Cfg   *config.Config
}

func c11Run(in c11In) c11Out {
	vk.Running("recovery", in)
	var out c11Out
	dir, _ := os.MkdirTemp("", "c11")
	defer os.RemoveAll(dir)
	w := vk.NewWorld()
	vInstall(w)
	d := newMemDCS(w, "h2")
	d.silent = true
	u1, u2 := hostUUID("h1"), hostUUID("h2")
	w.AddNode(&vk.Node{Host: "h1", UUID: u1, Up: true, Executed: u1 + ":1-100"})
	mine := map[string]string{"behind": u1 + ":1-90", "equal": u1 + ":1-100", "ahead": u1 + ":1-105", "diverged": vk.GtidUnion(u1+":1-95", u2+":1-3")}[in.Rel]
	n2 := &vk.Node{Host: "h2", UUID: u2, Up: true, Executed: mine, RO: in.RO, SuperRO: in.RO, StuckCommits: in.Stuck}
	switch in.Repl {
	case "running":
		n2.Chan = &vk.Chan{Source: "h1", IO: true, SQL: true}
	case "stopped":
		n2.Chan = &vk.Chan{Source: "h1", IO: false, SQL: false}
	case "error":
		n2.Chan = &vk.Chan{Source: "h1", IO: true, SQL: false, SQLErrno: 1062, Sticky: true}
		n2.StickySQLErrno = 1062
	case "ioerror":
		// the receiver thread stopped on a fatal error (the master purged the binary logs this host needs), the applier is fine
		n2.Chan = &vk.Chan{Source: "h1", IO: false, SQL: true, IOErrno: 1236}
	}
	n2.Retrieved = n2.Executed
	w.AddNode(n2)
	w.AddNode(&vk.Node{Host: "h3", UUID: hostUUID("h3"), Up: true, Executed: u1 + ":1-100", RO: true, SuperRO: true, Chan: &vk.Chan{Source: "h1", IO: true, SQL: true}})
	for _, h := range []string{"h1", "h2", "h3"} {
		d.rawSet(dcs.JoinPath(pathHANodes, h), mysql.NodeConfiguration{})
	}
	w.AutoReplicate = false
	va := newVApp(w, d, vAppOpts{Hostname: "h2", Dir: dir})
	defer va.close()
	app := va.app
	out.Cfg = va.cfg
	time.Sleep(7 * time.Second)
	if in.Master != "" {
		d.rawSet(pathMasterNode, in.Master)
	}
	if in.Marked {
		d.rawSet(pathRecovery, nil)
		d.rawSet(dcs.JoinPath(pathRecovery, "h2"), nil)
	}
	if in.Resetup {
		writeFile(va.cfg.Resetupfile, "")
	}
	exists := func(p string) bool { _, err := os.Stat(p); return err == nil }
	snap := func() map[string]vk.Node {
		w.Mu.Lock()
		defer w.Mu.Unlock()
		r := map[string]vk.Node{}
		for h, n := range w.Nodes {
			r[h] = n.Snapshot()
		}
		return r
	}
	for k := 0; k < in.Ticks; k++ {
		if in.FixAt > 0 && k == in.FixAt {
			w.Mu.Lock()
			n2.Chan, n2.RO, n2.SuperRO, n2.StuckCommits = &vk.Chan{Source: "h1", IO: true, SQL: true}, true, true, 0
			if in.Rel == "behind" {
				n2.Executed = u1 + ":1-100"
			}
			w.Mu.Unlock()
		}
		var st c11Step
		st.MemBefore = "{| mm_ha := " + hostsGal(app.cluster.HANodeHosts()) + "; mm_casc := " + hostsGal(app.cluster.CascadeNodeHosts()) +
			"; mm_an := " + anMemGal(app, vEpoch) + "; mm_repair := " + repairMemGal(app) + " |}"
		st.StuckBefore = nsOf(app.t.Get(MasterStuckAt, "h2"))
		st.FileBefore, st.MarkBefore = exists(va.cfg.Resetupfile), d.rawHas(dcs.JoinPath(pathRecovery, "h2"))
		st.Before = snap()
		w.ResetTranscript()
		w.Faults, d.faults = nil, nil
		if k == in.FaultAt {
			if in.Fault != nil {
				f := *in.Fault
				w.Faults = append(w.Faults, &f)
			}
			if in.DcsFault != nil {
				f := *in.DcsFault
				d.faults = append(d.faults, &f)
			}
		}
		st.T0 = time.Now().UnixNano() - vEpoch
		d.silent = false
		func() {
			defer func() {
				if r := recover(); r != nil {
					st.Panic = fmt.Sprint(r)
				}
			}()
			app.checkRecovery()
		}()
		d.silent = true
		synctest.Wait()
		st.Trans = w.Transcript()
		st.StuckAfter = nsOf(app.t.Get(MasterStuckAt, "h2"))
		st.FileAfter, st.MarkAfter = exists(va.cfg.Resetupfile), d.rawHas(dcs.JoinPath(pathRecovery, "h2"))
		st.After = snap()
		out.Steps = append(out.Steps, st)
		if st.Panic != "" {
			break
		}
		time.Sleep(time.Duration(in.Gap) * time.Second)
	}
	return out
}

func c11Cases(in c11In, out c11Out) []string {
	var cs []string
	for _, st := range out.Steps {
		files := vk.L([]string{vk.T("2%N", vk.B(st.FileBefore))})
		cs = append(cs, vk.T("2%N", st.MemBefore, vk.Z(st.StuckBefore), transcriptGal(st.Trans, vEpoch, ""), vk.Z(st.T0), files,
			vk.Z(st.StuckAfter), vk.B(st.FileAfter), vk.B(st.Panic != "")))
	}
	return cs
}

func c11Monitor(m *vk.Meta, in c11In, out c11Out) {
	for k, st := range out.Steps {
		if st.Panic != "" {
			continue
		}
		me, master := st.After["h2"], st.After["h1"]
		if st.MarkBefore && !st.MarkAfter {
			var why []string
			if me.Chan == nil {
				why = append(why, "the host is not a replica")
			} else if me.Chan.SQLErrno != 0 || me.Chan.IOErrno != 0 {
				why = append(why, "its replication is in error")
			}
			if !me.RO {
				why = append(why, "it is not read-only")
			}
			if in.Master == "h1" && !vk.GtidContains(master.Executed, me.Executed) {
				why = append(why, fmt.Sprintf("it holds transactions the master lacks (%s vs %s)", me.Executed, master.Executed))
			}
			if st.FileAfter {
				why = append(why, "the resetup marker is present")
			}
			if st.Before["h2"].StuckCommits > 0 && in.Master != "h2" {
				why = append(why, "it still has commits stuck waiting for a semi-sync acknowledgement (transactions the master never saw)")
			}
			if len(why) > 0 {
				m.Violation("the mark is cleared only once the node is a read-only replica whose transactions are contained in the master's", in, fmt.Sprintf("tick %d: %v", k, why))
			}
		}
		faulty := k == in.FaultAt && (in.Fault != nil || in.DcsFault != nil)
		b := st.Before["h2"]
		if st.MarkBefore && !st.FileBefore && !faulty && in.Master == "h1" && b.Chan != nil && b.StuckCommits == 0 {
			lost := b.Chan.SQLErrno != 0 || b.Chan.IOErrno != 0 || !vk.GtidContains(st.Before["h1"].Executed, b.Executed)
			if lost {
				if !st.FileAfter {
					m.Violation("if it holds transactions the master lacks or its replication is in error the resetup marker file is written", in, fmt.Sprintf("tick %d: no resetup file", k))
				}
				if !st.MarkAfter {
					m.Violation("if it holds transactions the master lacks or its replication is in error the mark stays", in, fmt.Sprintf("tick %d: mark cleared", k))
				}
			}
		}
		if !st.MarkBefore && (st.FileAfter != st.FileBefore) {
			m.Violation("an unmarked host is left alone by the recovery check", in, fmt.Sprintf("tick %d: resetup file changed", k))
		}
	}
}

func c11Gen(o *vk.Out) c11In {
	r := o.Rng
	in := c11In{Rel: []string{"behind", "equal", "ahead", "diverged"}[r.Intn(4)], Repl: []string{"none", "running", "running", "stopped", "error", "ioerror"}[r.Intn(6)],
		RO: r.Intn(3) != 0, Stuck: []int{0, 0, 0, 2}[r.Intn(4)], Resetup: r.Intn(8) == 0, Marked: r.Intn(8) != 0,
		Master: []string{"h1", "h1", "h1", "h1", "h2", "", "h9"}[r.Intn(7)], Ticks: 1 + r.Intn(4), Gap: []int{5, 31, 61}[r.Intn(3)], FaultAt: 0}
	if in.Ticks > 1 && r.Intn(3) == 0 {
		in.FixAt = 1 + r.Intn(in.Ticks-1)
	}
	return in
}

// c11MarkRun: the real App.SetRecovery("h2") over one shape of the recovery subtree and the active list, with one failing
// coordination call
func c11MarkRun(t *testing.T, parent, child, other bool, active []string, fault string) (tr []vk.Entry, errStr string, has, inActive bool) {
	synctest.Test(t, func(t *testing.T) {
		dir, _ := os.MkdirTemp("", "c11m")
		defer os.RemoveAll(dir)
		w := vk.NewWorld()
		vInstall(w)
		d := newMemDCS(w, "h1")
		d.silent = true
		for _, h := range []string{"h1", "h2", "h3"} {
			w.AddNode(&vk.Node{Host: h, UUID: hostUUID(h), Up: true, Executed: hostUUID("h1") + ":1-10"})
			d.rawSet(dcs.JoinPath(pathHANodes, h), mysql.NodeConfiguration{})
		}
		va := newVApp(w, d, vAppOpts{Hostname: "h1", Dir: dir})
		defer va.close()
		if parent || child || other {
			d.rawSet(pathRecovery, nil)
		}
		if child {
			d.rawSet(dcs.JoinPath(pathRecovery, "h2"), nil)
		}
		if other {
			d.rawSet(dcs.JoinPath(pathRecovery, "h3"), nil)
		}
		if active != nil {
			d.rawSet(pathActiveNodes, active)
		}
		if fault != "" {
			var op, path string
			fmt.Sscanf(fault, "%s", &op)
			op, path = fault[:len(fault)-len(fault[len(op):])], ""
			for i := range fault {
				if fault[i] == ':' {
					op, path = fault[:i], fault[i+1:]
				}
			}
			d.faults = append(d.faults, &memFault{Op: op, Path: path, Nth: 0})
		}
		w.ResetTranscript()
		d.silent = false
		if err := va.app.SetRecovery("h2"); err != nil {
			errStr = err.Error()
		}
		d.silent = true
		tr = w.Transcript()
		has = d.rawHas(dcs.JoinPath(pathRecovery, "h2"))
		var a []string
		d.rawGet(pathActiveNodes, &a)
		for _, x := range a {
			if x == "h2" {
				inActive = true
			}
		}
	})
	return
}

func TestVerifC11(t *testing.T) {
	o := vk.Open()
	m := vk.NewMeta()
	run := func(in c11In) (out c11Out) {
		synctest.Test(t, func(t *testing.T) { out = c11Run(in) })
		return
	}
	var rpm struct {
		Mark *struct {
			Parent, Child, Other bool
			Active               []string
			Fault                string
		} `json:"mark"`
	}
	if vk.ReplayInput(&rpm) && rpm.Mark != nil {
		k := rpm.Mark
		_, errStr, has, inActive := c11MarkRun(t, k.Parent, k.Child, k.Other, k.Active, k.Fault)
		in := map[string]any{"mark": k}
		if !k.Child && has && inActive {
			m.Violation("while marked a host is never in the published active list", in, fmt.Sprintf("after SetRecovery (error: %q): mark present and still in active_nodes", errStr))
		}
		if errStr == "" && (!has || inActive) {
			m.Violation("a host that must be marked for recovery is marked (and taken out of the published list)", in, fmt.Sprintf("SetRecovery returned nil, mark present=%v, still in active list=%v", has, inActive))
		}
		m.Evaluations = 1
		o.WriteMeta("c11", m)
		return
	}
	var rp c11In
	if vk.ReplayInput(&rp) {
		c11Monitor(m, rp, run(rp))
		m.Evaluations = 1
		o.WriteMeta("c11", m)
		return
	}
	imports := []string{"Gtid.GtidSet", "Base.Prog", "Base.Config", "Base.Replay", "Procs.NodeOps", "Procs.ActiveNodes", "Procs.Switchover", "Procs.Repair", "Procs.Manager", "Procs.Recovery", "Corr.C13", "Corr.C11"}
	dist := vk.Distinct{}
	var cases []string
	shard := 0
	flush := func() {
		if len(cases) > 0 {
			o.CasesFile(fmt.Sprintf("c11_%02d", shard), imports, "rec_case", cases, "mismatches_rec")
			cases = nil
			shard++
		}
	}
	add := func(in c11In, out c11Out) {
		c11Monitor(m, in, out)
		for _, c := range c11Cases(in, out) {
			file := fmt.Sprintf("c11_%02d", shard)
			cases = append(cases, c)
			m.Cases[file] = append(m.Cases[file], in)
			m.Evaluations++
			if len(cases) >= 150 {
				flush()
			}
		}
	}
	for _, raw := range vk.CorpusInputs() {
		var in c11In
		if json.Unmarshal(raw, &in) == nil && in.Rel != "" {
			add(in, run(in))
		}
	}
	// the systematic part: every relation x replication state x read-only x stuck x resetup file x mark x master record
	for _, rel := range []string{"behind", "equal", "ahead", "diverged"} {
		for _, repl := range []string{"none", "running", "stopped", "error", "ioerror"} {
			for _, ro := range []bool{true, false} {
				for _, stuck := range []int{0, 2} {
					for _, master := range []string{"h1", "h2", "", "h9"} {
						for _, flags := range [][2]bool{{true, false}, {true, true}, {false, false}} {
							in := c11In{Rel: rel, Repl: repl, RO: ro, Stuck: stuck, Master: master, Marked: flags[0], Resetup: flags[1], Ticks: 3, Gap: 31}
							add(in, run(in))
							dist.Add(fmt.Sprintf("%+v", in))
						}
					}
				}
			}
		}
	}
	n := 150
	if o.Thorough() {
		n = 1500
	}
	for i := 0; i < n; i++ {
		in := c11Gen(o)
		out := run(in)
		add(in, out)
		dist.Add(fmt.Sprintf("%+v", in))
		m.Count("rel_" + in.Rel)
		m.Count("repl_" + in.Repl)
		for _, st := range out.Steps {
			if st.MarkBefore && !st.MarkAfter {
				m.Count("mark_cleared")
			}
			if !st.FileBefore && st.FileAfter {
				m.Count("resetup_written")
			}
			if st.Panic != "" {
				m.Count("panic")
			}
		}
		// one failing call
		var visited []vk.Entry
		for _, e := range out.Steps[0].Trans {
			if e.Kind != "SRefused" && !ignoredKinds[e.Kind] {
				visited = append(visited, e)
			}
		}
		if len(visited) > 0 {
			e := visited[o.Rng.Intn(len(visited))]
			fin := in
			if e.Host != "" {
				nth := 0
				for _, p := range visited {
					if p.Host == e.Host && p.Kind == e.Kind && p.Idx < e.Idx {
						nth++
					}
				}
				fin.Fault = &vk.Fault{Host: e.Host, Kind: e.Kind, Nth: nth, Action: []string{"err:1105", "drop"}[o.Rng.Intn(2)]}
			} else if op := map[string]string{"DcsGet": "get", "DcsChildren": "children", "DcsDelete": "delete"}[e.Kind]; op != "" {
				fin.DcsFault = &memFault{Op: op, Path: e.Arg, Nth: 0}
			}
			if fin.Fault != nil || fin.DcsFault != nil {
				add(fin, run(fin))
				m.Count("with_fault")
			}
		}
	}
	flush()
	// marking: the real App.SetRecovery over every shape of the recovery subtree and the active list
	{
		var mcases []string
		for _, parent := range []bool{false, true} {
			for _, child := range []bool{false, true} {
				for _, other := range []bool{false, true} {
					for _, active := range [][]string{nil, {"h1", "h2", "h3"}, {"h1", "h3"}, {"h2"}} {
						for _, fault := range []string{"", "get:active_nodes", "set:active_nodes", "create:recovery", "create:recovery/h2"} {
							tr, errStr, has, inActive := c11MarkRun(t, parent, child, other, active, fault)
							in := map[string]any{"mark": map[string]any{"parent": parent, "child": child, "other": other, "active": active, "fault": fault}}
							if !child && has && inActive {
								// whatever call failed: a marked host is never in the published list (the host leaves the list BEFORE the mark is created)
								m.Violation("while marked a host is never in the published active list", in, fmt.Sprintf("after SetRecovery (error: %q): mark present and still in active_nodes", errStr))
							}
							if errStr == "" && (!has || inActive) {
								m.Violation("a host that must be marked for recovery is marked (and taken out of the published list)", in, fmt.Sprintf("SetRecovery returned nil, mark present=%v, still in active list=%v", has, inActive))
							}
							mcases = append(mcases, vk.T("2%N", transcriptGal(tr, vEpoch, ""), vk.B(errStr == "")))
							m.Cases["c11_mark"] = append(m.Cases["c11_mark"], in)
							m.Evaluations++
						}
					}
				}
			}
		}
		o.CasesFile("c11_mark", imports, "mark_case", mcases, "mismatches_mark")
	}
	m.DistinctNontrivial = dist.Len()
	m.Rule = "the real App.checkRecovery on the marked host, 1-4 ticks 5-61 s apart: all 4 relations of its transaction set to the master's x replication none/running/stopped/error x read-only x stuck semi-sync commits x resetup file x mark present x recorded master (other host / itself / missing / unregistered) systematically (768 combinations x 3 ticks), plus random scenarios with the manager repairing the host in between and single failing calls; distinct = distinct inputs"
	o.WriteMeta("c11", m)
}

// TestVerifC11Active: "while marked it is never in the published active list (unless it is the recorded master)":
// the real updateActiveNodes over a marked host in every reachability situation (alive and replicating, dead within /
// beyond the inactivation delay, dead with a health record still present, dubious ping), in and out of the old list,
// semi-sync on and off; replayed against calc_active_nodes / update_active_nodes (C11_marked_host_is_not_active is
// proved about that model)
func TestVerifC11Active(t *testing.T) {
	o := vk.Open()
	m := vk.NewMeta()
	run := func(in c04In) (out c04Out) {
		synctest.Test(t, func(t *testing.T) { out = c04Run(in) })
		return
	}
	var rp c04In
	if vk.ReplayInput(&rp) && rp.N > 0 {
		c04Monitor(m, rp, run(rp))
		m.Evaluations = 1
		o.WriteMeta("c11active", m)
		return
	}
	imports := []string{"Gtid.GtidSet", "Base.Prog", "Base.Config", "Base.Replay", "Procs.NodeOps", "Procs.ActiveNodes", "Corr.C13", "Corr.C04"}
	var cases []string
	shard := 0
	flush := func() {
		if len(cases) > 0 {
			o.CasesFile(fmt.Sprintf("c11a_%02d", shard), imports, "an_case", cases, "mismatches_an")
			cases = nil
			shard++
		}
	}
	dist := vk.Distinct{}
	for _, sit := range []string{"recovery", "recovery_dead", "recovery_dead_health_ok", "recovery_dubious"} {
		for _, n := range []int{2, 3, 4} {
			for _, inOld := range []bool{true, false} {
				for _, ago := range []int{-1, 5, 31} {
					for _, ss := range []bool{true, false} {
						in := c04In{N: n, SemiSync: ss, WaitCfg: 1, MasterFirst: ago == 5, FaultAt: -1, Sits: []string{sit}, FailedAgo: []int{ago}}
						old := []string{"h1"}
						if inOld {
							old = append(old, "h2")
						}
						for i := 3; i <= n; i++ {
							in.Sits = append(in.Sits, "sync")
							in.FailedAgo = append(in.FailedAgo, -1)
							old = append(old, fmt.Sprintf("h%d", i))
						}
						in.OldActive = old
						req := min(len(old)/2, 1)
						in.MasterWait, in.MasterSS = max(req, 1), req > 0 && ss
						out := run(in)
						c04Monitor(m, in, out)
						file := fmt.Sprintf("c11a_%02d", shard)
						cases = append(cases, c04Case(in, out))
						m.Cases[file] = append(m.Cases[file], in)
						m.Evaluations++
						m.Count("sit_" + sit)
						dist.Add(fmt.Sprintf("%+v", in))
						if len(cases) >= 60 {
							flush()
						}
					}
				}
			}
		}
	}
	flush()
	m.DistinctNontrivial = dist.Len()
	m.Exhaustive = true
	m.Rule = "the real updateActiveNodes with host h2 marked for recovery x {alive and replicating, dead, dead with a health record, dubious ping} x in / not in the old list x failure clock none / 5 s / 31 s x semi-sync on / off x 2-4 hosts (complete grid); published list checked by the monitor and the run replayed against the model"
	o.WriteMeta("c11active", m)
}

// TestVerifC11Stale: "a host found claiming to be master beside the recorded one is marked for recovery" - also when turning it
// into a replica fails half way.  The real repairCluster over a cluster with a stale master (no replication channel, not the
// recorded master); each statement of its repair fails once in turn; after the passes the host must carry the mark (only its
// own check may take it away, and that check sends a diverged host to resetup).
func TestVerifC11Stale(t *testing.T) {
	o := vk.Open()
	m := vk.NewMeta()
	run := func(in c10In) (out c10Out) {
		synctest.Test(t, func(t *testing.T) { out = c10Run(in) })
		return
	}
	check := func(in c10In, out c10Out, stale []string) {
		m.Evaluations++
		for _, p := range out.Passes {
			if p.Panic != "" {
				return
			}
		}
		for _, h := range stale {
			// taken offline as well, whichever OTHER statement of the repair failed (going offline is the first step)
			if last := out.Passes[len(out.Passes)-1].After[h]; !last.Offline && (in.Fault == nil || in.Fault.Kind != "SSetOffline") && in.DcsFault == nil {
				m.Violation("stale masters are additionally taken offline and marked for recovery", map[string]any{"stale": in},
					fmt.Sprintf("%s is not in offline mode after %d passes (failing call: %+v)", h, len(out.Passes), in.Fault))
			}
			if !out.Recovery[h] {
				m.Violation("a host found claiming to be master beside the recorded one is marked for recovery", map[string]any{"stale": in},
					fmt.Sprintf("%s is not marked after %d passes (failing call: %+v)", h, len(out.Passes), in.Fault))
			}
		}
	}
	var rp struct {
		Stale *c10In `json:"stale"`
	}
	if vk.ReplayInput(&rp) && rp.Stale != nil {
		var stale []string
		for i, c := range rp.Stale.Nodes {
			if i > 0 && c.Source == "" && !c.Down && !c.Unregistered {
				stale = append(stale, fmt.Sprintf("h%d", i+1))
			}
		}
		check(*rp.Stale, run(*rp.Stale), stale)
		o.WriteMeta("c11stale", m)
		return
	}
	for _, n := range []int{3, 4} {
		for _, extra := range []string{"", "1-7"} {
			for _, roc := range []string{"rw", "ro", "rw/cascade", "ro/cascade"} {
				// "cascade": the stale master is registered as a cascade replica (restored from a backup, promoted by hand)
				ro, casc := strings.HasPrefix(roc, "ro"), ""
				if strings.HasSuffix(roc, "cascade") {
					casc = "h3"
				}
				in := c10In{Passes: 3, Gap: 5, MaxAttempts: 3}
				in.Nodes = append(in.Nodes, c10Node{Source: "", SemiSync: "none", Exec: "1-100"})
				in.Nodes = append(in.Nodes, c10Node{RO: ro, Source: "", SemiSync: "none", Exec: "1-100", Extra: extra, Cascade: casc}) // h2: the stale master
				for i := 3; i <= n; i++ {
					in.Nodes = append(in.Nodes, c10Node{RO: true, Source: "h1", Threads: "running", SemiSync: "none", Exec: "1-100"})
				}
				base := run(in)
				check(in, base, []string{"h2"})
				m.Count("stale_master_scenarios")
				if casc != "" {
					// a cascade replica whose state could not be read is re-pointed blindly (and so stops claiming to be
					// master) before it was ever FOUND claiming: the clause speaks of hosts found claiming; fault-free only
					continue
				}
				// every statement and coordination call of the first pass that concerns h2 fails once
				seen := map[string]int{}
				for _, e := range base.Passes[0].Trans {
					if e.Host != "h2" || e.Kind == "SRefused" {
						continue
					}
					fin := in
					fin.Fault = &vk.Fault{Host: "h2", Kind: e.Kind, Nth: seen[e.Kind], Action: "err:1872"}
					seen[e.Kind]++
					check(fin, run(fin), []string{"h2"})
					m.Count("with_failing_" + e.Kind)
				}
			}
		}
	}
	m.Rule = "the real repairCluster (3 passes) over 3-4 node clusters with a stale master h2 (writable or not, with or without transactions of its own); every statement sent to h2 in the first pass fails once in turn; the mark must be there afterwards"
	o.WriteMeta("c11stale", m)
}
