//go:build verif

package app

import (
	"fmt"
	"testing"
	"testing/synctest"

	vk "github.com/yandex/mysync/internal/verifkit"
)

func c02Check(m *vk.Meta, in simIn, out simOut) {
	for _, p := range out.Panics {
		m.Violation("no iteration terminates the process", in, p)
	}
	for _, n := range out.Notes {
		m.Violation("while the fault lasts no second node acknowledges client writes", in, n)
	}
	for _, v := range simCheck(in, out) {
		m.Violation("after any single failure followed by healing the cluster returns to exactly one writable master which is the recorded one, every reachable HA replica read-only and replicating from it, every acknowledged transaction present on it", in, v)
	}
}

func TestVerifC02(t *testing.T) {
	o := vk.Open()
	m := vk.NewMeta()
	var rp simIn
	if vk.ReplayInput(&rp) && rp.N > 0 {
		c02Check(m, rp, simRunT(t, rp))
		m.Evaluations = 1
		o.WriteMeta("c02", m)
		return
	}
	dist := vk.Distinct{}
	steps := &simCases{o: o, m: m, prefix: "c02s", checker: "mismatches_mgr"}
	faults := []string{"crash_node", "isolate_node", "kill_mysync", "dcs_lost_one", "dcs_lost_all", "switch_to", "switch_from"}
	var ins []simIn
	for _, n := range []int{2, 3, 4} {
		for _, f := range faults {
			for target := 1; target <= n; target++ {
				if (f == "switch_to") && target == 1 {
					continue
				}
				if (f == "switch_from" || f == "dcs_lost_all") && target != 1 {
					continue
				}
				for _, dur := range []int{1, 4, 9} {
					for phase := 0; phase < n; phase++ {
						for _, wc := range []int{1, 2} {
							if wc == 2 && n < 3 {
								continue
							}
							ins = append(ins, simIn{N: n, WaitCount: wc, Failover: true, Fault: f, Target: target, At: 3, Phase: phase, Duration: dur, Ticks: 3 + dur + 22})
						}
					}
				}
			}
		}
	}
	// failover disabled, cascade replica
	for _, f := range []string{"crash_node", "isolate_node"} {
		ins = append(ins, simIn{N: 3, WaitCount: 1, Failover: false, Fault: f, Target: 1, At: 3, Duration: 4, Ticks: 30},
			simIn{N: 3, Cascade: true, WaitCount: 1, Failover: true, Fault: f, Target: 1, At: 3, Duration: 4, Ticks: 30},
			simIn{N: 3, Cascade: true, WaitCount: 1, Failover: true, Fault: f, Target: 2, At: 3, Duration: 4, Ticks: 30})
	}
	// a replica whose SQL thread lags behind what it has received: the promoted node must first apply everything
	var always []simIn
	for _, n := range []int{2, 3} {
		for _, hold := range []int{2, 5} {
			always = append(always,
				simIn{N: n, WaitCount: 1, Failover: true, Fault: "switch_to", Target: 2, At: 3, Duration: 1, SlowApply: 2, SlowFor: hold, Ticks: 30},
				simIn{N: n, WaitCount: 1, Failover: true, Fault: "switch_from", Target: 1, At: 3, Duration: 1, SlowApply: 2, SlowFor: hold, Ticks: 30},
				simIn{N: n, WaitCount: 1, Failover: true, Fault: "crash_node", Target: 1, At: 3, Duration: 9, SlowApply: 2, SlowFor: hold, Ticks: 36})
		}
	}
	stride := 9
	if o.Thorough() {
		stride = 1
	}
	ins = append(always, ins...)
	for i, in := range ins {
		if i >= len(always) && i%stride != int(o.Seed)%stride {
			continue
		}
		in.Order = o.Seed*1000 + int64(i)
		out := simRunT(t, in)
		c02Check(m, in, out)
		if m.Evaluations%4 == 0 || o.Thorough() && m.Evaluations%3 == 0 {
			steps.add(in, out.Steps)
		}
		m.Evaluations++
		dist.Add(fmt.Sprintf("%+v", in))
		m.Count("fault_" + in.Fault)
		m.Count(fmt.Sprintf("nodes_%d", in.N))
		if out.Master != "h1" {
			m.Count("master_changed")
		}
	}
	steps.flush()
	m.DistinctNontrivial = dist.Len()
	m.Rule = fmt.Sprintf("the real daemons (one App per host: state machine, health and recovery checkers) over fake servers and a shared coordination tree, client writes attempted on every node every tick: %d scenarios = fault kind (crash / isolation of a node, mysync killed, coordination lost by one host / by all, switchover to / from) x target host x injection instant within the tick cycle x duration 1/4/9 ticks x 2-4 nodes x required acknowledgements 1-2, plus failover disabled and a cascade replica (quick: every 9th, offset by the seed); 25-34 ticks of 5 s; distinct = distinct scenarios", len(ins))
	o.WriteMeta("c02", m)
}

// TestVerifC02Heal: the single fault (the master is cut off or dies) heals IN THE MIDDLE of the failover it caused - at every
// mutating statement of the real performSwitchover.  The old master is writable again for a moment and a client commits on it;
// if a replica whose receiver thread was never stopped reconnects and acknowledges, the transaction is acknowledged and must
// be on the node that ends up promoted and recorded.
func TestVerifC02Heal(t *testing.T) {
	o := vk.Open()
	m := vk.NewMeta()
	run := func(in c01In) (out c01Out) {
		synctest.Test(t, func(t *testing.T) { out = c01Run(in) })
		return
	}
	check := func(in c01In, out c01Out) {
		m.Evaluations++
		if out.AckedOnReturn == "" {
			m.Count("commit_on_returned_master_not_acknowledged")
			return
		}
		m.Count("commit_on_returned_master_acknowledged")
		for _, p := range out.Promotions {
			if p.Host == "h1" {
				continue
			}
			fin := out.Final[p.Host]
			if !vk.GtidContains(fin.Executed, out.AckedOnReturn) {
				m.Violation("every transaction that was acknowledged to a client is present on the master the cluster ends with", map[string]any{"heal": in},
					fmt.Sprintf("%s was acknowledged by %v on the returning old master while the failover ran; %s was promoted without it (%s)", out.AckedOnReturn, out.AckedBy, p.Host, fin.Executed))
			}
		}
	}
	var rp struct {
		Heal *c01In `json:"heal"`
	}
	if vk.ReplayInput(&rp) && rp.Heal != nil {
		check(*rp.Heal, run(*rp.Heal))
		o.WriteMeta("c02heal", m)
		return
	}
	n := 60
	if o.Thorough() {
		n = 600
	}
	for i := 0; i < n; i++ {
		in := c01Gen(o)
		// an automatic failover of a semi-sync cluster whose master is gone
		in.From, in.To, in.Cause, in.Transition, in.SemiSync, in.Async = "h1", "", CauseAuto, "failover", true, false
		in.Nodes[0].Down, in.LockLostAt = true, -1
		in.Active = nil
		for k := 1; k <= in.N; k++ {
			if !in.Nodes[k-1].Cascade {
				in.Active = append(in.Active, fmt.Sprintf("h%d", k))
			}
		}
		base := run(in)
		nm := 0
		for _, e := range base.Trans {
			if e.Mut && e.Host != "" {
				nm++
			}
		}
		m.Count(fmt.Sprintf("n_%d", in.N))
		for k := 1; k <= nm; k++ {
			rin := in
			rin.ReturnAt = k
			check(rin, run(rin))
		}
	}
	m.Rule = "automatic failover of a semi-sync cluster (2-5 nodes, random positions / received tails / stopped SQL threads) run by the real performSwitchover; the dead master returns writable at each mutating statement in turn and commits once; acknowledged iff enough semi-sync replicas with a started receiver thread reach it"
	o.WriteMeta("c02heal", m)
}
