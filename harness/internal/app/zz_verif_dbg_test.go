//go:build verif

package app

import (
	"encoding/json"
	"fmt"
	"os"
	"testing"
	"testing/synctest"
)

// debugging aid: VERIF_DBG_C10=<replay file> prints the mutating statements of every pass
func TestVerifDbgC10(t *testing.T) {
	p := os.Getenv("VERIF_DBG_C10")
	if p == "" {
		t.Skip()
	}
	b, _ := os.ReadFile(p)
	var wrap struct {
		Input struct {
			Repair c10In `json:"repair"`
		} `json:"input"`
	}
	if err := json.Unmarshal(b, &wrap); err != nil {
		t.Fatal(err)
	}
	var out c10Out
	synctest.Test(t, func(t *testing.T) { out = c10Run(wrap.Input.Repair) })
	for i, ps := range out.Passes {
		fmt.Printf("pass %d panic=%q site=%q\n", i, ps.Panic, ps.PanicSite)
		for h, st := range ps.State {
			fmt.Printf("   state %s: ping=%v slave=%v\n", h, st.PingOk, st.SlaveState != nil)
		}
		for _, e := range ps.Trans {
			if e.Mut || e.Err != "" {
				fmt.Printf("   %s %s %s err=%s\n", e.Host, e.Kind, e.Arg, e.Err)
			}
		}
	}
	fmt.Printf("moves: %+v\nrecovery: %+v hosts %v\n", out.Moves, out.Recovery, out.Hosts)
}

// debugging aid: VERIF_DBG_MGR=<replay file> prints every step of the state machine with its coordination writes
func TestVerifDbgMgr(t *testing.T) {
	p := os.Getenv("VERIF_DBG_MGR")
	if p == "" {
		t.Skip()
	}
	b, _ := os.ReadFile(p)
	var wrap struct {
		Input mgrIn `json:"input"`
	}
	if err := json.Unmarshal(b, &wrap); err != nil {
		t.Fatal(err)
	}
	var out mgrOut
	synctest.Test(t, func(t *testing.T) { out = mgrRun(wrap.Input) })
	for i, st := range out.Steps {
		fmt.Printf("step %d state=%s next=%s panic=%q lock=%v master=%s -> %s\n", i, st.State, st.Next, st.Panic, st.LockHeld, st.Tree[pathMasterNode], st.TreeAfter[pathMasterNode])
		for _, e := range st.Trans {
			if e.Host == "" || e.Mut {
				fmt.Printf("     %s %s %s %.60s err=%s\n", e.Host, e.Kind, e.Arg, e.Resp, e.Err)
			}
		}
	}
}

// debugging aid: VERIF_DBG_SIM=<replay file> prints the trace of a whole-cluster simulation
func TestVerifDbgSim(t *testing.T) {
	p := os.Getenv("VERIF_DBG_SIM")
	if p == "" {
		t.Skip()
	}
	b, _ := os.ReadFile(p)
	var wrap struct {
		Input simIn `json:"input"`
	}
	if err := json.Unmarshal(b, &wrap); err != nil {
		t.Fatal(err)
	}
	out := simRunT(t, wrap.Input)
	for _, l := range out.Trace {
		fmt.Println(l)
	}
	fmt.Printf("master=%s writable=%v pending=%v crashedAt=%d notes=%v\n", out.Master, out.Writable, out.Pending, out.CrashedAt, out.Notes)
	for h, n := range out.Final {
		fmt.Printf("  %s up=%v ro=%v offline=%v chan=%+v exec=%s\n", h, n.Up, n.RO, n.Offline, n.Chan, n.Executed)
	}
	fmt.Println(simCheck(wrap.Input, out))
}

// debugging aid: VERIF_DBG_MGR_ALL=<replay file> prints every call of every step
func TestVerifDbgMgrAll(t *testing.T) {
	p := os.Getenv("VERIF_DBG_MGR_ALL")
	if p == "" {
		t.Skip()
	}
	b, _ := os.ReadFile(p)
	var wrap struct {
		Input mgrIn `json:"input"`
	}
	if err := json.Unmarshal(b, &wrap); err != nil {
		t.Fatal(err)
	}
	var out mgrOut
	synctest.Test(t, func(t *testing.T) { out = mgrRun(wrap.Input) })
	for i, st := range out.Steps {
		fmt.Printf("step %d state=%s next=%s\n", i, st.State, st.Next)
		for j, e := range st.Trans {
			fmt.Printf("  %3d %s %s %s %.50s err=%s\n", j, e.Host, e.Kind, e.Arg, e.Resp, e.Err)
		}
	}
}
