//go:build verif

package app

import (
	"fmt"
	"os"
	"testing"
	"testing/synctest"

	"github.com/yandex/mysync/internal/dcs"
	"github.com/yandex/mysync/internal/mysql"
	vk "github.com/yandex/mysync/internal/verifkit"
)

// K4: the fake MySQL server against the world model's server (coq/Env/World.v srv_step).  One fake server is driven
// through random sequences of the real mysql.Node methods; every statement it receives is recorded with its answer and
// the same statements are fed to srv_step from the same initial state (Corr/World.v).

type worldIn struct {
	RO, SRO, Offline bool
	Chan             string // "" none | source host
	IO, SQL          bool
	SSMaster, SSSlave bool
	Wait             int
	Flush, Sync      int
	Ops              []string
}

func srvGal(n vk.Node) string {
	ch := "None"
	if n.Chan != nil {
		ch = vk.Some("{| c_source := " + hostGal(n.Chan.Source) + "; c_io := " + vk.B(n.Chan.IO) + "; c_sql := " + vk.B(n.Chan.SQL) +
			"; c_io_errno := " + vk.Z(int64(n.Chan.IOErrno)) + "; c_sql_errno := " + vk.Z(int64(n.Chan.SQLErrno)) + " |}")
	}
	return "{| s_ro := " + vk.B(n.RO) + "; s_sro := " + vk.B(n.SuperRO) + "; s_offline := " + vk.B(n.Offline) + "; s_chan := " + ch +
		"; s_semi_m := " + vk.B(n.SSMaster) + "; s_semi_s := " + vk.B(n.SSSlave) + "; s_wait := " + vk.Z(int64(n.WaitCount)) +
		"; s_flush := " + vk.Z(int64(n.Flush)) + "; s_sync := " + vk.Z(int64(n.SyncBinlog)) +
		"; s_exec := " + vk.GtidGal(n.Executed) + "; s_retr := " + vk.GtidGal(n.Retrieved) + " |}"
}

var worldOps = []string{"ro", "sro", "rw", "offline", "online", "stop", "start", "stopio", "startio", "stopsql", "startsql", "reset", "change1", "change3",
	"semim", "semis", "semioff", "wait1", "wait2", "dur", "status", "isro", "isoff", "gtid", "semi", "settings"}

func worldRun(in worldIn) (string, []vk.Entry) {
	dir, _ := os.MkdirTemp("", "world")
	defer os.RemoveAll(dir)
	w := vk.NewWorld()
	vInstall(w)
	w.AutoReplicate = false
	d := newMemDCS(w, "h1")
	d.silent = true
	u1 := hostUUID("h1")
	for _, h := range []string{"h1", "h2", "h3"} {
		n := &vk.Node{Host: h, UUID: hostUUID(h), Up: true, Executed: u1 + ":1-100"}
		if h == "h2" {
			n.RO, n.SuperRO, n.Offline = in.RO, in.SRO, in.Offline
			if in.Chan != "" {
				n.Chan = &vk.Chan{Source: in.Chan, IO: in.IO, SQL: in.SQL}
				n.Retrieved = n.Executed
			}
			n.SSMaster, n.SSSlave, n.SSSlaveEffective, n.WaitCount = in.SSMaster, in.SSSlave, in.SSSlave, in.Wait
			n.Flush, n.SyncBinlog = in.Flush, in.Sync
		}
		w.AddNode(n)
		d.rawSet(dcs.JoinPath(pathHANodes, h), mysql.NodeConfiguration{})
	}
	va := newVApp(w, d, vAppOpts{Hostname: "h1", Dir: dir})
	defer va.close()
	_ = va.app.cluster.UpdateHostsInfo()
	node := va.app.cluster.Get("h2")
	w.Mu.Lock()
	init := srvGal(*w.Nodes["h2"])
	w.Mu.Unlock()
	w.ResetTranscript()
	for _, op := range in.Ops {
		switch op {
		case "ro":
			_ = node.SetReadOnly(false)
		case "sro":
			_ = node.SetReadOnly(true)
		case "rw":
			_ = node.SetWritable()
		case "offline":
			_ = node.SetOffline()
		case "online":
			_ = node.SetOnline()
		case "stop":
			_ = node.StopSlave()
		case "start":
			_ = node.StartSlave()
		case "stopio":
			_ = node.StopSlaveIOThread()
		case "startio":
			_ = node.StartSlaveIOThread()
		case "stopsql":
			_ = node.StopSlaveSQLThread()
		case "startsql":
			_ = node.StartSlaveSQLThread()
		case "reset":
			_ = node.ResetSlaveAll()
		case "change1":
			_ = node.ChangeMaster("h1")
		case "change3":
			_ = node.ChangeMaster("h3")
		case "semim":
			_ = node.SemiSyncSetMaster()
		case "semis":
			_ = node.SemiSyncSetSlave()
		case "semioff":
			_ = node.SemiSyncDisable()
		case "wait1":
			_ = node.SetSemiSyncWaitSlaveCount(1)
		case "wait2":
			_ = node.SetSemiSyncWaitSlaveCount(2)
		case "dur":
			_ = node.SetReplicationSettings(mysql.ReplicationSettings{InnodbFlushLogAtTrxCommit: 2, SyncBinlog: 1000})
		case "status":
			_, _ = node.GetReplicaStatus()
		case "isro":
			_, _, _ = node.IsReadOnly()
		case "isoff":
			_, _ = node.IsOffline()
		case "gtid":
			_, _ = node.GTIDExecuted()
		case "semi":
			_, _ = node.SemiSyncStatus()
		case "settings":
			_, _ = node.GetReplicationSettings()
		}
	}
	synctest.Wait()
	var es []vk.Entry
	for _, e := range w.Transcript() {
		if e.Host == "h2" && e.Kind != "SRefused" {
			es = append(es, e)
		}
	}
	return init, es
}

func TestVerifWorld(t *testing.T) {
	o := vk.Open()
	m := vk.NewMeta()
	n := 150
	if o.Thorough() {
		n = 1500
	}
	var cases []string
	r := o.Rng
	for i := 0; i < n; i++ {
		in := worldIn{RO: r.Intn(2) == 0, Offline: r.Intn(3) == 0, Chan: []string{"", "h1", "h1", "h3"}[r.Intn(4)], IO: r.Intn(2) == 0, SQL: r.Intn(2) == 0,
			SSMaster: r.Intn(3) == 0, SSSlave: r.Intn(2) == 0, Wait: 1 + r.Intn(2), Flush: 1 + r.Intn(2), Sync: []int{1, 1000}[r.Intn(2)]}
		in.SRO = in.RO && r.Intn(2) == 0
		for k, cnt := 0, 6+r.Intn(14); k < cnt; k++ {
			in.Ops = append(in.Ops, worldOps[r.Intn(len(worldOps))])
		}
		var init string
		var es []vk.Entry
		synctest.Test(t, func(t *testing.T) { init, es = worldRun(in) })
		cases = append(cases, vk.T(hostGal("h2"), init, transcriptGal(es, vEpoch, "")))
		m.Cases["world_00"] = append(m.Cases["world_00"], map[string]any{"world": in})
		m.Evaluations++
		m.CountN("statements", len(es))
		for _, e := range es {
			m.Count("stmt_" + e.Kind)
		}
	}
	o.CasesFile("world_00", []string{"Gtid.GtidSet", "Base.Prog", "Base.Replay", "Env.World", "Corr.C13", "Corr.World"}, "world_case", cases, "mismatches_world")
	m.Rule = fmt.Sprintf("%d random sequences of 6-19 real mysql.Node methods against one fake server (initial state: read-only flags, offline, channel none/h1/h3 with thread states, semi-sync flags, wait count, durability settings); every statement and answer replayed on the world model's srv_step", n)
	o.WriteMeta("world", m)
}
