//go:build verif

package app

import (
	"fmt"
	"testing"
	"testing/synctest"

	vk "github.com/yandex/mysync/internal/verifkit"
)

// c03Monitor: a process acts only while it is told it holds the lock - after a refused (re-)check nothing mutating follows
// in that iteration
func c03Monitor(m *vk.Meta, in mgrIn, out mgrOut) {
	for k, st := range out.Steps {
		if st.State != stateManager && st.State != stateCandidate {
			continue
		}
		refused := false
		for _, e := range st.Trans {
			if e.Kind == "LockAcquire" {
				refused = e.Resp == "(RBool false)"
				continue
			}
			if refused && e.Mut && e.Kind != "LockRelease" {
				where := e.Host
				if where == "" {
					where = "the coordination service"
				}
				v := map[string]any{"clause": "a daemon issues cluster-wide actions only while it holds the lock", "input": in,
					"detail": fmt.Sprintf("iteration %d: %s %s on %s after the lock was refused", k, e.Kind, e.Arg, where)}
				if e.Host == "" && e.Kind == "DcsSet" && e.Arg == pathCurrentSwitch {
					v["signature"] = map[string]any{"write": "the failed-attempt record (FailSwitchover) after a refused lock re-check inside performSwitchover"}
				}
				m.Violations = append(m.Violations, v)
				break
			}
		}
		// "a switchover re-confirms the lock after freezing and again after catch-up, before it promotes": in an iteration that
		// makes a node writable which it had first frozen, a granted lock request lies between the last freeze step
		// (SET read_only=1 / STOP IO) and the promotion, and another one after the last catch-up probe of the promoted node
		if st.State == stateManager {
			for pi, e := range st.Trans {
				if e.Kind != "SSetWritable" || e.Err != "" {
					continue
				}
				// the first step of the promotion proper: another node is re-pointed at the new master, or the new
				// master's own replication configuration is wiped
				for i := 0; i < pi; i++ {
					x := st.Trans[i]
					if (x.Kind == "SChangeSource" && x.Arg == e.Host) || (x.Kind == "SResetReplAll" && x.Host == e.Host) {
						pi = i
						break
					}
				}
				lastFreeze := -1
				for i := 0; i < pi; i++ {
					x := st.Trans[i]
					if x.Kind == "SStopIO" || (x.Kind == "SSetRO" && x.Host == e.Host) {
						lastFreeze = i
					}
				}
				if lastFreeze < 0 {
					break // not a promotion (the repair of a read-only master)
				}
				granted := 0
				for i := lastFreeze + 1; i < pi; i++ {
					if st.Trans[i].Kind == "LockAcquire" && st.Trans[i].Resp == "(RBool true)" {
						granted++
					}
				}
				// one re-check right after the freeze (before positions are read), one after the catch-up
				if granted < 2 {
					m.Violation("a switchover re-confirms the lock after freezing and again after catch-up, before it promotes", in,
						fmt.Sprintf("iteration %d: %s promoted with %d granted lock request(s) between the end of the freeze and the first promotion step", k, e.Host, granted))
				}
				break
			}
		}
		if st.State == stateManager {
			first := true
			for _, e := range st.Trans {
				if e.Kind == "LockAcquire" {
					first = false
				}
				if first && e.Mut {
					m.Violation("the lock is re-checked at the top of every manager iteration", in, fmt.Sprintf("iteration %d: %s %s before the lock was asked for", k, e.Kind, e.Arg))
					break
				}
			}
		}
	}
}

func c03Gen(o *vk.Out) mgrIn {
	in := mgrGen(o)
	r := o.Rng
	switch r.Intn(4) {
	case 0:
		in.LockLostAt, in.FaultAt = r.Intn(3), r.Intn(in.Iter)
	case 1:
		in.OtherManager = true
	case 2:
		in.Events = append(in.Events, mgrEvent{At: r.Intn(in.Iter), Kind: "otherlock"})
	}
	if in.Switch == nil && r.Intn(2) == 0 {
		in.Switch = &mgrSwitch{From: "h1", Cause: CauseManual, Transition: "failover", InitiatedAgo: 1}
	}
	return in
}

func TestVerifC03App(t *testing.T) {
	o := vk.Open()
	m := vk.NewMeta()
	var rp mgrIn
	if vk.ReplayInput(&rp) && len(rp.Nodes) > 0 {
		var out mgrOut
		synctest.Test(t, func(t *testing.T) { out = mgrRun(rp) })
		c03Monitor(m, rp, out)
		m.Evaluations = 1
		o.WriteMeta("c03app", m)
		return
	}
	n := 120
	if o.Thorough() {
		n = 1200
	}
	mgrDrive(t, o, m, c03Monitor, "c03app", n, c03Gen)
	m.Rule = "iterations of the real state handlers with the lock refused at the k-th (re-)check of an iteration (top of the iteration, after the freeze, after catch-up), another process holding the lock, the lock changing hands between iterations; distinct = distinct inputs"
	o.WriteMeta("c03app", m)
}
