//go:build verif

package app

import (
	"fmt"
	"testing"
	"testing/synctest"

	vk "github.com/yandex/mysync/internal/verifkit"
)

// c03Monitor: a process acts only while it is told it holds the lock - after a refused (re-)check nothing mutating follows
// in that iteration
func c03Monitor(m *vk.Meta, in mgrIn, out mgrOut) {
	for k, st := range out.Steps {
		if st.State != stateManager && st.State != stateCandidate {
			continue
		}
		refused := false
		for _, e := range st.Trans {
			if e.Kind == "LockAcquire" {
				refused = e.Resp == "(RBool false)"
				continue
			}
			if refused && e.Mut && e.Kind != "LockRelease" {
				where := e.Host
				if where == "" {
					where = "the coordination service"
				}
				v := map[string]any{"clause": "a daemon issues cluster-wide actions only while it holds the lock", "input": in,
					"detail": fmt.Sprintf("iteration %d: %s %s on %s after the lock was refused", k, e.Kind, e.Arg, where)}
				if e.Host == "" && e.Kind == "DcsSet" && e.Arg == pathCurrentSwitch {
					v["signature"] = map[string]any{"write": "the failed-attempt record (FailSwitchover) after a refused lock re-check inside performSwitchover"}
				}
				m.Violations = append(m.Violations, v)
				break
			}
		}
		if st.State == stateManager {
			first := true
			for _, e := range st.Trans {
				if e.Kind == "LockAcquire" {
					first = false
				}
				if first && e.Mut {
					m.Violation("the lock is re-checked at the top of every manager iteration", in, fmt.Sprintf("iteration %d: %s %s before the lock was asked for", k, e.Kind, e.Arg))
					break
				}
			}
		}
	}
}

func c03Gen(o *vk.Out) mgrIn {
	in := mgrGen(o)
	r := o.Rng
	switch r.Intn(4) {
	case 0:
		in.LockLostAt, in.FaultAt = r.Intn(3), r.Intn(in.Iter)
	case 1:
		in.OtherManager = true
	case 2:
		in.Events = append(in.Events, mgrEvent{At: r.Intn(in.Iter), Kind: "otherlock"})
	}
	if in.Switch == nil && r.Intn(2) == 0 {
		in.Switch = &mgrSwitch{From: "h1", Cause: CauseManual, Transition: "failover", InitiatedAgo: 1}
	}
	return in
}

func TestVerifC03App(t *testing.T) {
	o := vk.Open()
	m := vk.NewMeta()
	var rp mgrIn
	if vk.ReplayInput(&rp) && len(rp.Nodes) > 0 {
		var out mgrOut
		synctest.Test(t, func(t *testing.T) { out = mgrRun(rp) })
		c03Monitor(m, rp, out)
		m.Evaluations = 1
		o.WriteMeta("c03app", m)
		return
	}
	n := 120
	if o.Thorough() {
		n = 1200
	}
	mgrDrive(t, o, m, c03Monitor, "c03app", n, c03Gen)
	m.Rule = "iterations of the real state handlers with the lock refused at the k-th (re-)check of an iteration (top of the iteration, after the freeze, after catch-up), another process holding the lock, the lock changing hands between iterations; distinct = distinct inputs"
	o.WriteMeta("c03app", m)
}
