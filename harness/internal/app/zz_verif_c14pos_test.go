//go:build verif

package app

// C14, the input side of the choice: the priorities the choice is made on are the operator-set ones of ha_nodes/<host>.
// The real getNodePositions -> filterOutNodeFromPositions -> getMostDesirableNode chain over the fake servers and the
// in-memory coordination service, with a failing / missing / malformed priority record; judged against the choice over
// the priorities that ARE in the coordination tree (getMostDesirableNode itself is tied to the model by TestVerifC14).

import (
	"fmt"
	"os"
	"sort"
	"testing"
	"testing/synctest"
	"time"

	"github.com/yandex/mysync/internal/config"
	"github.com/yandex/mysync/internal/dcs"
	"github.com/yandex/mysync/internal/mysql"
	"github.com/yandex/mysync/internal/mysql/gtids"
	vk "github.com/yandex/mysync/internal/verifkit"
)

type c14pNode struct {
	Prio int64  `json:"prio"`
	Lag  int64  `json:"lag"`
	Rec  string `json:"rec"` // "" a record with Prio | "missing" | "malformed"
}
type c14pIn struct {
	Nodes []c14pNode `json:"nodes"` // h1 is the master
	From  string     `json:"from"`
	Bound int        `json:"bound_s"`
	Fault *memFault  `json:"dcs_fault"`
}

func c14pRun(m *vk.Meta, in c14pIn) {
	vk.Running("c14pos", in)
	dir, _ := os.MkdirTemp("", "c14p")
	defer os.RemoveAll(dir)
	w := vk.NewWorld()
	vInstall(w)
	mgr := fmt.Sprintf("h%d", len(in.Nodes))
	d := newMemDCS(w, mgr)
	d.silent = true
	u1 := hostUUID("h1")
	var active []string
	truth := map[string]int64{}
	for i, c := range in.Nodes {
		h := fmt.Sprintf("h%d", i+1)
		n := &vk.Node{Host: h, UUID: hostUUID(h), Up: true, Executed: u1 + ":1-100"}
		if i > 0 {
			n.RO, n.SuperRO = true, true
			n.Chan = &vk.Chan{Source: "h1", IO: true, SQL: true}
			n.Retrieved = n.Executed
			lag := c.Lag
			n.Lag = &lag
		}
		w.AddNode(n)
		switch c.Rec {
		case "missing": // removed from the registry after the process learned the host (below)
			d.rawSet(dcs.JoinPath(pathHANodes, h), mysql.NodeConfiguration{Priority: c.Prio})
		case "malformed":
			d.mu.Lock()
			d.data[dcs.JoinPath(pathHANodes, h)] = []byte("{not json")
			d.mu.Unlock()
		default:
			d.rawSet(dcs.JoinPath(pathHANodes, h), mysql.NodeConfiguration{Priority: c.Prio})
			truth[h] = c.Prio
		}
		active = append(active, h)
	}
	va := newVApp(w, d, vAppOpts{Hostname: mgr, Dir: dir, Tune: func(cfg *config.Config) {
		cfg.PriorityChoiceMaxLag = time.Duration(in.Bound) * time.Second
	}})
	defer va.close()
	app := va.app
	for i, c := range in.Nodes {
		if c.Rec == "missing" {
			d.mu.Lock()
			delete(d.data, dcs.JoinPath(pathHANodes, fmt.Sprintf("h%d", i+1)))
			d.mu.Unlock()
		}
	}
	if in.Fault != nil {
		f := *in.Fault
		d.faults = []*memFault{&f}
	}
	positions, err := app.getNodePositions(active)
	d.faults = nil
	if err != nil {
		m.Count("no_choice_positions_failed")
		return
	}
	if in.From != "" {
		positions = filterOutNodeFromPositions(positions, in.From)
	}
	sort.Slice(positions, func(i, j int) bool { return positions[i].host < positions[j].host })
	got, err := getMostDesirableNode(app.logger, positions, app.switchHelper.GetPriorityChoiceMaxLag())
	// the same choice over what the coordination tree holds
	var ref []nodePosition
	for _, p := range positions {
		ref = append(ref, nodePosition{p.host, gtids.ParseGtidSet(u1 + ":1-100"), p.lag, truth[p.host]})
	}
	want, err2 := getMostDesirableNode(app.logger, ref, app.switchHelper.GetPriorityChoiceMaxLag())
	if (err == nil) != (err2 == nil) || got != want {
		m.Violation("it returns the highest-priority candidate whenever that candidate's lag is within the configured bound (priority = the operator-set ha_nodes/<host> record)", in,
			fmt.Sprintf("chosen %q (err %v); over the priorities in the coordination tree %v: %q (err %v)", got, err, truth, want, err2))
	}
	m.Count("choice_made")
}

func c14pGen(o *vk.Out) c14pIn {
	r := o.Rng
	n := 3 + r.Intn(3)
	in := c14pIn{From: []string{"h1", "h1", ""}[r.Intn(3)], Bound: []int{0, 30, 60, 600}[r.Intn(4)]}
	for i := 0; i < n; i++ {
		c := c14pNode{Prio: int64(r.Intn(4)) * 5, Lag: int64([]int{0, 0, 1, 5, 45, 100, 900}[r.Intn(7)])}
		switch r.Intn(10) {
		case 0:
			c.Rec = "missing"
		case 1:
			c.Rec = "malformed"
		}
		in.Nodes = append(in.Nodes, c)
	}
	if r.Intn(3) != 0 {
		in.Fault = &memFault{Op: "get", Path: dcs.JoinPath(pathHANodes, fmt.Sprintf("h%d", 1+r.Intn(n))), Nth: 0, Err: "conn"}
	}
	return in
}

func TestVerifC14Pos(t *testing.T) {
	o := vk.Open()
	m := vk.NewMeta()
	run := func(in c14pIn) { synctest.Test(t, func(t *testing.T) { c14pRun(m, in) }) }
	var rp c14pIn
	if vk.ReplayInput(&rp) {
		run(rp)
		m.Evaluations = 1
		o.WriteMeta("c14pos", m)
		return
	}
	n := 150
	if o.Thorough() {
		n = 1500
	}
	dist := vk.Distinct{}
	for i := 0; i < n; i++ {
		in := c14pGen(o)
		run(in)
		m.Evaluations++
		dist.Add(fmt.Sprintf("%+v", in))
		m.Cases["c14pos"] = append(m.Cases["c14pos"], in)
	}
	m.DistinctNontrivial = dist.Len()
	m.Rule = "3-5 fake servers (master + replicas with lags 0..900 s and equal transactions), priorities 0/5/10/15 in ha_nodes/<host> (some records missing or malformed), bound 0/30/60/600 s, from = the master or none, and in two of three runs a failing read of one priority record; the real getNodePositions -> filterOutNodeFromPositions -> getMostDesirableNode chain; distinct = distinct scenarios"
	o.WriteMeta("c14pos", m)
}
