//go:build verif

package app

import (
	"fmt"
	"testing"
	"testing/synctest"

	vk "github.com/yandex/mysync/internal/verifkit"
)

func simRunT(t *testing.T, in simIn) (out simOut) {
	synctest.Test(t, func(t *testing.T) { out = simRun(in) })
	return
}

// C07: the manager dies before each external call of the iteration that processes the request
func TestVerifC07(t *testing.T) {
	o := vk.Open()
	m := vk.NewMeta()
	var rpr struct {
		Resume *mgrIn `json:"resume"`
	}
	if vk.ReplayInput(&rpr) && rpr.Resume != nil {
		in := *rpr.Resume
		var out mgrOut
		synctest.Test(t, func(t *testing.T) { out = mgrRun(in) })
		if len(out.Steps) > 0 {
			last := out.Steps[len(out.Steps)-1]
			master := mgrMasterIn(last.TreeAfter)
			n2 := last.WorldAfter["h2"]
			_, pending := last.TreeAfter[pathCurrentSwitch]
			if master != "h2" || n2.RO || pending {
				m.Violation("after the managing process died at any point of a switchover the next manager finishes or rejects the request and the cluster ends with one writable master equal to the recorded one",
					map[string]any{"resume": in}, fmt.Sprintf("recorded master %q, h2 read_only=%v, request pending=%v", master, n2.RO, pending))
			}
		}
		m.Evaluations = 1
		o.WriteMeta("c07", m)
		return
	}
	var rp simIn
	if vk.ReplayInput(&rp) && rp.N > 0 {
		out := simRunT(t, rp)
		for _, v := range simCheck(rp, out) {
			m.Violation("after the managing process died at any point of a switchover the next manager finishes or rejects the request and the cluster converges", rp, v)
		}
		m.Evaluations = 1
		o.WriteMeta("c07", m)
		return
	}
	// the successor on the SAME host (in the simulation another host usually wins the lock): a failover that the previous
	// process of this host started and left after RESET REPLICA ALL on the promoted node - the only other node; the request
	// is resumed and finished, the recorded master is the promoted node and it is writable
	for _, semi := range []bool{false, true} {
		for _, startedBy := range []string{"h2", "h1"} {
			in := mgrIn{Master: "h1", Iter: 4, Gap: 5, FaultAt: -1, LockLostAt: -1, Active: []string{"h1", "h2"}, MgrHost: 2,
				Cfg:    mgrCfg{Failover: true, Delay: 0, Cooldown: 0, Timeout: 300, MaxAttempts: 3, SemiSync: semi, DisableSSOnMaint: true},
				Nodes:  []mgrNode{{Down: true, Health: "pingfail"}, {NoChan: true}},
				Switch: &mgrSwitch{From: "h1", Cause: CauseAuto, Transition: "failover", InitiatedAgo: 3, StartedBy: startedBy}}
			var out mgrOut
			synctest.Test(t, func(t *testing.T) { out = mgrRun(in) })
			m.Evaluations++
			m.Count("same_host_resume")
			if len(out.Steps) == 0 {
				continue
			}
			last := out.Steps[len(out.Steps)-1]
			master := mgrMasterIn(last.TreeAfter)
			n2 := last.WorldAfter["h2"]
			_, pending := last.TreeAfter[pathCurrentSwitch]
			if master != "h2" || n2.RO || pending {
				m.Violation("after the managing process died at any point of a switchover the next manager finishes or rejects the request and the cluster ends with one writable master equal to the recorded one",
					map[string]any{"resume": in}, fmt.Sprintf("after %d iterations of the successor on h2: recorded master %q, h2 read_only=%v, request pending=%v", len(out.Steps), master, n2.RO, pending))
			}
		}
	}
	dist := vk.Distinct{}
	steps := &simCases{o: o, m: m, prefix: "c07s", checker: "mismatches_mgr"}
	prefixes := &simCases{o: o, m: m, prefix: "c07p", checker: "mismatches_mgr_prefix"}
	shapes := []simIn{}
	for _, fault := range []string{"switch_to", "switch_from", "failover_req"} {
		for _, n := range []int{2, 3} {
			for _, same := range []bool{false, true} {
				shapes = append(shapes, simIn{N: n, WaitCount: 1, Failover: true, Fault: fault, Target: 2, At: 2, Duration: 1, NextSame: same, Ticks: 26})
			}
		}
	}
	// planned switchovers without semi-sync (no speed-up phase: the crashed iteration is a prefix of perform_switchover's model run)
	shapes = append(shapes, simIn{N: 3, WaitCount: 1, NoSemiSync: true, Failover: true, Fault: "switch_to", Target: 2, At: 2, Duration: 1, Ticks: 26},
		simIn{N: 2, WaitCount: 1, NoSemiSync: true, Failover: true, Fault: "switch_from", Target: 1, At: 2, Duration: 1, NextSame: true, Ticks: 26})
	// automatic failover: the master dies, the manager that processes the filed request dies too
	for _, same := range []bool{false, true} {
		shapes = append(shapes, simIn{N: 3, WaitCount: 1, Failover: true, Fault: "crash_node", Target: 1, At: 2, Duration: 14, NextSame: same, Ticks: 40})
	}
	// the smallest cluster: one replica, automatic failover, the old master returns late or never
	shapes = append(shapes, simIn{N: 2, WaitCount: 1, Failover: true, Fault: "crash_node", Target: 1, At: 2, Duration: 14, Ticks: 40},
		simIn{N: 2, WaitCount: 1, Failover: true, Fault: "crash_node", Target: 1, At: 2, Duration: 1000, NextSame: true, Ticks: 40})
	// ... and the old master never comes back: the successor has to finish the failover with what is left
	shapes = append(shapes, simIn{N: 3, WaitCount: 1, Failover: true, Fault: "crash_node", Target: 1, At: 2, Duration: 1000, Ticks: 40},
		simIn{N: 4, WaitCount: 2, Failover: true, Fault: "crash_node", Target: 1, At: 2, Duration: 1000, NextSame: true, Ticks: 40})
	if o.Thorough() {
		for _, fault := range []string{"switch_to", "switch_from"} {
			shapes = append(shapes, simIn{N: 4, WaitCount: 2, Failover: true, Fault: fault, Target: 3, At: 2, Duration: 1, Ticks: 26},
				simIn{N: 3, Cascade: true, WaitCount: 1, Failover: true, Fault: fault, Target: 2, At: 2, Duration: 1, Ticks: 26})
		}
	}
	stride := 9
	if o.Thorough() {
		stride = 1
	}
	for si, sh := range shapes {
		// how many calls does the uninterrupted iteration make?
		base := sh
		base.CrashCall = 100000
		b := simRunT(t, base)
		for _, v := range simCheck(base, b) {
			m.Violation("an uninterrupted switchover converges", base, v)
		}
		total := b.Calls
		if total == 0 {
			total = 160
		}
		m.CountN(fmt.Sprintf("calls_%s_n%d", sh.Fault, sh.N), total)
		var ks []int
		for k := 1 + si%stride; k <= total+1; k += stride {
			ks = append(ks, k)
		}
		if stride > 1 && (sh.N == 3 && !sh.NoSemiSync && sh.Duration < 1000 || sh.N == 2 && sh.NextSame && sh.Fault == "crash_node") {
			// ... and on the two-node failover whose next manager is the same host (it resumes its own started request)
			// the bookkeeping at the end of the procedure (recorded master, request removal, outcome) densely
			// (quick tier: on the 3-node semi-sync shapes; the thorough tier takes every crash point of every shape)
			for k := max(1, total-24); k <= total+1; k++ {
				if (k-1-si%stride)%stride != 0 {
					ks = append(ks, k)
				}
			}
		}
		for _, k := range ks {
			in := sh
			in.CrashCall = k
			out := simRunT(t, in)
			m.Evaluations++
			dist.Add(fmt.Sprintf("%+v", in))
			if out.CrashedAt < 0 {
				m.Count("no_crash_point_reached")
				continue
			}
			m.Count("crash_points")
			prefixes.add(in, out.Prefix)
			if len(ks) > 0 && k == ks[len(ks)/2] {
				steps.add(in, out.Steps)
			}
			for _, p := range out.Panics {
				m.Violation("no iteration terminates the process", in, p)
			}
			for _, v := range simCheck(in, out) {
				// where the procedure was cut: which of its irreversible steps had been done
				has := func(k string) bool {
					for _, x := range out.CrashDone {
						if x == k {
							return true
						}
					}
					return false
				}
				window := "other"
				if has("SResetReplAll") && !has("DcsSet "+pathMasterNode) {
					window = "the promoted node's replication configuration is reset, the master record not yet written"
				}
				sig := map[string]any{"hosts": in.N, "request": in.Fault, "window": window}
				m.Violations = append(m.Violations, map[string]any{"clause": "after the managing process died at any point of a switchover the next manager finishes or rejects the request and the cluster ends with one writable master equal to the recorded one, replicas following it, no acknowledged transaction missing",
					"input": in, "detail": fmt.Sprintf("crash before call %d (tick %d): %s", k, out.CrashedAt, v), "signature": sig})
			}
		}
	}
	steps.flush()
	prefixes.flush()
	m.DistinctNontrivial = dist.Len()
	m.Rule = "the real daemons (one App per host, real state machine, health and recovery checkers) over fake servers: a request (switch to / switch from / operator-forced failover) on 2-3 node clusters (thorough: 4 nodes, cascade replica); the manager that processes it dies before its k-th external call for k = 1..all (quick: every 9th, and the last 25 calls of the 3-node shapes densely), with the same or another host becoming the next manager; 26 ticks of 5 s; the end state is checked; distinct = distinct crash points"
	o.WriteMeta("c07", m)
}
