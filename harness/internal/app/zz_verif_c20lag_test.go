//go:build verif

package app

// C20, the background lag checker (internal/app/resetup CheckNeedResetup): the real function over the fakes, replayed on
// Procs/LagCheck.v (K2); master record present / missing / dangling / the local host, lag around the bound and unknown,
// the local server offline or not, the master writable or not, every call failing once.

import (
	"fmt"
	"os"
	"testing"
	"testing/synctest"
	"time"

	"github.com/yandex/mysync/internal/config"
	"github.com/yandex/mysync/internal/dcs"
	"github.com/yandex/mysync/internal/mysql"
	vk "github.com/yandex/mysync/internal/verifkit"
)

type c20lagIn struct {
	Master   string    `json:"master"` // recorded master: h1 | h2 (the local host) | "" (no record) | h9 (not registered) | h3 (a cascade replica)
	Lag      int64     `json:"lag_s"`  // -1 = unknown
	Offline  bool      `json:"offline"`
	MasterRO bool      `json:"master_ro"`
	NoChan   bool      `json:"no_channel"`
	Fault    *vk.Fault `json:"fault"`
	DcsFault *memFault `json:"dcs_fault"`
}
type c20lagOut struct {
	Mem     string
	Trans   []vk.Entry
	Verdict bool
	Panic   string
}

const c20lagBound = 90000 // resetup_host_lag default: 25 h

func c20lagRun(in c20lagIn) (out c20lagOut) {
	vk.Running("lagcheck", in)
	dir, _ := os.MkdirTemp("", "c20lag")
	defer os.RemoveAll(dir)
	w := vk.NewWorld()
	vInstall(w)
	d := newMemDCS(w, "h2")
	d.silent = true
	for _, h := range []string{"h1", "h2", "h3"} {
		n := &vk.Node{Host: h, UUID: hostUUID(h), Up: true, Executed: hostUUID("h1") + ":1-100"}
		if h == "h1" {
			n.RO, n.SuperRO = in.MasterRO, in.MasterRO
		} else {
			n.RO, n.SuperRO = true, true
			n.Chan = &vk.Chan{Source: "h1", IO: true, SQL: true}
			n.Retrieved = n.Executed
		}
		if h == "h2" {
			n.Offline = in.Offline
			if in.Lag >= 0 {
				l := in.Lag
				n.Lag = &l
			} else {
				n.Chan.SQL = false // Seconds_Behind_Source is NULL
			}
			if in.NoChan {
				n.Chan = nil
			}
		}
		w.AddNode(n)
		if h == "h3" {
			d.rawSet(dcs.JoinPath(pathCascadeNodesPrefix, h), mysql.CascadeNodeConfiguration{StreamFrom: "h1"})
		} else {
			d.rawSet(dcs.JoinPath(pathHANodes, h), mysql.NodeConfiguration{})
		}
	}
	if in.Master != "" {
		d.rawSet(pathMasterNode, in.Master)
	}
	va := newVApp(w, d, vAppOpts{Hostname: "h2", Dir: dir, Tune: func(cfg *config.Config) { cfg.ResetupHostLag = c20lagBound * time.Second }})
	defer va.close()
	app := va.app
	out.Mem = "{| mm_ha := " + hostsGal(app.cluster.HANodeHosts()) + "; mm_casc := " + hostsGal(app.cluster.CascadeNodeHosts()) +
		"; mm_an := " + anMemGal(app, vEpoch) + "; mm_repair := " + repairMemGal(app) + " |}"
	w.ResetTranscript()
	if in.Fault != nil {
		f := *in.Fault
		w.Faults = []*vk.Fault{&f}
	}
	if in.DcsFault != nil {
		f := *in.DcsFault
		d.faults = []*memFault{&f}
	}
	d.silent = false
	func() {
		defer func() {
			if r := recover(); r != nil {
				out.Panic = fmt.Sprint(r)
			}
		}()
		out.Verdict = app.lagResetupper.CheckNeedResetup(app.cluster)
	}()
	d.silent = true
	synctest.Wait()
	out.Trans = w.Transcript()
	return out
}

func TestVerifC20Lag(t *testing.T) {
	o := vk.Open()
	m := vk.NewMeta()
	run := func(in c20lagIn) (out c20lagOut) {
		synctest.Test(t, func(t *testing.T) { out = c20lagRun(in) })
		return
	}
	var cases []string
	dist := vk.Distinct{}
	judge := func(in c20lagIn, out c20lagOut) {
		m.Evaluations++
		m.Cases["c20lag"] = append(m.Cases["c20lag"], in)
		dist.Add(fmt.Sprintf("%+v", in))
		cases = append(cases, vk.T(vk.Z(c20lagBound), hostGal("h2"), out.Mem, transcriptGal(out.Trans, vEpoch, ""), vk.B(out.Verdict), vk.B(out.Panic != "")))
		if out.Panic != "" {
			m.Violations = append(m.Violations, map[string]any{"clause": "no background check terminates the process", "input": in,
				"detail": "panic in the lag checker (resetup.(*LagResetupper).CheckNeedResetup): " + out.Panic, "signature": map[string]any{"site": "resetup.(*LagResetupper).CheckNeedResetup"}})
		}
		// the verdict sends the local host to resetup: only for an offline replica lagging beyond the bound under a writable registered master
		if out.Verdict && in.Fault == nil && in.DcsFault == nil && !(in.Offline && in.Lag > c20lagBound && !in.MasterRO && in.Master == "h1" && !in.NoChan) {
			m.Violation("no background check corrupts the node (a resetup verdict needs an offline replica lagging beyond resetup_host_lag under a writable recorded master)", in, "verdict true")
		}
		for _, e := range out.Trans {
			if e.Mut {
				m.Violation("the lag checker only reads", in, fmt.Sprintf("%s %s %s", e.Host, e.Kind, e.Arg))
			}
		}
	}
	var rp c20lagIn
	if vk.ReplayInput(&rp) {
		judge(rp, run(rp))
		o.WriteMeta("c20lag", m)
		return
	}
	for _, master := range []string{"h1", "h2", "", "h9", "h3"} {
		for _, lag := range []int64{-1, 10, c20lagBound, c20lagBound + 1, 200000} {
			for _, offline := range []bool{false, true} {
				for _, mro := range []bool{false, true} {
					in := c20lagIn{Master: master, Lag: lag, Offline: offline, MasterRO: mro}
					base := run(in)
					judge(in, base)
					if !(lag > c20lagBound && offline) && !o.Thorough() {
						continue
					}
					// every call of the run fails once
					seen := map[string]int{}
					for _, e := range base.Trans {
						fin := in
						key := e.Host + "/" + e.Kind + "/" + e.Arg
						if e.Kind == "SVersion" || e.Kind == "SRefused" {
							continue // the dialect probe of a node handle is below the model's vocabulary (its failure is C20's version-cache scenario)
						}
						if e.Host != "" {
							fin.Fault = &vk.Fault{Host: e.Host, Kind: e.Kind, Nth: seen[key], Action: "err:1040"}
						} else if e.Kind == "DcsGet" || e.Kind == "DcsChildren" {
							fin.DcsFault = &memFault{Op: map[string]string{"DcsGet": "get", "DcsChildren": "children"}[e.Kind], Path: e.Arg, Nth: seen[key], Err: "conn"}
						} else {
							continue
						}
						seen[key]++
						judge(fin, run(fin))
						m.Count("with_failing_" + e.Kind)
					}
				}
			}
		}
	}
	judge(c20lagIn{Master: "h1", Lag: 200000, Offline: true, NoChan: true}, run(c20lagIn{Master: "h1", Lag: 200000, Offline: true, NoChan: true}))
	o.CasesFile("c20lag", []string{"Gtid.GtidSet", "Base.Prog", "Base.Config", "Base.Replay", "Procs.NodeOps", "Procs.ActiveNodes", "Procs.Switchover", "Procs.Repair", "Procs.Manager", "Procs.LagCheck", "Corr.C13", "Corr.LagCheck"}, "lag_case", cases, "mismatches_lag")
	m.DistinctNontrivial = dist.Len()
	m.Rule = "the real CheckNeedResetup on the local replica h2 of a 3-host cluster (h3 a cascade replica): recorded master h1 / the local host / missing / not registered / a cascade replica, lag unknown / small / at the bound / just above / far above, local server offline or not, master read-only or not, no channel; for the runs that get as far as the master every call failing once; replayed on lag_check"
	o.WriteMeta("c20lag", m)
}
