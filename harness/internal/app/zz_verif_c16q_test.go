//go:build verif

package app

// C16 "cascade replicas are never counted towards quorum", the manager's own quorum (checkQuorum, manager_switchover):
// the real function over a real host registry (HA hosts + cascade replicas) and crafted views; K1 against
// Procs/MgrQuorum.v, and a monitor: the verdict must be the one of the same views restricted to the HA hosts.

import (
	"fmt"
	"os"
	"sort"
	"testing"
	"testing/synctest"
	"time"

	nodestate "github.com/yandex/mysync/internal/app/node_state"
	"github.com/yandex/mysync/internal/config"
	"github.com/yandex/mysync/internal/dcs"
	"github.com/yandex/mysync/internal/mysql"
	vk "github.com/yandex/mysync/internal/verifkit"
)

type c16qHost struct {
	Cascade bool `json:"cascade"`
	DB      int  `json:"db"`  // 0 no entry | 1 ping failed | 2 ping ok   (the manager's own view)
	DCS     int  `json:"dcs"` // the same for the health records
}
type c16qIn struct {
	Hosts []c16qHost `json:"hosts"`
}

func c16qViews(in c16qIn, haOnly bool) (hosts []string, db, dc map[string]*nodestate.NodeState) {
	db, dc = map[string]*nodestate.NodeState{}, map[string]*nodestate.NodeState{}
	for i, c := range in.Hosts {
		h := fmt.Sprintf("h%d", i+1)
		hosts = append(hosts, h)
		if haOnly && c.Cascade {
			continue
		}
		if c.DB > 0 {
			db[h] = &nodestate.NodeState{PingOk: c.DB == 2, IsCascade: c.Cascade}
		}
		if c.DCS > 0 {
			dc[h] = &nodestate.NodeState{PingOk: c.DCS == 2, IsCascade: c.Cascade}
		}
	}
	return
}

// c16qRun: verdict "quorum lost" of a first call (loss clock unset) = the clock got set
func c16qRun(in c16qIn, haOnly bool) (lost bool, ha []string) {
	vk.Running("mgrquorum", in)
	dir, _ := os.MkdirTemp("", "c16q")
	defer os.RemoveAll(dir)
	w := vk.NewWorld()
	vInstall(w)
	d := newMemDCS(w, "h1")
	d.silent = true
	for i, c := range in.Hosts {
		h := fmt.Sprintf("h%d", i+1)
		w.AddNode(&vk.Node{Host: h, UUID: hostUUID(h), Up: true})
		if c.Cascade {
			d.rawSet(dcs.JoinPath(pathCascadeNodesPrefix, h), mysql.CascadeNodeConfiguration{StreamFrom: "h1"})
		} else {
			d.rawSet(dcs.JoinPath(pathHANodes, h), mysql.NodeConfiguration{})
		}
	}
	va := newVApp(w, d, vAppOpts{Hostname: "h1", Dir: dir, Tune: func(cfg *config.Config) { cfg.ManagerSwitchover = true }})
	defer va.close()
	_, db, dc := c16qViews(in, haOnly)
	va.app.lostQuorumTime = time.Time{}
	_, _ = va.app.checkQuorum(db, dc)
	return !va.app.lostQuorumTime.IsZero(), va.app.cluster.HANodeHosts()
}

type c16cntHost struct {
	Host    string `json:"host"`
	Ping    bool   `json:"ping"`
	Dubious bool   `json:"dubious"`
	Cascade bool   `json:"cascade"`
	Repl    string `json:"repl"` // none | master | running | stopped | error
}
type c16cntIn struct {
	Nodes []string     `json:"nodes"`
	State []c16cntHost `json:"state"`
}

func c16StateJSON(cs map[string]*nodestate.NodeState) []c16cntHost {
	var r []c16cntHost
	for h, st := range cs {
		c := c16cntHost{Host: h, Ping: st.PingOk, Dubious: st.PingDubious, Cascade: st.IsCascade, Repl: "none"}
		if st.IsMaster {
			c.Repl = "master"
		}
		if st.SlaveState != nil {
			switch st.SlaveState.ReplicationState {
			case mysql.ReplicationRunning:
				c.Repl = "running"
			case mysql.ReplicationStopped:
				c.Repl = "stopped"
			default:
				c.Repl = "error"
			}
		}
		r = append(r, c)
	}
	sort.Slice(r, func(i, j int) bool { return r[i].Host < r[j].Host })
	return r
}

func c16StateOf(l []c16cntHost) map[string]*nodestate.NodeState {
	cs := map[string]*nodestate.NodeState{}
	for _, c := range l {
		st := &nodestate.NodeState{PingOk: c.Ping, PingDubious: c.Dubious, IsCascade: c.Cascade, IsMaster: c.Repl == "master"}
		switch c.Repl {
		case "running":
			st.SlaveState = &nodestate.SlaveState{ReplicationState: mysql.ReplicationRunning}
		case "stopped":
			st.SlaveState = &nodestate.SlaveState{ReplicationState: mysql.ReplicationStopped}
		case "error":
			st.SlaveState = &nodestate.SlaveState{ReplicationState: mysql.ReplicationError}
		}
		cs[c.Host] = st
	}
	return cs
}

// c16CountsJudge: the HA counts of the real functions against the same questions about the state without the cascade replicas
func c16CountsJudge(m *vk.Meta, nodes []string, cs map[string]*nodestate.NodeState) (ha, running, within int, dub []string) {
	ha, running, within, dub = countHANodes(cs), countRunningHASlaves(cs), countAliveHASlavesWithinNodes(nodes, cs), getDubiousHAHosts(cs)
	sort.Strings(dub)
	m.Evaluations++
	ha2 := map[string]*nodestate.NodeState{}
	for h, st := range cs {
		if !st.IsCascade {
			ha2[h] = st
		}
	}
	dub2 := getDubiousHAHosts(ha2)
	sort.Strings(dub2)
	if ha != countHANodes(ha2) || running != countRunningHASlaves(ha2) || within != countAliveHASlavesWithinNodes(nodes, ha2) || fmt.Sprint(dub) != fmt.Sprint(dub2) {
		m.Violation("cascade replicas are never counted towards quorum", map[string]any{"counts": c16cntIn{Nodes: nodes, State: c16StateJSON(cs)}},
			fmt.Sprintf("HA nodes %d / running %d / alive within the list %d / dubious %v; without the cascade replicas %d / %d / %d / %v", ha, running, within, dub,
				countHANodes(ha2), countRunningHASlaves(ha2), countAliveHASlavesWithinNodes(nodes, ha2), dub2))
	}
	return
}

// c16StatesGal: node states with a replica status that has the thread flags of the replication state
func c16StatesGal(cs map[string]*nodestate.NodeState) string {
	return statesGal(cs)
}

func TestVerifC16Quorum(t *testing.T) {
	o := vk.Open()
	m := vk.NewMeta()
	one := func(in c16qIn) string {
		var lost, lostHA bool
		var ha []string
		synctest.Test(t, func(t *testing.T) {
			lost, ha = c16qRun(in, false)
			lostHA, _ = c16qRun(in, true)
		})
		m.Evaluations++
		if lost != lostHA {
			m.Violation("cascade replicas are never counted towards quorum", in,
				fmt.Sprintf("manager quorum lost = %v with the cascade replicas in the views, %v without them", lost, lostHA))
		}
		_, db, dc := c16qViews(in, false)
		return vk.T(hostsGal(ha), statesGal(db), statesGal(dc), vk.B(lost))
	}
	var rpc struct {
		Counts *c16cntIn `json:"counts"`
	}
	if vk.ReplayInput(&rpc) && rpc.Counts != nil {
		c16CountsJudge(m, rpc.Counts.Nodes, c16StateOf(rpc.Counts.State))
		o.WriteMeta("c16q", m)
		return
	}
	var rp c16qIn
	if vk.ReplayInput(&rp) {
		one(rp)
		o.WriteMeta("c16q", m)
		return
	}
	n := 300
	if o.Thorough() {
		n = 3000
	}
	r := o.Rng
	dist := vk.Distinct{}
	var cases []string
	for i := 0; i < n; i++ {
		in := c16qIn{}
		nha, nc := 1+r.Intn(5), r.Intn(5)
		for k := 0; k < nha+nc; k++ {
			c := c16qHost{Cascade: k >= nha, DB: []int{2, 2, 1, 1, 0}[r.Intn(5)], DCS: []int{2, 2, 2, 1, 0}[r.Intn(5)]}
			if r.Intn(3) != 0 && c.DB == 0 {
				c.DB = 1
			}
			if r.Intn(3) != 0 && c.DCS == 0 {
				c.DCS = 2
			}
			in.Hosts = append(in.Hosts, c)
		}
		// cascade replicas interleaved with the HA hosts in the numbering as well
		if r.Intn(2) == 0 {
			r.Shuffle(len(in.Hosts), func(a, b int) { in.Hosts[a], in.Hosts[b] = in.Hosts[b], in.Hosts[a] })
		}
		cases = append(cases, one(in))
		m.Cases["c16q"] = append(m.Cases["c16q"], in)
		dist.Add(fmt.Sprintf("%+v", in))
	}
	// the HA counts of util.go over states with cascade replicas, also named in the node list
	var cnt []string
	for i := 0; i < n; i++ {
		cs := map[string]*nodestate.NodeState{}
		var nodes []string
		nh := 2 + r.Intn(5)
		for k := 1; k <= nh; k++ {
			h := fmt.Sprintf("h%d", k)
			st := &nodestate.NodeState{PingOk: r.Intn(4) != 0, PingDubious: r.Intn(3) == 0, IsCascade: r.Intn(3) == 0}
			switch r.Intn(4) {
			case 0:
				st.IsMaster = true
			case 1:
				st.SlaveState = &nodestate.SlaveState{ReplicationState: mysql.ReplicationRunning}
			case 2:
				st.SlaveState = &nodestate.SlaveState{ReplicationState: mysql.ReplicationStopped}
			case 3:
				st.SlaveState = &nodestate.SlaveState{ReplicationState: mysql.ReplicationError}
			}
			if r.Intn(8) != 0 {
				cs[h] = st
			}
			if r.Intn(3) != 0 {
				nodes = append(nodes, h)
			}
		}
		ha, running, within, dub := c16CountsJudge(m, nodes, cs)
		cnt = append(cnt, vk.T(hostsGal(nodes), c16StatesGal(cs), vk.Z(int64(ha)), vk.Z(int64(running)), vk.Z(int64(within)), hostsGal(dub)))
	}
	o.CasesFile("c16cnt", []string{"Gtid.GtidSet", "Base.Prog", "Base.Config", "Procs.NodeOps", "Procs.MgrQuorum", "Corr.C13", "Corr.MgrQuorum"}, "cnt_case", cnt, "mismatches_cnt")
	o.CasesFile("c16q", []string{"Gtid.GtidSet", "Base.Prog", "Base.Config", "Procs.NodeOps", "Procs.MgrQuorum", "Corr.MgrQuorum"}, "mq_case", cases, "mismatches_mq")
	m.DistinctNontrivial = dist.Len()
	m.Rule = "1-5 HA hosts and 0-4 cascade replicas in the real registry; for each host the manager's own view and the health record are absent / ping failed / ping ok; the real checkQuorum (first call) against manager_lost_quorum, and against itself with the cascade replicas removed from both views; distinct = distinct inputs"
	o.WriteMeta("c16q", m)
}
