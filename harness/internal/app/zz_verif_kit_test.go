//go:build verif

package app

// Shared harness kit for the K2/K3 correspondence checks: in-memory dcs.DCS
// (recording into the same total order as the fake MySQL servers), App
// assembly without ZooKeeper, transcript -> Gallina printer.

import (
	"math"
	"runtime/debug"
	"context"
	"encoding/json"
	"fmt"
	"io"
	stdlog "log"
	"net"
	"os"
	"path/filepath"
	"sort"
	"strconv"
	"strings"
	"sync"
	"time"

	mysql_driver "github.com/go-sql-driver/mysql"
	"github.com/rs/zerolog"

	app_dcs "github.com/yandex/mysync/internal/app/dcs"
	nodestate "github.com/yandex/mysync/internal/app/node_state"
	"github.com/yandex/mysync/internal/app/optimization"
	"github.com/yandex/mysync/internal/app/resetup"
	"github.com/yandex/mysync/internal/config"
	"github.com/yandex/mysync/internal/dcs"
	"github.com/yandex/mysync/internal/mysql"
	"github.com/yandex/mysync/internal/mysql/gtids"
	"github.com/yandex/mysync/internal/util"
	vk "github.com/yandex/mysync/internal/verifkit"
)

// ---------------------------------------------------------------- world routing

var (
	vCurWorld   *vk.World
	vCurWorldMu sync.Mutex
	vDialOnce   sync.Once
)

func vInstall(w *vk.World) {
	vCurWorldMu.Lock()
	vCurWorld = w
	vCurWorldMu.Unlock()
	vDialOnce.Do(func() {
		_ = mysql_driver.SetLogger(stdlog.New(io.Discard, "", 0))
		mysql_driver.RegisterDialContext("tcp", func(ctx context.Context, addr string) (net.Conn, error) {
			vCurWorldMu.Lock()
			world := vCurWorld
			vCurWorldMu.Unlock()
			return world.Dial(ctx, addr)
		})
		vk.GtidGal = func(s string) string { return "(of_dump " + dumpSet(gtids.ParseGtidSet(s)) + ")" }
	})
}

func hostN(h string) uint64 {
	if i := strings.LastIndex(h, "h"); i >= 0 {
		h = h[i:]
	}
	x, err := strconv.Atoi(strings.TrimPrefix(h, "h"))
	if err != nil {
		return 999
	}
	return uint64(x)
}
func hostGal(h string) string { return vk.N(hostN(h)) }
func hostsGal(hs []string) string {
	r := []string{}
	for _, h := range hs {
		r = append(r, hostGal(h))
	}
	return vk.L(r)
}
func optHostGal(h string) string {
	if h == "" {
		return "None"
	}
	return vk.Some(hostGal(h))
}

// ---------------------------------------------------------------- memory DCS

type memFault struct {
	Op   string `json:"op"`   // get|set|create|delete|children|lock|"" any
	Path string `json:"path"` // exact path or "" any
	Nth  int    `json:"nth"`
	Err  string `json:"err"` // "conn" (generic error)
	seen int
	used bool
}

type memShared struct {
	lockOwner string            // caller holding "manager"
	ephOwner  map[string]string // ephemeral key -> the client (session) that created it
}

type memDCS struct {
	mu        *sync.Mutex
	w         *vk.World
	caller    string
	data      map[string][]byte
	eph       map[string]bool
	sh        *memShared
	port      string // process incarnation (see World.CallHook)
	connected bool
	faults    []*memFault
	silent    bool // do not record (setup phase)
	onLock    func() // monitor hook: called at every AcquireLock
	onGet     func(path string) // scenario hook: called (unlocked) before every recorded Get
}

func newMemDCS(w *vk.World, caller string) *memDCS {
	return &memDCS{mu: &sync.Mutex{}, w: w, caller: caller, data: map[string][]byte{}, eph: map[string]bool{}, sh: &memShared{ephOwner: map[string]string{}}, connected: true}
}

// peer returns another client (its own session, connection state and faults) of the same coordination tree.
func (d *memDCS) peer(caller string) *memDCS {
	return &memDCS{mu: d.mu, w: d.w, caller: caller, data: d.data, eph: d.eph, sh: d.sh, connected: true}
}

// sessionEnd: the client's session is gone - its ephemeral keys and its lock disappear
func (d *memDCS) sessionEnd() {
	d.mu.Lock()
	defer d.mu.Unlock()
	for k, o := range d.sh.ephOwner {
		if o == d.caller {
			delete(d.data, k)
			delete(d.eph, k)
			delete(d.sh.ephOwner, k)
		}
	}
	if d.sh.lockOwner == d.caller {
		d.sh.lockOwner = ""
	}
}

// share returns a second client handle over the same tree.
type memClient struct {
	*memDCS
	me string
}

var errDCSConn = fmt.Errorf("zk: connection closed (injected)")

func (d *memDCS) fault(op, path string) error {
	for _, f := range d.faults {
		if f.used || (f.Op != "" && f.Op != op) || (f.Path != "" && f.Path != path) {
			continue
		}
		if f.seen == f.Nth {
			f.used = true
			return errDCSConn
		}
		f.seen++
	}
	return nil
}

// dpathGal maps a DCS path to the model's dpath.
func dpathGal(p string) string {
	p = strings.Trim(p, "/")
	parts := strings.Split(p, "/")
	switch parts[0] {
	case pathMasterNode:
		return "PMaster"
	case pathActiveNodes:
		return "PActiveNodes"
	case pathCurrentSwitch:
		return "PSwitch"
	case pathLastSwitch:
		return "PLastSwitch"
	case pathLastRejectedSwitch:
		return "PLastRejected"
	case pathMaintenance:
		return "PMaintenance"
	case pathRecovery:
		if len(parts) == 1 {
			return "PRecoveryDir"
		}
		return "(PRecovery " + hostGal(parts[1]) + ")"
	case pathHealthPrefix:
		if len(parts) > 1 {
			return "(PHealth " + hostGal(parts[1]) + ")"
		}
	case pathHANodes:
		if len(parts) == 1 {
			return "PHaNodes"
		}
		return "(PHaNode " + hostGal(parts[1]) + ")"
	case pathCascadeNodesPrefix:
		if len(parts) == 1 {
			return "PCascadeNodes"
		}
		return "(PCascadeNode " + hostGal(parts[1]) + ")"
	case pathLowSpace:
		return "PLowSpace"
	case pathLastShutdownNodeTime:
		return "PLastShutdown"
	case pathResetupStatus:
		if len(parts) > 1 {
			return "(PResetupStatus " + hostGal(parts[1]) + ")"
		}
	case "optimization_nodes":
		if len(parts) == 1 {
			return "POptNodes"
		}
		return "(POptNode " + hostGal(parts[1]) + ")"
	case pathMasterReplMonTS:
		return "(POther 1)"
	case pathTimings:
		if len(parts) > 1 {
			return "(PTiming " + vk.N(map[string]uint64{timingDowntime: 0, timingFailover: 1, timingSwitchover: 2}[parts[1]]) + ")"
		}
	}
	return "(POther 0)"
}

// vEpoch: every testing/synctest bubble starts its fake clock at 2000-01-01T00:00:00Z;
// all times handed to the model are relative to it (a zero time.Time maps to 0).
const vEpoch = int64(946684800) * 1000000000

func nsOf(t time.Time) int64 {
	if t.IsZero() {
		return 0
	}
	return t.UnixNano() - vEpoch
}

func switchGal(b []byte) string {
	var s Switchover
	if err := json.Unmarshal(b, &s); err != nil {
		return "(VOpaque 1)"
	}
	return "(VSwitch " + switchRecGal(&s) + ")"
}

func switchRecGal(s *Switchover) string {
	cause := "CauseManual"
	switch s.Cause {
	case CauseWorker:
		cause = "CauseWorker"
	case CauseAuto:
		cause = "CauseAuto"
	}
	kind := "SwSwitchover"
	if s.MasterTransition == FailoverTransition {
		kind = "SwFailover"
	}
	res := "None"
	if s.Result != nil {
		res = vk.Some(vk.T(vk.B(s.Result.Ok), vk.Z(nsOf(s.Result.FinishedAt))))
	}
	return "{| sw_from := " + optHostGal(s.From) + "; sw_to := " + optHostGal(s.To) + "; sw_cause_ := " + cause +
		"; sw_kind := " + kind + "; sw_master_transition := " + vk.B(s.MasterTransition != "") +
		"; sw_run_count := " + vk.Z(int64(s.RunCount)) + "; sw_initiated_at := " + vk.Z(nsOf(s.InitiatedAt)) +
		"; sw_started := " + vk.B(!s.StartedAt.IsZero()) + "; sw_started_at := " + vk.Z(nsOf(s.StartedAt)) + "; sw_result := " + res + " |}"
}

func dvalGal(path string, b []byte) string {
	p := strings.Trim(path, "/")
	parts := strings.Split(p, "/")
	switch parts[0] {
	case pathMasterNode:
		var h string
		if json.Unmarshal(b, &h) != nil {
			return "(VOpaque 1)"
		}
		return "(VHost " + hostGal(h) + ")"
	case pathActiveNodes:
		var hs []string
		if json.Unmarshal(b, &hs) != nil {
			return "(VOpaque 1)"
		}
		return "(VHosts " + hostsGal(hs) + ")"
	case pathCurrentSwitch, pathLastSwitch, pathLastRejectedSwitch:
		return switchGal(b)
	case pathMaintenance:
		var m Maintenance
		if json.Unmarshal(b, &m) != nil {
			return "(VOpaque 1)"
		}
		return "(VMaint {| mt_paused := " + vk.B(m.MySyncPaused) + "; mt_should_leave := " + vk.B(m.ShouldLeave) + "; mt_light := " + vk.B(m.Mode == LightMode) + " |})"
	case pathLowSpace:
		var v bool
		if json.Unmarshal(b, &v) != nil {
			return "(VOpaque 1)"
		}
		return "(VBool " + vk.B(v) + ")"
	case pathLastShutdownNodeTime, pathTimings:
		var t time.Time
		if json.Unmarshal(b, &t) != nil {
			return "(VOpaque 1)"
		}
		return "(VTime " + vk.Z(nsOf(t)) + ")"
	case pathHANodes:
		if len(parts) > 1 {
			var nc mysql.NodeConfiguration
			if json.Unmarshal(b, &nc) != nil {
				return "(VOpaque 1)"
			}
			return "(VPriority " + vk.Z(nc.Priority) + ")"
		}
	case pathCascadeNodesPrefix:
		if len(parts) > 1 {
			var cn mysql.CascadeNodeConfiguration
			if json.Unmarshal(b, &cn) != nil {
				return "(VOpaque 1)"
			}
			return "(VStreamFrom " + optHostGal(cn.StreamFrom) + ")"
		}
	case pathRecovery:
		return "VUnit"
	case pathResetupStatus:
		if len(parts) > 1 {
			var rs mysql.ResetupStatus
			if json.Unmarshal(b, &rs) != nil {
				return "(VOpaque 1)"
			}
			return "(VResetup " + vk.B(rs.Status) + " " + vk.Z(nsOf(rs.UpdateTime)) + ")"
		}
	case "optimization_nodes":
		if len(parts) > 1 {
			var st struct {
				Status string `json:"status"`
			}
			if json.Unmarshal(b, &st) != nil {
				return "(VOpaque 1)"
			}
			return "(VOpt " + vk.B(st.Status == "enabled") + ")"
		}
	}
	return "(VOpaque 0)"
}

// hook: a process about to make a coordination call (see World.CallHook)
func (d *memDCS) hook() {
	if h := d.w.CallHook; h != nil && !d.silent {
		h(d.caller, d.port)
	}
}

func (d *memDCS) rec(kind, path, call, resp string, mut bool) {
	if d.silent {
		return
	}
	now := time.Now().UnixNano()
	d.w.Record(vk.Entry{Caller: d.caller, Kind: kind, Arg: path, Raw: call, Resp: resp, TStart: now, TEnd: now, Mut: mut, G: vk.Gid()})
}

func (d *memDCS) IsConnected() bool {
	d.hook()
	d.mu.Lock()
	c := d.connected
	d.mu.Unlock()
	d.rec("DcsConnected", "", "DcsConnected", "(RBool "+vk.B(c)+")", false)
	return c
}
func (d *memDCS) WaitConnected(timeout time.Duration) bool {
	d.mu.Lock()
	defer d.mu.Unlock()
	return d.connected
}
func (d *memDCS) Initialize()                                 {}
func (d *memDCS) SetDisconnectCallback(callback func() error) {}
func (d *memDCS) Close()                                      {}

func (d *memDCS) AcquireLock(path string) bool {
	d.hook()
	if d.onLock != nil && !d.silent {
		d.onLock()
	}
	d.mu.Lock()
	ok := false
	if d.connected && d.fault("lock", path) == nil {
		if d.sh.lockOwner == "" {
			d.sh.lockOwner = d.caller
		}
		ok = d.sh.lockOwner == d.caller
	}
	d.mu.Unlock()
	d.rec("LockAcquire", path, "LockAcquire", "(RBool "+vk.B(ok)+")", false)
	return ok
}
func (d *memDCS) ReleaseLock(path string) {
	d.hook()
	d.mu.Lock()
	if d.sh.lockOwner == d.caller {
		d.sh.lockOwner = ""
	}
	d.mu.Unlock()
	d.rec("LockRelease", path, "LockRelease", "ROk", true)
}

func (d *memDCS) put(op, path string, value any, mustNotExist bool, eph bool) error {
	d.hook()
	b, err := json.Marshal(value)
	if err != nil {
		return err
	}
	d.mu.Lock()
	var rerr error
	resp := "ROk"
	switch {
	case !d.connected:
		rerr = errDCSConn
	default:
		rerr = d.fault(op, path)
	}
	if rerr == nil {
		if _, ok := d.data[path]; ok && mustNotExist {
			rerr = dcs.ErrExists
		} else {
			d.data[path] = b
			if eph {
				d.eph[path] = true
				d.sh.ephOwner[path] = d.caller
			}
		}
	}
	d.mu.Unlock()
	if rerr != nil {
		resp = errGal(rerr)
	}
	kind := map[string]string{"set": "DcsSet", "create": "DcsCreate", "seteph": "DcsSetEph", "createeph": "DcsCreate"}[op]
	d.rec(kind, path, "("+kind+" "+dpathGal(path)+" "+dvalGal(path, b)+")", resp, true)
	return rerr
}

func errGal(err error) string {
	switch err {
	case dcs.ErrNotFound:
		return "(RErr ENotFound)"
	case dcs.ErrExists:
		return "(RErr EExists)"
	case dcs.ErrMalformed:
		return "(RErr EMalformed)"
	}
	return "(RErr EConn)"
}

func (d *memDCS) Create(path string, value any) error          { return d.put("create", path, value, true, false) }
func (d *memDCS) CreateEphemeral(path string, value any) error { return d.put("createeph", path, value, true, true) }
func (d *memDCS) Set(path string, value any) error             { return d.put("set", path, value, false, false) }
func (d *memDCS) SetEphemeral(path string, value any) error    { return d.put("seteph", path, value, false, true) }

func (d *memDCS) Get(path string, dest any) error {
	d.hook()
	if d.onGet != nil && !d.silent {
		d.onGet(path)
	}
	d.mu.Lock()
	var rerr error
	var b []byte
	if !d.connected {
		rerr = errDCSConn
	} else if rerr = d.fault("get", path); rerr == nil {
		var ok bool
		b, ok = d.data[path]
		if !ok {
			rerr = dcs.ErrNotFound
		} else if json.Unmarshal(b, dest) != nil {
			rerr = dcs.ErrMalformed
		}
	}
	d.mu.Unlock()
	resp := ""
	if rerr != nil {
		resp = errGal(rerr)
	} else if strings.HasPrefix(strings.Trim(path, "/"), pathHealthPrefix+"/") {
		var ns nodestate.NodeState
		_ = json.Unmarshal(b, &ns)
		resp = "(RNodeState " + nsGal(&ns) + ")"
	} else {
		resp = "(RVal " + dvalGal(path, b) + ")"
	}
	d.rec("DcsGet", path, "(DcsGet "+dpathGal(path)+")", resp, false)
	return rerr
}

func (d *memDCS) Delete(path string) error {
	d.hook()
	d.mu.Lock()
	var rerr error
	if !d.connected {
		rerr = errDCSConn
	} else if rerr = d.fault("delete", path); rerr == nil {
		for k := range d.data {
			if k == path || strings.HasPrefix(k, path+"/") {
				delete(d.data, k)
				delete(d.eph, k)
				delete(d.sh.ephOwner, k)
			}
		}
	}
	d.mu.Unlock()
	resp := "ROk"
	if rerr != nil {
		resp = errGal(rerr)
	}
	d.rec("DcsDelete", path, "(DcsDelete "+dpathGal(path)+")", resp, true)
	return rerr
}

func (d *memDCS) GetTree(path string) (any, error) { return nil, dcs.ErrNotFound }

func (d *memDCS) GetChildren(path string) ([]string, error) {
	d.hook()
	d.mu.Lock()
	var rerr error
	var res []string
	if !d.connected {
		rerr = errDCSConn
	} else if rerr = d.fault("children", path); rerr == nil {
		set := map[string]bool{}
		found := false
		if _, ok := d.data[path]; ok {
			found = true
		}
		for k := range d.data {
			if strings.HasPrefix(k, path+"/") {
				found = true
				set[strings.SplitN(strings.TrimPrefix(k, path+"/"), "/", 2)[0]] = true
			}
		}
		if !found {
			rerr = dcs.ErrNotFound
		}
		for k := range set {
			res = append(res, k)
		}
		sort.Strings(res)
	}
	d.mu.Unlock()
	resp := ""
	if rerr != nil {
		resp = errGal(rerr)
	} else {
		resp = "(RHosts " + hostsGal(res) + ")"
	}
	d.rec("DcsChildren", path, "(DcsChildren "+dpathGal(path)+")", resp, false)
	return res, rerr
}

// raw access for scenario setup / monitors (not recorded)
func (d *memDCS) rawChildren(prefix string) []string {
	d.mu.Lock()
	defer d.mu.Unlock()
	var r []string
	for k := range d.data {
		if strings.HasPrefix(k, prefix+"/") {
			r = append(r, strings.SplitN(strings.TrimPrefix(k, prefix+"/"), "/", 2)[0])
		}
	}
	sort.Strings(r)
	return r
}

func (d *memDCS) rawSet(path string, value any) {
	b, _ := json.Marshal(value)
	d.mu.Lock()
	d.data[path] = b
	d.mu.Unlock()
}
func (d *memDCS) rawGet(path string, dest any) bool {
	d.mu.Lock()
	b, ok := d.data[path]
	d.mu.Unlock()
	if !ok {
		return false
	}
	return json.Unmarshal(b, dest) == nil
}
func (d *memDCS) rawHas(path string) bool {
	d.mu.Lock()
	_, ok := d.data[path]
	d.mu.Unlock()
	return ok
}
func (d *memDCS) rawDelete(path string) {
	d.mu.Lock()
	delete(d.data, path)
	d.mu.Unlock()
}

// ---------------------------------------------------------------- App assembly

type vAppOpts struct {
	Hostname string
	Port     int
	Tune     func(cfg *config.Config)
	Dir      string
}

type vApp struct {
	app *App
	cfg *config.Config
	dcs *memDCS
	dir string
}

func writeFile(path, content string) { _ = os.WriteFile(path, []byte(content), 0o644) }

func newVApp(w *vk.World, d *memDCS, o vAppOpts) *vApp {
	cfg, err := config.DefaultConfig()
	if err != nil {
		panic(err)
	}
	dir := o.Dir
	cfg.Hostname = o.Hostname
	cfg.DSNSettings = "?interpolateParams=true"
	cfg.MySQL.User, cfg.MySQL.Password = "admin", "admin-secret"
	cfg.MySQL.ReplicationUser, cfg.MySQL.ReplicationPassword = "repl", "repl-secret"
	if o.Port != 0 {
		cfg.MySQL.Port = o.Port
	}
	cfg.SemiSync = true
	cfg.Failover = true
	cfg.RplSemiSyncMasterWaitForSlaveCount = 1
	cfg.Emergefile = filepath.Join(dir, "mysync.emerge")
	cfg.Resetupfile = filepath.Join(dir, "mysync.resetup")
	cfg.Maintenancefile = filepath.Join(dir, "mysync.maintenance")
	cfg.MySQL.DataDir = dir
	cfg.MySQL.PidFile = filepath.Join(dir, "mysqld.pid")
	cfg.MySQL.ErrorLog = filepath.Join(dir, "error.log")
	cfg.TestDiskUsageFile = filepath.Join(dir, "disk_usage")
	cfg.TestFilesystemReadonlyFile = filepath.Join(dir, "fs_readonly")
	writeFile(cfg.TestDiskUsageFile, "10")
	writeFile(cfg.TestFilesystemReadonlyFile, "false")
	writeFile(cfg.MySQL.ErrorLog, "")
	if o.Tune != nil {
		o.Tune(&cfg)
	}
	cfg.SetDynamicDefaults() // what config.ReadFromFile does after loading
	w.CallerOfPort[strconv.Itoa(cfg.MySQL.Port)] = o.Hostname
	nop := zerolog.Nop()
	logger := &nop
	extRepl, err := mysql.NewExternalReplication(util.Disabled, logger, cfg.ExternalReplicationChannel)
	if err != nil {
		panic(err)
	}
	app := &App{
		state:               stateManager,
		config:              &cfg,
		logger:              logger,
		t:                   NewTimings(),
		replRepairState:     make(map[string]*ReplicationRepairState),
		slaveReadPositions:  make(map[string]string),
		externalReplication: extRepl,
		switchHelper:        mysql.NewSwitchHelper(&cfg),
		offlineModeFilter:   NewOfflineModeFilter(&cfg, logger),
		dcs:                 d,
	}
	app.appDCS = NewAppDCS(d, &cfg, logger)
	app.lagResetupper = resetup.NewLagResetupper(logger, app, cfg.ResetupHostLag.Seconds())
	if err := app.newDBCluster(); err != nil {
		panic(err)
	}
	d.silent = true
	_ = app.cluster.UpdateHostsInfo() // a process started during a coordination outage has an empty registry
	d.silent = false
	vInitOpt(app, d)
	return &vApp{app: app, cfg: &cfg, dcs: d, dir: dir}
}

// vInitOpt: same wiring as initializeOptimizationModule, with the adapter's one-time
// `create optimization_nodes` done silently (setup)
func vInitOpt(app *App, d *memDCS) {
	was := d.silent
	d.silent = true
	ad := app_dcs.NewOptimizationDCSAdapter(d)
	_, _ = ad.GetHosts()
	d.silent = was
	app.optSyncer = optimization.NewSyncer(app.logger, app.config.OptimizationConfig, ad)
	app.optController = optimization.NewController(app.config.OptimizationConfig, app.logger, ad, 3*time.Second)
}

// vPanicSite names the innermost mysync (non-test) function on the stack of a recovered panic.
func vPanicSite() string {
	lines := strings.Split(string(debug.Stack()), "\n")
	if os.Getenv("VERIF_STACK") != "" {
		fmt.Println(string(debug.Stack()))
	}
	name := func(fn string) string {
		f := fn
		if j := strings.LastIndex(f, "/"); j >= 0 {
			f = f[j+1:]
		}
		if j := strings.LastIndex(f, "("); j > 0 {
			f = f[:j]
		}
		return f
	}
	first := "unknown"
	for i := 0; i+1 < len(lines); i++ {
		fn, loc := lines[i], lines[i+1]
		if !strings.Contains(loc, "/internal/") || strings.Contains(loc, "_test.go") || strings.Contains(loc, "/verifkit/") || !strings.Contains(fn, "mysync/internal") {
			continue
		}
		if first == "unknown" {
			first = name(fn)
		}
		// the innermost frame of the daemon's own logic (package app) says what went wrong where
		if strings.Contains(loc, "/internal/app/") {
			if first != name(fn) {
				return name(fn) + " -> " + first
			}
			return name(fn)
		}
	}
	return first
}

// ---------------------------------------------------------------- transcript printing

var ignoredKinds = map[string]bool{"SVersion": true, "SUuid": true, "SLockWait": true}

func stmtGal(kind, arg string) string {
	switch kind {
	case "SSetRO":
		return "(SSetRO " + arg + ")"
	case "SChangeSource":
		return "(SChangeSource " + hostGal(arg) + ")"
	case "SSetWaitCount", "SSetFlush", "SSetSyncBinlog", "SKill", "SOtherStmt":
		x, _ := strconv.ParseInt(arg, 10, 64)
		return "(" + kind + " " + vk.Z(x) + ")"
	}
	return kind
}

func entryGal(e vk.Entry, t0 int64) (string, bool) {
	if ignoredKinds[e.Kind] {
		return "", false
	}
	call := e.Raw
	if e.Host != "" {
		call = "(Sql " + hostGal(e.Host) + " " + stmtGal(e.Kind, e.Arg) + ")"
	}
	return "{| te_idx := " + vk.Z(int64(e.Idx)) + "; te_call := " + call + "; te_resp := " + e.Resp + "; te_time := " + vk.Z(e.TEnd-t0) + " |}", true
}

func transcriptGal(es []vk.Entry, t0 int64, only string) string {
	items := []string{}
	for _, e := range es {
		if only != "" && e.Caller != only {
			continue
		}
		if s, ok := entryGal(e, t0); ok {
			items = append(items, s)
		}
	}
	return vk.L(items)
}

func mutatingSummary(es []vk.Entry) []string {
	r := []string{}
	for _, e := range es {
		if e.Mut {
			if e.Host != "" {
				r = append(r, e.Host+":"+e.Kind+" "+e.Arg+" -> "+e.Err)
			} else {
				r = append(r, "dcs:"+e.Kind+" "+e.Arg)
			}
		}
	}
	return r
}

// cfgGal prints the model's config record.
func cfgGal(c *config.Config) string {
	pct := func(f float64) string { return vk.Z(int64(f*100 + 0.5)) }
	d := func(x time.Duration) string { return vk.Z(int64(x)) }
	return "{| c_semi_sync := " + vk.B(c.SemiSync) + "; c_wait_count := " + vk.Z(int64(c.RplSemiSyncMasterWaitForSlaveCount)) +
		"; c_failover := " + vk.B(c.Failover) + "; c_failover_delay := " + d(c.FailoverDelay) + "; c_failover_cooldown := " + d(c.FailoverCooldown) +
		"; c_inactivation_delay := " + d(c.InactivationDelay) + "; c_disable_ro_on_lost := " + vk.B(c.DisableSetReadonlyOnLost) +
		"; c_resetup_crashed := " + vk.B(c.ResetupCrashedHosts) + "; c_db_set_ro_force_timeout := " + d(c.DBSetRoForceTimeout) +
		"; c_critical_disk := " + pct(c.CriticalDiskUsage) + "; c_not_critical_disk := " + pct(c.NotCriticalDiskUsage) +
		"; c_keep_super_writable := " + vk.B(c.KeepSuperWritableOnCriticalDiskUsage) + "; c_semi_sync_enable_lag := " + vk.Z(c.SemiSyncEnableLag) +
		"; c_switchover_timeout := " + d(c.SwitchoverTimeout) + "; c_switchover_max_attempts := " + vk.Z(int64(c.SwitchoverMaxAttempts)) +
		"; c_async := " + vk.B(c.ASync) + "; c_async_allowed_lag := " + d(c.AsyncAllowedLag) +
		"; c_priority_choice_max_lag := " + vk.Z(int64(c.PriorityChoiceMaxLag/time.Second)) +
		"; c_wait_repl_start_timeout := " + d(c.WaitReplicationStartTimeout) + "; c_slave_catch_up_timeout := " + d(c.SlaveCatchUpTimeout) +
		"; c_manager_switchover := " + vk.B(c.ManagerSwitchover) + "; c_manager_election_delay := " + d(c.ManagerElectionDelayAfterQuorumLoss) +
		"; c_repl_mon := " + vk.B(c.ReplMon) + "; c_master_first_adjust := " + vk.B(c.MasterFirstAdjustSSOrder) +
		"; c_offline_enable_lag := " + vk.Z(int64(c.OfflineModeEnableLag/time.Second)*vk.LagScale) + "; c_offline_disable_lag := " + vk.Z(int64(c.OfflineModeDisableLag/time.Second)*vk.LagScale) +
		"; c_offline_enable_interval := " + d(c.OfflineModeEnableInterval) + "; c_offline_max_pct := " + vk.Z(int64(c.OfflineModeMaxOfflinePct)) +
		"; c_repair_aggressive := " + vk.B(c.ReplicationRepairAggressiveMode) + "; c_repair_max_attempts := " + vk.Z(int64(c.ReplicationRepairMaxAttempts)) +
		"; c_repair_cooldown := " + d(c.ReplicationRepairCooldown) + "; c_stream_from_reasonable_lag := " + vk.Z(int64(c.StreamFromReasonableLag/time.Second)) +
		"; c_disable_semisync_on_maint := " + vk.B(c.DisableSemiSyncReplicationOnMaintenance) + " |}"
}

func (v *vApp) close() {
	for _, h := range v.app.cluster.AllNodeHosts() {
		if n := v.app.cluster.Get(h); n != nil {
			_ = n.Close()
		}
	}
	_ = v.app.cluster.Local().Close()
}

const vUUIDPrefix = "6dbc5d2c-5d88-11ee-8c99-0242ac12000"

func hostUUID(h string) string { return vUUIDs[1+int(hostN(h)-1)%3] }
func gset(h string, iv string) string {
	return hostUUID(h) + ":" + iv
}

// timings / positions of the process, as the model's association lists
func failedAtGal(t *Timings, t0 int64) string {
	items := []string{}
	for _, h := range vTimingHosts(t, NodeFailedAt) {
		items = append(items, vk.T(hostGal(h), vk.Z(t.Get(NodeFailedAt, h).UnixNano()-t0)))
	}
	return vk.L(items)
}

// vTimingHosts: the hosts with a running clock of the given kind, read through the public API of Timings over
// every host name of the current fake world (plus h1..h9), sorted
func vTimingHosts(t *Timings, tt TimingType) []string {
	names := map[string]bool{}
	for i := 1; i <= 9; i++ {
		names[fmt.Sprintf("h%d", i)] = true
	}
	vCurWorldMu.Lock()
	w := vCurWorld
	vCurWorldMu.Unlock()
	if w != nil {
		w.Mu.Lock()
		for h := range w.Nodes {
			names[h] = true
		}
		w.Mu.Unlock()
	}
	hs := []string{}
	for h := range names {
		if !t.Get(tt, h).IsZero() {
			hs = append(hs, h)
		}
	}
	sort.Strings(hs)
	return hs
}
func positionsGal(m map[string]string) string {
	hs := []string{}
	for h := range m {
		hs = append(hs, h)
	}
	sort.Strings(hs)
	items := []string{}
	for _, h := range hs {
		v := m[h] // "<file><19-digit pos>"
		if len(v) < 19 {
			continue
		}
		pos, _ := strconv.ParseInt(v[len(v)-19:], 10, 64)
		items = append(items, vk.T(hostGal(h), vk.T(vk.BinlogGal(v[:len(v)-19]), vk.Z(pos))))
	}
	return vk.L(items)
}
func anMemGal(a *App, t0 int64) string {
	return "{| am_failed_at := " + failedAtGal(a.t, t0) + "; am_positions := " + positionsGal(a.slaveReadPositions) + " |}"
}

// nsGal prints a nodestate.NodeState as the model's node_state.
func nsGal(ns *nodestate.NodeState) string {
	if ns == nil {
		return "empty_ns"
	}
	disk := "None"
	if ns.DiskState != nil {
		disk = vk.Some(vk.T(vk.Z(int64(ns.DiskState.Used)), vk.Z(int64(ns.DiskState.Total))))
	}
	daemon := "None"
	if ns.DaemonState != nil {
		daemon = vk.Some(vk.T(vk.Z(nsOf(ns.DaemonState.StartTime)), vk.Z(nsOf(ns.DaemonState.RecoveryTime)), vk.B(ns.DaemonState.CrashRecovery)))
	}
	mg := "None"
	if ns.MasterState != nil {
		mg = vk.Some(vk.GtidGal(ns.MasterState.ExecutedGtidSet))
	}
	sl := "None"
	if ns.SlaveState != nil {
		s := ns.SlaveState
		io, sql := false, false
		ioe, sqle := int64(s.LastIOErrno), int64(s.LastSQLErrno)
		switch s.ReplicationState {
		case mysql.ReplicationRunning:
			io, sql = true, true
		case mysql.ReplicationStopped:
			ioe, sqle = 0, 0
		default:
			if ioe == 0 && sqle == 0 {
				sqle = 1
			}
		}
		lag := "None"
		if s.ReplicationLag != nil {
			lag = vk.Some(vk.Z(int64(math.Round(*s.ReplicationLag * float64(vk.LagScale)))))
		}
		sl = vk.Some("{| rs_source := " + hostGal(s.MasterHost) + "; rs_io := " + vk.B(io) + "; rs_sql := " + vk.B(sql) +
			"; rs_io_errno := " + vk.Z(ioe) + "; rs_sql_errno := " + vk.Z(sqle) + "; rs_lag := " + lag +
			"; rs_executed := " + vk.GtidGal(s.ExecutedGtidSet) + "; rs_retrieved := " + vk.GtidGal(s.RetrievedGtidSet) +
			"; rs_file := " + vk.BinlogGal(s.MasterLogFile) + "; rs_pos := " + vk.Z(s.MasterLogPos) + " |}")
	}
	semi := "None"
	if ns.SemiSyncState != nil {
		semi = vk.Some(vk.T(vk.B(ns.SemiSyncState.MasterEnabled), vk.B(ns.SemiSyncState.SlaveEnabled), vk.Z(int64(ns.SemiSyncState.WaitSlaveCount))))
	}
	rset := "None"
	if ns.ReplicationSettings != nil {
		rset = vk.Some(vk.T(vk.Z(int64(ns.ReplicationSettings.InnodbFlushLogAtTrxCommit)), vk.Z(int64(ns.ReplicationSettings.SyncBinlog))))
	}
	return "{| ns_ping_ok := " + vk.B(ns.PingOk) + "; ns_ping_dubious := " + vk.B(ns.PingDubious) + "; ns_is_master := " + vk.B(ns.IsMaster) +
		"; ns_ro := " + vk.B(ns.IsReadOnly) + "; ns_super_ro := " + vk.B(ns.IsSuperReadOnly) + "; ns_offline := " + vk.B(ns.IsOffline) +
		"; ns_is_cascade := " + vk.B(ns.IsCascade) + "; ns_fs_ro := " + vk.B(ns.IsFileSystemReadonly) + "; ns_has_error := " + vk.B(ns.Error != "") +
		"; ns_disk := " + disk + "; ns_daemon := " + daemon + "; ns_master_gtid := " + mg + "; ns_slave := " + sl + "; ns_semi := " + semi +
		"; ns_repl_settings := " + rset + "; ns_check_at := " + vk.Z(nsOf(ns.CheckAt)) + " |}"
}

func statesGal(m map[string]*nodestate.NodeState) string {
	hs := []string{}
	for h := range m {
		hs = append(hs, h)
	}
	sort.Strings(hs)
	items := []string{}
	for _, h := range hs {
		items = append(items, vk.T(hostGal(h), nsGal(m[h])))
	}
	return vk.L(items)
}
