//go:build verif

package app

import (
	"encoding/json"
	"fmt"
	"os"
	"sort"
	"strings"
	"testing"
	"testing/synctest"
	"time"

	nodestate "github.com/yandex/mysync/internal/app/node_state"
	"github.com/yandex/mysync/internal/config"
	"github.com/yandex/mysync/internal/dcs"
	"github.com/yandex/mysync/internal/mysql"
	vk "github.com/yandex/mysync/internal/verifkit"
)

// ---------------------------------------------------------------- scenarios of the manager iteration

type mgrNode struct {
	Down     bool   `json:"down,omitempty"`
	Exec     string `json:"exec,omitempty"` // default 1-100
	Lag      int64  `json:"lag,omitempty"`
	Cascade  bool   `json:"cascade,omitempty"`
	NoChan   bool   `json:"nochan,omitempty"`   // no replication channel: claims to be a master
	Writable bool   `json:"writable,omitempty"` // read_only = 0
	Stopped  bool   `json:"stopped,omitempty"`  // replication threads stopped
	Dubious  bool   `json:"dubious,omitempty"`  // answers every ping of the manager with 1040 (too many connections); its own mysync reports it healthy
	Health   string `json:"health,omitempty"`   // "" = what a health checker would write | missing | pingfail | fsro | crash | oldformat
	Prio     int64  `json:"prio,omitempty"`
	Cut      bool   `json:"cut,omitempty"`      // the manager cannot reach this (running) server; its own mysync can
	Offline  bool   `json:"offline,omitempty"`  // offline_mode = ON
	ReadOnly bool   `json:"readonly,omitempty"` // the master is read-only
	ROOnly   bool   `json:"ro_only,omitempty"`  // ... with read_only = 1 but super_read_only = 0 (an operator's SET, a fence set under another configuration)
	SS       string `json:"ss,omitempty"`       // the master's semi-sync side: "" = as configured | off (count as configured) | count2 (on, waits for 2) | off_count2
}
type mgrMaint struct {
	Paused      bool `json:"paused"`
	ShouldLeave bool `json:"should_leave"`
	Light       bool `json:"light"`
}
type mgrSwitch struct {
	From, To     string
	Cause        string
	Transition   string // failover | switchover | ""
	RunCount     int
	InitiatedAgo int    // seconds; -1 = zero time
	Failed       bool   // carries a failed result from an earlier attempt
	StartedBy    string `json:",omitempty"` // started (no result yet) by this host's process, which did not live to finish it
}
type mgrLast struct {
	Cause       string
	FinishedAgo int
	NoResult    bool
}
type mgrCfg struct {
	Failover         bool `json:"failover"`
	Delay            int  `json:"delay_s"`
	Cooldown         int  `json:"cooldown_s"`
	Timeout          int  `json:"timeout_s"`
	MaxAttempts      int  `json:"max_attempts"`
	ResetupCrashed   bool `json:"resetup_crashed"`
	SemiSync         bool `json:"semisync"`
	DisableSSOnMaint bool `json:"disable_ss_on_maint"`
}
type mgrEvent struct {
	At     int        `json:"at"`   // before iteration At (0-based)
	Kind   string     `json:"kind"` // down | up | health | abort | maint | nomaint | switch | master | dereg | maintfile
	Host   int        `json:"host,omitempty"`
	Health string     `json:"health,omitempty"`
	Maint  *mgrMaint  `json:"maint,omitempty"`
	Switch *mgrSwitch `json:"switch,omitempty"`
	Master string     `json:"master,omitempty"`
	Lag    int        `json:"lag,omitempty"` // demote: the new source
}
type mgrIn struct {
	Nodes        []mgrNode  `json:"nodes"`
	Master       string     `json:"master"` // recorded master: "h1" | "" (missing) | any name
	Active       []string   `json:"active"` // nil = key missing
	Maint        *mgrMaint  `json:"maint"`
	Switch       *mgrSwitch `json:"switch"`
	Last         *mgrLast   `json:"last"`
	Cfg          mgrCfg     `json:"cfg"`
	Iter         int        `json:"iter"`
	Gap          int        `json:"gap_s"`
	Events       []mgrEvent `json:"events"`
	Fault        *vk.Fault  `json:"fault"`
	DcsFault     *memFault  `json:"dcs_fault"`
	FaultAt      int        `json:"fault_at"` // iteration the faults apply to
	MaintFile    bool       `json:"maint_file"`
	AbortAtStmt  int        `json:"abort_at_stmt"`           // >0: the operator deletes the switch key when the n-th mutating statement of the iteration arrives
	LockLostAt   int        `json:"lock_lost_at"`            // -1 never; k: the k-th AcquireLock of iteration FaultAt returns false
	MgrHost      int        `json:"mgr_host,omitempty"`      // the process under test runs on h<MgrHost> (0 = the last host)
	Start        string     `json:"start,omitempty"`         // state the process starts in: "" = Manager | Candidate | Maintenance | FirstRun
	OtherManager bool       `json:"other_manager,omitempty"` // the manager lock is held by another process
	OptReg       []string   `json:"opt_reg,omitempty"`       // hosts with an entry in the optimisation registry (registered or not)
	RaceSwitch   *mgrSwitch `json:"race_switch,omitempty"`   // a second initiator files this request while iteration FaultAt is reading last_switch (between the manager's look and its own filing)
}

type mgrStep struct {
	Trans        []vk.Entry
	Next         appState
	Panic        string
	PanicSite    string
	MemBefore    string
	HostsBefore  string
	FailedBefore map[string]int64
	FailedAfter  map[string]int64
	Files        map[string]bool // maintenance/emerge file before
	FilesAfter   map[string]bool
	T0           int64
	Tree         map[string]string // selected keys before
	TreeAfter    map[string]string
	WorldBefore  map[string]vk.Node
	WorldAfter   map[string]vk.Node
	Health       map[string]*nodestate.NodeState
	LockHeld     bool
	Restarted    bool            // a fresh manager process runs this iteration
	CutNow       map[string]bool // hosts the manager cannot reach in this iteration
	Raced        bool            // the second initiator got its request in during this iteration
	State        appState        // which state handler ran
	Connected    bool
}
type mgrOut struct {
	Steps []mgrStep
	Cfg   *config.Config
	Hosts []string
}

var mgrSerial int

func (s *mgrSwitch) toSwitchover(now time.Time) Switchover {
	mgrSerial++ // every filed request is a different request, even with equal fields
	sw := Switchover{From: s.From, To: s.To, Cause: s.Cause, MasterTransition: MasterTransition(s.Transition), InitiatedBy: fmt.Sprintf("operator#%d", mgrSerial), RunCount: s.RunCount}
	if s.InitiatedAgo >= 0 {
		sw.InitiatedAt = now.Add(-time.Duration(s.InitiatedAgo) * time.Second)
		if sw.InitiatedAt.UnixNano() == vEpoch {
			sw.InitiatedAt = sw.InitiatedAt.Add(time.Second) // 0 relative to the epoch means "unset" in the model
		}
	}
	if s.Failed {
		sw.Result = &SwitchoverResult{Ok: false, Error: "earlier attempt failed", FinishedAt: now.Add(-time.Second)}
		sw.StartedBy, sw.StartedAt = "h9", now.Add(-2*time.Second)
	}
	if s.StartedBy != "" {
		sw.StartedBy, sw.StartedAt = s.StartedBy, now.Add(-2*time.Second)
	}
	return sw
}

func mgrHealth(app *App, w *vk.World, h string, kind string) *nodestate.NodeState {
	// the record is what the host's own mysync would see: lift the manager's partition while looking
	w.Mu.Lock()
	cut := w.Partition[app.config.Hostname]
	w.Partition[app.config.Hostname] = nil
	w.Mu.Unlock()
	pe := 0
	w.Mu.Lock()
	if n := w.Nodes[h]; n != nil {
		pe, n.PingErrno = n.PingErrno, 0 // its own mysync connects locally
	}
	w.Mu.Unlock()
	ns := app.getNodeState(h)
	w.Mu.Lock()
	w.Partition[app.config.Hostname] = cut
	if n := w.Nodes[h]; n != nil {
		n.PingErrno = pe
	}
	w.Mu.Unlock()
	if cut != nil && cut[h] {
		w.Mu.Lock()
		if n := w.Nodes[h]; n != nil {
			w.DropConnsLocked(n) // the connection opened while looking does not survive
		}
		w.Mu.Unlock()
	}
	if os.Getenv("VERIF_DEBUG") != "" {
		fmt.Printf("mgrHealth %s kind=%q ping=%v cut=%v\n", h, kind, ns.PingOk, cut)
	}
	switch kind {
	case "pingfail":
		ns = &nodestate.NodeState{CheckBy: h, CheckAt: time.Now(), PingOk: false}
	case "oldformat":
		// a record written by a mysync version from before replication settings were reported
		ns.ReplicationSettings = nil
	case "fsro":
		ns.IsFileSystemReadonly = true
	case "crashfail":
		// the record of a server that restarted after a crash and does not answer (still in crash recovery, or the flag of
		// an earlier crash with a ping that fails now)
		ns = &nodestate.NodeState{CheckBy: h, CheckAt: time.Now(), PingOk: false,
			DaemonState: &nodestate.DaemonState{StartTime: time.Now().Add(-time.Minute), RecoveryTime: time.Now().Add(-30 * time.Second), CrashRecovery: true}}
	case "crash":
		ns.DaemonState = &nodestate.DaemonState{StartTime: time.Now().Add(-time.Minute), RecoveryTime: time.Now().Add(-30 * time.Second), CrashRecovery: true}
	}
	return ns
}

func mgrTree(d *memDCS) map[string]string {
	r := map[string]string{}
	d.mu.Lock()
	defer d.mu.Unlock()
	for k, v := range d.data {
		top := strings.SplitN(k, "/", 2)[0]
		switch top {
		case pathMasterNode, pathActiveNodes, pathCurrentSwitch, pathLastSwitch, pathLastRejectedSwitch, pathMaintenance, pathRecovery:
			r[k] = string(v)
		}
	}
	return r
}

func mgrFailed(app *App) map[string]int64 {
	r := map[string]int64{}
	for _, h := range vTimingHosts(app.t, NodeFailedAt) {
		r[h] = app.t.Get(NodeFailedAt, h).UnixNano() - vEpoch
	}
	return r
}

func mgrRun(in mgrIn) mgrOut {
	vk.Running("mgr", in)
	var out mgrOut
	dir, _ := os.MkdirTemp("", "mgr")
	defer os.RemoveAll(dir)
	w := vk.NewWorld()
	vInstall(w)
	mgr := fmt.Sprintf("h%d", len(in.Nodes))
	if in.MgrHost > 0 && in.MgrHost <= len(in.Nodes) {
		mgr = fmt.Sprintf("h%d", in.MgrHost)
	}
	d := newMemDCS(w, mgr)
	d.silent = true
	u1 := hostUUID("h1")
	for i, c := range in.Nodes {
		h := fmt.Sprintf("h%d", i+1)
		ex := c.Exec
		if ex == "" {
			ex = "1-100"
		}
		n := &vk.Node{Host: h, UUID: hostUUID(h), Up: !c.Down, Executed: u1 + ":" + ex}
		if i == 0 || c.NoChan {
			n.RO, n.SuperRO = !(i == 0 || c.Writable), !(i == 0 || c.Writable)
			if i == 0 {
				n.SSMaster, n.WaitCount = in.Cfg.SemiSync, 1
				switch c.SS {
				case "off":
					n.SSMaster = false
				case "on":
					n.SSMaster = true
				case "count2":
					n.SSMaster, n.WaitCount = true, 2
				case "off_count2":
					n.SSMaster, n.WaitCount = false, 2
				}
				if c.ReadOnly {
					n.RO, n.SuperRO = true, !c.ROOnly
				}
			}
		} else {
			n.RO, n.SuperRO = !c.Writable, !c.Writable
			n.Chan = &vk.Chan{Source: "h1", IO: !c.Stopped, SQL: !c.Stopped}
			if c.Dubious {
				n.PingErrno = 1040
			}
			n.Retrieved = n.Executed
			n.SSSlave, n.SSSlaveEffective = in.Cfg.SemiSync, in.Cfg.SemiSync
			lag := c.Lag
			n.Lag = &lag
		}
		n.Offline = c.Offline
		w.AddNode(n)
		if c.Cut {
			if w.Partition[mgr] == nil {
				w.Partition[mgr] = map[string]bool{}
			}
			w.Partition[mgr][h] = true
		}
		if c.Cascade {
			d.rawSet(dcs.JoinPath(pathCascadeNodesPrefix, h), mysql.CascadeNodeConfiguration{StreamFrom: "h1"})
		} else {
			d.rawSet(dcs.JoinPath(pathHANodes, h), mysql.NodeConfiguration{Priority: c.Prio})
		}
		out.Hosts = append(out.Hosts, h)
	}
	w.AutoReplicate = true
	tune := func(cfg *config.Config) {
		cfg.Failover = in.Cfg.Failover
		cfg.FailoverDelay = time.Duration(in.Cfg.Delay) * time.Second
		cfg.FailoverCooldown = time.Duration(in.Cfg.Cooldown) * time.Second
		cfg.SwitchoverTimeout = time.Duration(in.Cfg.Timeout) * time.Second
		cfg.SwitchoverMaxAttempts = in.Cfg.MaxAttempts
		cfg.ResetupCrashedHosts = in.Cfg.ResetupCrashed
		cfg.SemiSync = in.Cfg.SemiSync
		cfg.DisableSemiSyncReplicationOnMaintenance = in.Cfg.DisableSSOnMaint
		cfg.SlaveCatchUpTimeout = 10 * time.Second
		cfg.WaitReplicationStartTimeout = 3 * time.Second
		cfg.ReplMon = false
	}
	va := newVApp(w, d, vAppOpts{Hostname: mgr, Dir: dir, Tune: tune})
	defer func() { va.close() }()
	app := va.app
	out.Cfg = va.cfg
	time.Sleep(7 * time.Second) // never run at the epoch itself: a clock value of 0 means "unset" in the model
	now := time.Now()
	if in.Master != "" {
		d.rawSet(pathMasterNode, in.Master)
	}
	if in.Active != nil {
		d.rawSet(pathActiveNodes, in.Active)
	}
	setMaint := func(m *mgrMaint) {
		mode := FullMode
		if m.Light {
			mode = LightMode
		}
		d.rawSet(pathMaintenance, Maintenance{InitiatedBy: "operator", InitiatedAt: time.Now(), MySyncPaused: m.Paused, ShouldLeave: m.ShouldLeave, Mode: mode})
	}
	if in.Maint != nil {
		setMaint(in.Maint)
	}
	if in.Switch != nil {
		d.rawSet(pathCurrentSwitch, in.Switch.toSwitchover(now))
	}
	if in.Last != nil {
		ls := Switchover{From: "h9", Cause: in.Last.Cause, MasterTransition: FailoverTransition, InitiatedBy: "x", InitiatedAt: now.Add(-time.Hour)}
		if !in.Last.NoResult {
			ls.Result = &SwitchoverResult{Ok: true, FinishedAt: now.Add(-time.Duration(in.Last.FinishedAgo) * time.Second)}
		}
		d.rawSet(pathLastSwitch, ls)
	}
	if in.MaintFile {
		writeFile(va.cfg.Maintenancefile, "")
	}
	for _, h := range in.OptReg {
		d.rawSet(dcs.JoinPath("optimization_nodes", h), map[string]string{"status": ""})
	}
	setHealth := func(h, kind string) {
		if kind == "missing" {
			d.rawDelete(dcs.JoinPath(pathHealthPrefix, h))
			return
		}
		if app.cluster.Get(h) == nil && app.cluster.Local().Host() != h {
			return // this process has no handle for the host (registry not loaded): the record stays as it was
		}
		d.rawSet(dcs.JoinPath(pathHealthPrefix, h), mgrHealth(app, w, h, kind))
	}
	for i, c := range in.Nodes {
		setHealth(fmt.Sprintf("h%d", i+1), c.Health)
	}
	fileState := func() map[string]bool {
		r := map[string]bool{}
		_, e1 := os.Stat(va.cfg.Maintenancefile)
		_, e2 := os.Stat(va.cfg.Emergefile)
		r["maintenance"], r["emerge"] = e1 == nil, e2 == nil
		return r
	}
	snap := func() map[string]vk.Node {
		w.Mu.Lock()
		defer w.Mu.Unlock()
		r := map[string]vk.Node{}
		for h, n := range w.Nodes {
			r[h] = n.Snapshot()
		}
		return r
	}
	cur := appState(stateManager)
	if in.Start != "" {
		cur = appState(in.Start)
	}
	if in.OtherManager {
		d.mu.Lock()
		d.sh.lockOwner = "h0"
		d.mu.Unlock()
	}
	for k := 0; k < in.Iter; k++ {
		for _, ev := range in.Events {
			if ev.At != k {
				continue
			}
			h := fmt.Sprintf("h%d", ev.Host)
			switch ev.Kind {
			case "down":
				w.Mu.Lock()
				if n := w.Nodes[h]; n != nil {
					w.KillLocked(n)
				}
				w.Mu.Unlock()
			case "up":
				w.Mu.Lock()
				if n := w.Nodes[h]; n != nil {
					n.Up = true
				}
				w.Mu.Unlock()
			case "cut":
				w.Mu.Lock()
				if w.Partition[mgr] == nil {
					w.Partition[mgr] = map[string]bool{}
				}
				w.Partition[mgr][h] = true
				if n := w.Nodes[h]; n != nil {
					w.DropConnsLocked(n)
				}
				w.Mu.Unlock()
			case "uncut":
				w.Mu.Lock()
				delete(w.Partition[mgr], h)
				w.Mu.Unlock()
			case "health":
				setHealth(h, ev.Health)
			case "abort":
				d.rawDelete(pathCurrentSwitch)
			case "maint":
				setMaint(ev.Maint)
			case "nomaint":
				d.rawDelete(pathMaintenance)
			case "switch":
				if !d.rawHas(pathCurrentSwitch) {
					d.rawSet(pathCurrentSwitch, ev.Switch.toSwitchover(time.Now()))
				}
			case "master":
				if ev.Master == "" {
					d.rawDelete(pathMasterNode)
				} else {
					d.rawSet(pathMasterNode, ev.Master)
				}
			case "dereg":
				d.rawDelete(dcs.JoinPath(pathHANodes, h))
			case "maintfile":
				writeFile(va.cfg.Maintenancefile, "")
			case "restart": // the manager process is replaced by a fresh one (empty process memory)
				va.close()
				d.silent = true
				va = newVApp(w, d, vAppOpts{Hostname: mgr, Dir: dir, Tune: tune})
				app = va.app
				cur = stateFirstRun
			case "dcsdown":
				d.mu.Lock()
				d.connected = false
				d.mu.Unlock()
			case "dcsup":
				d.mu.Lock()
				d.connected = true
				d.mu.Unlock()
			case "otherlock": // another process takes / releases the manager lock
				d.mu.Lock()
				if d.sh.lockOwner == "h0" {
					d.sh.lockOwner = ""
				} else {
					d.sh.lockOwner = "h0"
				}
				d.mu.Unlock()
			case "rmfile":
				_ = os.Remove(va.cfg.Maintenancefile)
			case "promote": // the operator makes this server a writable master by hand
				w.Mu.Lock()
				if n := w.Nodes[h]; n != nil {
					n.Chan, n.RO, n.SuperRO = nil, false, false
				}
				w.Mu.Unlock()
			case "demote": // ... or a read-only replica of h<Lag>
				w.Mu.Lock()
				if n := w.Nodes[h]; n != nil {
					n.Chan, n.RO, n.SuperRO = &vk.Chan{Source: fmt.Sprintf("h%d", ev.Lag), IO: true, SQL: true}, true, true
					n.Retrieved = n.Executed
				}
				w.Mu.Unlock()
			}
		}
		var st mgrStep
		for _, ev := range in.Events {
			if ev.At == k && ev.Kind == "restart" {
				st.Restarted = true
			}
		}
		st.MemBefore = mgrMemGal(app)
		st.FailedBefore = mgrFailed(app)
		st.Files = fileState()
		st.CutNow = map[string]bool{}
		w.Mu.Lock()
		for h, v := range w.Partition[mgr] {
			st.CutNow[h] = v
		}
		w.Mu.Unlock()
		st.Tree = mgrTree(d)
		st.WorldBefore = snap()
		st.Health = map[string]*nodestate.NodeState{}
		for _, h := range out.Hosts {
			var ns nodestate.NodeState
			if d.rawGet(dcs.JoinPath(pathHealthPrefix, h), &ns) {
				st.Health[h] = &ns
			}
		}
		w.ResetTranscript()
		w.Faults, d.faults = nil, nil
		if k == in.FaultAt {
			if in.Fault != nil {
				f := *in.Fault
				w.Faults = append(w.Faults, &f)
			}
			if in.DcsFault != nil {
				f := *in.DcsFault
				d.faults = append(d.faults, &f)
			}
			if in.LockLostAt >= 0 {
				d.faults = append(d.faults, &memFault{Op: "lock", Nth: in.LockLostAt})
			}
		}
		d.onGet = nil
		if in.RaceSwitch != nil && k == in.FaultAt {
			d.onGet = func(path string) {
				if path == pathLastSwitch && !d.rawHas(pathCurrentSwitch) {
					d.rawSet(pathCurrentSwitch, in.RaceSwitch.toSwitchover(time.Now()))
					st.Raced = true
				}
			}
		}
		w.OnStatement = nil
		if in.AbortAtStmt > 0 && k == in.FaultAt {
			cnt := 0
			w.OnStatement = func(w *vk.World, n *vk.Node, caller, kind, arg string) {
				if strings.HasPrefix(kind, "SSet") || kind == "SChangeSource" || kind == "SStopRepl" || kind == "SStopIO" || kind == "SStartRepl" || kind == "SResetReplAll" {
					cnt++
					if cnt == in.AbortAtStmt {
						d.rawDelete(pathCurrentSwitch)
					}
				}
			}
		}
		st.T0 = time.Now().UnixNano() - vEpoch
		d.silent = false
		st.State = cur
		d.mu.Lock()
		st.Connected = d.connected
		d.mu.Unlock()
		func() {
			defer func() {
				if r := recover(); r != nil {
					st.Panic = fmt.Sprint(r)
					st.PanicSite = vPanicSite()
				}
			}()
			switch cur {
			case stateManager:
				st.Next = app.stateManager()
			case stateCandidate:
				st.Next = app.stateCandidate()
			case stateMaintenance:
				st.Next = app.stateMaintenance()
			case stateLost:
				st.Next = app.stateLost()
			case stateFirstRun:
				st.Next = app.stateFirstRun()
				vInitOpt(app, d)
			default:
				st.Next = cur
			}
		}()
		cur = st.Next
		d.silent = true
		d.onGet = nil
		synctest.Wait()
		st.Trans = w.Transcript()
		st.FailedAfter = mgrFailed(app)
		st.FilesAfter = fileState()
		st.TreeAfter = mgrTree(d)
		st.WorldAfter = snap()
		d.mu.Lock()
		st.LockHeld = d.sh.lockOwner == mgr
		d.mu.Unlock()
		out.Steps = append(out.Steps, st)
		if st.Panic != "" {
			break
		}
		time.Sleep(time.Duration(in.Gap) * time.Second)
	}
	return out
}

func mgrMemGal(app *App) string {
	return "{| mm_ha := " + hostsGal(app.cluster.HANodeHosts()) + "; mm_casc := " + hostsGal(app.cluster.CascadeNodeHosts()) +
		"; mm_an := " + anMemGal(app, vEpoch) + "; mm_repair := " + repairMemGal(app) + " |}"
}

func mgrNextGal(s appState) string {
	switch s {
	case stateManager:
		return "NxManager"
	case stateCandidate:
		return "NxCandidate"
	case stateLost:
		return "NxLost"
	case stateMaintenance:
		return "NxMaintenance"
	}
	return "NxManager"
}

func mgrCases(in mgrIn, out mgrOut) []string {
	uu := []string{}
	for _, h := range out.Hosts {
		uu = append(uu, vk.T(hostGal(h), vk.N(uint64(uuidIndexOf(hostUUID(h))))))
	}
	env := "{| me_uuid_of := " + vk.L(uu) + "; me_repair_order := []; me_offline_order := []; me_zone := [] |}"
	var orders []string
	var perm func(rest, acc []string)
	perm = func(rest, acc []string) {
		if len(rest) == 0 {
			orders = append(orders, hostsGal(acc))
			return
		}
		for i := range rest {
			nr := append(append([]string{}, rest[:i]...), rest[i+1:]...)
			perm(nr, append(append([]string{}, acc...), rest[i]))
		}
	}
	perm(out.Hosts, nil)
	var cs []string
	for _, st := range out.Steps {
		tag := map[appState]int64{stateManager: 0, stateCandidate: 1, stateMaintenance: 2}
		if _, ok := tag[st.State]; !ok {
			continue // first run / lost: not part of this model (the lost state is C08's)
		}
		files := vk.L([]string{vk.T("1%N", vk.B(st.Files["emerge"])), vk.T("3%N", vk.B(st.Files["maintenance"]))})
		fa := []string{}
		hs := []string{}
		for h := range st.FailedAfter {
			hs = append(hs, h)
		}
		sort.Strings(hs)
		for _, h := range hs {
			fa = append(fa, vk.T(hostGal(h), vk.Z(st.FailedAfter[h])))
		}
		cs = append(cs, vk.T(vk.Z(tag[st.State]), cfgGal(out.Cfg), env, vk.L(orders), st.MemBefore, transcriptGal(st.Trans, vEpoch, ""), vk.Z(st.T0), files, mgrNextGal(st.Next),
			vk.L(fa), vk.B(st.Panic != ""), vk.B(st.FilesAfter["emerge"]), vk.B(st.FilesAfter["maintenance"])))
	}
	return cs
}

// ---------------------------------------------------------------- generator

func mgrGen(o *vk.Out) mgrIn {
	r := o.Rng
	n := 2 + r.Intn(3)
	in := mgrIn{Master: "h1", Iter: 1 + r.Intn(3), Gap: []int{1, 5, 31}[r.Intn(3)], FaultAt: 0, LockLostAt: -1,
		Cfg: mgrCfg{Failover: r.Intn(5) != 0, Delay: []int{0, 3, 30}[r.Intn(3)], Cooldown: []int{0, 600, 3600}[r.Intn(3)], Timeout: []int{60, 300}[r.Intn(2)],
			MaxAttempts: []int{0, 1, 3}[r.Intn(3)], ResetupCrashed: r.Intn(3) == 0, SemiSync: r.Intn(2) == 0, DisableSSOnMaint: r.Intn(2) == 0}}
	for i := 1; i <= n; i++ {
		c := mgrNode{Prio: int64(r.Intn(2)) * 5}
		if i > 1 {
			if r.Intn(10) == 0 {
				c.Down = true
			}
			if r.Intn(12) == 0 {
				c.Stopped = true
			}
			if r.Intn(15) == 0 && n > 2 {
				c.Cascade = true
			}
			if r.Intn(20) == 0 {
				c.NoChan = true
			}
			if r.Intn(8) == 0 {
				c.Lag = []int64{5, 100, 700}[r.Intn(3)]
			}
			if r.Intn(10) == 0 {
				c.Health = []string{"missing", "pingfail"}[r.Intn(2)]
			}
		}
		in.Nodes = append(in.Nodes, c)
	}
	for i := 1; i <= n; i++ {
		if !in.Nodes[i-1].Cascade && r.Intn(6) != 0 {
			in.Active = append(in.Active, fmt.Sprintf("h%d", i))
		}
	}
	if r.Intn(12) == 0 {
		in.Active = nil
	}
	pick := func() string { return fmt.Sprintf("h%d", 2+r.Intn(n-1)) }
	mkSwitch := func() *mgrSwitch {
		s := &mgrSwitch{Cause: CauseManual, Transition: "switchover", InitiatedAgo: []int{0, 3, 40, 100, 400, -1}[r.Intn(6)], RunCount: []int{0, 0, 1, 2, 3, 5}[r.Intn(6)]}
		switch r.Intn(5) {
		case 0:
			s.To = pick()
		case 1:
			s.From = "h1"
		case 2:
			s.From, s.Cause, s.Transition = "h1", CauseAuto, "failover"
		case 3:
			s.From, s.Transition = "h1", "failover"
		case 4:
			s.From, s.Cause, s.Transition = "h1", CauseWorker, ""
			if r.Intn(2) == 0 {
				s.To, s.From = pick(), ""
			}
		}
		s.Failed = s.RunCount > 0
		return s
	}
	// master trouble
	switch r.Intn(8) {
	case 0, 1, 2: // dead master, health says so
		in.Nodes[0].Down, in.Nodes[0].Health = true, []string{"pingfail", "pingfail", "missing"}[r.Intn(3)]
	case 3: // manager cannot reach it, health good
		in.Nodes[0].Down = true
	case 4:
		in.Nodes[0].Health = []string{"fsro", "crash", "pingfail"}[r.Intn(3)]
	}
	if r.Intn(3) == 0 {
		in.Last = &mgrLast{Cause: []string{CauseAuto, CauseManual}[r.Intn(2)], FinishedAgo: []int{10, 700, 4000}[r.Intn(3)], NoResult: r.Intn(10) == 0}
	}
	switch r.Intn(6) {
	case 0:
		in.Maint = &mgrMaint{Paused: r.Intn(2) == 0, ShouldLeave: r.Intn(3) == 0, Light: r.Intn(2) == 0}
		in.MaintFile = r.Intn(2) == 0
	}
	if r.Intn(3) == 0 {
		in.Switch = mkSwitch()
	}
	switch r.Intn(10) {
	case 0:
		in.Master = ""
	case 1:
		in.Master = "h9"
	case 2:
		in.Master = pick()
	}
	// events between iterations
	for k := 1; k < in.Iter; k++ {
		switch r.Intn(8) {
		case 0:
			in.Events = append(in.Events, mgrEvent{At: k, Kind: "down", Host: 1}, mgrEvent{At: k, Kind: "health", Host: 1, Health: "pingfail"})
		case 1:
			in.Events = append(in.Events, mgrEvent{At: k, Kind: "up", Host: 1}, mgrEvent{At: k, Kind: "health", Host: 1, Health: ""})
		case 2:
			in.Events = append(in.Events, mgrEvent{At: k, Kind: "abort"})
		case 3:
			in.Events = append(in.Events, mgrEvent{At: k, Kind: "switch", Switch: mkSwitch()})
		case 4:
			in.Events = append(in.Events, mgrEvent{At: k, Kind: "maint", Maint: &mgrMaint{Light: r.Intn(2) == 0, ShouldLeave: r.Intn(4) == 0, Paused: r.Intn(3) == 0}})
		case 5:
			in.Events = append(in.Events, mgrEvent{At: k, Kind: "health", Host: 1 + r.Intn(n), Health: []string{"", "missing", "pingfail", "fsro", "crash"}[r.Intn(5)]})
		}
	}
	if r.Intn(25) == 0 {
		in.LockLostAt = r.Intn(3)
	}
	// the semi-sync speed-up phase of planned switchovers is covered by C19 (it is not part of perform_switchover's model)
	planned := in.Switch != nil && in.Switch.Transition == "switchover"
	for _, ev := range in.Events {
		if ev.Switch != nil && ev.Switch.Transition == "switchover" {
			planned = true
		}
	}
	if planned {
		in.Cfg.SemiSync = false
	}
	return in
}

// a fault at one visited call of one iteration
func mgrFaultVariants(o *vk.Out, in mgrIn, out mgrOut, all bool) []mgrIn {
	var res []mgrIn
	for k, st := range out.Steps {
		var visited []vk.Entry
		for _, e := range st.Trans {
			if e.Kind != "SRefused" && !ignoredKinds[e.Kind] && e.Kind != "LockAcquire" && e.Kind != "DcsConnected" {
				visited = append(visited, e)
			}
		}
		if len(visited) == 0 {
			continue
		}
		// the observation order of parallel sections varies from run to run: pick from a canonical order
		sort.SliceStable(visited, func(a, b int) bool {
			if visited[a].Host != visited[b].Host {
				return visited[a].Host < visited[b].Host
			}
			if visited[a].Kind != visited[b].Kind {
				return visited[a].Kind < visited[b].Kind
			}
			if visited[a].Arg != visited[b].Arg {
				return visited[a].Arg < visited[b].Arg
			}
			return visited[a].Idx < visited[b].Idx
		})
		picks := []int{o.Rng.Intn(len(visited))}
		if all {
			picks = nil
			for i := range visited {
				picks = append(picks, i)
			}
		}
		for _, i := range picks {
			e := visited[i]
			fin := in
			fin.FaultAt = k
			fin.Fault, fin.DcsFault = nil, nil
			if e.Host != "" {
				nth := 0
				for _, p := range visited {
					if p.Host == e.Host && p.Kind == e.Kind && p.Idx < e.Idx {
						nth++
					}
				}
				fin.Fault = &vk.Fault{Host: e.Host, Kind: e.Kind, Nth: nth, Action: []string{"err:1105", "drop", "applydrop"}[o.Rng.Intn(3)]}
				if e.Kind == "SShowReplica" && o.Rng.Intn(3) == 0 {
					fin.Fault.Action = "unchannel" // the channel is removed from outside right before the status is read
				}
			} else if op := map[string]string{"DcsGet": "get", "DcsSet": "set", "DcsCreate": "create", "DcsChildren": "children", "DcsDelete": "delete"}[e.Kind]; op != "" {
				nth := 0
				for _, p := range visited {
					if p.Host == "" && p.Kind == e.Kind && p.Arg == e.Arg && p.Idx < e.Idx {
						nth++
					}
				}
				fin.DcsFault = &memFault{Op: op, Path: e.Arg, Nth: nth}
			} else {
				continue
			}
			res = append(res, fin)
		}
	}
	return res
}

func mgrDrive(t *testing.T, o *vk.Out, m *vk.Meta, monitor func(*vk.Meta, mgrIn, mgrOut), prefix string, n int, gen func(*vk.Out) mgrIn) {
	run := func(in mgrIn) (out mgrOut) {
		synctest.Test(t, func(t *testing.T) { out = mgrRun(in) })
		return
	}
	imports := []string{"Gtid.GtidSet", "Base.Prog", "Base.Config", "Base.Replay", "Procs.NodeOps", "Procs.ActiveNodes", "Procs.Switchover", "Procs.Repair", "Procs.Manager", "Corr.C13", "Corr.Mgr"}
	dist := vk.Distinct{}
	var cases []string
	shard := 0
	flush := func() {
		if len(cases) > 0 {
			o.CasesFile(fmt.Sprintf("%s_%02d", prefix, shard), imports, "mgr_case", cases, "mismatches_mgr")
			cases = nil
			shard++
		}
	}
	add := func(in mgrIn, out mgrOut) {
		monitor(m, in, out)
		for _, c := range mgrCases(in, out) {
			file := fmt.Sprintf("%s_%02d", prefix, shard)
			cases = append(cases, c)
			m.Cases[file] = append(m.Cases[file], in)
			m.Evaluations++
			if len(cases) >= 60 {
				flush()
			}
		}
	}
	for _, raw := range vk.CorpusInputs() {
		var in mgrIn
		if json.Unmarshal(raw, &in) == nil && len(in.Nodes) > 0 {
			add(in, run(in))
		}
	}
	for i := 0; i < n; i++ {
		in := gen(o)
		out := run(in)
		add(in, out)
		dist.Add(fmt.Sprintf("%+v", in))
		m.Count(fmt.Sprintf("nodes_%d", len(in.Nodes)))
		for _, st := range out.Steps {
			m.Count("next_" + string(st.Next))
			if st.Panic != "" {
				m.Count("panic")
			}
			for _, e := range st.Trans {
				if e.Mut && e.Host == "" && (e.Kind == "DcsCreate" || e.Kind == "DcsSet" || e.Kind == "DcsDelete") {
					m.Count("write_" + e.Kind + "_" + strings.SplitN(e.Arg, "/", 2)[0])
				}
			}
		}
		if i == 1 {
			m.Sample(map[string]any{"input": in, "next": out.Steps[0].Next, "mutating": mutatingSummary(out.Steps[0].Trans)})
		}
		if i%2 == 0 || o.Thorough() {
			for _, fin := range mgrFaultVariants(o, in, out, false) {
				add(fin, run(fin))
				m.Count("with_fault")
			}
		}
	}
	flush()
	m.DistinctNontrivial += dist.Len()
}

func mgrNoMonitor(m *vk.Meta, in mgrIn, out mgrOut) {}

func TestVerifMgr(t *testing.T) {
	o := vk.Open()
	m := vk.NewMeta()
	var rp mgrIn
	if vk.ReplayInput(&rp) {
		var out mgrOut
		synctest.Test(t, func(t *testing.T) { out = mgrRun(rp) })
		_ = out
		m.Evaluations = 1
		o.WriteMeta("mgr", m)
		return
	}
	n := 150
	if o.Thorough() {
		n = 1500
	}
	mgrDrive(t, o, m, mgrNoMonitor, "mgr", n, mgrGen)
	m.Rule = "iterations of the real App.stateManager"
	o.WriteMeta("mgr", m)
}
