//go:build verif

package app

import (
	"fmt"
	"os"
	"time"
	"testing"
	"testing/synctest"

	nodestate "github.com/yandex/mysync/internal/app/node_state"
	"github.com/yandex/mysync/internal/config"
	"github.com/yandex/mysync/internal/dcs"
	"github.com/yandex/mysync/internal/mysql"
	vk "github.com/yandex/mysync/internal/verifkit"
)

// K1 for the resolver: topology over h1 (master), h2 (HA replica), h3..h5 (cascade)
type c16ResIn struct {
	Stream  [3]int  `json:"stream"`  // stream_from of h3,h4,h5: 0 = none, else host index 1..5
	Healthy [5]bool `json:"healthy"` // h1..h5 healthy as a source (ping ok, online, reasonable lag)
	Self    int     `json:"self"`    // 3..5
	Cur     int     `json:"cur"`     // current source of self (1..5)
	Running bool    `json:"running"` // self's replication running
}

func c16State(healthy bool, master bool, src string, running bool) *nodestate.NodeState {
	ns := &nodestate.NodeState{PingOk: healthy, IsMaster: master}
	if master {
		ns.MasterState = &nodestate.MasterState{ExecutedGtidSet: gset("h1", "1-10")}
		return ns
	}
	lag := 0.0
	st := mysql.ReplicationRunning
	if !running {
		st = mysql.ReplicationStopped
	}
	ns.SlaveState = &nodestate.SlaveState{MasterHost: src, ReplicationState: st, ReplicationLag: &lag, ExecutedGtidSet: gset("h1", "1-10")}
	return ns
}

func TestVerifC16(t *testing.T) {
	o := vk.Open()
	m := vk.NewMeta()
	dir, _ := os.MkdirTemp("", "c16")
	defer os.RemoveAll(dir)
	w := vk.NewWorld()
	vInstall(w)
	d := newMemDCS(w, "h1")
	d.silent = true
	for i := 1; i <= 5; i++ {
		h := fmt.Sprintf("h%d", i)
		w.AddNode(&vk.Node{Host: h, UUID: hostUUID(h), Up: true})
		if i <= 2 {
			d.rawSet(dcs.JoinPath(pathHANodes, h), mysql.NodeConfiguration{})
		} else {
			d.rawSet(dcs.JoinPath(pathCascadeNodesPrefix, h), mysql.CascadeNodeConfiguration{})
		}
	}
	va := newVApp(w, d, vAppOpts{Hostname: "h1", Dir: dir, Tune: func(cfg *config.Config) {}})
	defer va.close()
	app := va.app
	resolve := func(in c16ResIn) (res string, panicked bool, state map[string]*nodestate.NodeState, topo map[string]mysql.CascadeNodeConfiguration) {
		state = map[string]*nodestate.NodeState{}
		state["h1"] = c16State(in.Healthy[0], true, "", true)
		state["h2"] = c16State(in.Healthy[1], false, "h1", true)
		topo = map[string]mysql.CascadeNodeConfiguration{}
		for i := 3; i <= 5; i++ {
			h := fmt.Sprintf("h%d", i)
			src := "h1"
			run := true
			if i == in.Self {
				src = fmt.Sprintf("h%d", in.Cur)
				run = in.Running
			}
			state[h] = c16State(in.Healthy[i-1], false, src, run)
			state[h].IsCascade = true
			sf := ""
			if in.Stream[i-3] != 0 {
				sf = fmt.Sprintf("h%d", in.Stream[i-3])
			}
			topo[h] = mysql.CascadeNodeConfiguration{StreamFrom: sf}
		}
		// "always terminates": the call runs under a watchdog of real time (a resolution takes microseconds); a call
		// that has not returned after 5 s is reported with its input as the failing one and the run stops there (the
		// spinning goroutine cannot be killed, the test process ends with the test)
		type c16Ret struct {
			res      string
			panicked bool
		}
		done := make(chan c16Ret, 1)
		node := app.cluster.Get(fmt.Sprintf("h%d", in.Self))
		go func() {
			var r c16Ret
			defer func() {
				if x := recover(); x != nil {
					r.panicked = true
				}
				done <- r
			}()
			r.res = app.findBestStreamFrom(node, state, "h1", topo)
		}()
		select {
		case r := <-done:
			res, panicked = r.res, r.panicked
		case <-time.After(5 * time.Second):
			m.Violation("resolving the source of a cascade replica always terminates", map[string]any{"resolver": in}, "findBestStreamFrom has not returned after 5 s of real time")
			o.WriteMeta("c16", m)
			t.Fatalf("findBestStreamFrom does not terminate on %+v", in)
		}
		return
	}
	var rp c16ResIn
	check := func(in c16ResIn) string {
		res, panicked, state, topo := resolve(in)
		self := fmt.Sprintf("h%d", in.Self)
		if panicked {
			m.Violation("resolving the source never crashes", map[string]any{"resolver": in}, "panic")
			return ""
		}
		// ---- the property, evaluated independently: walk the configured chain
		want := "h1"
		cur := self
		seen := map[string]bool{self: true}
		for step := 0; ; step++ {
			sf := topo[cur].StreamFrom
			if sf == "" || seen[sf] {
				want = "h1"
				break
			}
			st := state[sf]
			if step == 0 && in.Running && fmt.Sprintf("h%d", in.Cur) == sf {
				want = sf // what it already streams from
				break
			}
			healthy := st.PingOk && !st.IsOffline && (st.IsMaster || (st.SlaveState.ReplicationState == mysql.ReplicationRunning && *st.SlaveState.ReplicationLag < 300))
			if healthy {
				want = sf
				break
			}
			seen[sf] = true
			cur = sf
		}
		if res == self {
			m.Violation("resolving never yields the replica itself, even with cyclic configuration", map[string]any{"resolver": in}, "result = "+res)
		}
		if res != want {
			m.Violation("configured source if healthy or already streamed from, else nearest healthy ancestor, else the master", map[string]any{"resolver": in}, fmt.Sprintf("got %s want %s", res, want))
		}
		tl := []string{}
		for i := 3; i <= 5; i++ {
			sf := "None"
			if in.Stream[i-3] != 0 {
				sf = vk.Some(vk.N(uint64(in.Stream[i-3])))
			}
			tl = append(tl, vk.T(vk.N(uint64(i)), sf))
		}
		env := "{| re_master := 1%N; re_state := " + statesGal(state) + "; re_state_dcs := []; re_order := []; re_uuid_of := []; re_emerge_file := 1%N |}"
		return vk.T(cfgGal(va.cfg), env, vk.L(tl), vk.N(uint64(in.Self)), hostGal(res))
	}
	var wrap struct {
		Resolver *c16ResIn `json:"resolver"`
		Repair   *c10In    `json:"repair"`
	}
	if vk.ReplayInput(&wrap) {
		if wrap.Resolver != nil {
			rp = *wrap.Resolver
			check(rp)
		}
		if wrap.Repair != nil {
			var out c10Out
			synctest.Test(t, func(t *testing.T) { out = c10Run(*wrap.Repair) })
			c16Monitor(m, *wrap.Repair, out)
		}
		m.Evaluations = 1
		o.WriteMeta("c16", m)
		return
	}
	// exhaustive: 6^3 maps x 2^5 health x self in 3..5 x current source in {1..5} x running  (thorough) / a fixed-stride subset (quick)
	var cases []string
	shard := 0
	dist := vk.Distinct{}
	count := 0
	stride := 1
	if !o.Thorough() {
		stride = 23
	}
	for s3 := 0; s3 <= 5; s3++ {
		for s4 := 0; s4 <= 5; s4++ {
			for s5 := 0; s5 <= 5; s5++ {
				for hb := 0; hb < 32; hb++ {
					for self := 3; self <= 5; self++ {
						for cur := 1; cur <= 5; cur++ {
							for _, running := range []bool{true, false} {
								count++
								if count%stride != 0 {
									continue
								}
								in := c16ResIn{Stream: [3]int{s3, s4, s5}, Self: self, Cur: cur, Running: running}
								for b := 0; b < 5; b++ {
									in.Healthy[b] = hb&(1<<b) != 0
								}
								c := check(in)
								if c == "" {
									continue
								}
								file := fmt.Sprintf("c16_res_%02d", shard)
								cases = append(cases, c)
								m.Cases[file] = append(m.Cases[file], map[string]any{"resolver": in})
								m.Evaluations++
								dist.Add(fmt.Sprintf("%v", in))
								if len(cases) >= 1000 {
									o.CasesFile(file, []string{"Gtid.GtidSet", "Base.Prog", "Base.Config", "Base.Replay", "Procs.NodeOps", "Procs.Repair", "Corr.C13", "Corr.C10"}, "resolver_case", cases, "mismatches_resolver")
									cases = nil
									shard++
								}
							}
						}
					}
				}
			}
		}
	}
	if len(cases) > 0 {
		o.CasesFile(fmt.Sprintf("c16_res_%02d", shard), []string{"Gtid.GtidSet", "Base.Prog", "Base.Config", "Base.Replay", "Procs.NodeOps", "Procs.Repair", "Corr.C13", "Corr.C10"}, "resolver_case", cases, "mismatches_resolver")
	}
	m.CountN("resolver_cases", m.Evaluations)
	m.Exhaustive = o.Thorough()
	// guarded move: the repair scenarios with the cascade monitor
	n := 120
	if o.Thorough() {
		n = 1200
	}
	m2 := vk.NewMeta()
	c10Drive(t, o, m2, c16Monitor, "c16_rep", n)
	for _, v := range m2.Violations {
		v["input"] = map[string]any{"repair": v["input"]}
		m.Violations = append(m.Violations, v)
	}
	for f, cs := range m2.Cases {
		for _, c := range cs {
			m.Cases[f] = append(m.Cases[f], map[string]any{"repair": c})
		}
	}
	m.Evaluations += m2.Evaluations
	for k, c := range m2.Distribution {
		m.Distribution["repair_"+k] = c
	}
	m.Samples = append(m.Samples, m2.Samples...)
	m.DistinctNontrivial = dist.Len() + m2.DistinctNontrivial
	m.Rule = "resolver: every stream-from map over {none,h1..h5}^3 for three cascade replicas x all 32 source-health vectors x resolved replica x its current source x replication running or not (thorough: all 103680; quick: every 23rd) through the real findBestStreamFrom, compared with the model in Coq and with an independent chain walk; repair: " + m2.Rule
	o.WriteMeta("c16", m)
}

// c16Monitor: a cascade replica that was replicating is moved only to a source whose transactions contain its own;
// never pointed at itself
func c16Monitor(m *vk.Meta, in c10In, out c10Out) {
	for _, mv := range out.Moves {
		idx := int(hostN(mv.Host)) - 1
		if idx < 0 || idx >= len(in.Nodes) || in.Nodes[idx].Cascade == "" {
			continue
		}
		if mv.To == mv.Host {
			m.Violation("a cascade replica is never pointed at itself", in, mv.Host)
		}
		p := out.Passes[mv.Pass]
		st := p.State[mv.Host]
		if st == nil || st.SlaveState == nil || !mv.ToKnown {
			continue // status unknown: the blind path (not a guarded move)
		}
		// the aggressive reset algorithm (C10: only after the start attempts are exhausted, i.e. on a replica that is
		// NOT replicating) wipes the channel and re-points at the master: not a move of a replicating replica
		reset := false
		for _, e := range p.Trans {
			if e.Host == mv.Host && e.Kind == "SResetReplAll" {
				reset = true
			}
		}
		if reset && st.SlaveState.ReplicationState != mysql.ReplicationRunning {
			m.Count("reset_algorithm_moves")
			continue
		}
		if !vk.GtidContains(mv.ToExec, mv.MyExec) {
			m.Violation("a replicating cascade replica is moved to another source only once that source's transactions contain its own", in,
				fmt.Sprintf("pass %d: %s (%s) -> %s (%s)", mv.Pass, mv.Host, mv.MyExec, mv.To, mv.ToExec))
		}
	}
}
