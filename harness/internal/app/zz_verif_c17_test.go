//go:build verif

package app

import (
	"encoding/json"
	"fmt"
	"os"
	"strings"
	"testing"
	"testing/synctest"
	"time"

	nodestate "github.com/yandex/mysync/internal/app/node_state"
	"github.com/yandex/mysync/internal/config"
	"github.com/yandex/mysync/internal/dcs"
	"github.com/yandex/mysync/internal/mysql"
	vk "github.com/yandex/mysync/internal/verifkit"
)

type c17Rep struct {
	Zone     string `json:"zone"`                // "" = name without separator
	Lag      int64  `json:"lag"`                 // -1 = unknown (replication not running)
	LagMilli int64  `json:"lag_milli,omitempty"` // fractional part in thousandths (a lag source with sub-second resolution)
	Offline  bool   `json:"offline"`
	Broken   bool   `json:"broken"`  // permanently broken replication (errno 1146)
	Resetup  string `json:"resetup"` // "fresh_false" | "fresh_true" | "stale_false" | "missing"
	Down     bool   `json:"down"`
	NoChan   bool   `json:"nochan,omitempty"` // no replication channel (a host being re-initialised, a stale master): it reports itself as a master
}
type c17In struct {
	Reps           []c17Rep  `json:"reps"`
	MasterRO       bool      `json:"master_ro"`
	MasterOffline  bool      `json:"master_offline"`
	MasterRecovery bool      `json:"master_recovery"`
	Pct            int       `json:"pct"`
	Sep            string    `json:"sep"`
	LastShutdown   int       `json:"last_shutdown_ago_s"` // -1 none
	Passes         int       `json:"passes"`
	RestartBetween bool      `json:"restart_between,omitempty"` // between pass 1 and 2 the resetup status of every replica becomes {false, now} and then its mysqld restarts: the status is STALE for pass 2
	Fault          *vk.Fault `json:"fault"`
	DcsFault       *memFault `json:"dcs_fault"`
}

type c17Pass struct {
	Trans  []vk.Entry
	State  map[string]*nodestate.NodeState
	Orders [][]string
	Before map[string]vk.Node
	T      int64
}
type c17Out struct {
	Passes []c17Pass
	Cfg    *config.Config
	Hosts  []string
	Zones  map[string]string
}

func c17Host(i int, z string, sep string) string {
	if z == "" {
		return fmt.Sprintf("h%d", i)
	}
	return fmt.Sprintf("%s%sh%d", z, sep, i)
}

func c17Run(in c17In) c17Out {
	vk.Running("offline", in)
	var out c17Out
	dir, _ := os.MkdirTemp("", "c17")
	defer os.RemoveAll(dir)
	w := vk.NewWorld()
	vInstall(w)
	sep := in.Sep
	if sep == "" {
		sep = "-"
	}
	master := c17Host(1, "z1", sep)
	d := newMemDCS(w, master)
	d.silent = true
	now := time.Now()
	startup := now.Add(-time.Hour).Unix()
	w.AddNode(&vk.Node{Host: master, UUID: hostUUID("h1"), Up: true, Executed: gset("h1", "1-100"), RO: in.MasterRO, SuperRO: in.MasterRO, Offline: in.MasterOffline, StartedAt: startup})
	d.rawSet(dcs.JoinPath(pathHANodes, master), mysql.NodeConfiguration{})
	out.Hosts = []string{master}
	if in.MasterRecovery {
		d.rawSet(pathRecovery, nil)
		d.rawSet(dcs.JoinPath(pathRecovery, master), nil)
	}
	for i, r := range in.Reps {
		h := c17Host(i+2, r.Zone, sep)
		n := w.AddNode(&vk.Node{Host: h, UUID: hostUUID(fmt.Sprintf("h%d", i+2)), Up: !r.Down, Executed: gset("h1", "1-100"), Retrieved: gset("h1", "1-100"), RO: true, SuperRO: true,
			Offline: r.Offline, Chan: &vk.Chan{Source: master, IO: true, SQL: true}, StartedAt: startup})
		if r.Lag >= 0 {
			l := r.Lag
			n.Lag = &l
			n.LagMilli = r.LagMilli
		} else {
			n.Chan.SQL = false
		}
		if r.Broken {
			n.Chan.SQL = false
			n.Chan.SQLErrno = 1146
			n.LagAlways = r.Lag >= 0
		}
		if r.NoChan {
			n.Chan, n.Retrieved = nil, ""
		}
		d.rawSet(dcs.JoinPath(pathHANodes, h), mysql.NodeConfiguration{})
		switch r.Resetup {
		case "fresh_false":
			d.rawSet(dcs.JoinPath(pathResetupStatus, h), mysql.ResetupStatus{Status: false, UpdateTime: now.Add(-time.Minute)})
		case "fresh_true":
			d.rawSet(dcs.JoinPath(pathResetupStatus, h), mysql.ResetupStatus{Status: true, UpdateTime: now.Add(-time.Minute)})
		case "stale_false":
			d.rawSet(dcs.JoinPath(pathResetupStatus, h), mysql.ResetupStatus{Status: false, UpdateTime: now.Add(-2 * time.Hour)})
		}
		out.Hosts = append(out.Hosts, h)
	}
	if in.LastShutdown >= 0 {
		d.rawSet(pathLastShutdownNodeTime, now.Add(-time.Duration(in.LastShutdown)*time.Second))
	}
	va := newVApp(w, d, vAppOpts{Hostname: master, Dir: dir, Tune: func(cfg *config.Config) {
		cfg.OfflineModeEnableLag = 100 * time.Second
		cfg.OfflineModeDisableLag = 30 * time.Second
		cfg.OfflineModeEnableInterval = 15 * time.Minute
		cfg.OfflineModeMaxOfflinePct = in.Pct
		cfg.OfflineModeAZSeparator = in.Sep
	}})
	defer va.close()
	app := va.app
	app.offlineModeFilter = NewOfflineModeFilter(va.cfg, app.logger)
	out.Zones = map[string]string{}
	for _, h := range out.Hosts {
		// the zone of a host = the part of its name before the first separator (the harness' own reading of the
		// configuration, not the implementation's function)
		out.Zones[h] = ""
		if idx := strings.Index(h, in.Sep); in.Sep != "" && idx >= 0 {
			out.Zones[h] = h[:idx]
		}
	}
	if in.Fault != nil {
		f := *in.Fault
		w.Faults = append(w.Faults, &f)
	}
	if in.DcsFault != nil {
		f := *in.DcsFault
		d.faults = append(d.faults, &f)
	}
	for p := 0; p < in.Passes; p++ {
		state := app.getClusterStateFromDB()
		var pass c17Pass
		w.Mu.Lock()
		pass.Before = map[string]vk.Node{}
		for h, n := range w.Nodes {
			pass.Before[h] = n.Snapshot()
		}
		w.Mu.Unlock()
		pass.T = time.Now().UnixNano() - vEpoch
		w.ResetTranscript()
		d.silent = false
		app.repairOfflineMode(state, master)
		d.silent = true
		synctest.Wait()
		pass.Trans = w.Transcript()
		pass.State = state
		// processing order (Go map iteration): hosts that issued a host-specific call are ordered
		// by it; permanently broken replicas that only read the shared rate limiter are not
		// placeable from the observation, so every insertion of them is a candidate order
		hostOf := func(e vk.Entry) string {
			if e.Kind == "SReplSettings" {
				return "" // the master's settings are read on behalf of the replica being repaired
			}
			if e.Host != "" {
				return e.Host
			}
			for _, x := range out.Hosts {
				if len(e.Arg) > len(x) && e.Arg[len(e.Arg)-len(x):] == x {
					return x
				}
			}
			return ""
		}
		seen := map[string]bool{}
		var base []string
		for _, e := range pass.Trans {
			if h := hostOf(e); h != "" && !seen[h] {
				seen[h] = true
				base = append(base, h)
			}
		}
		var readers, silent []string
		for _, h := range out.Hosts {
			if seen[h] {
				continue
			}
			st := state[h]
			if st != nil && st.PingOk && st.SlaveState != nil && st.SlaveState.ReplicationLag != nil && (st.SlaveState.LastSQLErrno == 1146 || st.SlaveState.LastSQLErrno == 1118) &&
				!(st.IsOffline && *st.SlaveState.ReplicationLag <= 30) { // such a replica returns before reading the rate limiter
				readers = append(readers, h)
			} else {
				silent = append(silent, h)
			}
		}
		// every insertion of the readers is a candidate (their behaviour depends on their own state)
		type cand struct {
			o   []string
			min int // next reader must be inserted at or after this position
		}
		cs := []cand{{o: base, min: 0}}
		for _, r := range readers {
			var next []cand
			for _, c := range cs {
				for pos := 0; pos <= len(c.o); pos++ {
					n := append(append(append([]string{}, c.o[:pos]...), r), c.o[pos:]...)
					next = append(next, cand{o: n, min: pos + 1})
				}
			}
			cs = next
			if len(cs) > 3000 {
				cs = cs[:3000]
			}
		}
		var cands [][]string
		for _, c := range cs {
			cands = append(cands, c.o)
		}
		for _, c := range cands {
			pass.Orders = append(pass.Orders, append(append([]string{}, c...), silent...))
		}
		out.Passes = append(out.Passes, pass)
		time.Sleep(5 * time.Second)
		if p == 0 && in.RestartBetween {
			for i := range in.Reps {
				h := c17Host(i+2, in.Reps[i].Zone, sep)
				d.rawSet(dcs.JoinPath(pathResetupStatus, h), mysql.ResetupStatus{Status: false, UpdateTime: time.Now()})
			}
			time.Sleep(2 * time.Second)
			w.Mu.Lock()
			for h, n := range w.Nodes {
				if h != master {
					n.StartedAt = time.Now().Unix() // mysqld restarted after the status was written
				}
			}
			w.Mu.Unlock()
			time.Sleep(2 * time.Second)
		}
	}
	out.Cfg = va.cfg
	return out
}

func c17Cases(in c17In, out c17Out) []string {
	zoneIdx := map[string]int{}
	zl := []string{}
	for _, h := range out.Hosts {
		z := out.Zones[h]
		if _, ok := zoneIdx[z]; !ok {
			zoneIdx[z] = len(zoneIdx)
		}
		zl = append(zl, vk.T(hostGal(h), vk.N(uint64(zoneIdx[z]))))
	}
	var cs []string
	for _, p := range out.Passes {
		env := "{| oe_master := 1%N; oe_state := " + statesGal(p.State) + "; oe_order := []; oe_zone := " + vk.L(zl) + " |}"
		ol := []string{}
		for _, o := range p.Orders {
			ol = append(ol, hostsGal(o))
		}
		cs = append(cs, vk.T(cfgGal(out.Cfg), env, vk.L(ol), transcriptGal(p.Trans, vEpoch, ""), vk.Z(p.T)))
	}
	return cs
}

// independent reading of the property, per pass
func c17Monitor(m *vk.Meta, in c17In, out c17Out) {
	brokenOfflined := map[string]bool{}
	for pi, p := range out.Passes {
		offByZone := map[string]int{}
		donePass := map[string]bool{}
		totalByZone := map[string]int{}
		master := out.Hosts[0]
		// shares are evaluated on the manager's view of this pass (what the policy can know):
		// every host it does not see as a master belongs to its zone's total
		for h, st := range p.State {
			if st.IsMaster {
				continue
			}
			totalByZone[out.Zones[h]]++
			if st.IsOffline {
				offByZone[out.Zones[h]]++
			}
		}
		for _, e := range p.Trans {
			if e.Err != "" || e.Host == "" {
				continue
			}
			idx := -1
			for i, h := range out.Hosts {
				if h == e.Host {
					idx = i
				}
			}
			before := p.Before[e.Host]
			switch e.Kind {
			case "SSetOffline":
				if donePass[e.Host] {
					continue // second statement for the same replica in this pass (lag rule, then broken rule)
				}
				donePass[e.Host] = true
				if idx == 0 {
					m.Violation("the master is never taken offline by the repair pass", in, "pass "+fmt.Sprint(pi))
					continue
				}
				r := in.Reps[idx-1]
				st := p.State[e.Host]
				broken := st.SlaveState != nil && st.SlaveState.LastSQLErrno == 1146
				lagOK := st.SlaveState != nil && st.SlaveState.ReplicationLag != nil && *st.SlaveState.ReplicationLag > 100
				capAllows := in.Pct >= 100 || (in.Pct > 0 && totalByZone[out.Zones[e.Host]] > 0 && 100*(offByZone[out.Zones[e.Host]]+1)/totalByZone[out.Zones[e.Host]] <= in.Pct)
				if lagOK && (!broken || capAllows) && !before.Offline && !p.Before[master].RO {
					// offline for lag: zone cap
					z := out.Zones[e.Host]
					offByZone[z]++
					if in.Pct < 100 {
						pct := 100 * offByZone[z] / max(totalByZone[z], 1)
						if pct > in.Pct || in.Pct <= 0 {
							m.Violation("taking a replica offline for lag keeps the share of offline replicas in its zone within the configured percentage (counting this pass)", in,
								fmt.Sprintf("pass %d: zone %q now %d/%d offline = %d%% > %d%%", pi, z, offByZone[z], totalByZone[z], pct, in.Pct))
						}
					}
				} else if broken && !before.Offline {
					brokenOfflined[e.Host] = true
				} else {
					m.Violation("a replica is taken offline only for lag above the enable threshold (master writable) or as permanently broken", in,
						fmt.Sprintf("pass %d: %s lag=%d offline_before=%v master_ro=%v", pi, e.Host, r.Lag, before.Offline, p.Before[master].RO))
				}
			case "SSetOnline":
				if idx == 0 {
					if in.MasterRecovery && in.DcsFault == nil {
						m.Violation("the master is kept offline while it is marked for recovery", in, "master set online")
					}
					continue
				}
				r := in.Reps[idx-1]
				st := p.State[e.Host]
				lag := float64(-1)
				if st.SlaveState != nil && st.SlaveState.ReplicationLag != nil {
					lag = *st.SlaveState.ReplicationLag
				}
				resetup := r.Resetup
				if in.RestartBetween && pi >= 1 {
					resetup = "stale_false" // written before the restart that happened between the passes
				}
				if !(lag >= 0 && lag <= 30) || r.Broken || resetup != "fresh_false" {
					m.Violation("a replica is brought online only with lag at or below the disable threshold, replication not permanently broken and a fresh negative resetup status", in,
						fmt.Sprintf("pass %d: %s lag=%v broken=%v resetup=%s", pi, e.Host, lag, r.Broken, resetup))
				}
			}
		}
	}
	if len(brokenOfflined) > 1 && !(in.DcsFault != nil && in.DcsFault.Path == pathLastShutdownNodeTime) {
		m.Violation("permanently broken replicas are taken offline at most one per configured interval", in, fmt.Sprintf("%d within %d passes 5s apart", len(brokenOfflined), len(out.Passes)))
	}
}

func c17Gen(o *vk.Out) c17In {
	r := o.Rng
	in := c17In{MasterRO: r.Intn(6) == 0, MasterOffline: r.Intn(6) == 0, MasterRecovery: r.Intn(8) == 0, Pct: []int{0, 32, 33, 50, 66, 99, 100}[r.Intn(7)],
		Sep: []string{"-", "-", "-", "", "."}[r.Intn(5)], LastShutdown: []int{-1, 10, 899, 901, 5000}[r.Intn(5)], Passes: 1 + r.Intn(2)}
	k := 1 + r.Intn(6)
	lagGrid := []int64{0, 29, 30, 31, 99, 100, 101, 500, -1}
	for i := 0; i < k; i++ {
		in.Reps = append(in.Reps, c17Rep{Zone: []string{"z1", "z1", "z2", "", "z3"}[r.Intn(5)], Lag: lagGrid[r.Intn(len(lagGrid))], Offline: r.Intn(3) == 0,
			Broken: r.Intn(3) == 0, Resetup: []string{"fresh_false", "fresh_false", "fresh_true", "stale_false", "missing"}[r.Intn(5)], Down: r.Intn(12) == 0})
		if r.Intn(8) == 0 {
			in.Reps[i].NoChan = true
		}
		// a lag source with sub-second resolution (quarters: exact in binary floating point)
		if in.Reps[i].Lag >= 0 {
			in.Reps[i].LagMilli = []int64{0, 0, 0, 250, 500, 750}[r.Intn(6)]
		}
	}
	if r.Intn(6) == 0 {
		// an offline, caught-up replica kept offline in pass 1 by its resetup status; then the status becomes negative and
		// mysqld restarts: for pass 2 the status is older than the server's start - stale - and the replica stays offline
		in.Passes, in.RestartBetween = 2, true
		in.MasterRO, in.MasterOffline, in.MasterRecovery = false, false, false
		for i := range in.Reps {
			in.Reps[i].Offline, in.Reps[i].Lag, in.Reps[i].LagMilli, in.Reps[i].Broken, in.Reps[i].Down, in.Reps[i].NoChan = true, 0, 0, false, false, false
			in.Reps[i].Resetup = []string{"fresh_true", "stale_false"}[r.Intn(2)]
		}
		return in
	}
	if r.Intn(5) == 0 {
		// zone stress: several lagging online replicas of one zone competing for the cap
		in.Pct = []int{33, 50, 66}[r.Intn(3)]
		in.Sep = "-"
		in.MasterRO = false
		for i := range in.Reps {
			if r.Intn(4) != 0 {
				in.Reps[i].Zone, in.Reps[i].Lag, in.Reps[i].Offline, in.Reps[i].Broken, in.Reps[i].Down = "z1", 500, false, false, false
			}
		}
	}
	nb := 0
	for i := range in.Reps {
		if in.Reps[i].Broken {
			nb++
			if nb > 3 {
				in.Reps[i].Broken = false
			}
		}
	}
	return in
}

func TestVerifC17(t *testing.T) {
	vk.LagScale = 1000 // lags and lag thresholds are rendered in milliseconds (fractional lags are generated)
	defer func() { vk.LagScale = 1 }()
	o := vk.Open()
	m := vk.NewMeta()
	run := func(in c17In) (out c17Out) {
		synctest.Test(t, func(t *testing.T) { out = c17Run(in) })
		return
	}
	var rp c17In
	if vk.ReplayInput(&rp) {
		c17Monitor(m, rp, run(rp))
		m.Evaluations = 1
		o.WriteMeta("c17", m)
		return
	}
	n := 400
	if o.Thorough() {
		n = 4000
	}
	dist := vk.Distinct{}
	imports := []string{"Gtid.GtidSet", "Base.Prog", "Base.Config", "Base.Replay", "Procs.NodeOps", "Procs.ActiveNodes", "Procs.OfflineMode", "Corr.C13", "Corr.C17"}
	var cases []string
	shard := 0
	flush := func() {
		if len(cases) == 0 {
			return
		}
		o.CasesFile(fmt.Sprintf("c17_%02d", shard), imports, "off_case", cases, "mismatches_off")
		cases = nil
		shard++
	}
	add := func(in c17In, out c17Out) {
		c17Monitor(m, in, out)
		for _, c := range c17Cases(in, out) {
			file := fmt.Sprintf("c17_%02d", shard)
			cases = append(cases, c)
			m.Cases[file] = append(m.Cases[file], in)
			m.Evaluations++
			if len(cases) >= 150 {
				flush()
			}
		}
	}
	for _, raw := range vk.CorpusInputs() {
		var in c17In
		if json.Unmarshal(raw, &in) == nil {
			add(in, run(in))
		}
	}
	for i := 0; i < n; i++ {
		in := c17Gen(o)
		out := run(in)
		add(in, out)
		m.Count(fmt.Sprintf("replicas_%d", len(in.Reps)))
		m.Count(fmt.Sprintf("pct_%d", in.Pct))
		for _, p := range out.Passes {
			for _, e := range p.Trans {
				if e.Kind == "SSetOffline" || e.Kind == "SSetOnline" {
					m.Count("stmt_" + e.Kind)
				}
			}
		}
		dist.Add(fmt.Sprintf("%+v", in))
		if i == 4 {
			m.Sample(map[string]any{"input": in, "mutating_pass1": mutatingSummary(out.Passes[0].Trans)})
		}
		// targeted: the registry write that follows a successful SET offline fails
		for _, e := range out.Passes[0].Trans {
			if e.Kind == "DcsCreate" && strings.HasPrefix(e.Arg, "optimization_nodes/") {
				fin := in
				fin.DcsFault = &memFault{Op: "create", Path: e.Arg, Nth: 0}
				add(fin, run(fin))
				m.Count("with_fault_registry_write")
				break
			}
		}
		if i%4 == 0 && len(out.Passes[0].Trans) > 0 {
			// one failing call
			es := out.Passes[0].Trans
			e := es[o.Rng.Intn(len(es))]
			fin := in
			if e.Host != "" && !ignoredKinds[e.Kind] && e.Kind != "SRefused" {
				fin.Fault = &vk.Fault{Host: e.Host, Kind: e.Kind, Nth: 0, Action: []string{"err:1105", "drop"}[o.Rng.Intn(2)]}
				add(fin, run(fin))
				m.Count("with_fault")
			} else if e.Host == "" {
				op := map[string]string{"DcsGet": "get", "DcsSet": "set", "DcsCreate": "create"}[e.Kind]
				if op != "" {
					fin.DcsFault = &memFault{Op: op, Path: e.Arg, Nth: 0}
					add(fin, run(fin))
					m.Count("with_fault")
				}
			}
		}
	}
	flush()
	m.DistinctNontrivial = dist.Len()
	m.Rule = fmt.Sprintf("%d scenarios x 1-2 passes of the real App.repairOfflineMode: 1-6 replicas in zones {z1,z2,z3,none} (separators '-', '.', empty), max-offline percentage in {0,32,33,50,66,99,100}, lags around both thresholds / unknown, offline flags, permanently broken replication, resetup status fresh/stale/true/missing, master read-only / offline / marked for recovery, last-shutdown time none/recent/around the interval, single failing calls; distinct = distinct inputs", n)
	o.WriteMeta("c17", m)
}
