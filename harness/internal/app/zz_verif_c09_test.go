//go:build verif

package app

import (
	"encoding/json"
	"fmt"
	"strings"
	"testing"
	"testing/synctest"

	vk "github.com/yandex/mysync/internal/verifkit"
)

func mgrMaintIn(tree map[string]string) *Maintenance {
	b, ok := tree[pathMaintenance]
	if !ok {
		return nil
	}
	var m Maintenance
	if json.Unmarshal([]byte(b), &m) != nil {
		return nil
	}
	return &m
}

// c09Monitor: full maintenance freezes every action; light maintenance suppresses failover only; leaving
// re-learns the one alive master
func c09Monitor(m *vk.Meta, in mgrIn, out mgrOut) {
	for k, st := range out.Steps {
		if st.Panic != "" {
			continue
		}
		viol := func(clause, detail string, sig map[string]any) {
			v := map[string]any{"clause": clause, "input": in, "detail": fmt.Sprintf("iteration %d (%s): %s", k, st.State, detail)}
			if sig != nil {
				v["signature"] = sig
			}
			m.Violations = append(m.Violations, v)
		}
		mb := mgrMaintIn(st.Tree)
		fullAck := mb != nil && mb.Mode != LightMode && mb.MySyncPaused && !mb.ShouldLeave
		light := mb != nil && mb.Mode == LightMode
		maintUnread := false
		for _, e := range st.Trans {
			if e.Kind == "DcsGet" && e.Arg == pathMaintenance && e.Resp != "(RErr ENotFound)" && strings.HasPrefix(e.Resp, "(RErr") {
				maintUnread = true
			}
		}
		if fullAck {
			var sig map[string]any
			if maintUnread && !st.Files["maintenance"] {
				sig = map[string]any{"cause": "maintenance record unreadable in this iteration and no marker file: treated as no maintenance"}
			}
			if st.State == stateLost {
				sig = map[string]any{"cause": "a process outside stateMaintenance that loses the coordination service fences its node (stateLost does not look at maintenance)"}
			}
			// judged by effect: a statement that changes nothing is not a change
			for h, a := range st.WorldAfter {
				b := st.WorldBefore[h]
				if in.Fault != nil && in.Fault.Action == "unchannel" && in.Fault.Host == h && k == in.FaultAt {
					b.Chan = nil // the injected event (someone else's RESET REPLICA ALL) is not a change made by mysync
				}
				chg := ""
				switch {
				case a.RO != b.RO || a.SuperRO != b.SuperRO:
					chg = fmt.Sprintf("read_only %v/%v -> %v/%v", b.RO, b.SuperRO, a.RO, a.SuperRO)
				case a.Offline != b.Offline:
					chg = fmt.Sprintf("offline_mode %v -> %v", b.Offline, a.Offline)
				case (a.Chan == nil) != (b.Chan == nil) || a.Chan != nil && (a.Chan.Source != b.Chan.Source || a.Chan.IO != b.Chan.IO || a.Chan.SQL != b.Chan.SQL):
					chg = "replication channel changed"
				case a.SSMaster != b.SSMaster || a.SSSlave != b.SSSlave || a.WaitCount != b.WaitCount:
					chg = "semi-sync settings changed"
				case a.Flush != b.Flush || a.SyncBinlog != b.SyncBinlog:
					chg = "durability settings changed"
				}
				if chg != "" && a.Up && b.Up {
					viol("while full maintenance is acknowledged no mysync process changes any MySQL server setting or replication topology", h+": "+chg, sig)
					break
				}
			}
			for _, key := range []string{pathMasterNode, pathActiveNodes} {
				if st.Tree[key] != st.TreeAfter[key] {
					viol("while full maintenance is acknowledged no mysync process changes the recorded master or the active list", fmt.Sprintf("%s: %s -> %s", key, st.Tree[key], st.TreeAfter[key]), sig)
					break
				}
			}
		}
		if light && !mb.ShouldLeave {
			var sig map[string]any
			if maintUnread && !st.Files["maintenance"] {
				sig = map[string]any{"cause": "maintenance record unreadable in this iteration and no marker file: treated as no maintenance"}
			}
			for _, e := range st.Trans {
				if e.Kind == "DcsCreate" && e.Arg == pathCurrentSwitch && e.Resp == "ROk" {
					viol("light maintenance suppresses automatic failover", "a failover request was filed", sig)
				}
			}
			if sw := mgrSwitchIn(st.Tree, pathCurrentSwitch); sw != nil && sw.MasterTransition == FailoverTransition && st.State == stateManager {
				for _, e := range st.Trans {
					if e.Host == "" && e.Mut && (e.Arg == pathCurrentSwitch || e.Arg == pathLastSwitch || e.Arg == pathLastRejectedSwitch) && !strings.HasPrefix(e.Resp, "(RErr") {
						viol("light maintenance suppresses operator-forced and automatic failover requests", fmt.Sprintf("the pending failover request was processed: %s %s", e.Kind, e.Arg), sig)
						break
					}
				}
			}
		}
		// "... while repairs and planned switchovers continue": under light maintenance a manager iteration that holds the
		// lock, sees a healthy reachable master and has nothing but a (suppressed) failover request before it starts the
		// stopped replication of a reachable HA replica of the master
		if light && !mb.ShouldLeave && st.State == stateManager && st.LockHeld && st.Connected && !st.Restarted && st.Panic == "" &&
			!(k == in.FaultAt && (in.Fault != nil || in.DcsFault != nil || in.LockLostAt >= 0 || in.AbortAtStmt > 0)) {
			sw := mgrSwitchIn(st.Tree, pathCurrentSwitch)
			master := mgrMasterIn(st.Tree)
			mn, mok := st.WorldBefore[master]
			mh := st.Health[master]
			if (sw == nil || sw.MasterTransition == FailoverTransition) && mok && mn.Up && mn.Chan == nil && !st.CutNow[master] && mh != nil && mh.PingOk && !mh.IsFileSystemReadonly && len(st.CutNow) == 0 {
				for i, c := range in.Nodes {
					h := fmt.Sprintf("h%d", i+1)
					b, a := st.WorldBefore[h], st.WorldAfter[h]
					if h == master || c.Cascade || !b.Up || !a.Up || b.Chan == nil || a.Chan == nil || b.Chan.Source != master {
						continue
					}
					if !b.Chan.IO && !b.Chan.SQL && b.Chan.IOErrno == 0 && b.Chan.SQLErrno == 0 && !(a.Chan.IO && a.Chan.SQL) {
						viol("light maintenance only suppresses failover while repairs continue", fmt.Sprintf("%s: replication was stopped before the iteration and still is (pending request: %v)", h, sw != nil), nil)
					}
				}
			}
		}
		// the acknowledgement is the LAST step of entering full maintenance: once it is written nothing else is changed, also
		// within the iteration that writes it
		{
			acked := false
			for _, e := range st.Trans {
				if e.Kind == "DcsSet" && e.Arg == pathMaintenance && e.Err == "" && !strings.HasPrefix(e.Resp, "(RErr") && strings.Contains(e.Raw, "mt_paused := true") && !strings.Contains(e.Raw, "mt_light := true") {
					acked = true
					continue
				}
				if acked && (e.Host != "" && e.Mut || e.Host == "" && e.Mut && (e.Arg == pathActiveNodes || e.Arg == pathMasterNode)) {
					viol("while full maintenance is acknowledged no mysync process changes any MySQL server setting or replication topology nor the recorded master or active list", fmt.Sprintf("after writing the acknowledgement, in the same iteration: %s %s %s", e.Host, e.Kind, e.Arg), nil)
					break
				}
			}
		}
		// light maintenance pauses nobody: a process that is not the manager keeps competing for the lock
		if light && st.State == stateCandidate && st.Next == stateMaintenance && st.Panic == "" {
			viol("light maintenance only suppresses failover while repairs and planned switchovers continue", "a candidate went to the paused state under light maintenance", nil)
		}
		// leaving
		left := false
		for _, e := range st.Trans {
			if e.Kind == "DcsDelete" && e.Arg == pathMaintenance && e.Resp == "ROk" {
				left = true
			}
		}
		if left {
			var masters []string
			for h, n := range st.WorldAfter {
				reg := false
				for _, x := range out.Hosts {
					if x == h {
						reg = true
					}
				}
				if reg && n.Up && n.Chan == nil && !st.CutNow[h] {
					masters = append(masters, h)
				}
			}
			// the host hit by the single injected fault in this very iteration may or may not have been readable to the
			// manager (a failed query hides a server only when it is one the health probe depends on): the clause is judged
			// on what could be observed, so both readings are admitted for that one host
			alt := masters
			if k == in.FaultAt && in.Fault != nil {
				alt = nil
				for _, h := range masters {
					if h != in.Fault.Host {
						alt = append(alt, h)
					}
				}
			}
			got := mgrMasterIn(st.TreeAfter)
			if len(masters) != 1 && len(alt) != 1 {
				viol("leaving maintenance succeeds only when exactly one alive master exists", fmt.Sprintf("alive masters: %v", masters), nil)
			} else if !(len(masters) == 1 && got == masters[0]) && !(len(alt) == 1 && got == alt[0]) {
				viol("on leaving maintenance the one alive master becomes the recorded master", fmt.Sprintf("recorded %q, alive masters %v", got, masters), nil)
			}
			if a := mgrActiveIn(st.TreeAfter); len(a) == 0 {
				viol("on leaving maintenance the active list is rebuilt non-empty", "active_nodes is empty", nil)
			}
		}
		// a leave attempt with several alive masters: mode kept + emergency marker
		if mb != nil && (mb.ShouldLeave) && st.LockHeld && (st.State == stateMaintenance || st.State == stateManager && light) {
			nm := 0
			for h, n := range st.WorldBefore {
				reg := false
				for _, x := range out.Hosts {
					if x == h {
						reg = true
					}
				}
				if reg && n.Up && n.Chan == nil && !st.CutNow[h] {
					nm++
				}
			}
			// evidence of a leave attempt: the paused loop refreshes the registry only to leave; a manager iteration refreshes it
			// always and gets to the leave attempt only past the master lookup (a recorded master that is not a registered host
			// ends the iteration before) - there the evidence is the read of the active list that follows that lookup
			tried := false
			for _, e := range st.Trans {
				if st.State == stateMaintenance && e.Kind == "DcsChildren" && e.Arg == pathHANodes {
					tried = true
				}
				if st.State == stateManager && e.Kind == "DcsGet" && e.Arg == pathActiveNodes && !strings.HasPrefix(e.Resp, "(RErr") {
					tried = true
				}
			}
			if nm > 1 && tried && k == in.FaultAt && in.Fault == nil && in.DcsFault == nil || nm > 1 && tried && k != in.FaultAt {
				if left {
					viol("with several alive masters the maintenance mode is kept", fmt.Sprintf("%d alive masters", nm), nil)
				}
				if !st.FilesAfter["emerge"] {
					viol("several alive masters raise the emergency marker", fmt.Sprintf("%d alive masters, no emerge file", nm), nil)
				}
			}
		}
	}
}

func c09Gen(o *vk.Out) mgrIn {
	r := o.Rng
	n := 2 + r.Intn(3)
	in := mgrIn{Master: "h1", Iter: 3 + r.Intn(5), Gap: []int{1, 5}[r.Intn(2)], LockLostAt: -1,
		Cfg: mgrCfg{Failover: true, Delay: 0, Cooldown: 0, Timeout: 300, MaxAttempts: 3, SemiSync: r.Intn(2) == 0, DisableSSOnMaint: r.Intn(2) == 0}}
	for i := 1; i <= n; i++ {
		c := mgrNode{}
		if i > 1 && r.Intn(10) == 0 {
			c.Stopped = true
		}
		in.Nodes = append(in.Nodes, c)
		in.Active = append(in.Active, fmt.Sprintf("h%d", i))
	}
	light := r.Intn(3) == 0
	switch r.Intn(4) {
	case 0: // requested, not yet acknowledged
		in.Maint = &mgrMaint{Light: light}
	case 1: // acknowledged; this process may or may not have the marker file
		in.Maint = &mgrMaint{Light: light, Paused: true}
		in.MaintFile = r.Intn(4) != 0 && !light
		in.Start = []string{"", stateMaintenance, stateMaintenance, stateCandidate, stateFirstRun}[r.Intn(5)]
	case 2: // the request arrives later
		in.Events = append(in.Events, mgrEvent{At: 1, Kind: "maint", Maint: &mgrMaint{Light: light}})
	case 3: // leaving
		in.Maint = &mgrMaint{Light: light, Paused: true, ShouldLeave: true}
		in.MaintFile = !light
		in.Start = []string{stateMaintenance, "", stateMaintenance}[r.Intn(3)]
	}
	if in.Start == stateCandidate || r.Intn(8) == 0 {
		in.OtherManager = r.Intn(2) == 0
	}
	if r.Intn(6) == 0 {
		// acknowledged light maintenance with a failover request sitting in the tree (operator-forced during the maintenance,
		// or automatic from just before it) and a replica whose replication is stopped: the request is suppressed, the
		// repair goes on
		in.Maint = &mgrMaint{Light: true, Paused: true}
		in.MaintFile, in.Start, in.OtherManager = false, "", false
		in.Switch = &mgrSwitch{From: "h1", Cause: []string{CauseManual, CauseAuto}[r.Intn(2)], Transition: "failover", InitiatedAgo: 1}
		in.Nodes[1].Stopped = true
		in.Events = nil
		return in
	}
	if r.Intn(2) == 0 {
		in.MgrHost = 1 + r.Intn(n)
	}
	pickH := func() int { return 1 + r.Intn(n) }
	for k := 1; k < in.Iter; k++ {
		switch r.Intn(14) {
		case 0:
			in.Events = append(in.Events, mgrEvent{At: k, Kind: "restart"})
		case 1:
			in.Events = append(in.Events, mgrEvent{At: k, Kind: "dcsdown"})
		case 2:
			in.Events = append(in.Events, mgrEvent{At: k, Kind: "dcsup"})
		case 3: // the operator moves the master by hand
			to := 2 + r.Intn(n-1)
			in.Events = append(in.Events, mgrEvent{At: k, Kind: "promote", Host: to})
			if r.Intn(3) != 0 {
				in.Events = append(in.Events, mgrEvent{At: k, Kind: "demote", Host: 1, Lag: to})
			}
		case 4:
			in.Events = append(in.Events, mgrEvent{At: k, Kind: "down", Host: pickH()})
		case 5:
			in.Events = append(in.Events, mgrEvent{At: k, Kind: "maint", Maint: &mgrMaint{Light: light, Paused: true, ShouldLeave: true}})
		case 6:
			in.Events = append(in.Events, mgrEvent{At: k, Kind: "nomaint"})
		case 7:
			in.Events = append(in.Events, mgrEvent{At: k, Kind: "switch", Switch: &mgrSwitch{From: "h1", Cause: []string{CauseManual, CauseAuto}[r.Intn(2)], Transition: []string{"failover", "switchover"}[r.Intn(2)], InitiatedAgo: 1}})
		case 8:
			in.Events = append(in.Events, mgrEvent{At: k, Kind: "rmfile"})
		case 9:
			in.Events = append(in.Events, mgrEvent{At: k, Kind: "health", Host: 1, Health: "pingfail"}, mgrEvent{At: k, Kind: "down", Host: 1})
		case 10:
			in.Events = append(in.Events, mgrEvent{At: k, Kind: "otherlock"})
		}
	}
	planned := false
	for _, ev := range in.Events {
		if ev.Switch != nil && ev.Switch.Transition == "switchover" {
			planned = true
		}
	}
	if planned {
		in.Cfg.SemiSync = false
	}
	return in
}

func TestVerifC09(t *testing.T) {
	o := vk.Open()
	m := vk.NewMeta()
	var rp mgrIn
	if vk.ReplayInput(&rp) {
		var out mgrOut
		synctest.Test(t, func(t *testing.T) { out = mgrRun(rp) })
		c09Monitor(m, rp, out)
		m.Evaluations = 1
		o.WriteMeta("c09", m)
		return
	}
	n := 150
	if o.Thorough() {
		n = 1500
	}
	mgrDrive(t, o, m, c09Monitor, "c09", n, c09Gen)
	mgrDrive(t, o, m, c09Monitor, "c09g", n/3, mgrGen)
	m.Rule = "3-7 steps of the real state machine of one mysync process (stateManager / stateCandidate / stateMaintenance / stateFirstRun / stateLost) over 2-4 hosts: maintenance requested / acknowledged / leaving, full and light, with and without the marker file and semi-sync disabling, another process holding the manager lock, restarts, coordination outages, the operator moving the master or creating two during maintenance, hosts going down, enter/leave racing with switch requests and master failure, single failing calls; distinct = distinct inputs"
	o.WriteMeta("c09", m)
}
