//go:build verif

package app

import (
	"context"
	"encoding/json"
	"fmt"
	"os"
	"runtime"
	"strings"
	"sync"
	"testing"
	"testing/synctest"
	"time"

	"github.com/yandex/mysync/internal/config"
	"github.com/yandex/mysync/internal/dcs"
	"github.com/yandex/mysync/internal/mysql"
	vk "github.com/yandex/mysync/internal/verifkit"
)

// c20Monitor: no step of any state handler terminates the process
func c20Monitor(m *vk.Meta, in mgrIn, out mgrOut) {
	for k, st := range out.Steps {
		if st.Panic != "" {
			m.Violations = append(m.Violations, map[string]any{"clause": "no mysync iteration terminates the process", "input": in,
				"detail": fmt.Sprintf("iteration %d (%s): panic in %s: %s", k, st.State, st.PanicSite, st.Panic), "signature": map[string]any{"site": st.PanicSite}})
		}
	}
}

// dangling references and odd registrations: what mysync's own CLI and external tools can leave in the tree
func c20Gen(o *vk.Out) mgrIn {
	r := o.Rng
	in := mgrGen(o)
	switch r.Intn(6) {
	case 0:
		in.Master = []string{"h9", "", "h7"}[r.Intn(3)] // a recorded master that is not registered
	case 1:
		in.Events = append(in.Events, mgrEvent{At: r.Intn(in.Iter), Kind: "dereg", Host: 1 + r.Intn(len(in.Nodes))})
	case 2:
		in.Active = append(in.Active, "h9") // an active list naming an unknown host
	case 3:
		in.Events = append(in.Events, mgrEvent{At: r.Intn(in.Iter), Kind: "master", Master: []string{"h9", ""}[r.Intn(2)]})
	case 4:
		if in.Switch != nil {
			in.Switch.To = []string{"h9", in.Switch.To}[r.Intn(2)]
			in.Switch.From = []string{"h8", in.Switch.From}[r.Intn(2)]
		}
	}
	if r.Intn(3) == 0 {
		in.Start = []string{stateCandidate, stateMaintenance, stateFirstRun, stateLost}[r.Intn(4)]
	}
	if r.Intn(4) == 0 {
		// a stale optimisation record of a host that was removed, next to a healthy cluster
		in.OptReg = []string{[]string{"h9", "h2", "h7"}[r.Intn(3)]}
		if r.Intn(2) == 0 {
			in.Nodes[0].Down, in.Nodes[0].Health, in.Master, in.Maint, in.Switch = false, "", "h1", nil, nil
		}
	}
	if r.Intn(8) == 0 {
		// rolling upgrade: a lagging replica runs an older mysync whose health records carry no replication settings,
		// and it has an entry in the optimisation registry
		k := 1 + r.Intn(len(in.Nodes)-1)
		in.Nodes[0].Down, in.Nodes[0].Health, in.Master, in.Maint, in.Switch = false, "", "h1", nil, nil
		in.Nodes[k].Down, in.Nodes[k].NoChan, in.Nodes[k].Cascade, in.Nodes[k].Lag, in.Nodes[k].Health = false, false, false, 500, "oldformat"
		in.OptReg = []string{fmt.Sprintf("h%d", k+1)}
		in.Start = ""
	}
	in.Iter += 2
	return in
}

func TestVerifC20(t *testing.T) {
	o := vk.Open()
	m := vk.NewMeta()
	var rpr struct {
		Repair *c10In `json:"repair"`
	}
	if vk.ReplayInput(&rpr) && rpr.Repair != nil {
		var out c10Out
		synctest.Test(t, func(t *testing.T) { out = c10Run(*rpr.Repair) })
		for pi, p := range out.Passes {
			if p.Panic != "" {
				m.Violations = append(m.Violations, map[string]any{"clause": "no mysync iteration terminates the process", "input": map[string]any{"repair": *rpr.Repair},
					"detail": fmt.Sprintf("repair pass %d: panic: %s", pi, p.Panic), "signature": map[string]any{"site": p.PanicSite}})
			}
		}
		m.Evaluations = 1
		o.WriteMeta("c20", m)
		return
	}
	var rp mgrIn
	if vk.ReplayInput(&rp) && len(rp.Nodes) > 0 {
		var out mgrOut
		synctest.Test(t, func(t *testing.T) { out = mgrRun(rp) })
		c20Monitor(m, rp, out)
		m.Evaluations = 1
		o.WriteMeta("c20", m)
		return
	}
	n := 200
	if o.Thorough() {
		n = 2000
	}
	mgrDrive(t, o, m, c20Monitor, "c20", n, c20Gen)
	// the recovery checker on odd inputs (its own K2 is C11's)
	for _, master := range []string{"h1", "h2", "", "h9"} {
		for _, repl := range []string{"none", "running", "error"} {
			for _, stuck := range []int{0, 2} {
				in := c11In{Rel: "equal", Repl: repl, RO: true, Stuck: stuck, Marked: true, Master: master, Ticks: 3, Gap: 31}
				var out c11Out
				synctest.Test(t, func(t *testing.T) { out = c11Run(in) })
				m.Evaluations++
				for k, st := range out.Steps {
					if st.Panic != "" {
						m.Violations = append(m.Violations, map[string]any{"clause": "no background check terminates the process", "input": map[string]any{"recovery": in},
							"detail": fmt.Sprintf("tick %d: panic in checkRecovery: %s", k, st.Panic), "signature": map[string]any{"site": "app.(*App).checkRecovery"}})
					}
				}
			}
		}
	}
	// the lag checker (background loop of every process) on odd master records: a lagging offline local replica
	for _, master := range []string{"h1", "h2", "", "h9"} {
		for _, lag := range []int64{10, 100000} {
			for _, offline := range []bool{false, true} {
				in := map[string]any{"lagcheck": map[string]any{"master": master, "lag_s": lag, "offline": offline}}
				vk.Running("lagcheck", in)
				var pan string
				synctest.Test(t, func(t *testing.T) {
					dir, _ := os.MkdirTemp("", "c20lag")
					defer os.RemoveAll(dir)
					w := vk.NewWorld()
					vInstall(w)
					d := newMemDCS(w, "h2")
					d.silent = true
					for _, h := range []string{"h1", "h2"} {
						n := &vk.Node{Host: h, UUID: hostUUID(h), Up: true, Executed: hostUUID("h1") + ":1-100"}
						if h == "h2" {
							l := lag
							n.RO, n.SuperRO, n.Offline, n.Lag = true, true, offline, &l
							n.Chan = &vk.Chan{Source: "h1", IO: true, SQL: true}
							n.Retrieved = n.Executed
						}
						w.AddNode(n)
						d.rawSet(dcs.JoinPath(pathHANodes, h), mysql.NodeConfiguration{})
					}
					if master != "" {
						d.rawSet(pathMasterNode, master)
					}
					va := newVApp(w, d, vAppOpts{Hostname: "h2", Dir: dir})
					defer va.close()
					func() {
						defer func() {
							if r := recover(); r != nil {
								pan = fmt.Sprint(r)
							}
						}()
						_ = va.app.lagResetupper.CheckNeedResetup(va.app.cluster)
					}()
				})
				m.Evaluations++
				m.Count("lag_checker")
				if pan != "" {
					m.Violations = append(m.Violations, map[string]any{"clause": "no background check terminates the process", "input": in,
						"detail": "panic in the lag checker (resetup.(*LagResetupper).CheckNeedResetup): " + pan, "signature": map[string]any{"site": "resetup.(*LagResetupper).CheckNeedResetup"}})
				}
			}
		}
	}
	// the cached server version of a node handle: a first contact that fails must not leave a made-up version behind (the
	// version selects the statement dialect: SHOW SLAVE STATUS before 8.0.22)
	for _, ver := range [][3]int{{5, 7, 44}, {8, 0, 21}, {8, 0, 32}} {
		for _, action := range []string{"err:1040", "drop"} {
			in := map[string]any{"version_cache": map[string]any{"version": ver, "first_contact": action}}
			vk.Running("version_cache", in)
			var got string
			var stErr error
			synctest.Test(t, func(t *testing.T) {
				dir, _ := os.MkdirTemp("", "c20ver")
				defer os.RemoveAll(dir)
				w := vk.NewWorld()
				vInstall(w)
				d := newMemDCS(w, "h1")
				d.silent = true
				for _, h := range []string{"h1", "h2"} {
					n := &vk.Node{Host: h, UUID: hostUUID(h), Up: true, Executed: hostUUID("h1") + ":1-100", Version: ver}
					if h == "h2" {
						n.RO, n.SuperRO = true, true
						n.Chan = &vk.Chan{Source: "h1", IO: true, SQL: true}
						n.Retrieved = n.Executed
					}
					w.AddNode(n)
					d.rawSet(dcs.JoinPath(pathHANodes, h), mysql.NodeConfiguration{})
				}
				va := newVApp(w, d, vAppOpts{Hostname: "h1", Dir: dir})
				defer va.close()
				w.Mu.Lock()
				w.Faults = []*vk.Fault{{Host: "h2", Kind: "SVersion", Nth: 0, Action: action}}
				w.Mu.Unlock()
				node := va.app.cluster.Get("h2")
				_, _ = node.GetReplicaStatus() // first contact: the version query fails
				w.Mu.Lock()
				w.Faults = nil
				w.Mu.Unlock()
				for pass := 0; pass < 3; pass++ {
					_, stErr = node.GetReplicaStatus()
				}
				if v, err := node.GetVersion(); err == nil && v != nil {
					got = fmt.Sprintf("%d.%d.%d", v.MajorVersion, v.MinorVersion, v.PatchVersion)
				}
			})
			m.Evaluations++
			m.Count("version_cache")
			want := fmt.Sprintf("%d.%d.%d", ver[0], ver[1], ver[2])
			if got != want || stErr != nil {
				m.Violations = append(m.Violations, map[string]any{"clause": "no iteration corrupts the process' own state (cached server version of a node handle)", "input": in,
					"detail": fmt.Sprintf("after a failed first contact the handle caches version %q for a %s server; replica status on the healthy server: %v", got, want, stErr)})
			}
		}
	}
	// the repair pass over cascade topologies with cycles, self references and dangling sources (its K2 is C10's)
	{
		nrep := 150
		if o.Thorough() {
			nrep = 1500
		}
		check := func(in c10In, out c10Out) {
			for pi, p := range out.Passes {
				if p.Panic != "" {
					m.Violations = append(m.Violations, map[string]any{"clause": "no mysync iteration terminates the process", "input": map[string]any{"repair": in},
						"detail": fmt.Sprintf("repair pass %d: panic: %s", pi, p.Panic), "signature": map[string]any{"site": p.PanicSite}})
				}
			}
		}
		for _, raw := range vk.CorpusInputs() {
			var w struct {
				Repair *c10In `json:"repair"`
			}
			if json.Unmarshal(raw, &w) == nil && w.Repair != nil {
				var out c10Out
				synctest.Test(t, func(t *testing.T) { out = c10Run(*w.Repair) })
				m.Evaluations++
				m.Count("corpus_repair")
				check(*w.Repair, out)
			}
		}
		for i := 0; i < nrep; i++ {
			in := c10Gen(o)
			var out c10Out
			synctest.Test(t, func(t *testing.T) { out = c10Run(in) })
			m.Evaluations++
			// a server whose channel disappears (RESET REPLICA ALL from outside) right before any one of the status reads of the pass
			if i%5 == 0 || o.Thorough() {
				seen := map[string]int{}
				for _, p := range out.Passes {
					for _, e := range p.Trans {
						if e.Kind == "SShowReplica" && e.Host != "" {
							fin := in
							fin.Fault = &vk.Fault{Host: e.Host, Kind: e.Kind, Nth: seen[e.Host], Action: "unchannel"}
							seen[e.Host]++
							var fout c10Out
							synctest.Test(t, func(t *testing.T) { fout = c10Run(fin) })
							m.Evaluations++
							m.Count("status_read_after_channel_removed")
							check(fin, fout)
						}
					}
				}
			}
			check(in, out)
		}
	}
	// leaks: many iterations in every state must not accumulate goroutines or connections
	{
		var before, after, conns int
		func() { // in real time: a leaked goroutine must not wedge a synctest bubble
			dir, _ := os.MkdirTemp("", "c20l")
			defer os.RemoveAll(dir)
			w := vk.NewWorld()
			vInstall(w)
			d := newMemDCS(w, "h3")
			d.silent = true
			u1 := hostUUID("h1")
			for i := 1; i <= 3; i++ {
				h := fmt.Sprintf("h%d", i)
				n := &vk.Node{Host: h, UUID: hostUUID(h), Up: true, Executed: u1 + ":1-100"}
				if i > 1 {
					n.RO, n.SuperRO, n.Chan, n.Retrieved = true, true, &vk.Chan{Source: "h1", IO: true, SQL: true}, n.Executed
				}
				w.AddNode(n)
				d.rawSet(dcs.JoinPath(pathHANodes, h), mysql.NodeConfiguration{})
			}
			va := newVApp(w, d, vAppOpts{Hostname: "h3", Dir: dir, Tune: func(cfg *config.Config) { cfg.ManagerSwitchover = true }})
			defer va.close()
			d.rawSet(pathMasterNode, "h1")
			d.rawSet(pathActiveNodes, []string{"h1", "h2", "h3"})
			iter := func(k int) {
				// the master flaps: the probe path (PingNode) and every state are exercised
				w.Mu.Lock()
				if k%3 == 1 {
					w.KillLocked(w.Nodes["h1"])
				} else {
					w.Nodes["h1"].Up = true
				}
				w.Mu.Unlock()
				func() {
					defer func() { _ = recover() }()
					_ = va.app.stateManager()
					_ = va.app.stateCandidate()
					va.app.checkRecovery()
				}()
				// the master answers the probe with an error mysync classifies as dubious (1040 too many connections): the
				// one-shot probe handle must be closed on that path too
				if k%3 == 2 {
					func() {
						defer func() { _ = recover() }()
						w.Mu.Lock()
						w.Faults = []*vk.Fault{{Host: "h1", Kind: "SPing", Nth: 0, Action: "err:1040"}}
						w.Mu.Unlock()
						_, _ = va.app.cluster.PingNode("h1")
						w.Mu.Lock()
						w.Faults = nil
						w.Mu.Unlock()
					}()
				}
				// a host leaves the registry while a loop of this process still holds its handle (it got it from Cluster.Get
				// a moment ago) and uses it once more; then the host is registered again
				if k%4 == 2 {
					func() {
						defer func() { _ = recover() }()
						held := va.app.cluster.Get("h2")
						d.rawDelete(dcs.JoinPath(pathHANodes, "h2"))
						_ = va.app.cluster.UpdateHostsInfo()
						if held != nil {
							_, _ = held.Ping()
							_, _, _ = held.IsReadOnly()
						}
						d.rawSet(dcs.JoinPath(pathHANodes, "h2"), mysql.NodeConfiguration{})
						_ = va.app.cluster.UpdateHostsInfo()
					}()
				}
				time.Sleep(time.Millisecond)
			}
			for k := 0; k < 20; k++ {
				iter(k)
			}
			time.Sleep(50 * time.Millisecond)
			before = runtime.NumGoroutine()
			for k := 0; k < 200; k++ {
				iter(k)
			}
			time.Sleep(50 * time.Millisecond)
			after = runtime.NumGoroutine()
			w.Mu.Lock()
			conns = w.ConnCountLocked()
			w.Mu.Unlock()
		}()
		m.Evaluations++
		m.CountN("leak_goroutines_before", before)
		m.CountN("leak_goroutines_after", after)
		m.CountN("leak_open_connections", conns)
		if after > before+6 {
			m.Violation("repeated iterations do not accumulate goroutines", map[string]any{"leak": "200 iterations with a flapping master and a host leaving and rejoining the registry while its handle is in use, manager_switchover on"}, fmt.Sprintf("%d goroutines after warm-up, %d after 200 more iterations", before, after))
		}
		if conns > 12 {
			m.Violation("repeated iterations do not accumulate open connections", map[string]any{"leak": "200 iterations with a flapping master and a host leaving and rejoining the registry while its handle is in use, manager_switchover on"}, fmt.Sprintf("%d open connections to 3 servers", conns))
		}
	}
	// the helper goroutine of the pre-switchover speed-up phase (one per planned semi-sync switchover attempt) ends with the phase
	{
		left := 0
		runs := 2
		if o.Thorough() {
			runs = 5
		}
		func() { // real time: the phase polls on a 3 s ticker
			dir, _ := os.MkdirTemp("", "c20p")
			defer os.RemoveAll(dir)
			w := vk.NewWorld()
			vInstall(w)
			d := newMemDCS(w, "h1")
			d.silent = true
			u1 := hostUUID("h1")
			for i := 1; i <= 3; i++ {
				h := fmt.Sprintf("h%d", i)
				n := &vk.Node{Host: h, UUID: hostUUID(h), Up: true, Executed: u1 + ":1-100", Flush: 1, SyncBinlog: 1}
				if i > 1 {
					lag := int64(500)
					n.RO, n.SuperRO, n.Chan, n.Retrieved, n.Lag = true, true, &vk.Chan{Source: "h1", IO: true, SQL: true}, n.Executed, &lag
				}
				w.AddNode(n)
				d.rawSet(dcs.JoinPath(pathHANodes, h), mysql.NodeConfiguration{})
			}
			va := newVApp(w, d, vAppOpts{Hostname: "h1", Dir: dir, Tune: func(cfg *config.Config) {
				cfg.SemiSync = true
				cfg.ReplicationConvergenceTimeoutSwitchover = 200 * time.Millisecond
			}})
			defer va.close()
			d.rawSet(pathMasterNode, "h1")
			view := va.app.getClusterStateFromDB()
			for k := 0; k < runs; k++ {
				sw := Switchover{Cause: CauseManual, MasterTransition: SwitchoverTransition, To: "h2", InitiatedBy: "operator", InitiatedAt: time.Now(), StartedBy: "h1", StartedAt: time.Now()}
				func() {
					defer func() { _ = recover() }()
					_ = va.app.optimizationPhase([]string{"h1", "h2", "h3"}, &sw, "h1", view)
				}()
			}
			time.Sleep(300 * time.Millisecond)
			buf := make([]byte, 1<<20)
			buf = buf[:runtime.Stack(buf, true)]
			left = strings.Count(string(buf), "startSyncerGoroutine")
		}()
		m.Evaluations++
		m.CountN("speedup_phase_runs", runs)
		m.CountN("speedup_phase_goroutines_left", left)
		if left > 0 {
			m.Violation("repeated iterations do not accumulate goroutines", map[string]any{"leak": "the pre-switchover speed-up phase of planned semi-sync switchover attempts"},
				fmt.Sprintf("%d goroutine(s) started by the speed-up phase are still alive after %d phases ended", left, runs))
		}
	}
	m.Rule = "iterations of the real state handlers over coordination trees with dangling references (recorded master / switch endpoints / active members that are not registered, hosts removed between iterations, missing health records), every start state, single failing calls; the recovery checker over master-record x replication x stuck commits; 220 iterations with a flapping master for leaks; thorough: the concurrent loops of one process under the race detector"
	o.WriteMeta("c20", m)
}

// the concurrently running loops of one process under the race detector (thorough tier, -race, real time)
func TestVerifC20Race(t *testing.T) {
	o := vk.Open()
	m := vk.NewMeta()
	dir, _ := os.MkdirTemp("", "c20r")
	defer os.RemoveAll(dir)
	w := vk.NewWorld()
	vInstall(w)
	d := newMemDCS(w, "h2")
	d.silent = true
	u1 := hostUUID("h1")
	for i := 1; i <= 3; i++ {
		h := fmt.Sprintf("h%d", i)
		n := &vk.Node{Host: h, UUID: hostUUID(h), Up: true, Executed: u1 + ":1-100"}
		if i > 1 {
			n.RO, n.SuperRO, n.Chan, n.Retrieved = true, true, &vk.Chan{Source: "h1", IO: true, SQL: true}, n.Executed
		}
		w.AddNode(n)
		d.rawSet(dcs.JoinPath(pathHANodes, h), mysql.NodeConfiguration{})
	}
	va := newVApp(w, d, vAppOpts{Hostname: "h2", Dir: dir})
	defer va.close()
	app := va.app
	d.rawSet(pathMasterNode, "h1")
	d.rawSet(pathActiveNodes, []string{"h1", "h2", "h3"})
	d.rawSet(pathRecovery, nil)
	d.rawSet(dcs.JoinPath(pathRecovery, "h2"), nil)
	ctx, cancel := context.WithTimeout(context.Background(), 3*time.Second)
	defer cancel()
	var wg sync.WaitGroup
	loop := func(f func()) {
		wg.Add(1)
		go func() {
			defer wg.Done()
			for ctx.Err() == nil {
				func() {
					defer func() { _ = recover() }()
					f()
				}()
				time.Sleep(2 * time.Millisecond)
			}
		}()
	}
	// the recovery mark of the local host keeps coming back (a manager elsewhere re-marks it), so that the recovery
	// checker does its full work - including its failure clocks - on every round, concurrently with the manager loop
	loop(func() { d.rawSet(dcs.JoinPath(pathRecovery, "h2"), nil) })
	loop(func() { _ = app.stateManager() })
	loop(func() { hc := app.getLocalNodeState(); _ = app.SetHealthState(app.config.Hostname, hc) })
	loop(func() { app.checkRecovery(); app.checkCrashRecovery(); app.SetResetupStatus() })
	loop(func() { _ = app.lagResetupper.CheckNeedResetup(app.cluster) })
	wg.Wait()
	m.Evaluations = 1
	m.Rule = "manager loop, health check, recovery check and lag check of one process running concurrently for 3 s of real time over the fakes, under -race (thorough tier)"
	o.WriteMeta("c20race", m)
}
