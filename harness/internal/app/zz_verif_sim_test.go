//go:build verif

package app

// Whole-cluster simulation: one REAL mysync process (App) per host over the fake MySQL servers and one
// shared in-memory coordination tree, driven tick by tick in virtual time, with a client workload, one
// injected fault (or a manager crash at an exact call) and healing.  Used by C02, C07 and C20.

import (
	"fmt"
	"math/rand"
	"os"
	"sort"
	"strings"
	"sync"
	"testing/synctest"
	"time"

	"github.com/yandex/mysync/internal/config"
	"github.com/yandex/mysync/internal/dcs"
	"github.com/yandex/mysync/internal/mysql"
	vk "github.com/yandex/mysync/internal/verifkit"
)

type simIn struct {
	N         int    `json:"n"`        // HA nodes h1..hN, h1 = initial master
	Cascade   bool   `json:"cascade"`  // plus one cascade replica h<N+1> streaming from h2
	WaitCount int    `json:"wait_count"`
	Failover  bool   `json:"failover"`
	Order     int64  `json:"order"`    // seed of the per-tick process order
	Fault     string `json:"fault"`    // "" | crash_node | isolate_node | kill_mysync | dcs_lost_one | dcs_lost_all | switch_to | switch_from | failover_req
	Target    int    `json:"target"`   // host the fault hits (1 = master)
	At        int    `json:"at"`       // tick of injection
	Phase     int    `json:"phase"`    // before which process of that tick (injection instant across the cycle)
	Duration  int    `json:"duration"` // ticks until healing
	CrashCall int    `json:"crash_call"` // >0: the manager that processes a request dies before its k-th external call of that iteration
	NextSame  bool   `json:"next_same"`  // the crashed manager's host restarts mysync at once (may become the next manager)
	Ticks     int    `json:"ticks"`
	NoSemiSync bool  `json:"no_semi_sync,omitempty"`
	SlowApply int    `json:"slow_apply,omitempty"` // host whose SQL thread is busy from tick At-1 ...
	SlowFor   int    `json:"slow_for,omitempty"`   // ... for that many ticks (it keeps receiving and acknowledging)
}

type simProc struct {
	host  string
	va    *vApp
	d     *memDCS
	state appState
	alive bool
	frozen bool
	port  string
}

type simOut struct {
	Notes      []string // violations observed during the run
	Final      map[string]vk.Node
	Master     string
	Acked      map[string]string // gtid -> acknowledging host
	Pending    bool
	Writable   []string
	Panics     []string
	CrashedAt  int
	Calls      int // external calls of the crashed iteration before the crash point
	Trace      []string
	Steps      []string // state-handler steps kept for the correspondence check (sampled): mgr_case terms
	Prefix     []string // the crashed iteration: a prefix of a model run
	CrashDone  []string // what the crashed iteration had already changed: kinds of its successful mutating calls ("DcsSet master" for coordination writes)
	Hosts      []string
}

type simWorld struct {
	in    simIn
	w     *vk.World
	root  *memDCS
	procs map[string]*simProc
	hosts []string
	acked map[string]string
	stuck map[string][]string
	out   *simOut
	dir   string
	cut   map[string]bool // isolated hosts
	mu    sync.Mutex
	blockPort  string          // the incarnation being counted
	blockAfter int
	blockCount int
	deadPorts  map[string]bool // incarnations stopped for good
	blockCh    chan struct{}
	nextPort   int
	all        []*vApp
	ioDown     map[*vk.Chan]bool
	cur        *mgrStep
	curCfg     *config.Config
	curTurbo   bool
	stepNo     int
}

func (s *simWorld) tune(cfg *config.Config) {
	cfg.Failover = s.in.Failover
	cfg.FailoverDelay = 0
	cfg.FailoverCooldown = 0
	cfg.InactivationDelay = 10 * time.Second
	cfg.SemiSync = !s.in.NoSemiSync
	cfg.RplSemiSyncMasterWaitForSlaveCount = s.in.WaitCount
	cfg.SlaveCatchUpTimeout = 10 * time.Second
	cfg.WaitReplicationStartTimeout = 3 * time.Second
	cfg.SwitchoverTimeout = 10 * time.Minute
	cfg.DcsWaitTimeout = time.Second
	cfg.ReplMon = false
}

func (s *simWorld) startProc(h string) {
	p := s.procs[h]
	if p == nil {
		p = &simProc{host: h}
		s.procs[h] = p
	}
	s.nextPort++
	port := 4000 + s.nextPort
	p.d = s.root.peer(h)
	p.d.port = fmt.Sprint(port)
	p.port = p.d.port
	p.d.connected = !s.cut[h]
	p.d.silent = true
	dir := s.dir + "/" + h
	_ = os.MkdirAll(dir, 0o755)
	p.va = newVApp(s.w, p.d, vAppOpts{Hostname: h, Dir: dir, Tune: s.tune, Port: port})
	s.all = append(s.all, p.va)
	p.d.silent = false
	p.state = stateFirstRun
	p.alive = true
}

// a client write attempt on host h
func (s *simWorld) clientWrite(h string) {
	s.w.Mu.Lock()
	defer s.w.Mu.Unlock()
	n := s.w.Nodes[h]
	if n == nil || !n.Up || n.RO || n.Offline {
		return
	}
	n.NextGno++
	g := fmt.Sprintf("%s:%d", n.UUID, n.NextGno)
	n.Executed = vk.GtidUnion(n.Executed, g)
	if n.SSMaster && n.WaitCount > 0 {
		ackers := s.w.AckersLocked(n)
		var reach []string
		for _, a := range ackers {
			if !s.cut[a] && !s.cut[h] {
				reach = append(reach, a)
			}
		}
		if len(reach) >= n.WaitCount {
			for _, a := range reach {
				s.w.Nodes[a].Retrieved = vk.GtidUnion(s.w.Nodes[a].Retrieved, g)
			}
			s.acked[g] = h
		} else {
			n.StuckCommits++
			s.stuck[h] = append(s.stuck[h], g)
		}
	} else {
		s.acked[g] = h
	}
}

func (s *simWorld) replicate() {
	s.w.Mu.Lock()
	defer s.w.Mu.Unlock()
	for _, h := range s.hosts {
		n := s.w.Nodes[h]
		if n.Chan == nil || !n.Up {
			continue
		}
		// an unreachable source leaves the receiver thread "Connecting" (the fake shows it so and lets it reconnect by itself)
		s.w.ReplicateLocked(n)
	}
}

func (s *simWorld) setCut(h string, on bool) {
	s.w.Mu.Lock()
	s.cut[h] = on
	for _, c := range append([]string{}, s.hosts...) {
		if c == h {
			continue
		}
		if s.w.Partition[c] == nil {
			s.w.Partition[c] = map[string]bool{}
		}
		if s.w.Partition[h] == nil {
			s.w.Partition[h] = map[string]bool{}
		}
		s.w.Partition[c][h] = on
		s.w.Partition[h][c] = on
	}
	if on {
		if n := s.w.Nodes[h]; n != nil {
			s.w.DropConnsLocked(n)
		}
	}
	s.w.Mu.Unlock()
}

func (s *simWorld) dcsState(h string, connected bool) {
	p := s.procs[h]
	if p == nil || p.d == nil {
		return
	}
	p.d.mu.Lock()
	p.d.connected = connected
	p.d.mu.Unlock()
	if !connected {
		p.d.sessionEnd() // the session times out on the server side
	}
}

func (s *simWorld) inject(start bool) {
	in := s.in
	h := fmt.Sprintf("h%d", in.Target)
	switch in.Fault {
	case "crash_node":
		s.w.Mu.Lock()
		n := s.w.Nodes[h]
		if start {
			s.w.KillLocked(n)
			for _, g := range s.stuck[h] {
				_ = g
			}
			s.stuck[h] = nil
		} else {
			n.Up, n.RO, n.SuperRO, n.Offline = true, true, true, false // mysqld comes back read-only (my.cnf)
		}
		s.w.Mu.Unlock()
	case "isolate_node":
		s.setCut(h, start)
		s.dcsState(h, !start)
	case "kill_mysync":
		if start {
			if p := s.procs[h]; p != nil && p.alive {
				p.alive = false
				p.d.sessionEnd()
			}
		} else {
			s.startProc(h)
		}
	case "dcs_lost_one":
		s.dcsState(h, !start)
	case "dcs_lost_all":
		for _, x := range s.hosts {
			s.dcsState(x, !start)
		}
	case "switch_to":
		if start {
			_ = s.root.Create(pathCurrentSwitch, Switchover{To: h, Cause: CauseManual, MasterTransition: SwitchoverTransition, InitiatedBy: "operator", InitiatedAt: time.Now()})
		}
	case "switch_from":
		if start {
			var m string
			s.root.rawGet(pathMasterNode, &m)
			_ = s.root.Create(pathCurrentSwitch, Switchover{From: m, Cause: CauseManual, MasterTransition: SwitchoverTransition, InitiatedBy: "operator", InitiatedAt: time.Now()})
		}
	case "failover_req":
		if start {
			var m string
			s.root.rawGet(pathMasterNode, &m)
			_ = s.root.Create(pathCurrentSwitch, Switchover{From: m, Cause: CauseManual, MasterTransition: FailoverTransition, InitiatedBy: "operator", InitiatedAt: time.Now()})
		}
	}
}

// one step of one process: state handler + health checker + recovery checker
func (s *simWorld) step(p *simProc, tick int) {
	if !p.alive || p.frozen {
		return
	}
	app := p.va.app
	run := func(what string, f func()) {
		defer func() {
			if r := recover(); r != nil {
				s.out.Panics = append(s.out.Panics, fmt.Sprintf("tick %d %s %s: %v (%s)", tick, p.host, what, r, vPanicSite()))
				if s.cur != nil {
					s.cur.Panic = fmt.Sprint(r)
				}
				// the daemon dies and is restarted by its supervisor
				s.startProc(p.host)
			}
		}()
		f()
	}
	fileState := func() map[string]bool {
		r := map[string]bool{}
		_, e1 := os.Stat(p.va.cfg.Maintenancefile)
		_, e2 := os.Stat(p.va.cfg.Emergefile)
		r["maintenance"], r["emerge"] = e1 == nil, e2 == nil
		return r
	}
	var st mgrStep
	st.State = p.state
	st.MemBefore = mgrMemGal(app)
	st.Files = fileState()
	st.T0 = time.Now().UnixNano() - vEpoch
	turbo := false
	if sw := new(Switchover); p.va.cfg.SemiSync && s.root.rawGet(pathCurrentSwitch, sw) && sw.MasterTransition == SwitchoverTransition {
		turbo = true // the semi-sync speed-up phase (C19) is not part of perform_switchover's model
	}
	s.w.ResetTranscript()
	s.cur, s.curCfg, s.curTurbo = &st, p.va.cfg, turbo
	run("state "+string(p.state), func() {
		switch p.state {
		case stateFirstRun:
			p.state = app.stateFirstRun()
			vInitOpt(app, p.d)
		case stateManager:
			p.state = app.stateManager()
		case stateCandidate:
			p.state = app.stateCandidate()
		case stateLost:
			p.state = app.stateLost()
		case stateMaintenance:
			p.state = app.stateMaintenance()
		}
	})
	synctest.Wait()
	st.Next = p.state
	st.Trans = s.w.Transcript()
	st.FailedAfter = mgrFailed(app)
	st.FilesAfter = fileState()
	mutating := false
	for _, e := range st.Trans {
		if e.Mut {
			mutating = true
		}
	}
	s.stepNo++
	if !turbo && st.Panic == "" && p.alive && !p.frozen && (mutating && s.stepNo%2 == 0 || s.stepNo%11 == 0) && len(s.out.Steps) < 40 {
		s.out.Steps = append(s.out.Steps, mgrCases(mgrIn{}, mgrOut{Steps: []mgrStep{st}, Cfg: p.va.cfg, Hosts: s.hosts})...)
	}
	if !p.alive || p.frozen {
		return
	}
	run("health", func() {
		hc := app.getLocalNodeState()
		_ = app.SetHealthState(app.config.Hostname, hc)
	})
	run("recovery", func() {
		app.checkRecovery()
		app.checkCrashRecovery()
		app.SetResetupStatus()
	})
}

func simRun(in simIn) simOut {
	vk.Running("sim", in)
	var out simOut
	dir, _ := os.MkdirTemp("", "sim")
	defer os.RemoveAll(dir)
	w := vk.NewWorld()
	vInstall(w)
	root := newMemDCS(w, "operator")
	root.silent = true
	s := &simWorld{in: in, w: w, root: root, procs: map[string]*simProc{}, acked: map[string]string{}, stuck: map[string][]string{}, out: &out, dir: dir, cut: map[string]bool{}, blockCh: make(chan struct{}), deadPorts: map[string]bool{}, ioDown: map[*vk.Chan]bool{}}
	u1 := hostUUID("h1")
	total := in.N
	if in.Cascade {
		total++
	}
	for i := 1; i <= total; i++ {
		h := fmt.Sprintf("h%d", i)
		n := &vk.Node{Host: h, UUID: hostUUID(h), Up: true, Executed: u1 + ":1-100"}
		switch {
		case i == 1:
			if !in.NoSemiSync {
				n.SSMaster, n.WaitCount = true, min(in.WaitCount, max(1, (in.N-1)))
			}
			n.NextGno = 100
		default:
			n.RO, n.SuperRO = true, true
			src := "h1"
			if i > in.N {
				src = "h2"
			}
			n.Chan = &vk.Chan{Source: src, IO: true, SQL: true}
			n.Retrieved = n.Executed
			if i <= in.N && !in.NoSemiSync {
				n.SSSlave, n.SSSlaveEffective = true, true
			}
		}
		w.AddNode(n)
		if i > in.N {
			root.rawSet(dcs.JoinPath(pathCascadeNodesPrefix, h), mysql.CascadeNodeConfiguration{StreamFrom: "h2"})
		} else {
			root.rawSet(dcs.JoinPath(pathHANodes, h), mysql.NodeConfiguration{})
		}
		s.hosts = append(s.hosts, h)
	}
	w.AutoReplicate = true
	root.rawSet(pathMasterNode, "h1")
	var act []string
	for i := 1; i <= in.N; i++ {
		act = append(act, fmt.Sprintf("h%d", i))
	}
	root.rawSet(pathActiveNodes, act)
	time.Sleep(7 * time.Second)
	for _, h := range s.hosts {
		s.startProc(h)
	}
	// stuck commits: what the clients of a master learn when mysync fences it
	w.OnStatement = func(w *vk.World, n *vk.Node, caller, kind, arg string) {
		switch kind {
		case "SSetOffline", "SKill":
			// client sessions are dropped: their commits are never acknowledged to them
			if kind == "SSetOffline" {
				s.stuck[n.Host] = nil
			} else if len(s.stuck[n.Host]) > 0 {
				s.stuck[n.Host] = s.stuck[n.Host][1:]
			}
		case "SSemiDisable":
			// waiting commits are released and acknowledged to the clients still connected
			for _, g := range s.stuck[n.Host] {
				s.acked[g] = n.Host
				out.Trace = append(out.Trace, fmt.Sprintf("%s acknowledged %s on semi-sync disable", n.Host, g))
			}
			s.stuck[n.Host] = nil
		}
	}
	// stopping a process between two external calls
	w.CallHook = func(caller, port string) {
		s.mu.Lock()
		if s.blockPort != "" && s.blockPort == port && !s.deadPorts[port] {
			s.blockCount++
			if s.blockCount >= s.blockAfter {
				s.deadPorts[port] = true
				out.Calls = s.blockCount - 1
			}
		}
		hold := s.deadPorts[port]
		s.mu.Unlock()
		if hold {
			<-s.blockCh // never released while the scenario runs: the process is dead
		}
	}
	rng := rand.New(rand.NewSource(in.Order))
	out.CrashedAt = -1
	healed := in.Fault == ""
	for tick := 0; tick < in.Ticks; tick++ {
		if in.SlowApply > 0 {
			w.Mu.Lock()
			if n := w.Nodes[fmt.Sprintf("h%d", in.SlowApply)]; n != nil {
				n.ApplyHold = tick >= in.At-1 && tick < in.At-1+in.SlowFor
			}
			w.Mu.Unlock()
		}
		order := append([]string{}, s.hosts...)
		rng.Shuffle(len(order), func(i, j int) { order[i], order[j] = order[j], order[i] })
		for k, h := range order {
			if in.Fault != "" && tick == in.At && k == in.Phase%len(order) {
				s.inject(true)
			}
			if in.Fault != "" && !healed && tick == in.At+in.Duration && k == 0 {
				s.inject(false)
				healed = true
			}
			p := s.procs[h]
			// C07: the manager that is about to process the pending request dies before its k-th call
			if in.CrashCall > 0 && out.CrashedAt < 0 && p.alive && p.state == stateManager && root.rawHas(pathCurrentSwitch) {
				s.mu.Lock()
				s.blockPort, s.blockAfter, s.blockCount = p.port, in.CrashCall, 0
				s.mu.Unlock()
				done := make(chan struct{})
				go func() {
					defer close(done)
					defer func() { _ = recover() }()
					s.step(p, tick)
				}()
				finished, dead := false, false
				for !finished && !dead {
					synctest.Wait()
					select {
					case <-done:
						finished = true
					default:
					}
					s.mu.Lock()
					dead = s.deadPorts[p.port]
					s.mu.Unlock()
					if !finished && !dead {
						time.Sleep(500 * time.Millisecond) // the iteration is waiting on a timer: let time pass
					}
				}
				s.mu.Lock()
				s.blockPort = ""
				s.mu.Unlock()
				if !dead {
					// the iteration ended before reaching call k: no crash in this iteration
					s.mu.Lock()
					if s.blockCount > out.Calls {
						out.Calls = s.blockCount
					}
					s.mu.Unlock()
				} else {
					out.CrashedAt = tick
					if s.cur != nil && s.cur.State == stateManager {
						pre := *s.cur
						pre.Trans = s.w.Transcript()
						for _, e := range pre.Trans {
							if e.Mut && e.Err == "" {
								if e.Host != "" {
									out.CrashDone = append(out.CrashDone, e.Kind)
								} else {
									out.CrashDone = append(out.CrashDone, e.Kind+" "+e.Arg)
								}
							}
						}
						pre.FilesAfter = pre.Files
						if !s.curTurbo {
							out.Prefix = append(out.Prefix, mgrCases(mgrIn{}, mgrOut{Steps: []mgrStep{pre}, Cfg: s.curCfg, Hosts: s.hosts})...)
						}
					}
					p.alive, p.frozen = false, true
					p.d.sessionEnd()
					out.Trace = append(out.Trace, fmt.Sprintf("tick %d: manager %s died before call %d", tick, h, in.CrashCall))
					if in.NextSame {
						s.procs[h] = nil
						s.startProc(h) // the supervisor restarts mysync on that host: a new process
					}
				}
				continue
			}
			s.step(p, tick)
		}
		if os.Getenv("VERIF_DEBUG") != "" {
			line := fmt.Sprintf("tick %d:", tick)
			for _, h := range s.hosts {
				p := s.procs[h]
				n := s.w.Nodes[h]
				line += fmt.Sprintf(" %s[%s up=%v ro=%v]", h, p.state, n.Up, n.RO)
			}
			var m string
			root.rawGet(pathMasterNode, &m)
			fmt.Println(line, "master", m, "switch", root.rawHas(pathCurrentSwitch), "lock", root.sh.lockOwner)
			for _, e := range s.w.Transcript() {
				if e.Mut || e.Err != "" {
					fmt.Printf("      %s -> %s %s %s %s %.40s\n", e.Caller, e.Host, e.Kind, e.Arg, e.Err, e.Resp)
				}
			}
			s.w.ResetTranscript()
		}
		// clients try to write everywhere; whoever is writable answers
		before := map[string]int{}
		for _, by := range s.acked {
			before[by]++
		}
		for _, h := range s.hosts {
			s.clientWrite(h)
		}
		after := map[string]int{}
		for _, by := range s.acked {
			after[by]++
		}
		var ackers []string
		for h, c := range after {
			if c > before[h] {
				ackers = append(ackers, h)
			}
		}
		sort.Strings(ackers)
		if len(ackers) > 1 {
			out.Notes = append(out.Notes, fmt.Sprintf("tick %d: %v acknowledged client writes at the same time", tick, ackers))
		}
		s.replicate()
		// at no instant do two nodes acknowledge
		time.Sleep(5 * time.Second)
	}
	// end state
	w.Mu.Lock()
	out.Final = map[string]vk.Node{}
	for h, n := range w.Nodes {
		out.Final[h] = *n
		if n.Up && !n.RO {
			out.Writable = append(out.Writable, h)
		}
	}
	w.Mu.Unlock()
	sort.Strings(out.Writable)
	root.rawGet(pathMasterNode, &out.Master)
	out.Pending = root.rawHas(pathCurrentSwitch)
	out.Acked = s.acked
	out.Hosts = s.hosts
	// let the dead process' goroutine go (its calls fail from now on)
	w.Mu.Lock()
	for c := range w.Partition {
		_ = c
	}
	w.Mu.Unlock()
	for _, p := range s.procs {
		if p != nil && p.d != nil {
			p.d.mu.Lock()
			p.d.connected = false
			p.d.mu.Unlock()
		}
	}
	w.Mu.Lock()
	for _, n := range w.Nodes {
		w.KillLocked(n)
	}
	w.Mu.Unlock()
	close(s.blockCh)
	time.Sleep(40 * time.Minute) // whatever a stopped process was waiting for times out; all its calls fail now
	synctest.Wait()
	for _, va := range s.all {
		va.close()
	}
	return out
}

// the end state the properties C02 / C07 ask for
func simCheck(in simIn, out simOut) []string {
	var v []string
	if len(out.Writable) != 1 {
		v = append(v, fmt.Sprintf("exactly one writable master: writable = %v", out.Writable))
	} else if out.Writable[0] != out.Master {
		v = append(v, fmt.Sprintf("the writable node %s is not the recorded master %q", out.Writable[0], out.Master))
	}
	if out.Pending {
		v = append(v, "a switch request is still pending")
	}
	m, ok := out.Final[out.Master]
	if !ok {
		return append(v, "the recorded master is not a cluster host: "+out.Master)
	}
	for i := 1; i <= in.N; i++ {
		h := fmt.Sprintf("h%d", i)
		n := out.Final[h]
		if h == out.Master || !n.Up {
			continue
		}
		if !n.RO {
			v = append(v, h+" is not read-only")
		}
		if n.Offline {
			continue // taken out by the recovery protocol (awaiting resetup): not serving
		}
		if n.Chan == nil || n.Chan.Source != out.Master || !n.Chan.IO || !n.Chan.SQL {
			v = append(v, fmt.Sprintf("%s does not replicate from %s (%+v)", h, out.Master, n.Chan))
		}
	}
	var lost []string
	for g, by := range out.Acked {
		if !vk.GtidContains(m.Executed, g) {
			lost = append(lost, g+" (acknowledged by "+by+")")
		}
	}
	sort.Strings(lost)
	if len(lost) > 0 {
		v = append(v, fmt.Sprintf("acknowledged transactions missing on %s: %s", out.Master, strings.Join(lost, ", ")))
	}
	return v
}


// simCases collects the mgr_case terms of simulated iterations into sharded case files
type simCases struct {
	o       *vk.Out
	m       *vk.Meta
	prefix  string
	checker string
	shard   int
	cases   []string
}

func (c *simCases) add(in simIn, cs []string) {
	for _, x := range cs {
		file := fmt.Sprintf("%s_%02d", c.prefix, c.shard)
		c.cases = append(c.cases, x)
		c.m.Cases[file] = append(c.m.Cases[file], in)
		if len(c.cases) >= 60 {
			c.flush()
		}
	}
}

func (c *simCases) flush() {
	if len(c.cases) == 0 {
		return
	}
	imports := []string{"Gtid.GtidSet", "Base.Prog", "Base.Config", "Base.Replay", "Procs.NodeOps", "Procs.ActiveNodes", "Procs.Switchover", "Procs.Repair", "Procs.Manager", "Corr.C13", "Corr.Mgr"}
	c.o.CasesFile(fmt.Sprintf("%s_%02d", c.prefix, c.shard), imports, "mgr_case", c.cases, c.checker)
	c.cases = nil
	c.shard++
}
