//go:build verif

package app

import (
	"context"
	"encoding/json"
	"fmt"
	"os"
	"sort"
	"testing"
	"testing/synctest"
	"time"

	app_dcs "github.com/yandex/mysync/internal/app/dcs"
	nodestate "github.com/yandex/mysync/internal/app/node_state"
	"github.com/yandex/mysync/internal/config"
	"github.com/yandex/mysync/internal/dcs"
	"github.com/yandex/mysync/internal/mysql"
	vk "github.com/yandex/mysync/internal/verifkit"
)

// ---------------------------------------------------------------- part A: sequences of Sync / Enable / Disable

type c19Node struct {
	Kind       string `json:"kind"` // master (h1) | replica | nochan (no replication channel: looks like a master) | down
	Lag        int64  `json:"lag"`  // -1 = unknown (threads stopped)
	Flush      int    `json:"flush"`
	SyncBinlog int    `json:"sync_binlog"`
	Reg        string `json:"reg"` // "" | new | enabled
}
type c19Op struct {
	Op       string    `json:"op"`   // sync | enable | disable | setlag | setstatus | dereg
	Host     int       `json:"host"` // h<Host>
	Lag      int64     `json:"lag"`
	Status   string    `json:"status"`
	Fault    *vk.Fault `json:"fault"`
	DcsFault *memFault `json:"dcs_fault"`
	NoMasterView bool  `json:"no_master_view"` // the master's health record carries no settings in this iteration
}
type c19In struct {
	Nodes   []c19Node `json:"nodes"`   // nodes[0] = master h1
	Foreign []string  `json:"foreign"` // registry entries ("new"/"enabled") of hosts h7, h8 that are not cluster hosts
	Ops     []c19Op   `json:"ops"`
}

type c19Step struct {
	Op        c19Op
	Trans     []vk.Entry
	Err       string
	Panic     string
	View      map[string]*nodestate.NodeState
	Cluster   []string
	RegBefore map[string]string
	RegAfter  map[string]string
	SetBefore map[string][2]int
	SetAfter  map[string][2]int
	UpAfter   map[string]bool
	T0        int64
}
type c19Out struct {
	Steps []c19Step
	Cfg   *config.Config
}

func c19Registry(d *memDCS) map[string]string {
	r := map[string]string{}
	for _, h := range d.rawChildren("optimization_nodes") {
		var st struct {
			Status string `json:"status"`
		}
		d.rawGet(dcs.JoinPath("optimization_nodes", h), &st)
		if st.Status == "enabled" {
			r[h] = "enabled"
		} else {
			r[h] = "new"
		}
	}
	return r
}

func c19Settings(w *vk.World) (map[string][2]int, map[string]bool) {
	w.Mu.Lock()
	defer w.Mu.Unlock()
	r := map[string][2]int{}
	up := map[string]bool{}
	for h, n := range w.Nodes {
		r[h] = [2]int{n.Flush, n.SyncBinlog}
		up[h] = n.Up
	}
	return r, up
}

func c19RegValue(status string) map[string]string {
	return map[string]string{"status": map[string]string{"new": "", "enabled": "enabled"}[status]}
}

func c19Run(in c19In) c19Out {
	vk.Running("optsync", in)
	var out c19Out
	dir, _ := os.MkdirTemp("", "c19")
	defer os.RemoveAll(dir)
	w := vk.NewWorld()
	vInstall(w)
	d := newMemDCS(w, "h1")
	d.silent = true
	u1 := hostUUID("h1")
	for i, c := range in.Nodes {
		h := fmt.Sprintf("h%d", i+1)
		n := &vk.Node{Host: h, UUID: hostUUID(h), Up: c.Kind != "down", Executed: u1 + ":1-100", Flush: c.Flush, SyncBinlog: c.SyncBinlog}
		if i > 0 && c.Kind != "nochan" {
			n.RO, n.SuperRO = true, true
			n.Chan = &vk.Chan{Source: "h1", IO: true, SQL: true}
			n.Retrieved = n.Executed
			if c.Lag < 0 {
				n.Chan.SQL = false
			} else {
				lag := c.Lag
				n.Lag = &lag
			}
		}
		w.AddNode(n)
		d.rawSet(dcs.JoinPath(pathHANodes, h), mysql.NodeConfiguration{})
		if c.Reg != "" {
			d.rawSet(dcs.JoinPath("optimization_nodes", h), c19RegValue(c.Reg))
		}
	}
	for k, st := range in.Foreign {
		if st != "" {
			d.rawSet(dcs.JoinPath("optimization_nodes", fmt.Sprintf("h%d", 7+k)), c19RegValue(st))
		}
	}
	w.AutoReplicate = false
	va := newVApp(w, d, vAppOpts{Hostname: "h1", Dir: dir})
	defer va.close()
	app := va.app
	out.Cfg = va.cfg
	d.rawSet(pathMasterNode, "h1")
	for _, op := range in.Ops {
		h := fmt.Sprintf("h%d", op.Host)
		switch op.Op {
		case "setlag":
			w.Mu.Lock()
			if n := w.Nodes[h]; n != nil && n.Chan != nil {
				if op.Lag < 0 {
					n.Chan.SQL = false
					n.Lag = nil
				} else {
					n.Chan.SQL = true
					lag := op.Lag
					n.Lag = &lag
				}
			}
			w.Mu.Unlock()
			continue
		case "setstatus": // an external tool flips the registry status
			if d.rawHas(dcs.JoinPath("optimization_nodes", h)) {
				d.rawSet(dcs.JoinPath("optimization_nodes", h), c19RegValue(op.Status))
			}
			continue
		case "dereg": // the host leaves the cluster registry
			d.rawDelete(dcs.JoinPath(pathHANodes, h))
			continue
		}
		var st c19Step
		st.Op = op
		d.silent = true
		_ = app.cluster.UpdateHostsInfo()
		if (op.Op == "enable" || op.Op == "disable") && app.cluster.Get(h) == nil {
			continue // the CLI refuses hosts that are not registered
		}
		view := app.getClusterStateFromDB()
		if op.NoMasterView {
			ns := *view["h1"]
			ns.ReplicationSettings = nil
			view["h1"] = &ns
		}
		st.View = view
		st.Cluster = app.cluster.AllNodeHosts()
		sort.Strings(st.Cluster)
		st.RegBefore = c19Registry(d)
		st.SetBefore, _ = c19Settings(w)
		w.ResetTranscript()
		w.Faults, d.faults = nil, nil
		if op.Fault != nil {
			f := *op.Fault
			w.Faults = append(w.Faults, &f)
		}
		if op.DcsFault != nil {
			f := *op.DcsFault
			d.faults = append(d.faults, &f)
		}
		st.T0 = time.Now().UnixNano() - vEpoch
		d.silent = false
		func() {
			defer func() {
				if r := recover(); r != nil {
					st.Panic = fmt.Sprint(r)
				}
			}()
			var err error
			switch op.Op {
			case "sync":
				err = app.optSyncer.Sync(app_dcs.NewOptimizationClusterAdapter(app.cluster, view, "h1"))
			case "enable":
				err = app.optController.Enable(app.cluster.Get(h))
			case "disable":
				err = app.optController.Disable(app.cluster.Get("h1"), app.cluster.Get(h))
			}
			if err != nil {
				st.Err = err.Error()
			}
		}()
		d.silent = true
		synctest.Wait()
		st.Trans = w.Transcript()
		st.RegAfter = c19Registry(d)
		st.SetAfter, st.UpAfter = c19Settings(w)
		out.Steps = append(out.Steps, st)
		if st.Panic != "" {
			break
		}
	}
	return out
}

func c19EnvGal(view map[string]*nodestate.NodeState, cluster []string, cfg *config.Config) string {
	return "{| ov_master := 1%N; ov_states := " + statesGal(view) + "; ov_cluster := " + hostsGal(cluster) +
		"; ov_low := " + vk.Z(int64(cfg.OptimizationConfig.LowReplicationMark/time.Second)) + "; ov_high := " + vk.Z(int64(cfg.OptimizationConfig.HighReplicationMark/time.Second)) + " |}"
}

func c19Cases(in c19In, out c19Out) []string {
	var cs []string
	for _, st := range out.Steps {
		kind := map[string]int64{"sync": 0, "enable": 1, "disable": 2}[st.Op.Op]
		obs := int64(0)
		if st.Err != "" {
			obs = 1
		}
		if st.Panic != "" {
			obs = 2
		}
		cs = append(cs, vk.T(c19EnvGal(st.View, st.Cluster, out.Cfg), vk.Z(kind), hostGal(fmt.Sprintf("h%d", st.Op.Host)), transcriptGal(st.Trans, vEpoch, ""), vk.Z(st.T0), vk.Z(obs)))
	}
	return cs
}

// c19Monitor: the property's clauses on the fake servers' ground truth after every step
func c19Monitor(m *vk.Meta, in c19In, out c19Out) {
	for si, st := range out.Steps {
		if st.Panic != "" {
			m.Violation("an optimisation step never crashes the process", in, fmt.Sprintf("step %d (%s): %s", si, st.Op.Op, st.Panic))
			continue
		}
		isCluster := map[string]bool{}
		for _, h := range st.Cluster {
			isCluster[h] = true
		}
		mrs := st.SetBefore["h1"]
		faulted := st.Op.Fault != nil || st.Op.DcsFault != nil
		// dropped only after restored
		for h := range st.RegBefore {
			if _, still := st.RegAfter[h]; still {
				continue
			}
			if !isCluster[h] {
				continue // no longer a registered cluster host
			}
			got := st.SetAfter[h]
			okSafe := got == [2]int{1, 1} && (st.Op.Op == "disable") // the controller falls back to the safe defaults when the master cannot be asked
			if got != mrs && !okSafe {
				m.Violation("a registered host is dropped from the registry only after its settings were restored", in,
					fmt.Sprintf("step %d (%s): %s dropped with settings %v, master has %v", si, st.Op.Op, h, got, mrs))
			}
		}
		if st.Op.Op != "sync" {
			continue
		}
		relaxed := func(set map[string][2]int, reg map[string]string) []string {
			var r []string
			for h := range reg {
				if h != "h1" && isCluster[h] && set[h] != mrs {
					r = append(r, h)
				}
			}
			sort.Strings(r)
			return r
		}
		before, after := relaxed(st.SetBefore, st.RegBefore), relaxed(st.SetAfter, st.RegAfter)
		if st.Err == "" && !faulted && len(after) > 1 {
			m.Violation("after a sync at most one replica is left with relaxed durability settings under mysync's control", in,
				fmt.Sprintf("step %d: relaxed and registered after the sync: %v", si, after))
		}
		if len(after) > len(before) && len(after) > 1 {
			m.Violation("a sync never adds a second replica with relaxed durability settings", in,
				fmt.Sprintf("step %d: before %v, after %v (err=%q)", si, before, after, st.Err))
		}
		if st.Err == "" && !faulted {
			low := float64(out.Cfg.OptimizationConfig.LowReplicationMark / time.Second)
			high := float64(out.Cfg.OptimizationConfig.HighReplicationMark / time.Second)
			for h, status := range st.RegBefore {
				ns := st.View[h]
				nolag := ns == nil || ns.SlaveState == nil || ns.SlaveState.ReplicationLag == nil || ns.IsMaster
				conv := !nolag && (*ns.SlaveState.ReplicationLag < low || (status != "enabled" && *ns.SlaveState.ReplicationLag < high))
				if !nolag && !conv {
					continue
				}
				if _, still := st.RegAfter[h]; still {
					m.Violation("replicas without a known lag and replicas whose lag has converged are dropped from the registry", in,
						fmt.Sprintf("step %d: %s (nolag=%v converged=%v) still registered", si, h, nolag, conv))
				} else if isCluster[h] && st.SetAfter[h] != mrs {
					m.Violation("replicas without a known lag and replicas whose lag has converged are returned to the master's durability settings", in,
						fmt.Sprintf("step %d: %s has %v, master %v", si, h, st.SetAfter[h], mrs))
				}
			}
		}
	}
}

func c19Gen(o *vk.Out) c19In {
	r := o.Rng
	settings := [][2]int{{1, 1}, {1, 1}, {2, 1000}, {2, 1000}, {2, 1}, {0, 0}, {1, 1000}, {2, 1001}}
	lags := []int64{-1, 0, 30, 59, 60, 61, 119, 120, 121, 300, 300}
	in := c19In{}
	ms := [][2]int{{1, 1}, {1, 1}, {1, 1}, {2, 1000}, {0, 5}, {2, 1}}[r.Intn(6)]
	in.Nodes = append(in.Nodes, c19Node{Kind: "master", Flush: ms[0], SyncBinlog: ms[1], Reg: []string{"", "", "", "new", "enabled"}[r.Intn(5)]})
	n := 1 + r.Intn(5)
	for i := 2; i <= n; i++ {
		s := settings[r.Intn(len(settings))]
		if r.Intn(3) == 0 {
			s = ms
		}
		c := c19Node{Kind: []string{"replica", "replica", "replica", "replica", "replica", "nochan", "down"}[r.Intn(7)], Lag: lags[r.Intn(len(lags))], Flush: s[0], SyncBinlog: s[1],
			Reg: []string{"", "new", "new", "enabled", "enabled"}[r.Intn(5)]}
		in.Nodes = append(in.Nodes, c)
	}
	for k := 0; k < 2; k++ {
		in.Foreign = append(in.Foreign, []string{"", "", "", "new", "enabled"}[r.Intn(5)])
	}
	nops := 1 + r.Intn(4)
	for k := 0; k < nops; k++ {
		h := 1 + r.Intn(n)
		switch r.Intn(10) {
		case 0:
			in.Ops = append(in.Ops, c19Op{Op: "enable", Host: h})
		case 1:
			in.Ops = append(in.Ops, c19Op{Op: "disable", Host: h})
		case 2:
			in.Ops = append(in.Ops, c19Op{Op: "setlag", Host: h, Lag: lags[r.Intn(len(lags))]})
		case 3:
			in.Ops = append(in.Ops, c19Op{Op: "setstatus", Host: h, Status: []string{"new", "enabled"}[r.Intn(2)]})
		case 4:
			if h > 1 && r.Intn(2) == 0 {
				in.Ops = append(in.Ops, c19Op{Op: "dereg", Host: h})
			}
		default:
			in.Ops = append(in.Ops, c19Op{Op: "sync", NoMasterView: r.Intn(8) == 0})
		}
	}
	in.Ops = append(in.Ops, c19Op{Op: "sync"})
	return in
}

// ---------------------------------------------------------------- part B: controller.Wait

type c19WaitIn struct {
	Reg      string    `json:"reg"` // "" | new | enabled
	Lag      int64     `json:"lag"` // -1 unknown
	Timeout  int       `json:"timeout_s"`
	Fault    *vk.Fault `json:"fault"`
	DcsFaults []memFault `json:"dcs_faults"`
	ChangeAt int       `json:"change_at_s"` // 0 = never; else an external change happens then
	Change   string    `json:"change"`      // delete | new | enabled | lag0 | down
}
type c19WaitOut struct {
	Trans []vk.Entry
	Err   string
	T0    int64
	Cfg   *config.Config
	RegAfter map[string]string
}

func c19WaitRun(in c19WaitIn) c19WaitOut {
	var out c19WaitOut
	dir, _ := os.MkdirTemp("", "c19w")
	defer os.RemoveAll(dir)
	w := vk.NewWorld()
	vInstall(w)
	d := newMemDCS(w, "h1")
	d.silent = true
	u1 := hostUUID("h1")
	w.AddNode(&vk.Node{Host: "h1", UUID: hostUUID("h1"), Up: true, Executed: u1 + ":1-100"})
	n2 := &vk.Node{Host: "h2", UUID: hostUUID("h2"), Up: true, Executed: u1 + ":1-100", RO: true, SuperRO: true, Chan: &vk.Chan{Source: "h1", IO: true, SQL: true}}
	if in.Lag < 0 {
		n2.Chan.SQL = false
	} else {
		lag := in.Lag
		n2.Lag = &lag
	}
	w.AddNode(n2)
	for _, h := range []string{"h1", "h2"} {
		d.rawSet(dcs.JoinPath(pathHANodes, h), mysql.NodeConfiguration{})
	}
	if in.Reg != "" {
		d.rawSet(dcs.JoinPath("optimization_nodes", "h2"), c19RegValue(in.Reg))
	}
	w.AutoReplicate = false
	va := newVApp(w, d, vAppOpts{Hostname: "h1", Dir: dir})
	defer va.close()
	app := va.app
	out.Cfg = va.cfg
	if in.Fault != nil {
		f := *in.Fault
		w.Faults = append(w.Faults, &f)
	}
	for i := range in.DcsFaults {
		f := in.DcsFaults[i]
		d.faults = append(d.faults, &f)
	}
	w.ResetTranscript()
	out.T0 = time.Now().UnixNano() - vEpoch
	done := make(chan struct{})
	defer close(done)
	if in.ChangeAt > 0 {
		go func() {
			select {
			case <-done:
				return
			case <-time.After(time.Duration(in.ChangeAt)*time.Second + 500*time.Millisecond):
			}
			switch in.Change {
			case "delete":
				d.rawDelete(dcs.JoinPath("optimization_nodes", "h2"))
			case "new", "enabled":
				d.rawSet(dcs.JoinPath("optimization_nodes", "h2"), c19RegValue(in.Change))
			case "lag0":
				w.Mu.Lock()
				z := int64(0)
				n2.Chan.SQL, n2.Lag = true, &z
				w.Mu.Unlock()
			case "down":
				w.Mu.Lock()
				w.KillLocked(n2)
				w.Mu.Unlock()
			}
		}()
	}
	d.silent = false
	ctx, cancel := context.WithTimeout(context.Background(), time.Duration(in.Timeout)*time.Second)
	err := app.optController.Wait(ctx, app.cluster.Get("h2"))
	cancel()
	d.silent = true
	if err != nil {
		out.Err = err.Error()
	}
	synctest.Wait()
	out.Trans = w.Transcript()
	out.RegAfter = c19Registry(d)
	return out
}

// ---------------------------------------------------------------- part C: the pre-switchover phase, split by goroutine

type c19PhaseIn struct {
	Nodes   []c19Node `json:"nodes"`
	To      int       `json:"to"`   // 0 = none
	From    int       `json:"from"` // 0 = none
	Active  []int     `json:"active"`
	Timeout int       `json:"timeout_s"`
	SemiSync bool     `json:"semisync"`
}
type c19PhaseOut struct {
	Pre, Wait, Sync []vk.Entry
	View    map[string]*nodestate.NodeState
	Cluster []string
	Cfg     *config.Config
	T0      int64
	Target  string
	Sw      Switchover
	Active  []string
	RegAfter map[string]string
	SetAfter map[string][2]int
	SetBefore map[string][2]int
	TEnd    int64 // when optimizationPhase returned
	ReturnIdx int // transcript index at that moment
	Panic   string
}

func c19PhaseRun(in c19PhaseIn) c19PhaseOut {
	var out c19PhaseOut
	dir, _ := os.MkdirTemp("", "c19p")
	defer os.RemoveAll(dir)
	w := vk.NewWorld()
	vInstall(w)
	d := newMemDCS(w, "h1")
	d.silent = true
	u1 := hostUUID("h1")
	for i, c := range in.Nodes {
		h := fmt.Sprintf("h%d", i+1)
		n := &vk.Node{Host: h, UUID: hostUUID(h), Up: c.Kind != "down", Executed: u1 + ":1-100", Flush: c.Flush, SyncBinlog: c.SyncBinlog}
		if i > 0 {
			n.RO, n.SuperRO = true, true
			n.Chan = &vk.Chan{Source: "h1", IO: true, SQL: true}
			n.Retrieved = n.Executed
			if c.Lag < 0 {
				n.Chan.SQL = false
			} else {
				lag := c.Lag
				n.Lag = &lag
			}
		}
		w.AddNode(n)
		d.rawSet(dcs.JoinPath(pathHANodes, h), mysql.NodeConfiguration{})
		if c.Reg != "" {
			d.rawSet(dcs.JoinPath("optimization_nodes", h), c19RegValue(c.Reg))
		}
	}
	w.AutoReplicate = false
	va := newVApp(w, d, vAppOpts{Hostname: "h1", Dir: dir, Tune: func(cfg *config.Config) {
		cfg.SemiSync = in.SemiSync
		cfg.ReplicationConvergenceTimeoutSwitchover = time.Duration(in.Timeout) * time.Second
	}})
	defer va.close()
	app := va.app
	out.Cfg = va.cfg
	d.rawSet(pathMasterNode, "h1")
	view := app.getClusterStateFromDB()
	out.View = view
	out.Cluster = app.cluster.AllNodeHosts()
	sort.Strings(out.Cluster)
	for _, a := range in.Active {
		out.Active = append(out.Active, fmt.Sprintf("h%d", a))
	}
	sw := Switchover{Cause: CauseManual, MasterTransition: SwitchoverTransition, InitiatedBy: "operator", InitiatedAt: time.Now(), StartedBy: "h1", StartedAt: time.Now()}
	if in.To > 0 {
		sw.To = fmt.Sprintf("h%d", in.To)
	}
	if in.From > 0 {
		sw.From = fmt.Sprintf("h%d", in.From)
	}
	out.Sw = sw
	out.SetBefore, _ = c19Settings(w)
	w.ResetTranscript()
	out.T0 = time.Now().UnixNano() - vEpoch
	d.silent = false
	me := vk.Gid()
	func() {
		defer func() {
			if r := recover(); r != nil {
				out.Panic = fmt.Sprint(r)
			}
		}()
		_ = app.optimizationPhase(out.Active, &sw, "h1", view)
	}()
	out.TEnd = time.Now().UnixNano() - vEpoch
	marker := w.Record(vk.Entry{Kind: "Marker"})
	synctest.Wait()
	d.silent = true
	var all []vk.Entry
	for _, e := range w.Transcript() {
		if e.Kind != "Marker" {
			all = append(all, e)
		}
	}
	out.ReturnIdx = marker
	// split: prefix = up to and including the registration; then by goroutine / statement kind
	cut := -1
	for i, e := range all {
		if e.Kind == "DcsCreate" && e.Host == "" {
			cut = i
			break
		}
	}
	if cut < 0 {
		out.Pre = all
	} else {
		out.Pre = all[:cut+1]
		if all[cut].Err == "" && all[cut].Resp == "ROk" || all[cut].Resp == "(RErr EExists)" {
			out.Target = all[cut].Arg[len("optimization_nodes/"):]
		}
		for _, e := range all[cut+1:] {
			waiter := false
			if e.Host == "" {
				waiter = e.G == me
			} else {
				waiter = e.Kind == "SShowReplica"
			}
			if waiter {
				out.Wait = append(out.Wait, e)
			} else {
				out.Sync = append(out.Sync, e)
			}
		}
	}
	out.RegAfter = c19Registry(d)
	out.SetAfter, _ = c19Settings(w)
	return out
}

func c19PhaseCase(in c19PhaseIn, out c19PhaseOut) string {
	return vk.T(cfgGal(out.Cfg), c19EnvGal(out.View, out.Cluster, out.Cfg), switchRecGal(&out.Sw), hostsGal(out.Active),
		vk.Z(int64(in.Timeout)*1e9), transcriptGal(out.Pre, vEpoch, ""), transcriptGal(out.Wait, vEpoch, ""), transcriptGal(out.Sync, vEpoch, ""),
		vk.Z(out.T0), map[bool]string{true: "0%N", false: hostGal(out.Target)}[out.Target == ""])
}

// what the phase leaves behind (the freeze follows immediately)
func c19PhaseMonitor(m *vk.Meta, in c19PhaseIn, out c19PhaseOut) {
	if out.Panic != "" {
		m.Violation("an optimisation step never crashes the process", map[string]any{"phase": in}, out.Panic)
		return
	}
	if out.Target == "" {
		return
	}
	sig := map[string]any{"site": "pre-switchover speed-up phase (optimizationPhase)"}
	if _, ok := out.RegAfter[out.Target]; ok {
		m.Violations = append(m.Violations, map[string]any{"clause": "any pre-switchover speed-up phase has ended with the replica deregistered before the freeze", "input": map[string]any{"phase": in},
			"detail": out.Target + " is still registered as optimising when optimizationPhase returns", "signature": sig})
	}
	mrs := out.SetBefore["h1"]
	if out.SetAfter[out.Target] != mrs && out.SetBefore[out.Target] == mrs {
		m.Violations = append(m.Violations, map[string]any{"clause": "any pre-switchover speed-up phase has ended with settings restored before the freeze", "input": map[string]any{"phase": in},
			"detail": fmt.Sprintf("%s was given %v during the phase and not restored (master %v)", out.Target, out.SetAfter[out.Target], mrs), "signature": sig})
	}
	for _, e := range out.Sync {
		if e.Idx > out.ReturnIdx {
			// a statement of the syncer goroutine at/after the instant the phase returned: it runs concurrently with the freeze
			if e.Mut && e.Host != "" {
				m.Violations = append(m.Violations, map[string]any{"clause": "any pre-switchover speed-up phase has ended before the freeze", "input": map[string]any{"phase": in},
					"detail": fmt.Sprintf("the syncer goroutine issued %s %s on %s at/after the return of the phase", e.Kind, e.Arg, e.Host), "signature": sig})
				break
			}
		}
	}
}

// ---------------------------------------------------------------- part D: the link to switchover

// c19LinkMonitor: at every freeze and promotion the candidate is neither registered nor relaxed
func c19LinkMonitor(m *vk.Meta, in c01In, out c01Out) {
	turbo := in.SemiSync && in.Transition == "switchover"
	sig := map[string]any{"site": "switchover"}
	if turbo {
		sig = map[string]any{"site": "pre-switchover speed-up phase (optimizationPhase)"}
	}
	mrsOf := func(p c01Promotion) [2]int { n := p.Nodes["h1"]; return [2]int{n.Flush, n.SyncBinlog} }
	inActive := map[string]bool{}
	for _, a := range in.Active {
		inActive[a] = true
	}
	for _, p := range out.Promotions {
		if p.Host == "h1" {
			continue
		}
		for _, r := range p.Registry {
			if r == p.Host {
				m.Violations = append(m.Violations, map[string]any{"clause": "a node is never promoted while it is still registered as optimising", "input": map[string]any{"switchover": in},
					"detail": p.Host + " promoted while optimization_nodes/" + p.Host + " exists", "signature": sig})
			}
		}
		n := p.Nodes[p.Host]
		idx := int(hostN(p.Host)) - 1
		was := [2]int{1, 1}
		if idx >= 0 && idx < len(in.Nodes) && in.Nodes[idx].Flush != 0 {
			was = [2]int{in.Nodes[idx].Flush, in.Nodes[idx].SyncBinlog}
		}
		registered := idx >= 0 && idx < len(in.Nodes) && in.Nodes[idx].Reg != ""
		if got := [2]int{n.Flush, n.SyncBinlog}; got != mrsOf(p) && (registered || got != was) {
			m.Violations = append(m.Violations, map[string]any{"clause": "a node is never promoted while it carries mysync's relaxed settings", "input": map[string]any{"switchover": in},
				"detail": fmt.Sprintf("%s promoted with %v (old master %v)", p.Host, got, mrsOf(p)), "signature": sig})
		}
	}
	for _, p := range out.Freezes {
		if p.Host == "h1" || !inActive[p.Host] {
			continue
		}
		idx := int(hostN(p.Host)) - 1
		if idx < 0 || idx >= len(in.Nodes) || in.Nodes[idx].Reg == "" {
			continue
		}
		for _, r := range p.Registry {
			if r == p.Host && !turbo {
				m.Violations = append(m.Violations, map[string]any{"clause": "optimisation is switched off on the candidates before a switchover freezes them", "input": map[string]any{"switchover": in},
					"detail": p.Host + " frozen while still registered", "signature": sig})
			}
		}
		n := p.Nodes[p.Host]
		if got := [2]int{n.Flush, n.SyncBinlog}; got != mrsOf(p) && !turbo {
			m.Violations = append(m.Violations, map[string]any{"clause": "optimisation is switched off on the candidates before a switchover freezes them", "input": map[string]any{"switchover": in},
				"detail": fmt.Sprintf("%s frozen with %v (master %v)", p.Host, got, mrsOf(p)), "signature": sig})
		}
	}
}

func c19LinkGen(o *vk.Out) c01In {
	r := o.Rng
	in := c01Gen(o)
	in.Fault, in.DcsFault, in.LockLostAt = nil, nil, -1
	for i := 1; i < len(in.Nodes); i++ {
		switch r.Intn(3) {
		case 0:
			in.Nodes[i].Reg = []string{"new", "enabled"}[r.Intn(2)]
			if r.Intn(3) != 0 {
				in.Nodes[i].Flush, in.Nodes[i].SyncBinlog = 2, 1000
			}
		}
	}
	if r.Intn(4) == 0 && in.Transition == "switchover" {
		in.SemiSync = true // with the speed-up phase
		in.Async = false
	}
	return in
}

// ---------------------------------------------------------------- driver

func TestVerifC19(t *testing.T) {
	o := vk.Open()
	m := vk.NewMeta()
	runSeq := func(in c19In) (out c19Out) {
		synctest.Test(t, func(t *testing.T) { out = c19Run(in) })
		return
	}
	runWait := func(in c19WaitIn) (out c19WaitOut) {
		synctest.Test(t, func(t *testing.T) { out = c19WaitRun(in) })
		return
	}
	runPhase := func(in c19PhaseIn) (out c19PhaseOut) {
		synctest.Test(t, func(t *testing.T) { out = c19PhaseRun(in) })
		return
	}
	runLink := func(in c01In) (out c01Out) {
		synctest.Test(t, func(t *testing.T) { out = c01Run(in) })
		return
	}
	var rp map[string]json.RawMessage
	if vk.ReplayInput(&rp) {
		if raw, ok := rp["phase"]; ok {
			var in c19PhaseIn
			_ = json.Unmarshal(raw, &in)
			c19PhaseMonitor(m, in, runPhase(in))
		} else if raw, ok := rp["switchover"]; ok {
			var in c01In
			_ = json.Unmarshal(raw, &in)
			c19LinkMonitor(m, in, runLink(in))
		} else if raw, ok := rp["seq"]; ok {
			var in c19In
			_ = json.Unmarshal(raw, &in)
			c19Monitor(m, in, runSeq(in))
		}
		m.Evaluations = 1
		o.WriteMeta("c19", m)
		return
	}
	imports := []string{"Gtid.GtidSet", "Base.Prog", "Base.Config", "Base.Replay", "Procs.NodeOps", "Procs.ActiveNodes", "Procs.Switchover", "Procs.Optimization", "Corr.C13", "Corr.C19"}
	dist := vk.Distinct{}
	scale := 1
	if o.Thorough() {
		scale = 10
	}
	// ---- A
	{
		var cases []string
		shard := 0
		flush := func() {
			if len(cases) > 0 {
				o.CasesFile(fmt.Sprintf("c19_seq_%02d", shard), imports, "opt_case", cases, "mismatches_opt")
				cases = nil
				shard++
			}
		}
		add := func(in c19In, out c19Out) {
			// violations carry the wrapped input so that a replay knows which part to run
			m2 := vk.NewMeta()
			c19Monitor(m2, in, out)
			for _, v := range m2.Violations {
				v["input"] = map[string]any{"seq": in}
				m.Violations = append(m.Violations, v)
			}
			for _, c := range c19Cases(in, out) {
				file := fmt.Sprintf("c19_seq_%02d", shard)
				cases = append(cases, c)
				m.Cases[file] = append(m.Cases[file], map[string]any{"seq": in})
				m.Evaluations++
				if len(cases) >= 150 {
					flush()
				}
			}
		}
		for _, raw := range vk.CorpusInputs() {
			var wrap map[string]json.RawMessage
			if json.Unmarshal(raw, &wrap) == nil {
				if r2, ok := wrap["seq"]; ok {
					var in c19In
					if json.Unmarshal(r2, &in) == nil {
						add(in, runSeq(in))
					}
				}
			}
		}
		for i := 0; i < 250*scale; i++ {
			in := c19Gen(o)
			out := runSeq(in)
			add(in, out)
			dist.Add(fmt.Sprintf("%+v", in))
			m.Count(fmt.Sprintf("seq_nodes_%d", len(in.Nodes)))
			for _, st := range out.Steps {
				m.Count("step_" + st.Op.Op)
				if st.Err != "" {
					m.Count("step_error")
				}
			}
			if i == 2 {
				m.Sample(map[string]any{"input": in, "mutating_last": mutatingSummary(out.Steps[len(out.Steps)-1].Trans)})
			}
			// single faults: every call of every step fails once (one variant per call, sampled)
			for si, st := range out.Steps {
				var visited []vk.Entry
				for _, e := range st.Trans {
					if e.Kind != "SRefused" && !ignoredKinds[e.Kind] {
						visited = append(visited, e)
					}
				}
				if len(visited) == 0 {
					continue
				}
				picks := []int{o.Rng.Intn(len(visited))}
				if o.Thorough() {
					picks = nil
					for k := range visited {
						picks = append(picks, k)
					}
				}
				for _, k := range picks {
					e := visited[k]
					fin := in
					fin.Ops = append([]c19Op{}, in.Ops...)
					// find the op index of step si
					stepNo := -1
					for oi, op := range fin.Ops {
						if op.Op == "sync" || op.Op == "enable" || op.Op == "disable" {
							stepNo++
							if stepNo == si {
								nop := op
								if e.Host != "" {
									nth := 0
									for _, p := range visited[:k] {
										if p.Host == e.Host && p.Kind == e.Kind {
											nth++
										}
									}
									nop.Fault = &vk.Fault{Host: e.Host, Kind: e.Kind, Nth: nth, Action: []string{"err:1105", "drop", "applydrop"}[o.Rng.Intn(3)]}
								} else if opn := map[string]string{"DcsGet": "get", "DcsSet": "set", "DcsCreate": "create", "DcsChildren": "children", "DcsDelete": "delete"}[e.Kind]; opn != "" {
									nth := 0
									for _, p := range visited[:k] {
										if p.Host == "" && p.Kind == e.Kind && p.Arg == e.Arg {
											nth++
										}
									}
									nop.DcsFault = &memFault{Op: opn, Path: e.Arg, Nth: nth}
								}
								fin.Ops[oi] = nop
							}
						}
					}
					add(fin, runSeq(fin))
					m.Count("seq_with_fault")
				}
			}
		}
		flush()
	}
	// ---- B
	{
		var cases []string
		k := 0
		for _, reg := range []string{"", "new", "enabled"} {
			for _, lag := range []int64{-1, 0, 30, 100, 1000000} {
				for _, timeout := range []int{4, 10, 20} {
					for variant := 0; variant < 6*scale; variant++ {
						in := c19WaitIn{Reg: reg, Lag: lag, Timeout: timeout}
						r := o.Rng
						switch variant % 6 {
						case 1:
							in.ChangeAt, in.Change = 1+r.Intn(timeout), []string{"delete", "new", "enabled", "lag0", "down"}[r.Intn(5)]
						case 2:
							in.Fault = &vk.Fault{Host: "h2", Kind: "SShowReplica", Nth: r.Intn(3), Action: []string{"err:1105", "drop"}[r.Intn(2)]}
						case 3:
							for j := 0; j < 1+r.Intn(5); j++ {
								in.DcsFaults = append(in.DcsFaults, memFault{Op: "get", Path: "optimization_nodes/h2", Nth: 0})
							}
						case 4:
							in.DcsFaults = append(in.DcsFaults, memFault{Op: "delete", Path: "optimization_nodes/h2", Nth: 0})
						case 5:
							in.ChangeAt, in.Change = 1+r.Intn(timeout), "down"
						}
						out := runWait(in)
						obs := int64(0)
						if out.Err != "" {
							obs = 1
						}
						cases = append(cases, vk.T(vk.Z(int64(out.Cfg.OptimizationConfig.LowReplicationMark/time.Second)), "2%N", vk.Z(out.T0+int64(in.Timeout)*1e9),
							transcriptGal(out.Trans, vEpoch, ""), vk.Z(out.T0), vk.Z(obs)))
						m.Cases["c19_wait"] = append(m.Cases["c19_wait"], map[string]any{"wait": in})
						m.Evaluations++
						dist.Add(fmt.Sprintf("%+v", in))
						m.Count("wait_reg_" + reg)
						if out.Err != "" {
							m.Count("wait_error")
						}
						k++
					}
				}
			}
		}
		o.CasesFile("c19_wait", imports, "wait_case", cases, "mismatches_wait")
	}
	// ---- C
	{
		var cases []string
		settings := [][2]int{{1, 1}, {1, 1}, {2, 1000}}
		lags := []int64{-1, 0, 59, 61, 119, 121, 300}
		addPhase := func(in c19PhaseIn) c19PhaseOut {
			out := runPhase(in)
			m2 := vk.NewMeta()
			c19PhaseMonitor(m2, in, out)
			m.Violations = append(m.Violations, m2.Violations...)
			cases = append(cases, c19PhaseCase(in, out))
			m.Cases["c19_phase"] = append(m.Cases["c19_phase"], map[string]any{"phase": in})
			m.Evaluations++
			return out
		}
		for _, raw := range vk.CorpusInputs() {
			var wrap map[string]json.RawMessage
			if json.Unmarshal(raw, &wrap) == nil {
				if r2, ok := wrap["phase"]; ok {
					var in c19PhaseIn
					if json.Unmarshal(r2, &in) == nil {
						addPhase(in)
					}
				}
			}
		}
		for i := 0; i < 120*scale; i++ {
			r := o.Rng
			n := 2 + r.Intn(3)
			in := c19PhaseIn{Timeout: []int{4, 10, 20}[r.Intn(3)], SemiSync: r.Intn(8) != 0}
			in.Nodes = append(in.Nodes, c19Node{Kind: "master", Flush: 1, SyncBinlog: 1})
			for j := 2; j <= n; j++ {
				s := settings[r.Intn(len(settings))]
				in.Nodes = append(in.Nodes, c19Node{Kind: []string{"replica", "replica", "replica", "down"}[r.Intn(4)], Lag: lags[r.Intn(len(lags))], Flush: s[0], SyncBinlog: s[1], Reg: []string{"", "", "new", "enabled"}[r.Intn(4)]})
				if r.Intn(4) != 0 {
					in.Active = append(in.Active, j)
				}
			}
			in.Active = append([]int{1}, in.Active...)
			if r.Intn(2) == 0 {
				in.To = 2 + r.Intn(n-1)
				in.Nodes[in.To-1].Kind = "replica" // refused connections cannot be attributed to a goroutine: the target is reachable
			} else {
				in.From = 1
			}
			out := addPhase(in)
			dist.Add(fmt.Sprintf("%+v", in))
			m.Count("phase_runs")
			if out.Target != "" {
				m.Count("phase_with_target")
			}
			if len(out.Sync) > 0 {
				m.Count("phase_syncer_ran")
			}
		}
		o.CasesFile("c19_phase", imports, "phase_case", cases, "mismatches_phase")
	}
	// ---- D
	{
		imports01 := []string{"Gtid.GtidSet", "Base.Prog", "Base.Config", "Base.Replay", "Procs.NodeOps", "Procs.ActiveNodes", "Procs.Switchover", "Corr.C13", "Corr.C01"}
		var cases []string
		shard := 0
		for _, raw := range vk.CorpusInputs() {
			var wrap map[string]json.RawMessage
			if json.Unmarshal(raw, &wrap) == nil {
				if r2, ok := wrap["switchover"]; ok {
					var in c01In
					if json.Unmarshal(r2, &in) == nil {
						c19LinkMonitor(m, in, runLink(in))
					}
				}
			}
		}
		for i := 0; i < 150*scale; i++ {
			in := c19LinkGen(o)
			out := runLink(in)
			c19LinkMonitor(m, in, out)
			dist.Add(fmt.Sprintf("%+v", in))
			m.Count("link_runs")
			turbo := in.SemiSync && in.Transition == "switchover"
			// the shut-off itself fails for a registered candidate (restoring a setting fails, or the registry entry cannot be
			// removed): nothing may be frozen or promoted in that attempt
			if !turbo {
				for k := 1; k < len(in.Nodes); k++ {
					if in.Nodes[k].Reg == "" || in.Nodes[k].Down {
						continue
					}
					h := fmt.Sprintf("h%d", k+1)
					fin := in
					switch o.Rng.Intn(3) {
					case 0:
						fin.Fault = &vk.Fault{Host: h, Kind: "SSetFlush", Nth: 0, Action: "err:1105"}
					case 1:
						fin.Fault = &vk.Fault{Host: h, Kind: "SSetSyncBinlog", Nth: 0, Action: "err:1105"}
					default:
						fin.DcsFault = &memFault{Op: "delete", Path: "optimization_nodes/" + h, Nth: 0}
					}
					fout := runLink(fin)
					c19LinkMonitor(m, fin, fout)
					m.Count("link_runs_with_failing_shutoff")
					m.Evaluations++
					break
				}
			}
			if turbo {
				m.Count("link_with_speedup_phase")
				continue // the phase is replayed by goroutine in part C; the procedure around it without the phase below
			}
			file := fmt.Sprintf("c19_link_%02d", shard)
			cases = append(cases, c01Case(in, out))
			m.Cases[file] = append(m.Cases[file], map[string]any{"switchover": in})
			m.Evaluations++
			if len(cases) >= 60 {
				o.CasesFile(file, imports01, "sw_case", cases, "mismatches_sw")
				cases = nil
				shard++
			}
		}
		if len(cases) > 0 {
			o.CasesFile(fmt.Sprintf("c19_link_%02d", shard), imports01, "sw_case", cases, "mismatches_sw")
		}
	}
	m.DistinctNontrivial = dist.Len()
	m.Rule = "A: sequences of the real Syncer.Sync / Controller.Enable / Controller.Disable over 1-5 cluster hosts + 0-2 foreign registry entries: status none/new/enabled, roles master/replica/no-channel/down, lags around both marks or unknown, settings equal/unequal to the master's, external status flips, hosts leaving the registry, every call failing once; B: Controller.Wait over registry status x lag x timeout x external changes/faults; C: the real optimizationPhase, transcript split by goroutine; D: the real performSwitchover with registered / relaxed candidates (with and without the speed-up phase); distinct = distinct inputs"
	o.WriteMeta("c19", m)
}
