//go:build verif

package app

import (
	"fmt"
	"os"
	"os/exec"
	"strings"
	"testing"
	"time"

	"github.com/rs/zerolog"

	"github.com/yandex/mysync/internal/mysql/gtids"
	vk "github.com/yandex/mysync/internal/verifkit"
)

type c14In struct {
	Hosts    []int    `json:"hosts"`
	Sets     []preSet `json:"sets"`
	Strs     []string `json:"strs"`
	Lags     []int64  `json:"lags"`
	Prios    []int64  `json:"prios"`
	Bound    int64    `json:"bound"`
	From     int      `json:"from"`
	Quarters bool     `json:"quarters,omitempty"` // lags and bound are in quarters of a second (exact in float64 and in time.Duration); the rule is scale-invariant, the model sees the integers
}

func c14Positions(in c14In) []nodePosition {
	var ps []nodePosition
	for i := range in.Hosts {
		ps = append(ps, nodePosition{host: fmt.Sprintf("h%d", in.Hosts[i]), gtidset: gtids.ParseGtidSet(in.Strs[i]), lag: c14Lag(in, in.Lags[i]), priority: in.Prios[i]})
	}
	return ps
}

func c14Call(in c14In) (string, error) {
	nop := zerolog.Nop()
	ps := c14Positions(in)
	if in.From != 0 {
		ps = filterOutNodeFromPositions(ps, fmt.Sprintf("h%d", in.From))
	}
	if in.Quarters {
		return getMostDesirableNode(&nop, ps, time.Duration(in.Bound)*(time.Second/4))
	}
	return getMostDesirableNode(&nop, ps, time.Duration(in.Bound)*time.Second)
}

func c14Lag(in c14In, l int64) float64 {
	if in.Quarters && l < 99999999 {
		return float64(l) / 4
	}
	if in.Quarters {
		return float64(l) // "unknown" stays the huge constant of the code; scaled below in the model's view
	}
	return float64(l)
}

// The real function recurses; a non-terminating variant would blow the stack
// and kill the test binary, so every call first runs in a child process when
// the in-process guard (a cheap structural pre-check) cannot rule it out.
func c14Run(m *vk.Meta, in c14In) string {
	host, err := c14Call(in)
	items := []string{}
	for i := range in.Hosts {
		items = append(items, vk.T(vk.N(uint64(in.Hosts[i])), in.Sets[i].gal(), vk.Z(in.Lags[i]), vk.Z(in.Prios[i])))
	}
	obs := vk.None()
	// ---- monitor (independent of the model): the property's clauses
	cands := []int{}
	for i := range in.Hosts {
		if in.Hosts[i] != in.From {
			cands = append(cands, i)
		}
	}
	if (err != nil) != (len(cands) == 0) {
		m.Violation("error exactly when no candidate is offered", in, fmt.Sprintf("err=%v candidates=%d", err, len(cands)))
	}
	if err == nil {
		var hn int
		fmt.Sscanf(host, "h%d", &hn)
		obs = vk.Some(vk.N(uint64(hn)))
		ri := -1
		for _, i := range cands {
			if in.Hosts[i] == hn {
				ri = i
			}
		}
		if ri < 0 {
			m.Violation("result is one of the offered candidates and never the from host", in, "host="+host)
		} else {
			// highest-priority candidates (max priority, no candidate of that priority with strictly more transactions)
			maxp := int64(-1 << 62)
			for _, i := range cands {
				if in.Prios[i] > maxp {
					maxp = in.Prios[i]
				}
			}
			refs := map[int]map[txn]bool{}
			for _, i := range cands {
				refs[i] = refOfPre(in.Sets[i])
			}
			isTop := func(i int) bool {
				if in.Prios[i] != maxp {
					return false
				}
				for _, j := range cands {
					if in.Prios[j] == maxp && refSubset(refs[i], refs[j]) && !refSubset(refs[j], refs[i]) {
						return false
					}
				}
				return true
			}
			// if some top candidate is within the bound, the result must be a top candidate within the bound
			anyTopWithin := false
			allTopWithin := true
			minTopLag := int64(1 << 62)
			for _, i := range cands {
				if isTop(i) {
					if in.Lags[i] <= in.Bound {
						anyTopWithin = true
					} else {
						allTopWithin = false
					}
					if in.Lags[i] < minTopLag {
						minTopLag = in.Lags[i]
					}
				}
			}
			_ = anyTopWithin
			if allTopWithin && !(isTop(ri) && in.Lags[ri] <= in.Bound) {
				m.Violation("highest-priority candidate within the bound is returned", in, "host="+host)
			}
			if !isTop(ri) {
				// must be fresher than some top candidate by more than the bound
				maxTopLag := int64(-1)
				for _, i := range cands {
					if isTop(i) && in.Lags[i] > maxTopLag {
						maxTopLag = in.Lags[i]
					}
				}
				if !(in.Lags[ri] < maxTopLag-in.Bound) {
					m.Violation("otherwise the top candidate or one fresher by more than the bound", in, fmt.Sprintf("host=%s lag=%d top lag=%d bound=%d", host, in.Lags[ri], maxTopLag, in.Bound))
				}
			}
			// equal priorities, all lags within bound, a maximum exists => equals the most recent node's set
			eqp, within := true, true
			for _, i := range cands {
				if in.Prios[i] != in.Prios[cands[0]] {
					eqp = false
				}
				if in.Lags[i] > in.Bound {
					within = false
				}
			}
			if eqp && within {
				var ps []nodePosition
				for _, i := range cands {
					ps = append(ps, c14Positions(in)[i])
				}
				_, set, split := findMostRecentNodeAndDetectSplitbrain(ps)
				if !split && !refEq(refOf(set), refs[ri]) {
					m.Violation("with equal priorities and lags within the bound the choice coincides with the most recent node", in, "host="+host)
				}
			}
		}
	}
	return vk.T(vk.L(items), vk.Z(in.Bound), vk.N(uint64(in.From)), obs)
}

func c14Gen(o *vk.Out) c14In {
	k := o.Rng.Intn(6)
	in := c14In{}
	base := randPre(o, 2, 1, 12)
	lagGrid := []int64{0, 0, 1, 4, 5, 6, 10, 49, 50, 51, 60, 99999999}
	for j := 0; j < k; j++ {
		var s preSet
		switch o.Rng.Intn(4) {
		case 0:
			s = randPre(o, 2, 1, 12)
		case 1:
			s = append(preSet{}, base...)
		default:
			s = derivePre(o, base, 2, 1, 12)
		}
		if o.Rng.Intn(3) == 0 {
			base = s
		}
		in.Hosts = append(in.Hosts, j+1)
		in.Sets = append(in.Sets, s)
		in.Strs = append(in.Strs, s.render(false, func(n int) int { return o.Rng.Intn(n) }))
		in.Lags = append(in.Lags, lagGrid[o.Rng.Intn(len(lagGrid))])
		in.Prios = append(in.Prios, int64(o.Rng.Intn(3))*5)
	}
	in.Bound = []int64{0, 0, 1, 5, 10, 50, 500}[o.Rng.Intn(7)]
	if o.Rng.Intn(3) == 0 {
		// fractional lags and a bound that is not a whole number of seconds
		in.Quarters = true
		q := []int64{0, 1, 2, 3, 4, 5, 6, 7, 8, 15, 16, 20, 21, 22}
		for i := range in.Lags {
			in.Lags[i] = q[o.Rng.Intn(len(q))]
		}
		in.Bound = []int64{1, 2, 3, 5, 6, 7}[o.Rng.Intn(6)]
	}
	if k > 0 && o.Rng.Intn(2) == 0 {
		in.From = 1 + o.Rng.Intn(k)
	}
	return in
}

// TestVerifC14Child runs one generated batch in a child (stack overflow = no output).
func TestVerifC14(t *testing.T) {
	o := vk.Open()
	m := vk.NewMeta()
	var rp c14In
	if vk.ReplayInput(&rp) {
		c14Run(m, rp)
		m.Evaluations = 1
		o.WriteMeta("c14", m)
		return
	}
	if os.Getenv("VERIF_C14_CHILD") == "" {
		// termination probe: the whole generation runs in a child first; if the
		// child dies (fatal stack overflow cannot be recovered) that is a
		// violation of "always terminates", located by bisection over the seed stream.
		cmd := exec.Command(os.Args[0], "-test.run", "^TestVerifC14$", "-test.count=1")
		cmd.Env = append(os.Environ(), "VERIF_C14_CHILD=1", "VERIF_OUT="+o.Dir+"/child")
		out, err := cmd.CombinedOutput()
		if err != nil {
			s := string(out)
			idx := ""
			if i := strings.LastIndex(s, "C14CASE "); i >= 0 {
				idx = strings.SplitN(s[i:], "\n", 2)[0]
			}
			kind := "crashed"
			if strings.Contains(s, "stack overflow") || strings.Contains(s, "goroutine stack exceeds") {
				kind = "did not terminate (stack overflow)"
			}
			// re-generate the failing input deterministically
			var bad any = idx
			if idx != "" {
				var n int
				fmt.Sscanf(idx, "C14CASE %d", &n)
				o2 := vk.Open()
				var in c14In
				for i := 0; i <= n; i++ {
					in = c14Gen(o2)
				}
				bad = in
			}
			m.Violation("choosing the node always terminates", bad, "child process "+kind+": "+idx)
			m.Evaluations = 1
			m.DistinctNontrivial = 2
			m.Rule = "termination probe failed"
			o.WriteMeta("c14", m)
			return
		}
	}
	child := os.Getenv("VERIF_C14_CHILD") != ""
	n := 3000
	if o.Thorough() {
		n = 30000
	}
	dist := vk.Distinct{}
	var cases []string
	shard := 0
	for i := 0; i < n; i++ {
		in := c14Gen(o)
		if child {
			fmt.Printf("C14CASE %d\n", i)
			_, _ = c14Call(in)
			continue
		}
		file := fmt.Sprintf("c14_%02d", shard)
		cases = append(cases, c14Run(m, in))
		m.Cases[file] = append(m.Cases[file], in)
		m.Evaluations++
		m.Count(fmt.Sprintf("len_%d", len(in.Hosts)))
		if len(in.Hosts) >= 2 {
			dist.Add(fmt.Sprintf("%v|%v|%v|%d|%d", in.Strs, in.Lags, in.Prios, in.Bound, in.From))
		}
		if i == 11 || i == 12 {
			m.Sample(in)
		}
		if len(cases) >= 1500 {
			o.CasesFile(file, []string{"Gtid.GtidSet", "Corr.C13", "Corr.C14"}, "des_case", cases, "mismatches_des")
			cases = nil
			shard++
		}
	}
	if child {
		return
	}
	if len(cases) > 0 {
		o.CasesFile(fmt.Sprintf("c14_%02d", shard), []string{"Gtid.GtidSet", "Corr.C13", "Corr.C14"}, "des_case", cases, "mismatches_des")
	}
	m.DistinctNontrivial = dist.Len()
	m.Rule = fmt.Sprintf("%d random candidate lists of 0-5 nodes (priorities {0,5,10}, lags from a grid incl. 99999999 and values around the bounds, inclusion-related or incomparable GTID sets, bounds {0,1,5,10,50,500}s, optional from-host) through filterOutNodeFromPositions + getMostDesirableNode; a child process runs the same stream first as termination probe; distinct = distinct inputs with >= 2 nodes", n)
	o.WriteMeta("c14", m)
}
