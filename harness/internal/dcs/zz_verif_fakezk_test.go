//go:build verif

package dcs

// Self-test of verifkit.ZKServer (the in-process fake ZooKeeper): the REAL
// go-zookeeper client, driven through the REAL zkDCS wrapper, talks to it over
// loopback TCP.  Every test owns its server, so all but the leak test run in
// parallel.

import (
	"context"
	"encoding/binary"
	"io"
	"net"
	"os"
	"runtime"
	"strings"
	"sync/atomic"
	"testing"
	"time"

	"github.com/go-zookeeper/zk"
	"github.com/rs/zerolog"
	"github.com/stretchr/testify/require"

	vk "github.com/yandex/mysync/internal/verifkit"
)

const fzkTimeout = 2 * time.Second

func fzkConfig(srv *vk.ZKServer, hostname string) *ZookeeperConfig {
	cfg, err := DefaultZookeeperConfig()
	if err != nil {
		panic(err)
	}
	cfg.Hostname = hostname // LockOwner = {Hostname, pid}; all clients share our pid
	cfg.Hosts = []string{srv.Addr()}
	cfg.Namespace = "/test"
	cfg.SessionTimeout = fzkTimeout
	cfg.BackoffInterval = 50 * time.Millisecond
	cfg.BackoffMaxInterval = 300 * time.Millisecond
	cfg.BackoffMaxRetries = 10
	// RandomHostProvider.Next sleeps rand*RetryJitter (default 30 s!) on retry rounds
	cfg.RandomHostProvider.RetryJitter = 20 * time.Millisecond
	return &cfg
}

func fzkDial(t *testing.T, ctx context.Context, srv *vk.ZKServer, hostname string) *zkDCS {
	t.Helper()
	nop := zerolog.Nop()
	d, err := NewZookeeper(ctx, fzkConfig(srv, hostname), &nop)
	require.NoError(t, err)
	return d.(*zkDCS)
}

func fzkClient(t *testing.T, ctx context.Context, srv *vk.ZKServer, hostname string) *zkDCS {
	t.Helper()
	z := fzkDial(t, ctx, srv, hostname)
	require.True(t, z.WaitConnected(5*time.Second), "WaitConnected")
	require.True(t, z.IsConnected())
	return z
}

func fzkEventually(t *testing.T, d time.Duration, what string, f func() bool) {
	t.Helper()
	deadline := time.Now().Add(d)
	for !f() {
		if time.Now().After(deadline) {
			t.Fatalf("timed out after %s waiting for: %s", d, what)
		}
		time.Sleep(10 * time.Millisecond)
	}
}

func fzkSession(srv *vk.ZKServer, id int64) vk.ZKSessionInfo {
	for _, s := range srv.Sessions() {
		if s.ID == id {
			return s
		}
	}
	return vk.ZKSessionInfo{}
}

func fzkLog(srv *vk.ZKServer, op, path string) []vk.ZKLogEntry {
	var out []vk.ZKLogEntry
	for _, e := range srv.Log() {
		if e.Op == op && (path == "" || e.Path == path) {
			out = append(out, e)
		}
	}
	return out
}

func fzkSessionOps(srv *vk.ZKServer, id int64) []string {
	var out []string
	for _, e := range srv.Log() {
		if e.Session == id && strings.HasPrefix(e.Op, "session.") {
			out = append(out, e.Op)
		}
	}
	return out
}

// waits until the client has a NEW live session (after an expiry)
func fzkWaitNewSession(t *testing.T, z *zkDCS, old int64) int64 {
	t.Helper()
	fzkEventually(t, 6*time.Second, "client re-establishes a session", func() bool {
		id := z.conn.SessionID()
		return id != 0 && id != old && z.conn.State() == zk.StateHasSession
	})
	return z.conn.SessionID()
}

// ---------------------------------------------------------------------------

// Runs first (it is the only non-parallel test), so the process contains only
// its own goroutines and sockets.
func TestVerifFakeZKNoLeaks(t *testing.T) {
	countSockets := func() int {
		ents, err := os.ReadDir("/proc/self/fd")
		if err != nil {
			return -1
		}
		n := 0
		for _, e := range ents {
			if l, err := os.Readlink("/proc/self/fd/" + e.Name()); err == nil && strings.HasPrefix(l, "socket:") {
				n++
			}
		}
		return n
	}
	leaked := func() string {
		buf := make([]byte, 1<<20)
		buf = buf[:runtime.Stack(buf, true)]
		var bad []string
		for _, g := range strings.Split(string(buf), "\n\n") {
			if strings.Contains(g, "verifkit.(*ZKServer)") || strings.Contains(g, "go-zookeeper/zk.") ||
				strings.Contains(g, "dcs.(*zkDCS)") || strings.Contains(g, "dcs.(*RandomHostProvider)") {
				bad = append(bad, g)
			}
		}
		return strings.Join(bad, "\n\n")
	}
	// settle polls until no client/server goroutine is left and at most
	// maxSockets sockets are open.  It has to be patient: zkDCS arms a
	// SessionTimeout timer on disconnect whose callback runs ~2 s after Close.
	settle := func(maxSockets int) (string, int) {
		deadline := time.Now().Add(2*fzkTimeout + 2*time.Second)
		for {
			runtime.GC() // after StateExpired the client leaves one socket to its finalizer
			l, socks := leaked(), countSockets()
			if (l == "" && socks <= maxSockets) || time.Now().After(deadline) {
				return l, socks
			}
			time.Sleep(50 * time.Millisecond)
		}
	}
	// (with -count>1 the previous iteration's tests may still be winding down)
	l, baseSockets := settle(1 << 30)
	require.Empty(t, l, "dirty baseline")

	ctx, cancel := context.WithCancel(context.Background())
	srv := vk.NewZKServer()
	c1 := fzkClient(t, ctx, srv, "h1")
	c2 := fzkClient(t, ctx, srv, "h2")
	c1.Initialize()
	require.NoError(t, c1.CreateEphemeral("e1", 1))
	require.NoError(t, c2.CreateEphemeral("e2", 2))
	// a dropped connection, an apply-then-drop, an expiry
	srv.DropConnection(c1.conn.SessionID())
	var once atomic.Bool
	srv.SetHook(func(ev vk.ZKRequestEvent) vk.ZKAction {
		if ev.Op == vk.ZKOpSetData && once.CompareAndSwap(false, true) {
			return vk.ZKApplyThenDrop
		}
		return vk.ZKProceed
	})
	_ = c1.Set("e1", 3) // BadVersion on the retry is fine here
	old := c2.conn.SessionID()
	srv.ExpireSession(old)
	fzkWaitNewSession(t, c2, old)
	require.NoError(t, c2.Set("after", 1))
	require.Greater(t, srv.ConnCount(), 0)

	c1.Close()
	c2.Close()
	cancel()
	srv.Close()
	srv.Close() // idempotent
	require.Equal(t, 0, srv.ConnCount())
	for _, s := range srv.Sessions() {
		require.False(t, s.Connected)
	}

	l, socks := settle(baseSockets)
	require.Empty(t, l, "leaked goroutines")
	require.LessOrEqual(t, socks, baseSockets, "leaked sockets")
}

func TestVerifFakeZKBasicOps(t *testing.T) {
	t.Parallel()
	ctx, cancel := context.WithCancel(context.Background())
	defer cancel()
	srv := vk.NewZKServer()
	defer srv.Close()
	z := fzkClient(t, ctx, srv, "h1")
	sid := z.conn.SessionID()

	ss := srv.Sessions()
	require.Len(t, ss, 1)
	require.Equal(t, vk.ZKSessionInfo{ID: sid, Timeout: fzkTimeout, Live: true, Connected: true, Order: 1, Ephemerals: []string{}}, ss[0])

	z.Initialize()
	require.Contains(t, srv.Dump(), "/test")

	// Create / ErrExists
	require.NoError(t, z.Create("a", 1))
	require.ErrorIs(t, z.Create("a", 2), ErrExists)
	cr := fzkLog(srv, vk.ZKOpCreate, "/test/a")
	require.Len(t, cr, 2)
	require.Equal(t, vk.ZKErrOk, cr[0].Err)
	require.Equal(t, []byte("1"), cr[0].Data)
	require.Equal(t, sid, cr[0].Session)
	require.Equal(t, vk.ZKErrNodeExists, cr[1].Err)
	require.Equal(t, cr[0].Zxid, cr[1].Zxid, "a failed write does not move the zxid")

	// Set creates parents; second Set bumps the version
	require.NoError(t, z.Set("x/y/z", map[string]int{"k": 1}))
	d := srv.Dump()
	for _, p := range []string{"/", "/test", "/test/x", "/test/x/y", "/test/x/y/z"} {
		require.Contains(t, d, p)
	}
	require.Equal(t, `{"k":1}`, string(d["/test/x/y/z"].Data))
	require.Equal(t, int32(0), d["/test/x/y/z"].Version)
	require.NoError(t, z.Set("x/y/z", map[string]int{"k": 2}))
	require.Equal(t, int32(1), srv.Dump()["/test/x/y/z"].Version)
	var got map[string]int
	require.NoError(t, z.Get("x/y/z", &got))
	require.Equal(t, map[string]int{"k": 2}, got)

	// missing
	require.ErrorIs(t, z.Get("missing", &got), ErrNotFound)
	_, err := z.GetChildren("missing")
	require.ErrorIs(t, err, ErrNotFound)

	// children / tree
	require.NoError(t, z.Set("x/b", "B"))
	ch, err := z.GetChildren("x")
	require.NoError(t, err)
	require.Equal(t, []string{"b", "y"}, ch)
	tree, err := z.GetTree("x")
	require.NoError(t, err)
	require.Equal(t, map[string]any{"b": "B", "y": map[string]any{"z": map[string]any{"k": float64(2)}}}, tree)

	// Delete
	require.NoError(t, z.Delete("a"))
	require.ErrorIs(t, z.Get("a", &got), ErrNotFound)
	require.NoError(t, z.Delete("a")) // zkDCS: deleting a missing node is fine
	require.NotContains(t, srv.Dump(), "/test/a")

	// --- the raw client, for the corners zkDCS never reaches
	acl := zk.WorldACL(zk.PermAll)
	ok, st, err := z.conn.Exists("/test/x")
	require.NoError(t, err)
	require.True(t, ok)
	require.Equal(t, int32(2), st.NumChildren)
	require.Equal(t, int32(2), st.Cversion)
	require.Equal(t, int64(0), st.EphemeralOwner)
	require.Greater(t, st.Pzxid, st.Czxid)
	require.InDelta(t, time.Now().UnixMilli(), st.Ctime, 10_000)
	ok, _, err = z.conn.Exists("/test/nope")
	require.NoError(t, err)
	require.False(t, ok)

	_, err = z.conn.Set("/test/x/b", []byte("q"), 7)
	require.ErrorIs(t, err, zk.ErrBadVersion)
	st, err = z.conn.Set("/test/x/b", []byte("qq"), -1)
	require.NoError(t, err)
	require.Equal(t, int32(1), st.Version)
	require.Equal(t, int32(2), st.DataLength)
	require.Equal(t, st.Mzxid, srv.Dump()["/test/x/b"].Mzxid)
	_, err = z.conn.Set("/test/nope", nil, -1)
	require.ErrorIs(t, err, zk.ErrNoNode)

	require.ErrorIs(t, z.conn.Delete("/test/x", -1), zk.ErrNotEmpty)
	require.ErrorIs(t, z.conn.Delete("/test/x/b", 0), zk.ErrBadVersion)
	require.ErrorIs(t, z.conn.Delete("/test/nope", -1), zk.ErrNoNode)
	require.NoError(t, z.conn.Delete("/test/x/b", 1))

	_, err = z.conn.Create("/test/no/parent", nil, 0, acl)
	require.ErrorIs(t, err, zk.ErrNoNode)
	_, err = z.conn.Create("/test/empty-acl", nil, 0, []zk.ACL{})
	require.ErrorIs(t, err, zk.ErrInvalidACL)
	_, err = z.conn.Create("/test/container", nil, zk.FlagContainer, acl)
	require.Error(t, err) // Unimplemented (-6)

	p, err := z.conn.Create("/test/eph", []byte("e"), zk.FlagEphemeral, acl)
	require.NoError(t, err)
	require.Equal(t, "/test/eph", p)
	data, st, err := z.conn.Get("/test/eph")
	require.NoError(t, err)
	require.Equal(t, "e", string(data))
	require.Equal(t, sid, st.EphemeralOwner)
	_, err = z.conn.Create("/test/eph/child", nil, 0, acl)
	require.ErrorIs(t, err, zk.ErrNoChildrenForEphemerals)

	require.NoError(t, z.Set("seq", "parent"))
	p0, err := z.conn.Create("/test/seq/n-", nil, zk.FlagSequence, acl)
	require.NoError(t, err)
	p1, err := z.conn.Create("/test/seq/n-", nil, zk.FlagEphemeralSequential, acl)
	require.NoError(t, err)
	require.Equal(t, []string{"/test/seq/n-0000000000", "/test/seq/n-0000000001"}, []string{p0, p1})
	sq := fzkLog(srv, vk.ZKOpCreate, "/test/seq/n-")
	require.Len(t, sq, 2)
	require.Equal(t, p1, sq[1].Result)

	sp, err := z.conn.Sync("/test")
	require.NoError(t, err)
	require.Equal(t, "/test", sp)
	require.NoError(t, z.conn.AddAuth("digest", []byte("u:p")))

	// the log is totally ordered, zxids never go back
	lg := srv.Log()
	for i, e := range lg {
		require.Equal(t, i+1, e.Seq)
		if i > 0 {
			require.GreaterOrEqual(t, e.Zxid, lg[i-1].Zxid)
			require.GreaterOrEqual(t, e.TimeNs, lg[i-1].TimeNs)
		}
	}

	// close: ephemerals go away, session is dead
	z.Close()
	fzkEventually(t, 2*time.Second, "session closed", func() bool { return !fzkSession(srv, sid).Live })
	require.NotContains(t, srv.Dump(), "/test/eph")
	require.NotContains(t, srv.Dump(), p1)
	require.Contains(t, srv.Dump(), p0)
	cl := fzkLog(srv, vk.ZKOpSessionClose, "")
	require.Len(t, cl, 1)
	require.Equal(t, []string{"/test/eph", p1}, cl[0].Removed)
}

func TestVerifFakeZKEphemeralExpiry(t *testing.T) {
	t.Parallel()
	ctx, cancel := context.WithCancel(context.Background())
	defer cancel()
	srv := vk.NewZKServer()
	defer srv.Close()
	z := fzkClient(t, ctx, srv, "h1")
	defer z.Close()
	sid := z.conn.SessionID()

	require.NoError(t, z.SetEphemeral("eph", "v"))     // creates /test as well
	require.NoError(t, z.SetEphemeral("eph", "v2"))    // existing ephemeral: plain set
	require.NoError(t, z.CreateEphemeral("eph2", "w")) //
	require.NoError(t, z.Set("persistent", "p"))
	require.Error(t, z.SetEphemeral("persistent", "x")) // "exists, but not ephemeral"
	require.Equal(t, sid, srv.Dump()["/test/eph"].EphemeralOwner)
	require.Equal(t, int32(1), srv.Dump()["/test/eph"].Version)
	require.Equal(t, []string{"/test/eph", "/test/eph2"}, fzkSession(srv, sid).Ephemerals)

	zxBefore := srv.Dump()["/test"].Pzxid
	srv.ExpireSession(sid)
	// synchronous on the server side
	d := srv.Dump()
	require.NotContains(t, d, "/test/eph")
	require.NotContains(t, d, "/test/eph2")
	require.Contains(t, d, "/test/persistent")
	require.Greater(t, d["/test"].Pzxid, zxBefore)
	s := fzkSession(srv, sid)
	require.False(t, s.Live)
	require.False(t, s.Connected)
	ex := fzkLog(srv, vk.ZKOpSessionExpire, "")
	require.Len(t, ex, 1)
	require.Equal(t, sid, ex[0].Session)
	require.Equal(t, []string{"/test/eph", "/test/eph2"}, ex[0].Removed)
	srv.ExpireSession(sid) // no-op
	require.Len(t, fzkLog(srv, vk.ZKOpSessionExpire, ""), 1)

	// the client is told "expired" on reconnect and opens a new session
	nsid := fzkWaitNewSession(t, z, sid)
	require.Equal(t, []string{vk.ZKOpSessionConnect, vk.ZKOpSessionExpire, vk.ZKOpSessionReject}, fzkSessionOps(srv, sid))
	var v string
	require.ErrorIs(t, z.Get("eph", &v), ErrNotFound)
	require.NoError(t, z.SetEphemeral("eph", "again"))
	require.Equal(t, nsid, srv.Dump()["/test/eph"].EphemeralOwner)
}

func TestVerifFakeZKLocks(t *testing.T) {
	t.Parallel()
	ctx, cancel := context.WithCancel(context.Background())
	defer cancel()
	srv := vk.NewZKServer()
	defer srv.Close()
	c1 := fzkClient(t, ctx, srv, "h1")
	defer c1.Close()
	c2 := fzkClient(t, ctx, srv, "h2")
	defer c2.Close()
	c1.Initialize()

	require.True(t, c1.AcquireLock("master"))
	require.False(t, c2.AcquireLock("master"))
	require.True(t, c1.AcquireLock("master"))
	require.Equal(t, c1.conn.SessionID(), srv.Dump()["/test/master"].EphemeralOwner)

	c2.ReleaseLock("master") // not the owner: must not delete
	require.Contains(t, srv.Dump(), "/test/master")
	c1.ReleaseLock("master")
	require.NotContains(t, srv.Dump(), "/test/master")
	require.True(t, c2.AcquireLock("master"))
	require.False(t, c1.AcquireLock("master"))
	c2.ReleaseLock("master")

	// take-over after the holder's session expired
	require.True(t, c1.AcquireLock("master"))
	require.False(t, c2.AcquireLock("master"))
	old := c1.conn.SessionID()
	srv.ExpireSession(old)
	require.True(t, c2.AcquireLock("master"))
	var owner LockOwner
	require.NoError(t, c2.Get("master", &owner))
	require.Equal(t, "h2", owner.Hostname)
	require.Equal(t, c2.conn.SessionID(), srv.Dump()["/test/master"].EphemeralOwner)
	fzkWaitNewSession(t, c1, old)
	// c1 drops its cached "lock held" when its event loop sees the disconnect
	fzkEventually(t, 3*time.Second, "c1 notices it lost the lock", func() bool { return !c1.AcquireLock("master") })
}

func TestVerifFakeZKDropConnectionResumes(t *testing.T) {
	t.Parallel()
	ctx, cancel := context.WithCancel(context.Background())
	defer cancel()
	srv := vk.NewZKServer()
	defer srv.Close()
	z := fzkClient(t, ctx, srv, "h1")
	defer z.Close()
	z.Initialize()
	sid := z.conn.SessionID()
	require.NoError(t, z.CreateEphemeral("e", "v"))

	srv.DropConnection(sid)
	s := fzkSession(srv, sid)
	require.True(t, s.Live)
	require.False(t, s.Connected)
	// an operation issued right away rides through zkDCS's retry loop
	var v string
	require.NoError(t, z.Get("e", &v))
	require.Equal(t, "v", v)
	fzkEventually(t, 3*time.Second, "same session reconnected", func() bool { return fzkSession(srv, sid).Connected })
	require.Equal(t, sid, z.conn.SessionID())
	require.True(t, z.IsConnected())
	require.Len(t, srv.Sessions(), 1)
	require.Equal(t, []string{vk.ZKOpSessionConnect, vk.ZKOpSessionDisconnect, vk.ZKOpSessionResume}, fzkSessionOps(srv, sid))
	require.Equal(t, sid, srv.Dump()["/test/e"].EphemeralOwner)
	require.NoError(t, z.SetEphemeral("e", "v2"))
}

func TestVerifFakeZKHooks(t *testing.T) {
	t.Parallel()
	ctx, cancel := context.WithCancel(context.Background())
	defer cancel()
	srv := vk.NewZKServer()
	defer srv.Close()
	z := fzkClient(t, ctx, srv, "h1")
	defer z.Close()
	z.Initialize()
	sid := z.conn.SessionID()

	var fired, seen atomic.Int32
	srv.SetHook(func(ev vk.ZKRequestEvent) vk.ZKAction {
		seen.Add(1)
		if ev.Session != sid || ev.Seq <= 0 {
			t.Errorf("bad event %+v", ev)
		}
		switch {
		case ev.Op == vk.ZKOpCreate && ev.Path == "/test/once" && fired.CompareAndSwap(0, 1):
			_ = srv.Dump() // the hook may call back into the server
			return vk.ZKApplyThenDrop
		case ev.Op == vk.ZKOpCreate && ev.Path == "/test/twice" && fired.CompareAndSwap(1, 2):
			return vk.ZKDropBeforeApply
		case ev.Op == vk.ZKOpGetData && ev.Path == "/test/slow":
			return vk.ZKDelay(300 * time.Millisecond)
		}
		return vk.ZKAction{} // zero value == ZKProceed
	})

	// applied, reply lost: the wrapper's blind retry sees its own node
	require.ErrorIs(t, z.Create("once", 1), ErrExists)
	require.Contains(t, srv.Dump(), "/test/once")
	cr := fzkLog(srv, vk.ZKOpCreate, "/test/once")
	require.Len(t, cr, 2)
	require.Equal(t, []int32{vk.ZKErrOk, vk.ZKErrNodeExists}, []int32{cr[0].Err, cr[1].Err})
	require.Less(t, cr[0].Req, cr[1].Req)

	// not applied, connection lost: the retry succeeds
	require.NoError(t, z.Create("twice", 2))
	cr = fzkLog(srv, vk.ZKOpCreate, "/test/twice")
	require.Len(t, cr, 1)
	require.Equal(t, vk.ZKErrOk, cr[0].Err)
	require.Equal(t, int32(2), fired.Load())
	require.Equal(t, sid, z.conn.SessionID(), "both drops were survived by the same session")

	// delay
	require.NoError(t, z.Set("slow", "s"))
	t0 := time.Now()
	var v string
	require.NoError(t, z.Get("slow", &v))
	require.GreaterOrEqual(t, time.Since(t0), 300*time.Millisecond)

	// pings reach the hook too; nil removes it
	fzkEventually(t, 3*time.Second, "a ping", func() bool {
		return z.conn.State() == zk.StateHasSession && seen.Load() > 0 && func() bool {
			srv.SetLogPings(true)
			return len(fzkLog(srv, vk.ZKOpPing, "")) > 0
		}()
	})
	srv.SetHook(nil)
	n := seen.Load()
	require.NoError(t, z.Get("slow", &v))
	require.Equal(t, n, seen.Load())
}

func TestVerifFakeZKPartitionAndAutoExpire(t *testing.T) {
	t.Parallel()
	ctx, cancel := context.WithCancel(context.Background())
	defer cancel()
	srv := vk.NewZKServer()
	defer srv.Close()
	c1 := fzkClient(t, ctx, srv, "h1")
	defer c1.Close()
	c2 := fzkClient(t, ctx, srv, "h2")
	defer c2.Close()
	c1.Initialize()
	sid1, sid2 := c1.conn.SessionID(), c2.conn.SessionID()
	require.NoError(t, c1.CreateEphemeral("p1", 1))
	require.NoError(t, c2.CreateEphemeral("p2", 2))

	// partition without expiry: the session survives, reconnects bounce
	srv.SetPartition(sid1, true)
	require.False(t, fzkSession(srv, sid1).Connected)
	time.Sleep(500 * time.Millisecond)
	s := fzkSession(srv, sid1)
	require.True(t, s.Live)
	require.False(t, s.Connected)
	require.True(t, fzkSession(srv, sid2).Connected, "the other client is not affected")
	require.NotEqual(t, zk.StateHasSession, c1.conn.State())
	srv.SetPartition(sid1, false)
	fzkEventually(t, 5*time.Second, "session resumes after the partition healed", func() bool { return fzkSession(srv, sid1).Connected })
	require.Equal(t, sid1, c1.conn.SessionID())
	require.Equal(t, sid1, srv.Dump()["/test/p1"].EphemeralOwner)

	// with auto expiry a partitioned session dies after its timeout; a pinging one lives
	srv.SetAutoExpire(true)
	t0 := time.Now()
	srv.SetPartition(sid1, true)
	fzkEventually(t, 2*fzkTimeout, "auto expiry", func() bool { return !fzkSession(srv, sid1).Live })
	el := time.Since(t0)
	require.GreaterOrEqual(t, el, fzkTimeout-fzkTimeout/3-100*time.Millisecond, "not before timeout minus one ping interval")
	require.Less(t, el, fzkTimeout+500*time.Millisecond)
	require.NotContains(t, srv.Dump(), "/test/p1")
	require.Contains(t, srv.Dump(), "/test/p2")
	require.True(t, fzkSession(srv, sid2).Live)
	srv.SetPartition(sid1, false)
	fzkWaitNewSession(t, c1, sid1)
	require.True(t, fzkSession(srv, sid2).Live)
	srv.SetAutoExpire(false)
}

func TestVerifFakeZKRefuseAll(t *testing.T) {
	t.Parallel()
	ctx, cancel := context.WithCancel(context.Background())
	defer cancel()
	srv := vk.NewZKServer()
	defer srv.Close()
	srv.SetRefuseAll(true)
	z := fzkDial(t, ctx, srv, "h1")
	defer z.Close()
	require.False(t, z.WaitConnected(700*time.Millisecond))
	require.False(t, z.IsConnected())
	require.Empty(t, srv.Sessions())
	srv.SetRefuseAll(false)
	require.True(t, z.WaitConnected(5*time.Second))
	require.NoError(t, z.Set("k", "v"))

	// a reconnect presenting a wrong password is answered like an expired
	// session (id 0) and does not disturb the real one; spoken by hand:
	// int32 len | int32 proto, int64 lastZxid, int32 timeout, int64 session, buffer passwd
	sid := z.conn.SessionID()
	nc, err := net.Dial("tcp", srv.Addr())
	require.NoError(t, err)
	defer nc.Close()
	req := binary.BigEndian.AppendUint32(nil, 4+8+4+8+4+16)
	req = binary.BigEndian.AppendUint32(req, 0)
	req = binary.BigEndian.AppendUint64(req, 0)
	req = binary.BigEndian.AppendUint32(req, 2000)
	req = binary.BigEndian.AppendUint64(req, uint64(sid))
	req = binary.BigEndian.AppendUint32(req, 16)
	req = append(req, make([]byte, 16)...)
	_, err = nc.Write(req)
	require.NoError(t, err)
	// int32 len | int32 proto, int32 timeout, int64 session, buffer passwd
	resp := make([]byte, 4+4+4+8+4+16)
	require.NoError(t, nc.SetReadDeadline(time.Now().Add(2*time.Second)))
	_, err = io.ReadFull(nc, resp)
	require.NoError(t, err)
	require.Equal(t, uint32(36), binary.BigEndian.Uint32(resp[0:]))
	require.Equal(t, uint64(0), binary.BigEndian.Uint64(resp[12:]), "session id 0 = expired")
	_, err = nc.Read(resp[:1])
	require.ErrorIs(t, err, io.EOF, "server hangs up after rejecting")
	require.True(t, fzkSession(srv, sid).Connected)
	require.NoError(t, z.Set("k", "v2"))
	rj := fzkLog(srv, vk.ZKOpSessionReject, "")
	require.Len(t, rj, 1)
	require.Equal(t, sid, rj[0].Session)
}
