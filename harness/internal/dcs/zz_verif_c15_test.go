//go:build verif

package dcs

// C15 / C03 (coordination half): op sequences by 1-3 REAL zkDCS clients over the REAL go-zookeeper
// client against the in-process fake ZooKeeper server, compared result by result with the Coq state
// machine Dcs/ZkModel.v (the same sequence is evaluated there), plus monitors on the server's truth.

import (
	"context"
	"encoding/json"
	"errors"
	"fmt"
	"os"
	"sort"
	"strings"
	"sync"
	"testing"
	"time"

	"github.com/go-zookeeper/zk"
	"github.com/rs/zerolog"

	vk "github.com/yandex/mysync/internal/verifkit"
)

type zOp struct {
	Op  string `json:"op"` // create|set|get|delete|children|acquire|release|expire|advance|garbage
	C   int    `json:"c"`
	P   string `json:"p"` // raw spelling
	V   int    `json:"v"`
	Eph bool   `json:"eph"`
	Dt  int    `json:"dt_ms"`
	Lost bool  `json:"lost,omitempty"` // create: the connection is cut when the first create request arrives (not applied); the client re-sends it
}
type zIn struct {
	Clients int   `json:"clients"`
	TTL     int   `json:"ttl_ms"`
	Ops     []zOp `json:"ops"`
}
type zOut struct {
	Res   []string // Gallina zres per op
	Told  [][]int  // after each op: clients that were last told "true" for lock "lock" and not since told false / released / expired
	Dump  map[string]vk.ZKNodeInfo
	Owner []int64 // session id per client at the end
	Notes []string
	Notes2 []string
	Notes3 []string // ephemeral writes whose key does not belong to the writing session
	Notes4 []string // plain keys turned into ephemeral ones
	Notes5 []string // existing keys reported as missing
	Skipped map[int]bool // ops whose request was lost and NOT re-sent (the client had already noticed the disconnect): no effect
	Fired map[int]bool // op index -> the connection of the op's client was really cut during the op
	AdvAfter map[int]int // op index -> milliseconds the harness itself spent inside a composite op (the machine's clock is advanced by them)
}

var zSegs = map[string]int{"a": 1, "b": 2, "c": 3, "lock": 9, "m": 8}

func zRawGal(p string) string {
	// components split by "/": empty ones are None
	parts := strings.Split(p, "/")
	items := []string{}
	for _, s := range parts {
		if s == "" {
			items = append(items, "None")
		} else {
			items = append(items, fmt.Sprintf("(Some %d%%N)", zSegs[s]))
		}
	}
	return vk.L(items)
}

func zOpGal(o zOp) string {
	c := fmt.Sprintf("%d%%N", o.C)
	switch o.Op {
	case "create":
		return "(OCreate " + c + " " + zRawGal(o.P) + " " + vk.Z(int64(o.V)) + " " + vk.B(o.Eph) + ")"
	case "set":
		return "(OSet " + c + " " + zRawGal(o.P) + " " + vk.Z(int64(o.V)) + " " + vk.B(o.Eph) + ")"
	case "get":
		return "(OGet " + c + " " + zRawGal(o.P) + ")"
	case "delete":
		return "(ODelete " + c + " " + zRawGal(o.P) + ")"
	case "children":
		return "(OChildren " + c + " " + zRawGal(o.P) + ")"
	case "acquire":
		return "(OAcquire " + c + " " + zRawGal(o.P) + ")"
	case "release":
		return "(ORelease " + c + " " + zRawGal(o.P) + ")"
	case "expire":
		return "(OExpire " + c + ")"
	case "advance":
		return "(OAdvance " + vk.Z(int64(o.Dt)) + ")"
	case "garbage":
		return "(ORawGarbage " + zRawGal(o.P) + ")"
	case "pred": // the predecessor process of client c (same host name, another pid, its own session) = client 50+c of the machine
		return "(OAcquire " + fmt.Sprintf("%d%%N", 50+o.C) + " " + zRawGal(o.P) + ")"
	case "predexpire":
		return "(OExpire " + fmt.Sprintf("%d%%N", 50+o.C) + ")"
	}
	return "(OAdvance 0)"
}

func zErrGal(err error) string {
	switch {
	case err == nil:
		return "ZOk"
	case errors.Is(err, ErrExists):
		return "ZExists"
	case errors.Is(err, ErrNotFound):
		return "ZNotFound"
	case errors.Is(err, ErrMalformed):
		return "ZMalformed"
	}
	return "ZErr"
}

func zRun(t *testing.T, in zIn) zOut {
	var out zOut
	ctx, cancel := context.WithCancel(context.Background())
	defer cancel()
	srv := vk.NewZKServer()
	defer srv.Close()
	srv.SetAutoExpire(false)
	nop := zerolog.Nop()
	var cl []*zkDCS
	for i := 1; i <= in.Clients; i++ {
		cfg := fzkConfig(srv, fmt.Sprintf("h%d", i))
		cfg.LockHeldTTL = time.Duration(in.TTL) * time.Millisecond
		d, err := NewZookeeper(ctx, cfg, &nop)
		if err != nil {
			t.Fatal(err)
		}
		z := d.(*zkDCS)
		if !z.WaitConnected(5 * time.Second) {
			t.Fatal("not connected")
		}
		cl = append(cl, z)
		defer z.Close()
	}
	cl[0].Initialize()
	raw := cl[0] // the "other tool" writes through the first client's connection
	told := map[int]bool{}
	snapshotTold := func() []int {
		var r []int
		for c, v := range told {
			if v {
				r = append(r, c)
			}
		}
		sort.Ints(r)
		return r
	}
	// predecessors: the process that ran on a client's host before it (killed without closing its session, which the
	// server has not expired yet): a raw connection with its own session writing lock records {hostname, another pid}
	preds := map[int]*zk.Conn{}
	pred := func(c int) *zk.Conn {
		if g := preds[c]; g != nil {
			return g
		}
		g, _, err := zk.Connect([]string{srv.Addr()}, fzkTimeout, zk.WithLogger(fzkQuiet{}))
		_ = nop
		if err != nil {
			t.Fatal(err)
		}
		for i := 0; i < 250 && g.State() != zk.StateHasSession; i++ {
			time.Sleep(20 * time.Millisecond)
		}
		preds[c] = g
		return g
	}
	defer func() {
		for _, g := range preds {
			g.Close()
		}
	}()
	for oi, o := range in.Ops {
		res := "ZOk"
		opStart := time.Now()
		var z *zkDCS
		if o.C >= 1 && o.C <= len(cl) {
			z = cl[o.C-1]
		}
		switch o.Op {
		case "create":
			lostFired := false
			if o.Lost {
				// the TCP connection is cut when the create request arrives; nothing is applied; the session survives
				sid := z.conn.SessionID()
				var once sync.Once
				srv.SetHook(func(ev vk.ZKRequestEvent) vk.ZKAction {
					act := vk.ZKProceed
					if ev.Session == sid && ev.Op == vk.ZKOpCreate {
						once.Do(func() { act = vk.ZKDropBeforeApply; lostFired = true })
					}
					return act
				})
			}
			if o.Eph {
				res = zErrGal(z.CreateEphemeral(o.P, o.V))
			} else {
				res = zErrGal(z.Create(o.P, o.V))
			}
			if o.Lost {
				srv.SetHook(nil)
				for i := 0; i < 100 && !z.IsConnected(); i++ {
					time.Sleep(20 * time.Millisecond)
				}
				time.Sleep(60 * time.Millisecond)
				if lostFired {
					// the client saw its connection go: zk.go forgets every lock it believed to hold
					if out.Fired == nil {
						out.Fired = map[int]bool{}
					}
					out.Fired[oi] = true
					out.Res = append(out.Res, "ZOk")
					out.Told = append(out.Told, snapshotTold())
				}
				if res == "ZErr" {
					// the client had already seen the disconnect and did not re-send: the operation failed without effect
					if out.Skipped == nil {
						out.Skipped = map[int]bool{}
					}
					out.Skipped[len(out.Res)] = true
					res = "ZOk"
				}
			}
		case "set":
			// expectation from the server's truth: every ancestor missing or plain, the key itself missing or of a compatible kind
			full := z.buildFullPath(o.P)
			dump := srv.Dump()
			mustWork := full != "/test"
			for anc := full; ; {
				i := strings.LastIndex(anc, "/")
				if i <= 0 {
					break
				}
				anc = anc[:i]
				if n, ok := dump[anc]; ok && n.EphemeralOwner != 0 {
					mustWork = false
				}
			}
			if n, ok := dump[full]; ok && o.Eph && n.EphemeralOwner == 0 {
				mustWork = false
			}
			if o.Eph {
				res = zErrGal(z.SetEphemeral(o.P, o.V))
			} else {
				res = zErrGal(z.Set(o.P, o.V))
			}
			if _, existed := dump[full]; o.Eph && res == "ZOk" && !existed {
				// a key that an ephemeral write CREATES belongs to the writing session: it must go away with it
				// (overwriting an existing ephemeral key keeps its owner)
				if n, ok := srv.Dump()[full]; ok && n.EphemeralOwner != z.conn.SessionID() {
					out.Notes3 = append(out.Notes3, fmt.Sprintf("op %d: SetEphemeral %q succeeded but the key is owned by %x, not by the writing session %x (0 = persistent)", len(out.Res), o.P, n.EphemeralOwner, z.conn.SessionID()))
				}
			}
			if n0, existed := dump[full]; o.Eph && res == "ZOk" && existed && n0.EphemeralOwner == 0 {
				// a plain key is never silently turned into an ephemeral one: the write is refused; told "written", the
				// caller takes the key for one that goes away with its session
				if n, ok := srv.Dump()[full]; ok && n.EphemeralOwner == 0 {
					out.Notes3 = append(out.Notes3, fmt.Sprintf("op %d: SetEphemeral %q over a plain key is acknowledged and the key stays plain (owner 0): it will outlive the writing session %x", len(out.Res), o.P, z.conn.SessionID()))
				} else {
					out.Notes4 = append(out.Notes4, fmt.Sprintf("op %d: SetEphemeral %q over a plain key is acknowledged and the key now is ephemeral (owner %x): a plain key was silently turned into an ephemeral one and will vanish with that session", len(out.Res), o.P, n.EphemeralOwner))
				}
			}
			if mustWork && res != "ZOk" {
				out.Notes2 = append(out.Notes2, fmt.Sprintf("op %d: set %q failed (%s) although every ancestor is missing or a plain key", len(out.Res), o.P, res))
			} else if mustWork {
				if n, ok := srv.Dump()[full]; !ok || string(n.Data) != fmt.Sprint(o.V) {
					out.Notes2 = append(out.Notes2, fmt.Sprintf("op %d: after set %q = %d the key holds %q", len(out.Res), o.P, o.V, string(n.Data)))
				}
			}
		case "get":
			var v any
			_, existsBefore := srv.Dump()[z.buildFullPath(o.P)]
			err := z.Get(o.P, &v)
			if err != nil {
				res = zErrGal(err)
				if _, existsAfter := srv.Dump()[z.buildFullPath(o.P)]; res == "ZNotFound" && existsBefore && existsAfter {
					// get distinguishes a missing key from an unparsable one (an intermediate key carries no value: unparsable, not missing)
					out.Notes5 = append(out.Notes5, fmt.Sprintf("op %d: Get %q answers 'not found' although the key exists on the server", len(out.Res), o.P))
				}
			} else {
				switch x := v.(type) {
				case float64:
					res = "(ZData (ZJson " + vk.Z(int64(x)) + "))"
				case map[string]any:
					h, _ := x["hostname"].(string)
					res = "(ZData (ZOwner " + strings.TrimPrefix(h, "h") + "%N))"
				default:
					b, _ := json.Marshal(v)
					res = "(ZData (ZJson 777)) (* " + string(b) + " *)"
				}
			}
		case "delete":
			res = zErrGal(z.Delete(o.P))
		case "children":
			ch, err := z.GetChildren(o.P)
			if err != nil {
				res = zErrGal(err)
			} else {
				ns := []int{}
				for _, s := range ch {
					ns = append(ns, zSegs[s])
				}
				sort.Ints(ns)
				items := []string{}
				for _, n := range ns {
					items = append(items, fmt.Sprintf("%d%%N", n))
				}
				res = "(ZChildren " + vk.L(items) + ")"
			}
		case "acquire":
			ok := z.AcquireLock(o.P)
			res = "(ZBool " + vk.B(ok) + ")"
			if ok {
				full := z.buildFullPath(o.P)
				if n, exists := srv.Dump()[full]; !exists || n.EphemeralOwner != z.conn.SessionID() {
					out.Notes = append(out.Notes, fmt.Sprintf("op %d: client %d is told it holds %s, but the lock node is %v (owner session %x, the client's session %x)", len(out.Res), o.C, full, exists, n.EphemeralOwner, z.conn.SessionID()))
				}
			}
			if strings.Trim(o.P, "/") == "lock" {
				told[o.C] = ok
			}
		case "race":
			// two candidates both look at the free lock before either creates it: the first one's create is held back at
			// the server until the second one has finished.  The outcome equals the sequential history [second; first].
			z2 := cl[o.V-1]
			full := z.buildFullPath(o.P)
			if _, busy := srv.Dump()[full]; busy || o.V == o.C {
				r2 := z2.AcquireLock(o.P)
				r1 := z.AcquireLock(o.P)
				res = "(ZBool " + vk.B(r2) + ")"
				out.Res = append(out.Res, res)
				res = "(ZBool " + vk.B(r1) + ")"
				if strings.Trim(o.P, "/") == "lock" {
					told[o.V], told[o.C] = r2, r1
				}
				break
			}
			sid := z.conn.SessionID()
			srv.SetHook(func(ev vk.ZKRequestEvent) vk.ZKAction {
				if ev.Session == sid && ev.Op == vk.ZKOpCreate && ev.Path == full {
					return vk.ZKDelay(400 * time.Millisecond)
				}
				return vk.ZKProceed
			})
			ch := make(chan bool, 1)
			go func() { ch <- z.AcquireLock(o.P) }()
			time.Sleep(150 * time.Millisecond)
			r2 := z2.AcquireLock(o.P)
			r1 := <-ch
			srv.SetHook(nil)
			out.Res = append(out.Res, "(ZBool "+vk.B(r2)+")")
			res = "(ZBool " + vk.B(r1) + ")"
			if strings.Trim(o.P, "/") == "lock" {
				told[o.V], told[o.C] = r2, r1
			}
		case "lostrace":
			// c's lock create is lost in transit (connection cut, not applied); c2 takes the lock in the gap; c re-sends.
			// The outcome equals the sequential history [c2 acquires; c acquires].
			z2 := cl[o.V-1]
			full := z.buildFullPath(o.P)
			r2 := false
			if _, busy := srv.Dump()[full]; busy || o.V == o.C {
				r2 = z2.AcquireLock(o.P)
			} else {
				sid := z.conn.SessionID()
				var once sync.Once
				srv.SetHook(func(ev vk.ZKRequestEvent) vk.ZKAction {
					act := vk.ZKProceed
					if ev.Session == sid && ev.Op == vk.ZKOpCreate && ev.Path == full {
						once.Do(func() {
							r2 = z2.AcquireLock(o.P)
							act = vk.ZKDropBeforeApply
							if out.Fired == nil {
								out.Fired = map[int]bool{}
							}
							out.Fired[oi] = true
						})
					}
					return act
				})
			}
			r1 := z.AcquireLock(o.P)
			srv.SetHook(nil)
			for i := 0; i < 100 && !z.IsConnected(); i++ {
				time.Sleep(20 * time.Millisecond)
			}
			time.Sleep(60 * time.Millisecond)
			if r1 {
				if n, exists := srv.Dump()[full]; !exists || n.EphemeralOwner != z.conn.SessionID() {
					out.Notes = append(out.Notes, fmt.Sprintf("op %d: client %d is told it holds %s after its create was lost in transit, but the lock node is owned by session %x (the client's session %x)", len(out.Res), o.C, full, n.EphemeralOwner, z.conn.SessionID()))
				}
			}
			out.Res = append(out.Res, "(ZBool "+vk.B(r2)+")")
			if out.Fired[oi] {
				out.Res = append(out.Res, "ZOk") // the drop of c's connection, before c's answer
				out.Told = append(out.Told, snapshotTold())
			}
			res = "(ZBool " + vk.B(r1) + ")"
			if strings.Trim(o.P, "/") == "lock" {
				told[o.V], told[o.C] = r2, r1
			}
		case "cutoff":
			// c is cut off from the coordination service (its connection is dropped, reconnects are refused), the
			// server expires its session, c2 asks for the lock, then c - still cut off - asks too.  c must not be told
			// that it holds the lock.  In the machine: [expire c; c2 acquires; c acquires].
			z2 := cl[o.V-1]
			sid := z.conn.SessionID()
			if o.V == o.C {
				// nobody else asks in between: a plain expiry followed by a request over the new session
				srv.ExpireSession(sid)
				fzkWaitNewSession(t, z, sid)
				time.Sleep(60 * time.Millisecond)
				r := z.AcquireLock(o.P)
				out.Res = append(out.Res, "ZOk", "ZOk")
				res = "(ZBool " + vk.B(r) + ")"
				told[o.C] = false
				if strings.Trim(o.P, "/") == "lock" {
					told[o.C] = r
				}
				break
			}
			srv.SetPartition(sid, true)
			time.Sleep(120 * time.Millisecond) // the client notices the connection loss
			srv.ExpireSession(sid)
			r2 := false
			if o.V != o.C {
				r2 = z2.AcquireLock(o.P)
			}
			ch := make(chan bool, 1)
			go func() { ch <- z.AcquireLock(o.P) }()
			r1, answered := false, false
			select {
			case r1 = <-ch:
				answered = true
			case <-time.After(500 * time.Millisecond):
			}
			srv.SetPartition(sid, false)
			if !answered {
				r1 = <-ch
			}
			fzkWaitNewSession(t, z, sid)
			time.Sleep(60 * time.Millisecond)
			if r1 && answered {
				out.Notes = append(out.Notes, fmt.Sprintf("op %d: client %d, cut off and with its session expired, is told it holds %s", len(out.Res), o.C, o.P))
			}
			if o.V != o.C {
				out.Res = append(out.Res, "ZOk", "(ZBool "+vk.B(r2)+")")
			} else {
				out.Res = append(out.Res, "ZOk", "ZOk")
			}
			res = "(ZBool " + vk.B(r1) + ")"
			told[o.C] = false
			if strings.Trim(o.P, "/") == "lock" {
				if o.V != o.C {
					told[o.V] = r2
				}
				told[o.C] = r1
			}
		case "release":
			full := z.buildFullPath(o.P)
			before, existed := srv.Dump()[full]
			z.ReleaseLock(o.P)
			if _, still := srv.Dump()[full]; existed && !still && before.EphemeralOwner != z.conn.SessionID() {
				out.Notes = append(out.Notes, fmt.Sprintf("op %d: the release of %s by client %d removed a lock node owned by another session (%x, the client's session %x)", len(out.Res), full, o.C, before.EphemeralOwner, z.conn.SessionID()))
			}
			if strings.Trim(o.P, "/") == "lock" {
				told[o.C] = false
			}
		case "pred":
			// what AcquireLock does, without a cache (these ops are generated with lock_held_ttl = 0 only)
			g := pred(o.C)
			full := z.buildFullPath(o.P)
			rec, _ := json.Marshal(LockOwner{fmt.Sprintf("h%d", o.C), os.Getpid() + 1})
			ok := false
			data, _, err := g.Get(full)
			if errors.Is(err, zk.ErrNoNode) {
				_, err = g.Create(full, rec, zk.FlagEphemeral, zk.WorldACL(zk.PermAll))
				ok = err == nil
			} else if err == nil {
				ok = string(data) == string(rec)
			}
			res = "(ZBool " + vk.B(ok) + ")"
		case "predexpire":
			g := pred(o.C)
			old := g.SessionID()
			srv.ExpireSession(old)
			for i := 0; i < 250 && (g.SessionID() == old || g.State() != zk.StateHasSession); i++ {
				time.Sleep(20 * time.Millisecond)
			}
		case "expire":
			old := z.conn.SessionID()
			srv.ExpireSession(old)
			fzkWaitNewSession(t, z, old)
			time.Sleep(60 * time.Millisecond) // let handleEvents process the session events
			told[o.C] = false
		case "advance":
			time.Sleep(time.Duration(o.Dt) * time.Millisecond)
		case "garbage":
			full := raw.buildFullPath(o.P)
			if _, st, err := raw.conn.Get(full); err == nil {
				_, _ = raw.conn.Set(full, []byte("{not json"), st.Version)
			}
		}
		out.Res = append(out.Res, res)
		out.Told = append(out.Told, snapshotTold())
		if o.Op == "race" || o.Op == "lostrace" {
			out.Told = append(out.Told, snapshotTold())
		}
		if o.Op == "cutoff" {
			out.Told = append(out.Told, snapshotTold(), snapshotTold())
		}
		// the waits inside a composite op are real time for the lock cache: tell the machine
		if o.Op == "race" || o.Op == "lostrace" || o.Op == "cutoff" || o.Op == "expire" || o.Lost {
			if out.AdvAfter == nil {
				out.AdvAfter = map[int]int{}
			}
			out.AdvAfter[oi] = int(time.Since(opStart).Milliseconds())
			out.Res = append(out.Res, "ZOk")
			out.Told = append(out.Told, snapshotTold())
		}
	}
	out.Dump = srv.Dump()
	for _, z := range cl {
		out.Owner = append(out.Owner, z.conn.SessionID())
	}
	for _, g := range preds {
		out.Owner = append(out.Owner, g.SessionID())
	}
	return out
}

func zPaths(r interface{ Intn(int) int }, lock bool) string {
	segs := []string{"a", "b", "c"}
	n := 1 + r.Intn(3)
	parts := []string{}
	for i := 0; i < n; i++ {
		parts = append(parts, segs[r.Intn(2+i%2)])
	}
	if lock {
		parts = []string{"lock"}
		if r.Intn(4) == 0 {
			parts = []string{"m", "lock"}
		}
	}
	p := strings.Join(parts, "/")
	// arbitrary spellings: redundant slashes
	switch r.Intn(6) {
	case 0:
		p = "/" + p
	case 1:
		p = p + "/"
	case 2:
		p = strings.Replace(p, "/", "//", 1)
	case 3:
		p = "//" + p + "//"
	}
	return p
}

// zVal: half of the writes draw from three values, so that writing the value a key already holds (by another
// session, with the other kind of key) is common
type fzkQuiet struct{}

func (fzkQuiet) Printf(string, ...any) {}

func zVal(r interface{ Intn(int) int }) int {
	if r.Intn(2) == 0 {
		return r.Intn(3)
	}
	return r.Intn(50)
}

func sp0(r interface{ Intn(int) int }) string {
	return []string{"lock", "/lock", "lock/", "//lock"}[r.Intn(4)]
}

func zGen(o *vk.Out, lockHeavy bool) zIn {
	r := o.Rng
	in := zIn{Clients: 1 + r.Intn(3), TTL: []int{0, 400, 30000}[r.Intn(3)]}
	n := 15 + r.Intn(30)
	for i := 0; i < n; i++ {
		c := 1 + r.Intn(in.Clients)
		k := r.Intn(20)
		if lockHeavy {
			k = []int{10, 10, 11, 12, 13, 14, 10, 11, 0, 4, 15, 15, 12}[r.Intn(13)]
		}
		switch {
		case k < 3:
			in.Ops = append(in.Ops, zOp{Op: "create", C: c, P: zPaths(r, false), V: zVal(r), Eph: r.Intn(3) == 0})
		case k < 6:
			in.Ops = append(in.Ops, zOp{Op: "set", C: c, P: zPaths(r, false), V: zVal(r), Eph: r.Intn(3) == 0})
		case k < 8:
			in.Ops = append(in.Ops, zOp{Op: "get", C: c, P: zPaths(r, r.Intn(6) == 0)})
		case k < 9:
			in.Ops = append(in.Ops, zOp{Op: "delete", C: c, P: zPaths(r, false)})
		case k < 10:
			in.Ops = append(in.Ops, zOp{Op: "children", C: c, P: zPaths(r, false)})
		case k == 10:
			in.Ops = append(in.Ops, zOp{Op: "acquire", C: c, P: zPaths(r, true)})
		case k == 11:
			in.Ops = append(in.Ops, zOp{Op: "release", C: c, P: zPaths(r, true)})
		case k == 12:
			in.Ops = append(in.Ops, zOp{Op: "expire", C: c})
		case k == 13:
			in.Ops = append(in.Ops, zOp{Op: "advance", Dt: 700})
		case k == 14:
			in.Ops = append(in.Ops, zOp{Op: "garbage", P: zPaths(r, r.Intn(8) == 0)})
		case k == 15:
			if in.Clients > 1 {
				c2 := 1 + r.Intn(in.Clients)
				in.Ops = append(in.Ops, zOp{Op: []string{"race", "lostrace", "cutoff"}[r.Intn(3)], C: c, V: c2, P: zPaths(r, true)})
			}
		default:
			in.Ops = append(in.Ops, zOp{Op: "get", C: c, P: zPaths(r, false)})
		}
	}
	if !lockHeavy {
		// a create whose request is lost in transit and re-sent - of a key somebody created before (must fail with
		// 'exists') and of fresh keys
		var created []zOp
		for _, o := range in.Ops {
			if o.Op == "create" || o.Op == "set" {
				created = append(created, o)
			}
		}
		for k := 0; k < 2 && len(created) > 0; k++ {
			src := created[r.Intn(len(created))]
			at := r.Intn(len(in.Ops) + 1)
			lost := zOp{Op: "create", C: 1 + r.Intn(in.Clients), P: src.P, V: 60 + r.Intn(9), Eph: r.Intn(4) == 0, Lost: true}
			in.Ops = append(in.Ops[:at], append([]zOp{lost}, in.Ops[at:]...)...)
		}
	}
	if !lockHeavy && in.Clients > 1 && r.Intn(3) == 0 {
		// the same lock key under different spellings, by two clients
		sp := func() string { return []string{"lock", "/lock", "lock/", "//lock"}[r.Intn(4)] }
		at := r.Intn(len(in.Ops) + 1)
		dance := []zOp{{Op: "acquire", C: 1, P: sp()}, {Op: "release", C: 1, P: sp()}, {Op: "acquire", C: 2, P: sp()}, {Op: "acquire", C: 1, P: sp()}, {Op: "release", C: 2, P: sp()}, {Op: "release", C: 1, P: sp()}}
		in.Ops = append(in.Ops[:at], append(dance, in.Ops[at:]...)...)
	}
	if in.TTL == 0 && r.Intn(2) == 0 {
		// a restart without a closed session: the predecessor of client c still owns the lock node when c asks, until the
		// server expires it; others ask in between; c releases
		c := 1 + r.Intn(in.Clients)
		sp := func() string { return []string{"lock", "/lock", "lock/", "//lock", "m/lock"}[r.Intn(5)] }
		p := sp()
		if p != "m/lock" {
			p = "lock"
		}
		spp := func() string {
			if p == "m/lock" {
				return p
			}
			return sp0(r)
		}
		at := r.Intn(len(in.Ops) + 1)
		story := []zOp{{Op: "pred", C: c, P: spp()}, {Op: "acquire", C: c, P: spp()}}
		if r.Intn(2) == 0 {
			story = append(story, zOp{Op: "release", C: c, P: spp()})
		}
		story = append(story, zOp{Op: "acquire", C: 1 + r.Intn(in.Clients), P: spp()}, zOp{Op: "pred", C: c, P: spp()}, zOp{Op: "predexpire", C: c},
			zOp{Op: "acquire", C: 1 + r.Intn(in.Clients), P: spp()}, zOp{Op: "acquire", C: c, P: spp()}, zOp{Op: "pred", C: c, P: spp()})
		in.Ops = append(in.Ops[:at], append(story, in.Ops[at:]...)...)
	}
	// closing sweep: what every short path holds
	for _, p := range []string{"a", "b", "a/a", "a/b", "b/a", "b/b", "a/a/a", "a/b/a", "lock", "m/lock", "m"} {
		in.Ops = append(in.Ops, zOp{Op: "get", C: 1, P: p}, zOp{Op: "children", C: 1, P: p})
	}
	in.Ops = append(in.Ops, zOp{Op: "children", C: 1, P: ""})
	return in
}

func zCase(in zIn, out zOut) string {
	cs := []string{}
	for i := 1; i <= in.Clients; i++ {
		cs = append(cs, fmt.Sprintf("%d%%N", i))
	}
	for i := 1; i <= in.Clients; i++ {
		for _, o := range in.Ops {
			if (o.Op == "pred" || o.Op == "predexpire") && o.C == i {
				cs = append(cs, fmt.Sprintf("%d%%N", 50+i))
				break
			}
		}
	}
	ops := []string{}
	ri := 0
	for oi, o := range in.Ops {
		drop := fmt.Sprintf("(ODrop %d%%N)", o.C)
		switch {
		case o.Op == "lostrace" && out.Fired[oi]:
			ops = append(ops, zOpGal(zOp{Op: "acquire", C: o.V, P: o.P}), drop, zOpGal(zOp{Op: "acquire", C: o.C, P: o.P}))
			ri += 3
		case o.Op == "race" || o.Op == "lostrace":
			ops = append(ops, zOpGal(zOp{Op: "acquire", C: o.V, P: o.P}), zOpGal(zOp{Op: "acquire", C: o.C, P: o.P}))
			ri += 2
		case o.Lost && out.Fired[oi]:
			// the drop's result is recorded before the op's own result (a create does not read the lock cache)
			ri++
			if out.Skipped[ri] {
				ops = append(ops, drop, "(OAdvance 0)")
			} else {
				ops = append(ops, drop, zOpGal(o))
			}
			ri++
		case o.Op == "cutoff":
			second := zOpGal(zOp{Op: "acquire", C: o.V, P: o.P})
			if o.V == o.C {
				second = "(OAdvance 0)"
			}
			ops = append(ops, zOpGal(zOp{Op: "expire", C: o.C}), second, zOpGal(zOp{Op: "acquire", C: o.C, P: o.P}))
			ri += 3
		case out.Skipped[ri]:
			ops = append(ops, "(OAdvance 0)")
			ri++
		default:
			ops = append(ops, zOpGal(o))
			ri++
		}
		if ms, ok := out.AdvAfter[oi]; ok {
			ops = append(ops, zOpGal(zOp{Op: "advance", Dt: ms}))
			ri++
		}
	}
	return vk.T(vk.Z(int64(in.TTL)), vk.L(cs), vk.L(ops), vk.L(out.Res))
}

// monitors on the server's truth
func zMonitor(m *vk.Meta, in zIn, out zOut) {
	for i, told := range out.Told {
		if len(told) > 1 && in.TTL == 0 {
			m.Violation("at any time at most one process is told that it holds the lock", in, fmt.Sprintf("after result %d: told %v", i, told))
		}
	}
	for _, n := range out.Notes {
		m.Violation("a process is told it holds the lock only while the lock node belongs to its own live session", in, n)
	}
	for _, n := range out.Notes2 {
		m.Violation("set creates missing parents and overwrites", in, n)
	}
	for _, n := range out.Notes3 {
		m.Violation("ephemeral keys exist only while the session that created them lives", in, n)
	}
	for _, n := range out.Notes5 {
		m.Violation("get distinguishes a missing key from an unparsable one", in, n)
	}
	for _, n := range out.Notes4 {
		m.Violation("a plain key is never silently turned into an ephemeral one", in, n)
	}
	// ephemeral keys exist only while the creating session lives
	live := map[int64]bool{}
	for _, id := range out.Owner {
		live[id] = true
	}
	for p, n := range out.Dump {
		if n.EphemeralOwner != 0 && !live[n.EphemeralOwner] {
			m.Violation("ephemeral keys exist only while the session that created them lives", in, fmt.Sprintf("%s is owned by the dead session %x", p, n.EphemeralOwner))
		}
	}
}

func zDrive(t *testing.T, o *vk.Out, m *vk.Meta, prefix string, n int, lockHeavy bool) {
	imports := []string{"Dcs.ZkModel", "Corr.C15"}
	type job struct {
		in  zIn
		out zOut
	}
	jobs := make([]job, n)
	for i := range jobs {
		jobs[i].in = zGen(o, lockHeavy)
	}
	var wg sync.WaitGroup
	sem := make(chan struct{}, 12)
	for i := range jobs {
		wg.Add(1)
		sem <- struct{}{}
		go func(i int) {
			defer wg.Done()
			defer func() { <-sem }()
			jobs[i].out = zRun(t, jobs[i].in)
		}(i)
	}
	wg.Wait()
	dist := vk.Distinct{}
	var cases []string
	for _, j := range jobs {
		zMonitor(m, j.in, j.out)
		cases = append(cases, zCase(j.in, j.out))
		m.Cases[prefix] = append(m.Cases[prefix], j.in)
		m.Evaluations++
		dist.Add(fmt.Sprintf("%+v", j.in))
		for _, op := range j.in.Ops {
			m.Count("op_" + op.Op)
		}
		for _, r := range j.out.Res {
			if strings.HasPrefix(r, "ZErr") || r == "ZExists" || r == "ZNotFound" || r == "ZMalformed" {
				m.Count("res_" + r)
			}
		}
		m.Count(fmt.Sprintf("clients_%d", j.in.Clients))
	}
	o.CasesFile(prefix, imports, "zk_case", cases, "mismatches_zk")
	m.DistinctNontrivial += dist.Len()
}

func TestVerifC15(t *testing.T) {
	o := vk.Open()
	m := vk.NewMeta()
	var rp zIn
	if vk.ReplayInput(&rp) {
		zMonitor(m, rp, zRun(t, rp))
		m.Evaluations = 1
		o.WriteMeta("c15", m)
		return
	}
	n := 60
	if o.Thorough() {
		n = 600
	}
	zDrive(t, o, m, "c15", n, false)
	m.Rule = "sequences of 15-45 operations (create / set / get / delete / children, plain and ephemeral, lock acquire / release, session expiry, clock advance, a foreign tool writing non-JSON bytes) by 1-3 real zkDCS clients over the real go-zookeeper client against the fake ZooKeeper server, over a key space of depth <= 3 with arbitrary spellings (redundant slashes), each followed by a sweep reading back every key; compared result by result with the Coq state machine; distinct = distinct sequences"
	o.WriteMeta("c15", m)
}

func TestVerifC03(t *testing.T) {
	o := vk.Open()
	m := vk.NewMeta()
	var rp zIn
	if vk.ReplayInput(&rp) {
		zMonitor(m, rp, zRun(t, rp))
		m.Evaluations = 1
		o.WriteMeta("c03", m)
		return
	}
	n := 60
	if o.Thorough() {
		n = 600
	}
	zDrive(t, o, m, "c03", n, true)
	m.Rule = "lock-heavy sequences (acquire / release / expiry / clock advance across the cache TTL / foreign writes to the lock node, 2 spellings of 2 lock paths) by 1-3 real zkDCS clients against the fake ZooKeeper server, compared result by result with the Coq state machine; the monitor counts who was told 'held' after every operation (TTL 0)"
	o.WriteMeta("c03", m)
}
