//go:build verif

package mysql

import (
	"fmt"
	"testing"

	"github.com/yandex/mysync/internal/config"
	vk "github.com/yandex/mysync/internal/verifkit"
)

type c12In struct {
	Kind     string `json:"kind"` // "rq" | "check" | "hist"
	N        int    `json:"n"`
	N0       int    `json:"n0,omitempty"` // "hist": the helper was asked about a list of this length before
	W        int    `json:"w"`
	P        int    `json:"p"`
	SemiSync bool   `json:"semisync"`
}

func c12Helper(w int, semi bool) ISwitchHelper {
	cfg, _ := config.DefaultConfig()
	cfg.RplSemiSyncMasterWaitForSlaveCount = w
	cfg.SemiSync = semi
	return NewSwitchHelper(&cfg)
}

// c12Monitor evaluates the property's own clauses on the implementation.
func c12Monitor(m *vk.Meta, in c12In) {
	list := make([]string, in.N)
	switch in.Kind {
	case "rq":
		sh := c12Helper(in.W, true)
		r := sh.GetRequiredWaitSlaveCount(list)
		q := sh.GetFailoverQuorum(list)
		repl := max(in.N-1, 0)
		if r < 0 || r > repl {
			m.Violation("required<=replicas", in, fmt.Sprintf("required=%d replicas=%d", r, repl))
		}
		if (r == 0) != (in.N <= 1 || in.W == 0) {
			m.Violation("required=0 iff no replica or w=0", in, fmt.Sprintf("required=%d", r))
		}
		if q < 1 {
			m.Violation("quorum>=1", in, fmt.Sprintf("quorum=%d", q))
		}
		if !(q+r > repl) {
			m.Violation("quorum+required>replicas", in, fmt.Sprintf("quorum=%d required=%d replicas=%d", q, r, repl))
		}
	case "hist":
		// one helper lives as long as the process: what it answers about a list must not depend on what it was asked before
		sh := c12Helper(in.W, true)
		_ = sh.GetRequiredWaitSlaveCount(make([]string, in.N0))
		_ = sh.GetFailoverQuorum(make([]string, in.N0))
		q := sh.GetFailoverQuorum(list)
		r := min(in.N/2, in.W) // the acknowledgements demanded for THIS list
		repl := max(in.N-1, 0)
		if q < 1 {
			m.Violation("quorum>=1", in, fmt.Sprintf("quorum=%d after a question about a list of %d", q, in.N0))
		}
		if !(q+r > repl) {
			m.Violation("quorum+required>replicas", in, fmt.Sprintf("quorum=%d required=%d replicas=%d after a question about a list of %d", q, r, repl, in.N0))
		}
		if want := max(in.N-r, 1); sh.CheckFailoverQuorum(list, want-1) == nil && want-1 >= 0 {
			m.Violation("check(semi-sync) accepts exactly p>=quorum", in, fmt.Sprintf("%d alive accepted, quorum %d, after a question about a list of %d", want-1, want, in.N0))
		}
		if r2 := sh.GetRequiredWaitSlaveCount(list); r2 != r {
			m.Violation("required<=replicas", in, fmt.Sprintf("required=%d want %d after a question about a list of %d", r2, r, in.N0))
		}
	case "check":
		sh := c12Helper(in.W, in.SemiSync)
		ok := sh.CheckFailoverQuorum(list, in.P) == nil
		if in.SemiSync {
			// reference: quorum recomputed from the closed form the property states
			r := min(in.N/2, in.W)
			q := max(in.N-r, 1)
			if ok != (in.P >= q) {
				m.Violation("check(semi-sync) accepts exactly p>=quorum", in, fmt.Sprintf("ok=%v quorum=%d", ok, q))
			}
		} else if ok != (in.P >= 1) {
			m.Violation("check(async) accepts exactly p>=1", in, fmt.Sprintf("ok=%v", ok))
		}
	}
}

func TestVerifC12(t *testing.T) {
	o := vk.Open()
	m := vk.NewMeta()
	var replay c12In
	if vk.ReplayInput(&replay) {
		c12Monitor(m, replay)
		m.Evaluations = 1
		o.WriteMeta("c12", m)
		return
	}
	maxN, maxW := 60, 60
	if o.Thorough() {
		maxN, maxW = 200, 200
	}
	// table 1: (n, w, required, quorum)
	var rq []string
	dist := vk.Distinct{}
	for n := 0; n <= maxN; n++ {
		list := make([]string, n)
		for w := 0; w <= maxW; w++ {
			sh := c12Helper(w, true)
			r := sh.GetRequiredWaitSlaveCount(list)
			q := sh.GetFailoverQuorum(list)
			rq = append(rq, vk.T(vk.Z(int64(n)), vk.Z(int64(w)), vk.Z(int64(r)), vk.Z(int64(q))))
			in := c12In{Kind: "rq", N: n, W: w}
			c12Monitor(m, in)
			m.Cases["c12_rq"] = append(m.Cases["c12_rq"], in)
			m.Evaluations++
			if n >= 2 && w >= 1 {
				dist.Add(fmt.Sprintf("rq/%d/%d", r, q))
			}
			if n == 5 && w == 1 {
				m.Sample(map[string]any{"n": n, "w": w, "required": r, "quorum": q})
			}
		}
	}
	// random large values (thorough): list length up to 1e6, w up to 2^62
	if o.Thorough() {
		for i := 0; i < 300; i++ {
			n := o.Rng.Intn(1_000_000)
			w := int(o.Rng.Int63n(1 << 62))
			if i%3 == 0 {
				w = o.Rng.Intn(n + 2)
			}
			list := make([]string, n)
			sh := c12Helper(w, true)
			r := sh.GetRequiredWaitSlaveCount(list)
			q := sh.GetFailoverQuorum(list)
			rq = append(rq, vk.T(vk.Z(int64(n)), vk.Z(int64(w)), vk.Z(int64(r)), vk.Z(int64(q))))
			in := c12In{Kind: "rq", N: n, W: w}
			c12Monitor(m, in)
			m.Cases["c12_rq"] = append(m.Cases["c12_rq"], in)
			m.Evaluations++
			m.Count("random_large")
		}
	}
	// history: the same helper asked about another list first
	hn, hw := 14, 6
	if o.Thorough() {
		hn, hw = 40, 12
	}
	for n0 := 0; n0 <= hn; n0++ {
		for n := 0; n <= hn; n++ {
			for w := 0; w <= hw; w++ {
				in := c12In{Kind: "hist", N0: n0, N: n, W: w}
				c12Monitor(m, in)
				m.Evaluations++
				m.Count("history")
			}
		}
	}
	// sharded: one very long list literal overflows coqc's parser stack
	for i := 0; i*8000 < len(rq); i++ {
		o.CasesFile(fmt.Sprintf("c12_rq_%02d", i), []string{"Corr.C12"}, "Z * Z * Z * Z", rq[i*8000:min(len(rq), (i+1)*8000)], "mismatches_rq")
		if all := m.Cases["c12_rq"]; len(all) == len(rq) {
			m.Cases[fmt.Sprintf("c12_rq_%02d", i)] = all[i*8000 : min(len(rq), (i+1)*8000)]
		}
	}
	delete(m.Cases, "c12_rq")
	// table 2: (semisync, n, w, p, ok)
	var ck []string
	cn, cw := 30, 4
	if o.Thorough() {
		cn, cw = 60, 5
	}
	for _, semi := range []bool{true, false} {
		for n := 0; n <= cn; n++ {
			list := make([]string, n)
			for w := 0; w <= cw; w++ {
				sh := c12Helper(w, semi)
				for p := 0; p <= n+1; p++ {
					ok := sh.CheckFailoverQuorum(list, p) == nil
					ck = append(ck, vk.T(vk.B(semi), vk.Z(int64(n)), vk.Z(int64(w)), vk.Z(int64(p)), vk.B(ok)))
					in := c12In{Kind: "check", N: n, W: w, P: p, SemiSync: semi}
					c12Monitor(m, in)
					m.Cases["c12_check"] = append(m.Cases["c12_check"], in)
					m.Evaluations++
					dist.Add(fmt.Sprintf("ck/%v/%v/%d", semi, ok, min(p, 3)))
					if n == 3 && w == 1 && p == 2 {
						m.Sample(map[string]any{"semisync": semi, "n": n, "w": w, "alive": p, "ok": ok})
					}
				}
			}
		}
	}
	for i := 0; i*8000 < len(ck); i++ {
		o.CasesFile(fmt.Sprintf("c12_check_%02d", i), []string{"Corr.C12"}, "bool * Z * Z * Z * bool", ck[i*8000:min(len(ck), (i+1)*8000)], "mismatches_check")
		if all := m.Cases["c12_check"]; len(all) == len(ck) {
			m.Cases[fmt.Sprintf("c12_check_%02d", i)] = all[i*8000 : min(len(ck), (i+1)*8000)]
		}
	}
	delete(m.Cases, "c12_check")
	m.Exhaustive = true
	m.DistinctNontrivial = dist.Len()
	m.Rule = fmt.Sprintf("complete grid n,w in 0..%d for GetRequiredWaitSlaveCount/GetFailoverQuorum and (semi-sync x n<=%d x w<=%d x p<=n+1) for CheckFailoverQuorum through the real SwitchHelper built by NewSwitchHelper; distinct = distinct (required,quorum) result pairs with n>=2,w>=1 plus distinct (mode,verdict,min(p,3)) classes", maxN, cn, cw)
	o.WriteMeta("c12", m)
}
