From Coq Require Import ZArith NArith Bool List.
From Mysync Require Import Gtid.Interval Gtid.GtidSet Base.Prog Base.Config Base.Replay Procs.NodeOps Procs.ActiveNodes Procs.Switchover Corr.Util Corr.C04.
Import ListNotations.
Open Scope Z_scope.

(* (config, env, request, memory, transcript, observed: succeeded?, emerge file written?) *)
Definition sw_case := (config * sw_env * switch_rec * an_mem * list tentry * bool * bool)%type.
Definition ok_sw (c : sw_case) : bool :=
  let '(cfg, env, sw, mem, tr, ok, emerge) := c in
  (* the order in which the position readers deliver their results is not observable: retry with ranks *)
  existsb (fun rank =>
  match replay_r rank (perform_switchover cfg env sw mem) (init_rstate tr 0 []) with
  | RDone (e, _) rs =>
      Bool.eqb ok (match e with SwOk => true | SwErr _ => false end)
      && Bool.eqb emerge (file_get (se_emerge_file env) (r_files rs))
      && match r_rest rs with [] => true | _ => false end
  | _ => false
  end) (rank_candidates (map fst (se_all_hosts env))).
Definition mismatches_sw := mismatches ok_sw.
Definition sw_sites (cs : list sw_case) : list Z :=
  nodup Z.eq_dec (flat_map (fun c : sw_case =>
    let '(cfg, env, sw, mem, tr, ok, emerge) := c in
    match replay (perform_switchover cfg env sw mem) (init_rstate tr 0 []) with
    | RDone _ rs => r_sites rs | RPanic _ rs => r_sites rs | RMismatch _ _ _ rs => r_sites rs
    end) cs).
Definition sw_exits (cs : list sw_case) : list Z :=
  nodup Z.eq_dec (flat_map (fun c : sw_case =>
    let '(cfg, env, sw, mem, tr, ok, emerge) := c in
    match replay (perform_switchover cfg env sw mem) (init_rstate tr 0 []) with
    | RDone (SwErr n, _) _ => [n] | RDone (SwOk, _) _ => [0] | RPanic s _ => [- s] | RMismatch _ _ _ _ => [-1]
    end) cs).
