From Coq Require Import ZArith NArith Bool List.
From Mysync Require Import Gtid.Interval Gtid.GtidSet Base.Prog Base.Config Base.Replay Procs.NodeOps Procs.DiskGuard Corr.Util.
Import ListNotations.
Open Scope Z_scope.

Definition guard_case := (config * host * node_state * list (host * node_state) * list tentry)%type.
Definition ok_guard (c : guard_case) : bool :=
  let '(cfg, master, ms, states, tr) := c in
  match replay (repair_read_only_on_master cfg master ms states) (init_rstate tr 0 []) with
  | RDone _ rs => match r_rest rs with [] => true | _ => false end
  | _ => false
  end.
Definition mismatches_guard := mismatches ok_guard.
