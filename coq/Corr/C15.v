From Coq Require Import ZArith NArith Bool List.
From Mysync Require Import Dcs.ZkModel Corr.Util.
Import ListNotations.
Open Scope Z_scope.

Definition zval_eqb (a b : zval) : bool :=
  match a, b with
  | ZJson x, ZJson y => x =? y
  | ZOwner x, ZOwner y => N.eqb x y
  | ZGarbage, ZGarbage | ZEmpty, ZEmpty => true
  | _, _ => false
  end.
Fixpoint segs_eqb (a b : list seg) : bool :=
  match a, b with [], [] => true | x :: a', y :: b' => N.eqb x y && segs_eqb a' b' | _, _ => false end.
Fixpoint insert_seg (x : seg) (l : list seg) : list seg :=
  match l with [] => [x] | y :: r => if N.leb x y then x :: l else y :: insert_seg x r end.
Definition sort_segs (l : list seg) : list seg := fold_right insert_seg [] l.
Definition zres_eqb (a b : zres) : bool :=
  match a, b with
  | ZOk, ZOk | ZExists, ZExists | ZNotFound, ZNotFound | ZMalformed, ZMalformed | ZErr, ZErr => true
  | ZBool x, ZBool y => Bool.eqb x y
  | ZData x, ZData y => zval_eqb x y
  | ZChildren x, ZChildren y => segs_eqb (sort_segs x) (sort_segs y)
  | _, _ => false
  end.
Fixpoint all_eqb (a b : list zres) : bool :=
  match a, b with [] , [] => true | x :: a', y :: b' => zres_eqb x y && all_eqb a' b' | _, _ => false end.

(* (lock cache TTL in ms, clients, operations, observed results) *)
Definition zk_case := (Z * list N * list zop * list zres)%type.
Definition ok_zk (c : zk_case) : bool :=
  let '(ttl, clients, ops, obs) := c in all_eqb (snd (zrun (zinit ttl clients) ops)) obs.
Definition mismatches_zk := mismatches ok_zk.

(* index of the first differing result, for debugging *)
Fixpoint first_diff (a b : list zres) (i : nat) : option (nat * option zres * option zres) :=
  match a, b with
  | [], [] => None
  | x :: a', y :: b' => if zres_eqb x y then first_diff a' b' (S i) else Some (i, Some x, Some y)
  | x :: _, [] => Some (i, Some x, None)
  | [], y :: _ => Some (i, None, Some y)
  end.
