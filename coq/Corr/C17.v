From Coq Require Import ZArith NArith Bool List.
From Mysync Require Import Gtid.Interval Gtid.GtidSet Base.Prog Base.Config Base.Replay Procs.NodeOps Procs.ActiveNodes Procs.OfflineMode Corr.Util.
Import ListNotations.
Open Scope Z_scope.

(* The iteration order of Go's map is not observable for hosts that issue no
   host-specific call; the harness lists the candidate orders consistent with
   what was observed and the model must replay under one of them. *)
Definition off_case := (config * off_env * list (list host) * list tentry * Z)%type.
Definition with_order (env : off_env) (o : list host) : off_env :=
  {| oe_master := oe_master env; oe_state := oe_state env; oe_order := o; oe_zone := oe_zone env |}.
Definition ok_off (c : off_case) : bool :=
  let '(cfg, env, orders, tr, t0) := c in
  existsb (fun o =>
    match replay (repair_offline_mode cfg (with_order env o)) (init_rstate tr t0 []) with
    | RDone _ rs => match r_rest rs with [] => true | _ => false end
    | _ => false
    end) orders.
Definition mismatches_off := mismatches ok_off.
