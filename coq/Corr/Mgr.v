From Coq Require Import ZArith NArith Bool List.
From Mysync Require Import Gtid.Interval Gtid.GtidSet Base.Prog Base.Config Base.Replay Procs.NodeOps Procs.ActiveNodes Procs.Switchover Procs.Repair Procs.Manager Corr.Util Corr.C04.
Import ListNotations.
Open Scope Z_scope.

Definition next_eqb (a b : mgr_next) : bool :=
  match a, b with NxManager, NxManager | NxCandidate, NxCandidate | NxLost, NxLost | NxMaintenance, NxMaintenance => true | _, _ => false end.
Definition drained (rs : rstate) : bool := match r_rest rs with [] => true | _ => false end.
Definition nonzero (l : list (host * Z)) : list (host * Z) := filter (fun '(_, t) => negb (t =? 0)) l.

(* (config, env, memory before, transcript, t0, files, observed next state, failure clocks after,
    panicked?, emerge file after, maintenance file after) *)
Definition with_morder (env : mgr_env) (o : list host) : mgr_env :=
  {| me_uuid_of := me_uuid_of env; me_repair_order := o; me_offline_order := o; me_zone := me_zone env |}.
(* which state handler ran: 0 stateManager, 1 stateCandidate, 2 stateMaintenance *)
Definition handler (tag : Z) (cfg : config) (env : mgr_env) (mem : mgr_mem) : prog (gate_res * mgr_mem) :=
  if tag =? 0 then manager_gates cfg env mem
  else if tag =? 1 then (r <- state_candidate mem ;; Ret (GNext (fst r), snd r))
  else (r <- state_maintenance cfg env mem ;; Ret (GNext (fst r), snd r)).
Definition mgr_case := (Z * config * mgr_env * list (list host) * mgr_mem * list tentry * Z * list (N * bool) * mgr_next * list (host * Z) * bool * bool * bool)%type.
Definition ok_mgr (c : mgr_case) : bool :=
  let '(tag, cfg, env0, orders, mem, tr, t0, files, next, fa, panicked, emerge, maint) := c in
  existsb (fun rank =>
  existsb (fun o => let env := with_morder env0 o in
  match replay_r rank (handler tag cfg env mem) (init_rstate tr t0 files) with
  | RDone (GNext n, m') rs =>
      negb panicked && next_eqb n next && drained rs && hostz_eqb (nonzero (am_failed_at (mm_an m'))) fa &&
      Bool.eqb (file_get f_emerge (r_files rs)) emerge && Bool.eqb (file_get f_maintenance (r_files rs)) maint
  | RDone (GTail tc, m') rs =>
      (* the tail is replayed by the correspondence checks of its procedures (C04, C10, C17, C19) *)
      (panicked || next_eqb NxManager next) &&
      (match assoc (tc_master tc) fa with Some t => failed_at m' (tc_master tc) =? t | None => failed_at m' (tc_master tc) =? 0 end)
  | RPanic _ rs => panicked && drained rs
  | _ => false
  end) orders) (rank_candidates (map fst (me_uuid_of env0))).
Definition mismatches_mgr := mismatches ok_mgr.

(* an iteration that was cut short (the process died before one of its calls): every call it did make
   is, in order, the model's call; the model then asks for a call the transcript no longer has *)
Definition ok_mgr_prefix (c : mgr_case) : bool :=
  let '(tag, cfg, env0, orders, mem, tr, t0, files, next, fa, panicked, emerge, maint) := c in
  existsb (fun rank =>
  existsb (fun o => let env := with_morder env0 o in
  match replay_prefix_r rank (handler tag cfg env mem) (init_rstate tr t0 files) with
  | PBlocked rs => drained rs
  | PDone (GNext _, _) rs => drained rs
  | PDone (GTail _, _) _ => true
  | PPanic _ rs => drained rs
  | PBad _ _ _ _ => false
  end) orders) (rank_candidates (map fst (me_uuid_of env0))).
Definition mismatches_mgr_prefix := mismatches ok_mgr_prefix.

Definition mgr_exit (c : mgr_case) : Z :=
  let '(tag, cfg, env, orders, mem, tr, t0, files, next, fa, panicked, emerge, maint) := c in
  match replay (handler tag cfg env mem) (init_rstate tr t0 files) with
  | RDone (GNext _, _) rs => match r_sites rs with s :: _ => s | [] => 0 end
  | RDone (GTail _, _) _ => 1
  | RPanic s _ => - s
  | RMismatch s _ _ _ => - 1000000 - s
  end.
