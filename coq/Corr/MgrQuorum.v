(* K1: the real App.checkQuorum (first call, loss clock unset) against manager_lost_quorum *)
From Coq Require Import ZArith NArith Bool List.
From Mysync Require Import Gtid.Interval Gtid.GtidSet Base.Prog Procs.ActiveNodes Procs.MgrQuorum Corr.Util.
Import ListNotations.
Definition mq_case := (list host * list (host * node_state) * list (host * node_state) * bool)%type.
Definition ok_mq (c : mq_case) : bool := let '(ha, db, dcs, lost) := c in Bool.eqb (manager_lost_quorum ha db dcs) lost.
Definition mismatches_mq := mismatches ok_mq.

(* K1: the HA counts of util.go *)
From Mysync Require Import Base.Config Procs.NodeOps Procs.Switchover Procs.Repair Procs.Manager.
Open Scope Z_scope.
(* (node list, cluster state, HA nodes, running HA replicas, alive HA replicas within the list, dubious HA hosts sorted) *)
Definition cnt_case := (list host * list (host * node_state) * Z * Z * Z * list host)%type.
Definition ok_cnt (c : cnt_case) : bool :=
  let '(nodes, cs, ha, running, within, dub) := c in
  (count_ha_nodes cs =? ha) && (count_running_ha_slaves cs =? running) && (count_alive_ha_slaves_within nodes cs =? within) &&
  (if list_eq_dec N.eq_dec (dubious_ha_hosts cs) dub then true else false).
Definition mismatches_cnt := mismatches ok_cnt.
