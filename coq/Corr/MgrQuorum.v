(* K1: the real App.checkQuorum (first call, loss clock unset) against manager_lost_quorum *)
From Coq Require Import ZArith NArith Bool List.
From Mysync Require Import Gtid.Interval Gtid.GtidSet Base.Prog Procs.ActiveNodes Procs.MgrQuorum Corr.Util.
Import ListNotations.
Definition mq_case := (list host * list (host * node_state) * list (host * node_state) * bool)%type.
Definition ok_mq (c : mq_case) : bool := let '(ha, db, dcs, lost) := c in Bool.eqb (manager_lost_quorum ha db dcs) lost.
Definition mismatches_mq := mismatches ok_mq.
