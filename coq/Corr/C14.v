(* K1 correspondence for C14: getMostDesirableNode after filterOutNodeFromPositions. *)
From Coq Require Import ZArith NArith Bool List.
From Mysync Require Import Gtid.Interval Gtid.GtidSet Pure.Desirable Corr.Util Corr.C13.
Import ListNotations.
Open Scope Z_scope.

(* ((host, preset, lag, priority) list, bound, from (0 = no filtering), observed host or None = error) *)
Definition des_case := (list (N * preset * Z * Z) * Z * N * option N)%type.
Definition mk_des_positions (l : list (N * preset * Z * Z)) : list position :=
  map (fun '(h, p, lag, pr) => {| p_host := h; p_set := build_set p; p_lag := lag; p_prio := pr |}) l.
Definition ok_des (c : des_case) : bool :=
  let '(l, bound, from, obs) := c in
  let ps := mk_des_positions l in
  let ps' := if N.eqb from 0 then ps else filter_out_host ps from in
  match most_desirable (S (length ps')) ps' bound, obs with
  | DesNotFound, None => true
  | DesFound h, Some h' => N.eqb h h'
  | _, _ => false
  end.
Definition mismatches_des := mismatches ok_des.
