(* K2 correspondence for C08: replay the transcript of the real App.stateLost
   through Procs/Lost.v. *)
From Coq Require Import ZArith NArith Bool List.
From Mysync Require Import Gtid.Interval Gtid.GtidSet Base.Prog Base.Config Base.Replay Procs.NodeOps Procs.Lost Corr.Util.
Import ListNotations.
Open Scope Z_scope.

Definition app_state_eqb (a b : app_state) : bool :=
  match a, b with
  | StFirstRun, StFirstRun | StManager, StManager | StCandidate, StCandidate | StLost, StLost | StMaintenance, StMaintenance => true
  | _, _ => false
  end.
Definition optz_eqb (a b : option Z) : bool :=
  match a, b with Some x, Some y => x =? y | None, None => true | _, _ => false end.

(* (config, env, transcript, observed next state, observed loss clock) *)
Definition lost_case := (config * lost_env * list tentry * app_state * option Z)%type.

Definition ok_lost (c : lost_case) : bool :=
  let '(cfg, env, tr, st, la) := c in
  match replay (state_lost cfg env) (init_rstate tr 0 []) with
  | RDone (st', la') rs => app_state_eqb st st' && optz_eqb la la' && match r_rest rs with [] => true | _ => false end
  | _ => false
  end.
Definition mismatches_lost := mismatches ok_lost.

Definition lost_sites (cs : list lost_case) : list Z :=
  nodup Z.eq_dec (flat_map (fun c : lost_case =>
    let '(cfg, env, tr, st, la) := c in
    match replay (state_lost cfg env) (init_rstate tr 0 []) with
    | RDone _ rs => r_sites rs | RPanic _ rs => r_sites rs | RMismatch _ _ _ rs => r_sites rs
    end) cs).
