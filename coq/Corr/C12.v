(* K1 correspondence for C12: tables observed on the real SwitchHelper vs the
   GENERATED definitions and the hand-written Pure/Quorum.v. *)
From Coq Require Import ZArith NArith Bool List.
From Mysync Require Import Generated.SwitchHelperGen Pure.Quorum Corr.Util.
Import ListNotations.
Open Scope Z_scope.

Definition ok_rq (c : Z * Z * Z * Z) : bool :=
  let '(n, w, r, q) := c in
  let sh := {| sh_w := w; sh_semisync := true |} in
  (SwitchHelperGen.required_wsc sh n =? r) && (SwitchHelperGen.failover_quorum sh n =? q)
  && (Quorum.required_wsc w n =? r) && (Quorum.failover_quorum w n =? q).
Definition mismatches_rq := mismatches ok_rq.

Definition ok_check (c : bool * Z * Z * Z * bool) : bool :=
  let '(semi, n, w, p, ok) := c in
  let sh := {| sh_w := w; sh_semisync := semi |} in
  Bool.eqb (SwitchHelperGen.check_quorum sh n p) ok && Bool.eqb (Quorum.check_quorum semi w n p) ok.
Definition mismatches_check := mismatches ok_check.
