(* K4: the world model's server against the fake MySQL server of the harness.  The harness drives one fake server
   through sequences of the real mysql.Node methods (so the statements are the real query strings) and records every
   statement with its answer; the same statements are fed to [srv_step] from the same initial state and every answer
   is compared. *)
From Coq Require Import ZArith NArith Bool List.
From Mysync Require Import Gtid.Interval Gtid.GtidSet Base.Prog Base.Replay Env.World Corr.Util.
Import ListNotations.
Open Scope Z_scope.

Definition err_same (a b : err) : bool :=
  match a, b with
  | EDeadline, EDeadline | ELockWait, ELockWait | EConn, EConn | ENotFound, ENotFound | EExists, EExists | EMalformed, EMalformed | EOther, EOther => true
  | EMysql x, EMysql y => x =? y
  | _, _ => false
  end.
Definition optz_same (a b : option Z) : bool := match a, b with Some x, Some y => x =? y | None, None => true | _, _ => false end.
Definition status_same (a b : repl_status) : bool :=
  N.eqb (rs_source a) (rs_source b) && Bool.eqb (rs_io a) (rs_io b) && Bool.eqb (rs_sql a) (rs_sql b) &&
  (rs_io_errno a =? rs_io_errno b) && (rs_sql_errno a =? rs_sql_errno b) && optz_same (rs_lag a) (rs_lag b) &&
  set_equal (rs_executed a) (rs_executed b) && set_equal (rs_retrieved a) (rs_retrieved b) && N.eqb (rs_file a) (rs_file b) && (rs_pos a =? rs_pos b).
Definition resp_same (a b : resp) : bool :=
  match a, b with
  | ROk, ROk => true
  | RErr x, RErr y => err_same x y
  | RBool x, RBool y => Bool.eqb x y
  | RFlags a1 a2, RFlags b1 b2 => Bool.eqb a1 b1 && Bool.eqb a2 b2
  | RSemi m1 s1 w1, RSemi m2 s2 w2 => Bool.eqb m1 m2 && Bool.eqb s1 s2 && (w1 =? w2)
  | RRepl None, RRepl None => true
  | RRepl (Some x), RRepl (Some y) => status_same x y
  | RGtid x, RGtid y => set_equal x y
  | RZ2 a1 a2, RZ2 b1 b2 => (a1 =? b1) && (a2 =? b2)
  | RIds x, RIds y => Nat.eqb (length x) (length y)
  | _, _ => false
  end.

(* (subject host, initial server, statements with their observed answers) *)
Definition world_case := (host * srv * list tentry)%type.
Fixpoint agree (h : host) (s : srv) (tr : list tentry) : bool :=
  match tr with
  | [] => true
  | e :: r =>
      match te_call e with
      | Sql h' st => if N.eqb h' h then let '(s', x) := srv_step s st in resp_same x (te_resp e) && agree h s' r else agree h s r
      | _ => agree h s r
      end
  end.
Definition ok_world (c : world_case) : bool := let '(h, s, tr) := c in agree h s tr.
Definition mismatches_world := mismatches ok_world.
