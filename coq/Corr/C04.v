From Coq Require Import ZArith NArith Bool List.
From Mysync Require Import Gtid.Interval Gtid.GtidSet Base.Prog Base.Config Base.Replay Procs.NodeOps Procs.ActiveNodes Corr.Util.
Import ListNotations.
Open Scope Z_scope.

Definition hostz_eqb (a b : list (host * Z)) : bool :=
  (Nat.eqb (length a) (length b)) && forallb (fun '(h, z) => match assoc h b with Some z' => z =? z' | None => false end) a.
Definition hostpos_eqb (a b : list (host * (N * Z))) : bool :=
  (Nat.eqb (length a) (length b)) && forallb (fun '(h, (f, p)) => match assoc h b with Some (f', p') => N.eqb f f' && (p =? p') | None => false end) a.

(* (config, env, memory before, transcript, observed error?, memory after) *)
Definition an_case := (config * an_env * an_mem * list tentry * bool * an_mem)%type.
Definition ok_an (c : an_case) : bool :=
  let '(cfg, env, mem, tr, failed, mem') := c in
  match replay (update_active_nodes cfg env mem) (init_rstate tr 0 []) with
  | RDone (e, m) rs =>
      Bool.eqb failed (match e with AnOk => false | AnFail _ => true end)
      && hostz_eqb (am_failed_at m) (am_failed_at mem') && hostpos_eqb (am_positions m) (am_positions mem')
      && match r_rest rs with [] => true | _ => false end
  | _ => false
  end.
Definition mismatches_an := mismatches ok_an.
Definition an_sites (cs : list an_case) : list Z :=
  nodup Z.eq_dec (flat_map (fun c : an_case =>
    let '(cfg, env, mem, tr, failed, mem') := c in
    match replay (update_active_nodes cfg env mem) (init_rstate tr 0 []) with
    | RDone _ rs => r_sites rs | RPanic _ rs => r_sites rs | RMismatch _ _ _ rs => r_sites rs
    end) cs).
