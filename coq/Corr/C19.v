From Coq Require Import ZArith NArith Bool List.
From Mysync Require Import Gtid.Interval Gtid.GtidSet Base.Prog Base.Config Base.Replay Procs.NodeOps Procs.ActiveNodes Procs.Switchover Procs.Optimization Corr.Util.
Import ListNotations.
Open Scope Z_scope.

Definition drained (rs : rstate) : bool := match r_rest rs with [] => true | _ => false end.
Definition oerr_code (e : oerr) : Z := match e with None => 0 | Some _ => 1 end.

(* (env, kind, host, transcript, t0, observed) kind: 0 Sync, 1 Enable host, 2 Disable host;
   observed: 0 nil, 1 error, 2 panic *)
Definition opt_case := (opt_env * Z * host * list tentry * Z * Z)%type.
Definition ok_opt (c : opt_case) : bool :=
  let '(env, kind, h, tr, t0, obs) := c in
  let p := if kind =? 0 then opt_sync env else if kind =? 1 then opt_enable h else opt_disable_one (ov_master env) h in
  match replay p (init_rstate tr t0 []) with
  | RDone e rs => (oerr_code e =? obs) && drained rs
  | RPanic _ rs => (obs =? 2) && drained rs
  | _ => false
  end.
Definition mismatches_opt := mismatches ok_opt.

(* controller.Wait: (low mark seconds, host, deadline, transcript, t0, observed) *)
Definition wait_case := (Z * host * Z * list tentry * Z * Z)%type.
Definition ok_wait (c : wait_case) : bool :=
  let '(low, h, deadline, tr, t0, obs) := c in
  match replay (opt_wait 400 (low * sec) h deadline 0) (init_rstate tr t0 []) with
  | RDone e rs => (oerr_code e =? obs) && drained rs
  | _ => false
  end.
Definition mismatches_wait := mismatches ok_wait.

(* the pre-switchover phase, by goroutine: (config, env, request, active, timeout,
   prefix transcript, waiter's transcript, syncer's transcript, t0, target observed (0 = none)) *)
Definition phase_case := (config * opt_env * switch_rec * list host * Z * list tentry * list tentry * list tentry * Z * host)%type.
Definition ok_phase (c : phase_case) : bool :=
  let '(cfg, env, sw, active, timeout, tr_pre, tr_wait, tr_sync, t0, target) := c in
  match replay (phase_prefix cfg env sw active) (init_rstate tr_pre t0 []) with
  | RDone None rs => drained rs && N.eqb target 0 && match tr_wait, tr_sync with [], [] => true | _, _ => false end
  | RDone (Some t) rs =>
      drained rs && N.eqb t target &&
      let t1 := r_clock rs in
      match replay (wait_branch 400 env t (t1 + timeout)) (init_rstate tr_wait t1 []) with
      | RDone _ rs1 => drained rs1
      | _ => false
      end &&
      match replay (syncer_loop 400 env) (init_rstate tr_sync t1 []) with
      | RDone _ rs2 => drained rs2
      | _ => false
      end
  | _ => false
  end.
Definition mismatches_phase := mismatches ok_phase.
