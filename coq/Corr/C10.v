From Coq Require Import ZArith NArith Bool List.
From Mysync Require Import Gtid.Interval Gtid.GtidSet Base.Prog Base.Config Base.Replay Procs.NodeOps Procs.ActiveNodes Procs.Repair Pure.Desirable Corr.Util Corr.C04.
Import ListNotations.
Open Scope Z_scope.

Definition repair_state_eqb (a b : repair_state) : bool :=
  (rp_last_attempt a =? rp_last_attempt b) && (rp_start_count a =? rp_start_count b) && (rp_reset_count a =? rp_reset_count b).
Definition repair_mem_eqb (a b : repair_mem) : bool :=
  (Nat.eqb (length (rm_repair a)) (length (rm_repair b))) &&
  forallb (fun '(h, st) => match assoc h (rm_repair b) with Some st' => repair_state_eqb st st' | None => false end) (rm_repair a) &&
  hostz_eqb (rm_stream_failed_at a) (rm_stream_failed_at b).

Definition with_rorder (env : repair_env) (o : list host) : repair_env :=
  {| re_master := re_master env; re_state := re_state env; re_state_dcs := re_state_dcs env; re_order := o;
     re_uuid_of := re_uuid_of env; re_emerge_file := re_emerge_file env |}.

(* (config, env, candidate orders, memory before, transcript, memory after, emerge file written?) *)
(* ... , observed panic?) *)
Definition repair_case := (config * repair_env * list (list host) * repair_mem * list tentry * repair_mem * bool * Z * bool)%type.
Definition ok_repair (c : repair_case) : bool :=
  let '(cfg, env, orders, mem, tr, mem', emerge, t0, panicked) := c in
  existsb (fun o =>
    match replay (repair_cluster cfg (with_rorder env o) mem) (init_rstate tr t0 []) with
    | RDone m rs => negb panicked && repair_mem_eqb m mem' && Bool.eqb emerge (file_get (re_emerge_file env) (r_files rs)) && match r_rest rs with [] => true | _ => false end
    | RPanic _ rs => panicked && match r_rest rs with [] => true | _ => false end
    | _ => false
    end) orders.
Definition mismatches_repair := mismatches ok_repair.

(* K1 for the resolver: (config, env, topology, self, observed result) *)
Definition resolver_case := (config * repair_env * list (host * option host) * host * host)%type.
Definition ok_resolver (c : resolver_case) : bool :=
  let '(cfg, env, topo, self, obs) := c in
  match replay (find_best_stream_from (S (S (length topo))) cfg env topo self [self]) (init_rstate [] 0 []) with
  | RDone r _ => N.eqb r obs
  | _ => false
  end.
Definition mismatches_resolver := mismatches ok_resolver.
