From Coq Require Import NArith List Bool.
Import ListNotations.

(* indices (from 0) of the cases on which [ok] is false *)
Fixpoint mismatches_from {A} (ok : A -> bool) (i : N) (l : list A) : list N :=
  match l with
  | [] => []
  | x :: r => if ok x then mismatches_from ok (N.succ i) r else i :: mismatches_from ok (N.succ i) r
  end.
Definition mismatches {A} (ok : A -> bool) (l : list A) : list N := mismatches_from ok 0%N l.

