(* K1 correspondence for C13 (and the position helpers shared with C14). *)
From Coq Require Import ZArith NArith Bool List.
From Mysync Require Import Gtid.Interval Gtid.GtidSet Corr.Util.
Import ListNotations.
Open Scope Z_scope.

(* what the harness writes into a GTID string: (uuid, tag, closed intervals in
   any order, possibly overlapping / repeated sections) *)
Definition pre_entry := (N * N * list (Z * Z))%type.
Definition preset := list pre_entry.

Fixpoint upsert {V} (k : N) (f : option V -> V) (m : list (N * V)) : list (N * V) :=
  match m with
  | [] => [(k, f None)]
  | (k', v) :: r => if N.eqb k k' then (k', f (Some v)) :: r else (k', v) :: upsert k f r
  end.
Definition closed_to_half (l : list (Z * Z)) : islice := map (fun '(a, b) => (a, b + 1)) l.
Definition add_entry (s : list (N * list (N * islice))) (e : pre_entry) :=
  let '(u, t, ivs) := e in
  upsert u (fun otm => upsert t (fun osl => match osl with None => closed_to_half ivs | Some sl => sl ++ closed_to_half ivs end)
                              (match otm with None => [] | Some tm => tm end)) s.
Definition build_set (p : preset) : gtidset :=
  map (fun '(u, tm) => (u, map (fun '(t, sl) => (t, normalize sl)) tm)) (fold_left add_entry p []).

(* dumped Go structure: (uuid, tag, half-open intervals as stored) *)
Definition dump := list (N * N * list (Z * Z)).
Definition of_dump (d : dump) : gtidset :=
  fold_left (fun s '(u, t, ivs) => upsert u (fun otm => upsert t (fun _ => ivs) (match otm with None => [] | Some tm => tm end)) s) d [].

Definition struct_eq (a b : gtidset) : bool := wfb a && wfb b && set_equal a b && set_equal b a.

Definition kind_code (k : diff_kind) : Z :=
  match k with DiffEqual => 0 | DiffSourceAhead => 1 | DiffSplitBrain => 2 | DiffReplicaAhead => 3 end.

Record pair_case := {
  pc_a : preset; pc_b : preset; pc_mu : N;
  pc_da : dump; pc_db : dump;
  pc_behind : bool; pc_ahead : bool; pc_split : bool;
  pc_kind : Z; pc_ds : dump; pc_dr : dump;
  pc_contain_ba : bool; pc_equal : bool }.

(* a = replica/slave, b = source/master *)
Definition ok_pair (c : pair_case) : bool :=
  let a := build_set (pc_a c) in
  let b := build_set (pc_b c) in
  let '(k, ds, dr) := gtid_diff a b in
  struct_eq a (of_dump (pc_da c)) && struct_eq b (of_dump (pc_db c))
  && Bool.eqb (behind_or_equal a b) (pc_behind c)
  && Bool.eqb (slave_ahead a b) (pc_ahead c)
  && Bool.eqb (split_brained a b (pc_mu c)) (pc_split c)
  && (kind_code k =? pc_kind c)
  && (if is_empty ds then is_empty (of_dump (pc_ds c)) else struct_eq ds (of_dump (pc_ds c)))
  && (if is_empty dr then is_empty (of_dump (pc_dr c)) else struct_eq dr (of_dump (pc_dr c)))
  && Bool.eqb (set_contain b a) (pc_contain_ba c)
  && Bool.eqb (set_equal b a) (pc_equal c).
Definition mismatches_pair := mismatches ok_pair.

(* positions: (host, preset, lag); observed: None = split brain, Some (host, dump) *)
Definition pos_case := (list (N * preset * Z) * option (N * dump))%type.
Definition mk_positions (l : list (N * preset * Z)) : list position :=
  map (fun '(h, p, lag) => {| p_host := h; p_set := build_set p; p_lag := lag; p_prio := 0 |}) l.
Definition ok_pos (c : pos_case) : bool :=
  let '(l, obs) := c in
  match most_recent (mk_positions l), obs with
  | RecentSplitBrain, None => true
  | RecentFound h s, Some (h', d) => N.eqb h h' && (if is_empty s then is_empty (of_dump d) else struct_eq s (of_dump d))
  | _, _ => false
  end.
Definition mismatches_pos := mismatches ok_pos.
