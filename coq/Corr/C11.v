From Coq Require Import ZArith NArith Bool List.
From Mysync Require Import Gtid.Interval Gtid.GtidSet Base.Prog Base.Config Base.Replay Procs.NodeOps Procs.ActiveNodes Procs.Switchover Procs.Repair Procs.Manager Procs.Recovery Corr.Util.
Import ListNotations.
Open Scope Z_scope.

Definition drained (rs : rstate) : bool := match r_rest rs with [] => true | _ => false end.
(* (me, memory, stuck clock before, transcript, t0, files, stuck clock after, resetup file after, panicked) *)
Definition rec_case := (host * mgr_mem * Z * list tentry * Z * list (N * bool) * Z * bool * bool)%type.
Definition ok_rec (c : rec_case) : bool :=
  let '(me, mem, clk, tr, t0, files, clk', file', panicked) := c in
  match replay (check_recovery me mem clk) (init_rstate tr t0 files) with
  | RDone (c2, _) rs => negb panicked && (c2 =? clk') && drained rs && Bool.eqb (file_get f_resetup (r_files rs)) file'
  | RPanic _ rs => panicked && drained rs
  | _ => false
  end.
Definition mismatches_rec := mismatches ok_rec.

(* App.SetRecovery: (host, transcript, returned nil?) *)
Definition mark_case := (host * list tentry * bool)%type.
Definition ok_mark (c : mark_case) : bool :=
  let '(h, tr, ok) := c in
  match replay (set_recovery h) (init_rstate tr 0 []) with
  | RDone e rs => Bool.eqb (match e with None => true | Some _ => false end) ok && drained rs
  | _ => false
  end.
Definition mismatches_mark := mismatches ok_mark.
