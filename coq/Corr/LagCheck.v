(* K2: the real LagResetupper.CheckNeedResetup against lag_check *)
From Coq Require Import ZArith NArith Bool List.
From Mysync Require Import Gtid.Interval Gtid.GtidSet Base.Prog Base.Config Base.Replay Procs.NodeOps Procs.ActiveNodes Procs.Switchover Procs.Repair Procs.Manager Procs.LagCheck Corr.Util.
Import ListNotations.
Open Scope Z_scope.
(* (bound, local, memory, transcript, verdict, panicked) *)
Definition lag_case := (Z * host * mgr_mem * list tentry * bool * bool)%type.
Definition ok_lag (c : lag_case) : bool :=
  let '(bound, me, mem, tr, verdict, panicked) := c in
  match replay (lag_check bound me mem) (init_rstate tr 0 []) with
  | RDone (v, _) rs => negb panicked && Bool.eqb v verdict && match r_rest rs with [] => true | _ => false end
  | RPanic _ rs => panicked
  | _ => false
  end.
Definition mismatches_lag := mismatches ok_lag.
