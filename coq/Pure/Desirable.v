(* Model of internal/app/util.go getMostPriorityNode / getMostDesirableNode /
   filterOutNodeFromPositions.  Lags and the bound are whole seconds (Z); the
   harness only generates integer lags, exact in float64. *)
From Coq Require Import ZArith NArith Bool List.
From Mysync Require Import Gtid.Interval Gtid.GtidSet.
Import ListNotations.
Open Scope Z_scope.

Definition prio_step (mx p : position) : position :=
  if p_prio mx <? p_prio p then p
  else if p_prio mx =? p_prio p then
    (if set_equal (p_set p) (p_set mx) then (if p_lag p <? p_lag mx then p else mx)
     else if set_contain (p_set p) (p_set mx) then p else mx)
  else mx.

Definition most_priority (ps : list position) : option position :=
  match ps with
  | [] => None
  | p0 :: r => Some (fold_left prio_step r p0)
  end.

Inductive desirable_result := DesNotFound | DesFound (h : N) | DesFuel.

(* the Go function recurses on the strictly "much fresher" candidates; fuel is
   only a structural-recursion device: C14_terminates shows length+1 suffices *)
Fixpoint most_desirable (fuel : nat) (ps : list position) (bound : Z) : desirable_result :=
  match fuel with
  | O => DesFuel
  | S f =>
      match most_priority ps with
      | None => DesNotFound
      | Some top =>
          if p_lag top <=? bound then DesFound (p_host top)
          else
            let more := filter (fun n => p_lag n <? p_lag top - bound) ps in
            match more with
            | [] => DesFound (p_host top)
            | _ => most_desirable f more bound
            end
      end
  end.

Definition filter_out_host (ps : list position) (h : N) : list position :=
  filter (fun p => negb (N.eqb (p_host p) h)) ps.
