(* Hand-written model of internal/mysql/switch_helper.go (used by the procedure
   models).  Proofs/QuorumGen.v shows it equal to the translator's output. *)
From Coq Require Import ZArith Bool List.
Open Scope Z_scope.

(* n = length of the active list (the list contains the master), w = configured
   rpl_semi_sync_master_wait_for_slave_count.  Go's int division truncates. *)
Definition required_wsc (w n : Z) : Z := Z.min (Z.quot n 2) w.
Definition failover_quorum (w n : Z) : Z := Z.max (n - required_wsc w n) 1.
(* true = nil error *)
Definition check_quorum (semisync : bool) (w n p : Z) : bool :=
  if semisync then negb (p <? failover_quorum w n) else negb (p =? 0).
