(* Model of go-mysql's MysqlGTIDSet (map uuid -> map tag -> IntervalSlice), of
   mysync's internal/mysql/gtids/{utils,wrapper}.go and of the most-recent-node
   helper of internal/app/util.go.  UUIDs and tags are N (the harness numbers
   them); Go maps are association lists with distinct keys. *)
From Coq Require Import ZArith NArith Bool List Lia.
From Mysync Require Import Gtid.Interval.
Import ListNotations.
Open Scope Z_scope.

Definition tagmap := list (N * islice).
Definition gtidset := list (N * tagmap).

Fixpoint lookup {V : Type} (k : N) (m : list (N * V)) : option V :=
  match m with
  | [] => None
  | (k', v) :: r => if N.eqb k k' then Some v else lookup k r
  end.

(* membership of transaction (uuid u, tag t, number g) *)
Definition gmem (s : gtidset) (u t : N) (g : Z) : bool :=
  match lookup u s with
  | None => false
  | Some tm => match lookup t tm with None => false | Some sl => mem sl g end
  end.

Definition wf_tagmap (tm : tagmap) : Prop :=
  tm <> [] /\ NoDup (map fst tm) /\ forall t sl, In (t, sl) tm -> sl <> [] /\ normalized sl.
(* what ParseGTIDSet produces: distinct uuids, each with >= 1 tag, each tag with a
   non-empty normalized slice *)
Definition wf (s : gtidset) : Prop :=
  NoDup (map fst s) /\ forall u tm, In (u, tm) s -> wf_tagmap tm.

Definition nodupb (l : list N) : bool :=
  (fix go l := match l with [] => true | x :: r => negb (existsb (N.eqb x) r) && go r end) l.
Definition wf_tagmapb (tm : tagmap) : bool :=
  negb (match tm with [] => true | _ => false end) && nodupb (map fst tm) &&
  forallb (fun '(_, sl) => negb (match sl with [] => true | _ => false end) && normalizedb sl) tm.
Definition wfb (s : gtidset) : bool := nodupb (map fst s) && forallb (fun '(_, tm) => wf_tagmapb tm) s.

(* MysqlGTIDSet.Contain *)
Definition tagmap_contain (stm otm : tagmap) : bool :=
  forallb (fun '(t, osl) => match lookup t stm with None => false | Some ssl => slice_contain ssl osl end) otm.
Definition set_contain (s o : gtidset) : bool :=
  forallb (fun '(u, otm) => match lookup u s with None => false | Some stm => tagmap_contain stm otm end) o.

(* MysqlGTIDSet.Equal *)
Definition lookup_or_nil (t : N) (m : tagmap) : islice := match lookup t m with Some sl => sl | None => [] end.
Definition set_equal (s o : gtidset) : bool :=
  Nat.eqb (length s) (length o) &&
  forallb (fun '(u, sm) =>
    match lookup u o with
    | None => false
    | Some om => Nat.eqb (length sm) (length om) && forallb (fun '(t, i) => slice_equal i (lookup_or_nil t om)) sm
    end) s.

(* gtids/utils.go *)
Definition behind_or_equal (slave master : gtidset) : bool := set_contain master slave || set_equal master slave.
Definition slave_ahead (slave master : gtidset) : bool := negb (behind_or_equal slave master).

Definition split_brained (slave master : gtidset) (master_uuid : N) : bool :=
  existsb (fun '(u, stm) =>
    match lookup u master with
    | None => true
    | Some mtm =>
        existsb (fun '(t, ssl) =>
          match lookup t mtm with
          | None => true
          | Some msl => if slice_contain msl ssl then false else negb (N.eqb u master_uuid)
          end) stm
    end) slave.

(* gtids/wrapper.go mysqlGTIDSetMinus *)
Definition filter_map_vals {V W : Type} (f : N -> V -> option W) (m : list (N * V)) : list (N * W) :=
  flat_map (fun '(k, v) => match f k v with None => [] | Some w => [(k, w)] end) m.
Definition nonnil {A : Type} (l : list A) : option (list A) := match l with [] => None | _ => Some l end.
Definition tag_diff (btm : option tagmap) (t : N) (asl : islice) : islice :=
  match btm with
  | None => asl
  | Some bm => match lookup t bm with None => asl | Some bsl => slice_minus asl bsl end
  end.
Definition tagmap_minus (atm : tagmap) (btm : option tagmap) : tagmap :=
  filter_map_vals (fun t asl => nonnil (tag_diff btm t asl)) atm.
Definition set_minus (a b : gtidset) : gtidset :=
  filter_map_vals (fun u atm => nonnil (tagmap_minus atm (lookup u b))) a.

Inductive diff_kind := DiffEqual | DiffSourceAhead | DiffSplitBrain | DiffReplicaAhead.
Definition is_empty (s : gtidset) : bool := match s with [] => true | _ => false end.
(* GTIDDiff: (kind, source \ replica, replica \ source) *)
Definition gtid_diff (replica source : gtidset) : diff_kind * gtidset * gtidset :=
  let ds := set_minus source replica in
  let dr := set_minus replica source in
  ((if is_empty ds then (if is_empty dr then DiffEqual else DiffReplicaAhead)
    else (if is_empty dr then DiffSourceAhead else DiffSplitBrain)), ds, dr).

(* ---- internal/app/util.go: findMostRecentNodeAndDetectSplitbrain ---------- *)
Record position := { p_host : N; p_set : gtidset; p_lag : Z; p_prio : Z }.

Definition recent_step (mx p : position) : position :=
  if set_equal (p_set p) (p_set mx) then (if p_lag p <? p_lag mx then p else mx)
  else if set_contain (p_set p) (p_set mx) then p else mx.
Definition detect_splitbrain (ps : list position) (sel : position) : bool :=
  existsb (fun n => negb (set_contain (p_set sel) (p_set n))) ps.
Inductive recent_result := RecentSplitBrain | RecentFound (h : N) (s : gtidset) | RecentPanic.
Definition most_recent (ps : list position) : recent_result :=
  match ps with
  | [] => RecentPanic          (* positions[0] on an empty slice: index out of range *)
  | p0 :: r =>
      let mx := fold_left recent_step r p0 in
      if detect_splitbrain ps mx then RecentSplitBrain else RecentFound (p_host mx) (p_set mx)
  end.
