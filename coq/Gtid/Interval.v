(* Model of go-mysql's IntervalSlice (mysql_interval.go) and of mysync's
   intervalSliceMinus (internal/mysql/gtids/wrapper.go).
   Intervals are [start, stop) over Z as in the library. *)
From Coq Require Import ZArith Bool List Lia.
Import ListNotations.
Open Scope Z_scope.

Definition iv := (Z * Z)%type.
Definition islice := list iv.

Definition mem_iv (g : Z) (i : iv) : bool := (fst i <=? g) && (g <? snd i).
Definition mem (s : islice) (g : Z) : bool := existsb (mem_iv g) s.

(* every later interval starts strictly after [lo] and the list is strictly
   separated: exactly what Normalize() produces *)
Fixpoint sep (lo : Z) (s : islice) : Prop :=
  match s with
  | [] => True
  | (a, b) :: r => lo < a /\ a < b /\ sep b r
  end.
Definition normalized (s : islice) : Prop := exists lo, sep lo s.
Fixpoint sepb (lo : Z) (s : islice) : bool :=
  match s with
  | [] => true
  | (a, b) :: r => (lo <? a) && (a <? b) && sepb b r
  end.
Definition normalizedb (s : islice) : bool :=
  match s with [] => true | (a, b) :: r => (a <? b) && sepb b r end.

(* ---- IntervalSlice.Contain: for each sub-interval, sort.Search finds the
   first j with sub.Start <= s[j].Stop (stops increase in a normalized slice,
   so binary search = first match), then bounds are compared. *)
Fixpoint find_first (x : Z) (s : islice) : option iv :=
  match s with
  | [] => None
  | (a, b) :: r => if x <=? b then Some (a, b) else find_first x r
  end.
Definition contain1 (s : islice) (i : iv) : bool :=
  match find_first (fst i) s with
  | None => false
  | Some (a, b) => negb (fst i <? a) && negb (b <? snd i)
  end.
Definition slice_contain (s sub : islice) : bool := forallb (contain1 s) sub.

Definition iv_eqb (x y : iv) : bool := (fst x =? fst y) && (snd x =? snd y).
Fixpoint slice_equal (a b : islice) : bool :=
  match a, b with
  | [], [] => true
  | x :: a', y :: b' => iv_eqb x y && slice_equal a' b'
  | _, _ => false
  end.

(* ---- Normalize(): sort by (start, stop), then merge neighbours whose start is
   <= the previous stop.  Modelled as insertion into a normalized list (same
   input/output relation: the normal form of a set of integers is unique). *)
Fixpoint insert_iv (i : iv) (s : islice) : islice :=
  let '(x, y) := i in
  match s with
  | [] => [(x, y)]
  | (a, b) :: r =>
      if y <? a then (x, y) :: (a, b) :: r               (* strictly before, not adjacent *)
      else if b <? x then (a, b) :: insert_iv (x, y) r    (* strictly after *)
      else insert_iv (Z.min x a, Z.max y b) r             (* overlap or adjacent: merge *)
  end.
Definition normalize (s : islice) : islice := fold_right insert_iv [] s.

(* ---- intervalSliceMinus.  [minus_iv cur stop b] is the inner `for cur <
   iv.Stop` loop: returns the emitted pieces and the not yet consumed suffix of
   b (the shared index bi). *)
Fixpoint minus_iv (cur stop : Z) (b : islice) : islice * islice :=
  match b with
  | [] => ([(cur, stop)], [])
  | (bs, be) :: b' =>
      if be <=? cur then minus_iv cur stop b'
      else if stop <=? bs then ([(cur, stop)], b)
      else
        let pieces := if cur <? bs then [(cur, bs)] else [] in
        if be <? stop then let '(r, rem) := minus_iv be stop b' in (pieces ++ r, rem)
        else (pieces, b)
  end.
Fixpoint slice_minus (a b : islice) : islice :=
  match a with
  | [] => []
  | (s, e) :: a' =>
      if s <? e then let '(p, rem) := minus_iv s e b in p ++ slice_minus a' rem
      else slice_minus a' b
  end.
