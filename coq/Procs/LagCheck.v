(* internal/app/resetup/resetup_lag.go CheckNeedResetup: the background lag checker of every process (it decides
   whether the local replica is sent to resetup because it lags too far behind).  [bound] = resetup_host_lag in
   seconds.  Returns the verdict and the refreshed registry. *)
From Coq Require Import ZArith NArith Bool List.
From Mysync Require Import Gtid.Interval Gtid.GtidSet Base.Prog Base.Config Procs.NodeOps Procs.ActiveNodes Procs.Switchover Procs.Repair Procs.Manager.
Import ListNotations.
Open Scope Z_scope.

Definition lag_check (bound : Z) (local : host) (m : mgr_mem) : prog (bool * mgr_mem) :=
  u <- update_hosts_info m ;;
  let '(ok, m1) := u in
  if negb ok then Ret (false, m1) else
  st <- replica_status 37 local ;;
  let '(s, e) := st in
  match e with
  | Some _ => Ret (false, m1)
  | None =>
      match s with
      | None => Ret (false, m1)                                  (* definitely not a replica *)
      | Some rs =>
          Do 49 (DcsGet PMaster) (fun r =>
            let go (master : option host) :=
              if (match master with Some x => N.eqb x local | None => false end) then Ret (false, m1) else
              match rs_lag rs with
              | None => Ret (false, m1)
              | Some lag =>
                  if lag <=? bound then Ret (false, m1) else
                  off <- is_offline 67 local ;;
                  let '(o, e2) := off in
                  match e2 with
                  | Some _ => Ret (false, m1)
                  | None =>
                      (* cluster.Get(master): nil for a missing record or an unregistered host; reported, no verdict
                         (fix 5ceb11e; before it this was a crash leaf) *)
                      match master with
                      | None => Ret (false, m1)
                      | Some x =>
                          if negb (mem_host x (mm_ha m1) || mem_host x (mm_casc m1)) then Ret (false, m1) else
                          ro <- is_read_only 74 x ;;
                          let '(mro, _, e3) := ro in
                          match e3 with Some _ => Ret (false, m1) | None => Ret (o && negb mro, m1) end
                      end
                  end
              end in
            match r with
            | RVal (VHost x) => go (Some x)
            | RErr ENotFound => go None                          (* GetMasterHostFromDcs: "" without an error *)
            | _ => Ret (false, m1)
            end)
      end
  end.
