(* internal/app/recovery.go checkRecovery: the host's own mysync decides whether it may rejoin.
   `me` is the local host; the process memory used here is the MasterStuckAt clock. *)
From Coq Require Import ZArith NArith Bool List.
From Mysync Require Import Gtid.Interval Gtid.GtidSet Base.Prog Base.Config Procs.NodeOps Procs.ActiveNodes Procs.Switchover Procs.Manager.
Import ListNotations.
Open Scope Z_scope.

Definition f_resetup : N := 2%N.
Definition stuck_wait : Z := 60 * sec.

(* isSlavePermanentlyLost *)
Definition permanently_lost (rs : repl_status) (mgtid : gtidset) : bool :=
  match repl_state_of rs with ReplError => true | _ => slave_ahead (rs_executed rs) mgtid end.

(* wait out a stuck ex-master, then ask for a rebuild *)
Definition rec_stuck (m : mgr_mem) (clk0 : Z) : prog (Z * mgr_mem) :=
  t <- now_ 85 ;;
  if t - clk0 <? stuck_wait then Ret (clk0, m)
  else Do 91 (FileWrite f_resetup) (fun _ => Ret (0, m)).

(* the decision once everything was read *)
Definition rec_final (me : host) (m : mgr_mem) (master : host) (st : option repl_status) (mg : gtidset) (stuck : bool) (clk0 : Z)
  : prog (Z * mgr_mem) :=
  match st with
  | None =>
      if negb stuck then Ret (clk0, m)
      else if negb (N.eqb master me) then rec_stuck m clk0
      else Ret (clk0, m)   (* no replica status, stuck, and recorded master itself: wait for the manager *)
  | Some rs =>
      if stuck && negb (N.eqb master me) then rec_stuck m clk0
      else if permanently_lost rs mg then
        replica_status 100 me ;;; Do 112 (FileWrite f_resetup) (fun _ => Ret (clk0, m))
      else
        ro <- is_read_only 114 me ;;
        let '(r1, _, e) := ro in
        match e with
        | Some _ => Ret (clk0, m)
        | None => if negb r1 then Ret (clk0, m) else dcs_delete_ 126 (PRecovery me) ;;; Ret (clk0, m)
        end
  end.

Definition rec_with_master (me : host) (m : mgr_mem) (stuck_at : Z) (st : option repl_status) (master : host) : prog (Z * mgr_mem) :=
  u <- update_hosts_info m ;;
  let m := snd u in
  if negb (fst u) then Ret (stuck_at, m) else
  if negb (mem_host master (map fst (all_hosts m))) then Ret (stuck_at, m) else   (* recorded master not registered *)
  g <- gtid_executed 60 master ;;
  match snd g with Some _ => Ret (stuck_at, m) | None =>
  w <- is_waiting_ack 67 me ;;
  match snd w with Some _ => Ret (stuck_at, m) | None =>      (* cannot tell whether commits are stuck: nothing is decided *)
  let stuck := fst w in
  clk <- (if stuck then t <- now_ 73 ;; Ret (if stuck_at =? 0 then t else stuck_at) else Ret 0) ;;
  rec_final me m master st (fst g) stuck clk
  end end.

(* returns the new MasterStuckAt clock (0 = unset) *)
Definition check_recovery (me : host) (m : mgr_mem) (stuck_at : Z) : prog (Z * mgr_mem) :=
  Do 30151 (DcsGet (PRecovery me)) (fun r =>
  match r with
  | RVal _ =>
      fe <- Do 35 (FileExists f_resetup) (fun x => Ret (match x with RBool b => b | _ => false end)) ;;
      if fe then Ret (stuck_at, m) else
      st <- replica_status 42 me ;;
      match snd st with
      | Some _ => Ret (stuck_at, m)
      | None =>
          Do 49 (DcsGet PMaster) (fun rmst =>
            match rmst with
            | RVal (VHost master) => rec_with_master me m stuck_at (fst st) master
            | _ => Ret (stuck_at, m)
            end)
      end
  | _ => Ret (stuck_at, m)
  end).

(* app_dcs_impl.go SetRecovery, as used by the procedures that mark a host (without the active-list part) *)
Definition mark_recovery (h : host) : prog oerr :=
  e3 <- dcs_create_tolerant 30137 PRecoveryDir VUnit ;;
  match e3 with Some x => Ret (Some x) | None => dcs_create_tolerant 30141 (PRecovery h) VUnit end.
