(* Replication optimisation: optimization/syncer.go (Sync), controller.go (Enable,
   Disable, DisableAll live in Procs/Switchover.v as opt_disable / opt_disable_all;
   Wait and the pre-switchover speed-up phase of replication.go are below).
   The manager's view (health records of this iteration) and the set of hosts
   the process has a handle for are inputs; every registry call and statement
   is an external call. *)
From Coq Require Import ZArith NArith Bool List.
From Mysync Require Import Gtid.Interval Gtid.GtidSet Pure.Desirable Base.Prog Base.Config Procs.NodeOps Procs.ActiveNodes Procs.Switchover.
Import ListNotations.
Open Scope Z_scope.

Record opt_env := {
  ov_master : host;
  ov_states : list (host * node_state);     (* clusterStateDcs of this iteration *)
  ov_cluster : list host;                   (* hosts app.cluster.Get knows *)
  ov_low : Z; ov_high : Z }.                (* marks, seconds *)

Inductive opt_class := OcMalf | OcOptimized | OcOptimizing | OcDisabled.

Definition rs_eqb (a b : Z * Z) : bool := (fst a =? fst b) && (snd a =? snd b).

Definition opt_lag (ns : node_state) : option Z := match ns_slave ns with Some rs => rs_lag rs | None => None end.

(* syncer.go getClusterHostsState, the switch; an unknown host has the zero NodeState *)
Definition classify (env : opt_env) (mrs : Z * Z) (enabled : bool) (ons : option node_state) : opt_class :=
  match ons with
  | None => OcMalf
  | Some ns =>
    match opt_lag ns with
    | None => OcMalf
    | Some lag =>
      if ns_is_master ns then OcMalf else
      (* a record without replication settings (written by an older version) tells nothing: malfunctioning *)
      match ns_repl_settings ns with
      | None => OcMalf
      | Some rs =>
          let near := lag <? ov_high env in
          let conv := lag <? ov_low env in
          if (near && negb enabled) || (conv && enabled) then OcOptimized
          else if enabled then OcOptimizing
          else if rs_eqb rs mrs then OcDisabled else OcOptimizing
      end
    end
  end.

Record opt_plan := { op_disabled : list host; op_optimizing : list host; op_optimized : list host; op_malf : list host }.
Definition empty_plan := {| op_disabled := []; op_optimizing := []; op_optimized := []; op_malf := [] |}.
Definition plan_add (p : opt_plan) (h : host) (c : opt_class) : opt_plan :=
  match c with
  | OcMalf => {| op_disabled := op_disabled p; op_optimizing := op_optimizing p; op_optimized := op_optimized p; op_malf := op_malf p ++ [h] |}
  | OcOptimized => {| op_disabled := op_disabled p; op_optimizing := op_optimizing p; op_optimized := op_optimized p ++ [h]; op_malf := op_malf p |}
  | OcOptimizing => {| op_disabled := op_disabled p; op_optimizing := op_optimizing p ++ [h]; op_optimized := op_optimized p; op_malf := op_malf p |}
  | _ => {| op_disabled := op_disabled p ++ [h]; op_optimizing := op_optimizing p; op_optimized := op_optimized p; op_malf := op_malf p |}
  end.

(* registry read of one host: Some (Some enabled) | Some None (no entry) | None (error) *)
Definition opt_get_state (s : site) (h : host) : prog (option (option bool) * oerr) :=
  Do s (DcsGet (POptNode h)) (fun r => match r with
    | RVal (VOpt en) => Ret (Some (Some en), None)
    | RErr ENotFound => Ret (Some None, None)
    | RErr e => Ret (None, Some e)
    | _ => Ret (None, Some EOther) end).

Inductive read_res := RdOk (p : opt_plan) | RdErr (e : err).

Fixpoint read_states (env : opt_env) (mrs : Z * Z) (hosts : list host) (p : opt_plan) : prog read_res :=
  match hosts with
  | [] => Ret (RdOk p)
  | h :: rest =>
      r <- opt_get_state 30044 h ;;
      match r with
      | (_, Some e) => Ret (RdErr e)
      | (Some (Some en), None) =>
          read_states env mrs rest (plan_add p h (classify env mrs en (assoc h (ov_states env))))
      | (_, None) => read_states env mrs rest p
      end
  end.

(* stopNodes: restore the given settings on every host the process has a handle for *)
Fixpoint stop_nodes (env : opt_env) (hosts : list host) (rs : Z * Z) : prog oerr :=
  match hosts with
  | [] => Ret None
  | h :: rest =>
      if mem_host h (ov_cluster env) then
        e <- set_repl_settings 11195 11199 h rs ;;
        match e with Some x => Ret (Some x) | None => stop_nodes env rest rs end
      else stop_nodes env rest rs
  end.

Fixpoint delete_hosts (hosts : list host) : prog oerr :=
  match hosts with
  | [] => Ret None
  | h :: rest => e <- opt_delete_host 50125 h ;; match e with Some x => Ret (Some x) | None => delete_hosts rest end
  end.

(* disableNodes: restore everywhere, THEN deregister *)
Definition disable_nodes (env : opt_env) (hosts : list host) (rs : Z * Z) : prog oerr :=
  match hosts with
  | [] => Ret None
  | _ => e <- stop_nodes env hosts rs ;; match e with Some x => Ret (Some x) | None => delete_hosts hosts end
  end.

Definition optimize_replication (h : host) : prog oerr :=
  e <- exec_ 11148 h (SSetFlush 2) ;; match e with Some x => Ret (Some x) | None => exec_ 11152 h (SSetSyncBinlog 1000) end.

Definition can_be_optimized (rs : Z * Z) : bool :=
  if snd rs >=? 1000 then false else if negb (fst rs =? 2) && negb (fst rs =? 1) then false else true.

Definition sync_node_options (env : opt_env) (h : host) : prog oerr :=
  if negb (mem_host h (ov_cluster env)) then Panic 30214 else
  r <- repl_settings 30214 h ;;
  match snd r with
  | Some e => Ret (Some e)
  | None => if can_be_optimized (fst r) then optimize_replication h else Ret None
  end.

Definition balance (env : opt_env) (mrs : Z * Z) (p : opt_plan) : prog oerr :=
  match op_optimizing p with
  | h :: (_ :: _) as rest =>
      e <- stop_nodes env rest mrs ;;
      match e with Some x => Ret (Some x) | None => sync_node_options env h end
  | [h] => sync_node_options env h
  | [] =>
      match op_disabled p with
      | d :: _ => if mem_host d (ov_cluster env) then optimize_replication d else Panic 30167
      | [] => Ret None
      end
  end.

Definition sync_act (env : opt_env) (mrs : Z * Z) (p : opt_plan) : prog oerr :=
  e <- disable_nodes env (op_optimized p ++ op_malf p) mrs ;;
  match e with Some x => Ret (Some x) | None => balance env mrs p end.

Definition master_settings (env : opt_env) : prog ((Z * Z) * oerr) :=
  match match assoc (ov_master env) (ov_states env) with Some ns => ns_repl_settings ns | None => None end with
  | Some rs => Ret (rs, None)
  | None => if mem_host (ov_master env) (ov_cluster env) then repl_settings 30233 (ov_master env) else Panic 30233
  end.

Definition sync_with (env : opt_env) (mrs : Z * Z) : prog oerr :=
  hs <- dcs_children_ 50080 POptNodes ;;
  match snd hs with
  | Some e => Ret (Some e)
  | None =>
      r <- read_states env mrs (fst hs) empty_plan ;;
      match r with
      | RdOk p => sync_act env mrs p
      | RdErr e => Ret (Some e)
      end
  end.

Definition opt_sync (env : opt_env) : prog oerr :=
  m <- master_settings env ;;
  match snd m with
  | Some e => Ret (Some e)
  | None => sync_with env (fst m)
  end.

(* controller.Enable *)
Definition opt_enable (h : host) : prog oerr :=
  Do 50141 (DcsCreate (POptNode h) (VOpt false)) (fun r => match r with ROk | RErr EExists => Ret None | RErr e => Ret (Some e) | _ => Ret (Some EOther) end).

(* controller.Disable(master, node) *)
Definition opt_disable_one (master h : host) : prog oerr :=
  r <- repl_settings 50105 master ;;
  let rs := match snd r with Some _ => (1, 1) | None => fst r end in
  opt_disable h rs.

(* ---- controller.Wait: poll every 3 s until the registry no longer says "enabled",
   the lag converged, more than three errors were seen, or the deadline passed ------ *)
(* isOptimizedDuringWaiting: (optimised?, error?) ; the lag test compares seconds with
   a time.Duration (nanoseconds) exactly as the code does *)
Definition wait_check (low_ns : Z) (h : host) : prog (bool * oerr) :=
  r <- opt_get_state 40065 h ;;
  match r with
  | (_, Some e) => Ret (false, Some e)
  | (Some (Some true), None) =>
      st <- replica_status 40080 h ;;
      match snd st with
      | Some e => Ret (false, Some e)
      | None =>
          match match fst st with Some rs => rs_lag rs | None => None end with
          | Some lag => if lag <? low_ns then e <- delete_hosts [h] ;; Ret (true, e) else Ret (false, None)
          | None => Ret (false, None)
          end
      end
  | (_, None) => Ret (true, None)
  end.

(* Some e = returned an error (deadline or too many errors), None = optimised *)
Fixpoint opt_wait (fuel : nat) (low_ns : Z) (h : host) (deadline : Z) (errors : Z) : prog oerr :=
  match fuel with
  | O => Ret (Some EDeadline)
  | S f =>
      Do 40047 (Sleep (3 * sec)) (fun _ =>
        t <- now_ 40046 ;;
        if deadline <? t then Ret (Some EDeadline) else
        c <- wait_check low_ns h ;;
        let errors' := match snd c with Some _ => errors + 1 | None => errors end in
        if fst c then Ret None
        else if 3 <? errors' then Ret (snd c)
        else opt_wait f low_ns h deadline errors')
  end.

(* startSyncerGoroutine: one Sync per tick until the context ends; how many ticks it
   gets is a scheduling matter (Peek) *)
Fixpoint syncer_loop (fuel : nat) (env : opt_env) : prog resp :=
  match fuel with
  | O => Ret ROk
  | S f =>
      Do 40258 (Peek (DcsChildren POptNodes)) (fun more =>
        match more with
        | RBool true => opt_sync env ;;; syncer_loop f env
        | _ => Ret ROk
        end)
  end.

(* optimizeReplicaWithSmallestLag + optimizationPhase (replication.go): always "complete",
   whatever happened - the only error that would reject the request is never produced *)
Definition choose_replica_to_optimize (env : opt_env) (desired : option host) (replicas : list host) : prog (option host) :=
  match desired with
  | Some t => Ret (Some t)
  | None =>
      ps <- node_positions 40316 replicas ;;
      match ps with
      | None => Ret None
      | Some positions =>
          match most_desirable (S (length positions)) positions (ov_high env) with
          | DesFound h => Ret (Some h)
          | _ => Ret None
          end
      end
  end.

(* up to and including Enable: None = nothing to wait for *)
Definition phase_prefix (cfg : config) (env : opt_env) (sw : switch_rec) (active : list host) : prog (option host) :=
  if negb (c_semi_sync cfg) then Ret None else
  let replicas := filter_out active (ov_master env :: match sw_from sw with Some f => [f] | None => [] end) in
  t <- choose_replica_to_optimize env (sw_to sw) replicas ;;
  match t with
  | None => Ret None
  | Some target =>
      if negb (mem_host target (ov_cluster env)) then Ret None else      (* not a registered host: an error, nothing to wait for *)
      e <- opt_enable target ;;
      match e with Some _ => Ret None | None => Ret (Some target) end
  end.

Definition wait_branch (fuel : nat) (env : opt_env) (target : host) (deadline : Z) : prog resp :=
  e <- opt_wait fuel (ov_low env * sec) target deadline 0 ;; Ret (match e with Some x => RErr x | None => ROk end).

Definition optimization_phase (fuel : nat) (cfg : config) (env : opt_env) (sw : switch_rec) (active : list host) (timeout : Z) : prog unit :=
  t <- phase_prefix cfg env sw active ;;
  match t with
  | None => Ret tt
  | Some target =>
      t0 <- now_ 40233 ;;
      Par 40240 [ (0%N, wait_branch fuel env target (t0 + timeout)); (1%N, syncer_loop fuel env) ] (fun _ => Ret tt)
  end.
