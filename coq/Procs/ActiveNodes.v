(* internal/app/app.go calcActiveNodes (828), calcActiveNodesChanges (898),
   updateActiveNodes (972) and the semi-sync helpers (1094-1220);
   internal/app/app_dcs.go SetRecovery. *)
From Coq Require Import ZArith NArith Bool List.
From Mysync Require Import Gtid.Interval Gtid.GtidSet Pure.Quorum Base.Prog Base.Config Procs.NodeOps.
Import ListNotations.
Open Scope Z_scope.

Definition mem_host (h : host) (l : list host) : bool := existsb (N.eqb h) l.
Definition filter_out (a b : list host) : list host := filter (fun x => negb (mem_host x b)) a.

Fixpoint assoc {V} (h : host) (l : list (host * V)) : option V :=
  match l with [] => None | (k, v) :: r => if N.eqb h k then Some v else assoc h r end.
Fixpoint assoc_set {V} (h : host) (v : V) (l : list (host * V)) : list (host * V) :=
  match l with [] => [(h, v)] | (k, w) :: r => if N.eqb h k then (k, v) :: r else (k, w) :: assoc_set h v r end.
Fixpoint assoc_del {V} (h : host) (l : list (host * V)) : list (host * V) :=
  match l with [] => [] | (k, w) :: r => if N.eqb h k then r else (k, w) :: assoc_del h r end.

Fixpoint insert_sorted (h : host) (l : list host) : list host :=
  match l with [] => [h] | x :: r => if N.leb h x then h :: l else x :: insert_sorted h r end.
Definition sort_hosts (l : list host) : list host := fold_right insert_sorted [] l.

(* process-local memory the update reads and writes *)
Record an_mem := {
  am_failed_at : list (host * Z);            (* timings[NodeFailedAt] (absent = zero) *)
  am_positions : list (host * (N * Z)) }.    (* slaveReadPositions: (binlog file, position) *)

Record an_env := {
  ae_master : host;
  ae_master_uuid : N;
  ae_state : list (host * node_state);       (* clusterState, in host order *)
  ae_state_dcs : list (host * node_state);   (* clusterStateDcs *)
  ae_old_active : list host }.

Inductive an_err := AnOk | AnFail (e : err).

(* ---- calcActiveNodes --------------------------------------------------------- *)
Definition hosts_on_recovery (s : site) : prog (option (list host) * oerr) :=
  Do s (DcsChildren PRecoveryDir) (fun r =>
    match r with
    | RHosts l => Ret (Some l, None)
    | RErr ENotFound => Ret (None, None)
    | RErr e => Ret (None, Some e)
    | _ => Ret (None, Some EOther)
    end).

Definition now_ (s : site) : prog Z := Do s Now (fun r => Ret (match r with RZ z => z | _ => 0 end)).

(* one host of the membership loop; returns (member?, memory) *)
Definition calc_active_host (cfg : config) (env : an_env) (recovery : option (list host)) (mgtid : gtidset)
           (mem : an_mem) (hn : host * node_state) : prog (bool * an_mem) :=
  let '(h, ns) := hn in
  if N.eqb h (ae_master env) then Ret (true, mem)
  else if ns_is_cascade ns then Ret (false, mem)
  else if match recovery with Some l => mem_host h l | None => false end then Ret (false, mem)
  else if negb (ns_ping_ok ns) then
    match assoc h (ae_state_dcs env) with
    | None => if ns_ping_dubious ns then Ret (mem_host h (ae_old_active env), mem) else Panic 866
    | Some dns =>
        if ns_ping_dubious ns || ns_ping_ok dns then Ret (mem_host h (ae_old_active env), mem)
        else
          t1 <- now_ 875 ;;
          let fa := match assoc h (am_failed_at mem) with Some t => t | None => t1 end in
          let mem1 := {| am_failed_at := assoc_set h fa (am_failed_at mem); am_positions := am_positions mem |} in
          t2 <- now_ 876 ;;
          if t2 - fa <? c_inactivation_delay cfg then Ret (mem_host h (ae_old_active env), mem1)
          else Ret (false, {| am_failed_at := am_failed_at mem1; am_positions := assoc_del h (am_positions mem1) |})
    end
  else
    let mem1 := {| am_failed_at := assoc_del h (am_failed_at mem); am_positions := am_positions mem |} in
    match ns_slave ns with
    | None => Ret (false, mem1)
    | Some rs =>
        match repl_state_of rs with
        | ReplRunning => if split_brained (rs_executed rs) mgtid (ae_master_uuid env) then Ret (false, mem1) else Ret (true, mem1)
        | _ => Ret (false, mem1)
        end
    end.

Fixpoint calc_active_loop (cfg : config) (env : an_env) (recovery : option (list host)) (mgtid : gtidset)
         (mem : an_mem) (l : list (host * node_state)) : prog (list host * an_mem) :=
  match l with
  | [] => Ret ([], mem)
  | hn :: r =>
      x <- calc_active_host cfg env recovery mgtid mem hn ;;
      let '(member, mem1) := x in
      y <- calc_active_loop cfg env recovery mgtid mem1 r ;;
      let '(rest, mem2) := y in
      Ret ((if member then fst hn :: rest else rest), mem2)
  end.

Definition calc_active_nodes (cfg : config) (env : an_env) (mem : an_mem) : prog (option (list host) * an_mem) :=
  hr <- hosts_on_recovery 830 ;;
  let '(recovery, e) := hr in
  match e with Some _ => Ret (None, mem) | None =>
  g <- gtid_executed 835 (ae_master env) ;;
  let '(mgtid, e2) := g in
  match e2 with Some _ => Ret (None, mem) | None =>
  x <- calc_active_loop cfg env recovery mgtid mem (ae_state env) ;;
  let '(l, mem1) := x in Ret (Some (sort_hosts l), mem1)
  end end.

(* ---- calcActiveNodesChanges ---------------------------------------------------- *)
(* calcLagBytes over SHOW BINARY LOGS rows (file number, size) *)
Definition calc_lag_bytes (binlogs : list (N * Z)) (file : N) (pos : Z) : Z :=
  fold_left (fun acc '(name, size) =>
    if N.ltb file name then acc + size
    else if N.eqb file name then (if pos <? size then acc + (size - pos) else acc) else acc) binlogs 0.

Definition pos_le (a : N * Z) (b : option (N * Z)) : bool :=   (* new <= old, "" being the least *)
  match b with
  | None => false
  | Some (f, p) => N.ltb (fst a) f || (N.eqb (fst a) f && (snd a <=? p))
  end.

Definition binlogs_ (s : site) (h : host) : prog (list (N * Z) * oerr) :=
  Do s (Sql h SBinlogs) (fun r => match r with RBinlogs l => Ret (l, None) | RErr e => Ret ([], Some e) | _ => Ret ([], Some EOther) end).

Record an_changes := { ch_active : list host; ch_inactive : list host; ch_lagging : list host }.

Fixpoint lag_loop (cfg : config) (env : an_env) (binlogs : list (N * Z)) (l : list host)
         (inactive lagging : list host) (pos : list (host * (N * Z))) : prog (list host * list host * list (host * (N * Z))) :=
  match l with
  | [] => Ret (inactive, lagging, pos)
  | h :: r =>
      match assoc h (ae_state env) with
      | None => Panic 935
      | Some ns =>
          match ns_slave ns with
          | None => Panic 936
          | Some rs =>
              let lag := calc_lag_bytes binlogs (rs_file rs) (rs_pos rs) in
              if c_semi_sync_enable_lag cfg <? lag then
                let newp := (rs_file rs, rs_pos rs) in
                let old := assoc h pos in
                let pos' := assoc_set h newp pos in
                if pos_le newp old then lag_loop cfg env binlogs r (inactive ++ [h]) lagging pos'
                else lag_loop cfg env binlogs r inactive (lagging ++ [h]) pos'
              else lag_loop cfg env binlogs r inactive lagging pos
          end
      end
  end.

(* sync_order: the order in which Go's map iteration listed the semi-sync
   replicas (any permutation of the hosts; it only influences the ORDER of
   becomeInactive, which is consumed by an unordered parallel step below) *)
Definition calc_changes (cfg : config) (env : an_env) (active : list host) (mem : an_mem) : prog (option an_changes * an_mem) :=
  let sync := map fst (filter (fun '(_, ns) => match ns_semi ns with Some (_, sl, _) => sl | None => false end) (ae_state env)) in
  let dead := map fst (filter (fun '(_, ns) => negb (ns_ping_ok ns) || match ns_slave ns with None => true | Some _ => false end) (ae_state env)) in
  let become_active0 := filter_out (filter_out active sync) dead in
  let become_inactive0 := filter_out sync active in
  let become_active1 :=
    match ae_old_active env, become_active0 with
    | [o], [] => if N.eqb o (ae_master env) then filter (fun h => negb (N.eqb h (ae_master env))) active else become_active0
    | _, _ => become_active0
    end in
  match become_active1 with
  | [] => Ret (Some {| ch_active := []; ch_inactive := become_inactive0; ch_lagging := [] |}, mem)
  | _ =>
      b <- binlogs_ 927 (ae_master env) ;;
      let '(bl, e) := b in
      match e with
      | Some _ => Ret (None, mem)
      | None =>
          x <- lag_loop cfg env bl become_active1 become_inactive0 [] (am_positions mem) ;;
          let '(inactive, lagging, pos) := x in
          Ret (Some {| ch_active := filter_out (filter_out become_active1 lagging) inactive; ch_inactive := inactive; ch_lagging := lagging |},
               {| am_failed_at := am_failed_at mem; am_positions := pos |})
      end
  end.

(* ---- semi-sync helpers ------------------------------------------------------------ *)
Definition adjust_semi_sync_on_master (master : host) (ms : node_state) (w : Z) : prog oerr :=
  match ns_semi ms with
  | None => Ret (Some EOther)
  | Some (m_enabled, _, cur) =>
      if w =? 0 then (if m_enabled then exec_ 1113 master SSemiDisable else Ret None)
      else
        e <- (if negb (cur =? w) then exec_ 1120 master (SSetWaitCount w) else Ret None) ;;
        match e with
        | Some x => Ret (Some x)
        | None => if negb m_enabled then exec_ 1126 master SSemiSetMaster else Ret None
        end
  end.

Definition restart_io (h : host) : prog oerr :=
  e <- exec_ 10902 h SStopIO ;; match e with Some x => Ret (Some x) | None => exec_ 10906 h SStartIO end.
Definition restart_replica (h : host) : prog oerr :=
  e <- exec_ 10866 h SStopRepl ;; match e with Some x => Ret (Some x) | None => exec_ 10870 h SStartRepl end.

Definition disable_semi_sync_on_slave (h : host) (restart : bool) : prog oerr :=
  e <- exec_ 1196 h SSemiDisable ;;
  match e with Some x => Ret (Some x) | None => if restart then restart_io h else Ret None end.

Definition opt_enable (h : host) : prog oerr :=
  Do 1156 (DcsCreate (POptNode h) (VOpt false)) (fun r => match r with RErr EExists | ROk => Ret None | RErr e => Ret (Some e) | _ => Ret (Some EOther) end).

(* disableSemiSyncOnSlaves: the order of becomeInactive comes from Go map
   iteration, so the per-host actions are an unordered (parallel) step *)
Definition disable_semi_sync_on_slaves (inactive lagging : list host) : prog unit :=
  Par 1136 (map (fun h => (h, (e <- disable_semi_sync_on_slave h true ;; Ret ROk))) inactive) (fun _ =>
  forM_ lagging (fun h =>
    e <- disable_semi_sync_on_slave h false ;;
    match e with Some _ => Ret tt | None => opt_enable h ;;; Ret tt end)).

Definition enable_semi_sync_on_slave (h : host) (ss : option node_state) (ms : node_state) : prog oerr :=
  (* a host without replica state, or a recorded master without master state, fails to join
     (the nil checks come before the first statement) *)
  match ss with
  | None => Ret (Some EOther)
  | Some ss =>
      match ns_master_gtid ms, ns_slave ss with
      | Some mg, Some rs =>
          e <- exec_ 1164 h SSemiSetSlave ;;
          match e with
          | Some x => Ret (Some x)
          | None => if slave_ahead (rs_executed rs) mg then restart_replica h else restart_io h
          end
      | _, _ => Ret (Some EOther)
      end
  end.

(* SetDefaultReplicationSettings(master): read the master's settings, apply both *)
Definition set_default_repl_settings (h master : host) : prog oerr :=
  r <- repl_settings 11207 master ;;
  let '(rs, e) := r in
  match e with
  | Some x => Ret (Some x)
  | None =>
      e2 <- exec_ 11211 h (SSetFlush (fst rs)) ;;
      match e2 with Some x => Ret (Some x) | None => exec_ 11215 h (SSetSyncBinlog (snd rs)) end
  end.

Fixpoint enable_loop (env : an_env) (ms : node_state) (l : list host) (w : Z) (active : list host) : prog (Z * list host) :=
  match l with
  | [] => Ret (w, active)
  | h :: r =>
      e <- enable_semi_sync_on_slave h (assoc h (ae_state env)) ms ;;
      match e with
      | Some _ => enable_loop env ms r (w - 1) (filter_out active [h])
      | None => set_default_repl_settings h (ae_master env) ;;; enable_loop env ms r w active
      end
  end.

Definition can_shrink (master : host) (old new : list host) : prog bool :=
  match filter_out old new with
  | [] => Ret true
  | _ => p <- ping 1099 master ;; Ret (fst p)
  end.

Definition set_active_nodes (s : site) (l : list host) : prog oerr :=
  Do s (DcsSet PActiveNodes (VHosts l)) (fun r => match r with ROk => Ret None | RErr e => Ret (Some e) | _ => Ret (Some EOther) end).

Definition disable_semi_sync_if_not_needed (h : host) (ns : node_state) : prog resp :=
  match ns_semi ns with
  | Some (m, s, _) => if m || s then exec_ 1216 h SSemiDisable ;;; Ret ROk else Ret ROk
  | None => Ret ROk
  end.

(* updateActiveNodes: returns (error?, memory) *)
Definition update_active_nodes (cfg : config) (env : an_env) (mem : an_mem) : prog (an_err * an_mem) :=
  let master := ae_master env in
  match assoc master (ae_state env) with
  | None => Panic 974            (* clusterState[master] is nil: dereferenced below *)
  | Some ms =>
  ca <- calc_active_nodes cfg env mem ;;
  let '(oactive, mem1) := ca in
  match oactive with
  | None => Ret (AnFail EOther, mem1)
  | Some active =>
    if negb (c_semi_sync cfg) then
      Par 983 (map (fun '(h, ns) => (h, disable_semi_sync_if_not_needed h ns)) (ae_state env)) (fun _ =>
      ok <- can_shrink master (ae_old_active env) active ;;
      if negb ok then Ret (AnOk, mem1)
      else e <- set_active_nodes 991 active ;; Ret (match e with Some x => AnFail x | None => AnOk end, mem1))
    else
      cc <- calc_changes cfg env active mem1 ;;
      let '(och, mem2) := cc in
      match och with
      | None => Ret (AnFail EOther, mem2)
      | Some ch =>
          let old_w := match ns_semi ms with Some (true, _, w) => w | _ => 0 end in
          let not_lagging := filter_out active (ch_lagging ch) in
          let w := required_wsc (c_wait_count cfg) (Z.of_nat (length not_lagging)) in
          p <- ping 1024 master ;;
          if negb (fst p) then Ret (match snd p with Some x => AnFail x | None => AnOk end, mem2)
          else
            let before0 := w <? old_w in
            let after0 := old_w <? w in
            let before := if c_master_first_adjust cfg then before0 else after0 in
            let after := if c_master_first_adjust cfg then after0 else before0 in
            e1 <- (if before then adjust_semi_sync_on_master master ms w else Ret None) ;;
            match e1 with
            | Some x => Ret (AnFail x, mem2)
            | None =>
                disable_semi_sync_on_slaves (ch_inactive ch) (ch_lagging ch) ;;;
                x <- enable_loop env ms (ch_active ch) w active ;;
                let '(w', active') := x in
                (if after then adjust_semi_sync_on_master master ms w' ;;; Ret tt else Ret tt) ;;;
                ok <- can_shrink master (ae_old_active env) active' ;;
                if negb ok then Ret (AnOk, mem2)
                else e <- set_active_nodes 1079 active' ;; Ret (match e with Some x => AnFail x | None => AnOk end, mem2)
            end
      end
  end
  end.

(* SetRecovery (app_dcs.go:81): out of the list first, then the mark *)
Definition get_active_nodes (s : site) : prog (list host * oerr) :=
  Do s (DcsGet PActiveNodes) (fun r =>
    match r with
    | RVal (VHosts l) => Ret (l, None)
    | RErr ENotFound | RErr EMalformed => Ret ([], None)
    | RErr e => Ret ([], Some e)
    | _ => Ret ([], None)
    end).
Definition dcs_create_tolerant (s : site) (p : dpath) (v : dval) : prog oerr :=
  Do s (DcsCreate p v) (fun r => match r with ROk | RErr EExists => Ret None | RErr e => Ret (Some e) | _ => Ret (Some EOther) end).
Definition set_recovery (h : host) : prog oerr :=
  a <- get_active_nodes 20082 ;;
  let '(l, e) := a in
  match e with Some x => Ret (Some x) | None =>
  e2 <- set_active_nodes 20089 (filter (fun n => negb (N.eqb n h)) l) ;;
  match e2 with Some x => Ret (Some x) | None =>
  e3 <- dcs_create_tolerant 30137 PRecoveryDir VUnit ;;
  match e3 with Some x => Ret (Some x) | None => dcs_create_tolerant 30141 (PRecovery h) VUnit end
  end end.
