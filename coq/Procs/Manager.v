(* The manager iteration: internal/app/app.go stateManager (367-617), approveFailover
   (727), approveSwitchover (810), getCurrentMaster / ensureCurrentMaster (1533-1575),
   stateCandidate (774), stateMaintenance (351), tryLeaveMaintenance (335);
   app_maintenance.go enterMaintenance / leaveMaintenance; mysql/cluster.go
   UpdateHostsInfo.  manager_switchover (quorum-based lock release) is off
   (the default; DESIGN.md section 6).

   Process-local memory: the host registry cache, the failure clocks and the
   memories of the tail procedures.  Go map iteration orders of the tail are
   inputs (mgr_env). *)
From Coq Require Import ZArith NArith Bool List.
From Mysync Require Import Gtid.Interval Gtid.GtidSet Pure.Quorum Pure.Desirable Base.Prog Base.Config
  Procs.NodeOps Procs.ActiveNodes Procs.Switchover Procs.DiskGuard Procs.OfflineMode Procs.Repair Procs.Optimization.
Import ListNotations.
Open Scope Z_scope.

Definition f_emerge : N := 1%N.
Definition f_maintenance : N := 3%N.

Record mgr_env := {
  me_uuid_of : list (host * N);
  me_repair_order : list host;       (* iteration order of repairCluster in this iteration *)
  me_offline_order : list host;      (* iteration order of repairOfflineMode *)
  me_zone : list (host * N) }.

Record mgr_mem := {
  mm_ha : list host;                 (* cluster.haNodes *)
  mm_casc : list host;               (* cluster.cascadeNodes *)
  mm_an : an_mem;                    (* NodeFailedAt clocks + slave read positions *)
  mm_repair : repair_mem }.

Definition with_hosts (m : mgr_mem) (ha casc : list host) : mgr_mem :=
  {| mm_ha := ha; mm_casc := casc; mm_an := mm_an m; mm_repair := mm_repair m |}.
Definition with_an (m : mgr_mem) (a : an_mem) : mgr_mem :=
  {| mm_ha := mm_ha m; mm_casc := mm_casc m; mm_an := a; mm_repair := mm_repair m |}.
Definition with_repair (m : mgr_mem) (r : repair_mem) : mgr_mem :=
  {| mm_ha := mm_ha m; mm_casc := mm_casc m; mm_an := mm_an m; mm_repair := r |}.

Definition failed_at (m : mgr_mem) (h : host) : Z := match assoc h (am_failed_at (mm_an m)) with Some t => t | None => 0 end.
Definition set_failed_at_ (m : mgr_mem) (h : host) (t : Z) : mgr_mem :=
  with_an m {| am_failed_at := assoc_set h t (am_failed_at (mm_an m)); am_positions := am_positions (mm_an m) |}.

(* AllNodeHosts(): cascade hosts then HA hosts, sorted; with the cascade flag *)
Definition all_hosts (m : mgr_mem) : list (host * bool) :=
  map (fun h => (h, mem_host h (mm_casc m))) (sort_hosts (mm_casc m ++ mm_ha m)).

Inductive mgr_next := NxManager | NxCandidate | NxLost | NxMaintenance.

(* ---- registry refresh ------------------------------------------------------------- *)
Definition children_or_empty (s : site) (p : dpath) : prog (option (list host)) :=
  Do s (DcsChildren p) (fun r => match r with RHosts l => Ret (Some l) | RErr ENotFound => Ret (Some []) | _ => Ret None end).

Fixpoint cascade_configs (l : list host) : prog bool :=
  match l with
  | [] => Ret true
  | h :: r => Do 10091 (DcsGet (PCascadeNode h)) (fun x => match x with RVal (VStreamFrom _) => cascade_configs r | _ => Ret false end)
  end.

Definition update_hosts_info (m : mgr_mem) : prog (bool * mgr_mem) :=
  ha <- children_or_empty 10044 PHaNodes ;;
  match ha with
  | None => Ret (false, m)
  | Some l =>
      let m1 := with_hosts m (nodup N.eq_dec l) (mm_casc m) in
      cs <- children_or_empty 10072 PCascadeNodes ;;
      match cs with
      | None => Ret (false, m1)
      | Some cl =>
          ok <- cascade_configs cl ;;
          if ok then Ret (true, with_hosts m1 (mm_ha m1) (nodup N.eq_dec cl)) else Ret (false, m1)
      end
  end.

(* ---- getClusterStateFromDcs: health records of all registered hosts ------------- *)
Definition health_of (h : host) : prog resp :=
  Do 2280 (DcsGet (PHealth h)) (fun r =>
    match r with
    | RNodeState ns => Ret (RNodeState ns)
    | RErr ENotFound => Ret (RNodeState empty_ns)
    | RErr e => Ret (RErr e)
    | _ => Ret (RErr EOther)
    end).
Definition cluster_state_from_dcs (s : site) (hosts : list (host * bool)) : prog (option (list (host * node_state))) :=
  Par s (map (fun '(h, _) => (h, health_of h)) hosts)
    (fun rs =>
      if existsb (fun '(_, r) => match r with RNodeState _ => false | _ => true end) rs then Ret None
      else Ret (Some (flat_map (fun '(h, _) => match assoc h rs with Some (RNodeState ns) => [(h, ns)] | _ => [] end) hosts))).

(* ---- master identification --------------------------------------------------------- *)
Inductive master_res := MrOk (h : host) | MrMany | MrNone | MrErr.

Definition alive_masters (cs : list (host * node_state)) : list host :=
  map fst (filter (fun '(_, ns) => ns_ping_ok ns && ns_is_master ns) cs).

Definition ensure_current_master (cs : list (host * node_state)) : prog master_res :=
  match alive_masters cs with
  | [] => Ret MrNone
  | [m] => e <- dcs_set_ 1549 PMaster (VHost m) ;; Ret (match e with Some _ => MrErr | None => MrOk m end)
  | _ => Ret MrMany
  end.

Definition get_current_master (cs : list (host * node_state)) : prog master_res :=
  Do 1534 (DcsGet PMaster) (fun r =>
    match r with
    | RVal (VHost m) => Ret (MrOk m)
    | RErr ENotFound | RErr EMalformed | RVal _ => ensure_current_master cs   (* missing or unparsable: re-learn from the servers *)
    | _ => Ret MrErr                     (* the read failed: the record may well be there - do nothing *)
    end).

(* ---- approvals ---------------------------------------------------------------------- *)
Definition count_ha_nodes (cs : list (host * node_state)) : Z :=
  Z.of_nat (length (filter (fun '(_, ns) => negb (ns_is_cascade ns)) cs)).
Definition count_running_ha_slaves (cs : list (host * node_state)) : Z :=
  Z.of_nat (length (filter (fun '(_, ns) => ns_ping_ok ns && negb (ns_is_cascade ns) &&
    match ns_slave ns with Some rs => match repl_state_of rs with ReplRunning => true | _ => false end | None => false end) cs)).
Definition count_alive_ha_slaves_within (nodes : list host) (cs : list (host * node_state)) : Z :=
  Z.of_nat (length (filter (fun h => match assoc h cs with
     | Some ns => ns_ping_ok ns && negb (ns_is_cascade ns) && match ns_slave ns with Some _ => true | None => false end
     | None => false end) nodes)).

Definition crash_recovered (cfg : config) (ns : node_state) : bool :=
  c_resetup_crashed cfg && match ns_daemon ns with Some (_, _, cr) => cr | None => false end.

(* approveFailover: true = approved.  mstate_dcs = clusterStateDcs[master] *)
Definition all_others_replicating (cs : list (host * node_state)) : bool :=
  (0 <? count_running_ha_slaves cs) && (count_running_ha_slaves cs =? count_ha_nodes cs - 1).

(* replication / delay checks, skipped after crash recovery (with resetup) and on a read-only filesystem *)
Definition approve_pre (cfg : config) (cs : list (host * node_state)) (mstate_dcs : node_state) (m : mgr_mem) (master : host) : prog bool :=
  if crash_recovered cfg mstate_dcs then Ret true
  else if ns_fs_ro mstate_dcs then Ret true
  else if all_others_replicating cs then Ret false
  else if 0 <? c_failover_delay cfg then
    t <- now_ 745 ;; Ret ((failed_at m master =? 0) || negb (t - failed_at m master <? c_failover_delay cfg))   (* zero clock: time.Since is huge *)
  else Ret true.

(* quorum of alive replicas in the published list, then the cooldown *)
Definition approve_tail (cfg : config) (cs : list (host * node_state)) (active : list host) : prog bool :=
  if negb (check_quorum (c_semi_sync cfg) (c_wait_count cfg) (Z.of_nat (length active)) (count_alive_ha_slaves_within active cs)) then Ret false else
  Do 761 (DcsGet PLastSwitch) (fun r =>
    match r with
    | RErr ENotFound => Ret true
    | RVal (VSwitch last) =>
        match sw_result last with
        | None => Ret false
        | Some (_, fin) =>
            t <- now_ 769 ;;
            Ret (negb (negb (fin =? 0) && (t - fin <? c_failover_cooldown cfg) && match sw_cause_ last with CauseAuto => true | _ => false end))
        end
    | _ => Ret false
    end).

Definition approve_failover (cfg : config) (cs : list (host * node_state)) (mstate_dcs : node_state)
           (active : list host) (m : mgr_mem) (master : host) : prog bool :=
  if negb (c_failover cfg) then Ret false else
  pre <- approve_pre cfg cs mstate_dcs m master ;;
  if negb pre then Ret false else approve_tail cfg cs active.

(* approveSwitchover: None = approved, Some code = rejected *)
Definition approve_switchover (cfg : config) (sw : switch_rec) (active : list host) (cs : list (host * node_state)) : option Z :=
  if negb (is_failover sw) && (0 <? c_switchover_max_attempts cfg) && (c_switchover_max_attempts cfg <=? sw_run_count sw) then Some 814
  else if (0 <? sw_run_count sw) || sw_started sw then None      (* approved before: a retry, or an attempt whose manager died *)
  else if check_quorum (c_semi_sync cfg) (c_wait_count cfg) (Z.of_nat (length active)) (count_alive_ha_slaves_within active cs) then None
  else Some 822.

Definition issue_failover (master : host) : prog oerr :=
  t <- now_ 20216 ;;
  Do 20221 (DcsCreate PSwitch (VSwitch {| sw_from := Some master; sw_to := None; sw_cause_ := CauseAuto; sw_kind := SwFailover;
                                           sw_master_transition := true; sw_run_count := 0; sw_initiated_at := t;
                                           sw_started := false; sw_started_at := 0; sw_result := None |}))
     (fun r => match r with ROk => Ret None | RErr e => Ret (Some e) | _ => Ret (Some EOther) end).

(* ---- maintenance --------------------------------------------------------------------- *)
Definition set_maintenance (s : site) (m : maint_rec) : prog oerr := dcs_set_ s PMaintenance (VMaint m).

Definition enter_maintenance (cfg : config) (mt : maint_rec) (master : host) (known : bool) : prog oerr :=
  e <- (if c_disable_semisync_on_maint cfg then
          if negb known then Panic 90007 else       (* cluster.Get(master) is nil: dereferenced *)
          e1 <- exec_ 90007 master SSemiDisable ;;
          match e1 with Some x => Ret (Some x) | None => dcs_delete_ 90011 PActiveNodes end
        else Ret None) ;;
  match e with
  | Some x => Ret (Some x)
  | None => set_maintenance 90017 {| mt_paused := true; mt_should_leave := mt_should_leave mt; mt_light := mt_light mt |}
  end.

Definition tail_envs (env : mgr_env) (cs csd : list (host * node_state)) (master : host) (active : list host) :=
  ( {| OfflineMode.oe_master := master; oe_state := cs; oe_order := me_offline_order env; oe_zone := me_zone env |},
    {| re_master := master; re_state := cs; re_state_dcs := csd; re_order := me_repair_order env; re_uuid_of := me_uuid_of env; re_emerge_file := f_emerge |},
    {| ae_master := master; ae_master_uuid := match assoc master (me_uuid_of env) with Some u => u | None => 0%N end;
       ae_state := cs; ae_state_dcs := csd; ae_old_active := active |} ).

(* leaveMaintenance: Some code = failed (the mode is kept) *)
Definition leave_maintenance (cfg : config) (env : mgr_env) (m : mgr_mem) : prog (option Z * mgr_mem) :=
  u <- update_hosts_info m ;;
  let '(ok, m1) := u in
  if negb ok then Ret (Some 90023, m1) else
  cs <- cluster_state_from_db 90026 (all_hosts m1) ;;
  mr <- ensure_current_master cs ;;
  match mr with
  | MrMany => Do 90030 (FileWrite f_emerge) (fun _ => Ret (Some 90030, m1))
  | MrNone | MrErr => Ret (Some 90032, m1)
  | MrOk master =>
      ocsd <- cluster_state_from_dcs 90034 (all_hosts m1) ;;
      match ocsd with
      | None => Ret (Some 90036, m1)
      | Some csd =>
          let '(_, renv, _) := tail_envs env cs csd master [] in
          rm <- repair_cluster cfg renv (mm_repair m1) ;;
          let m2 := with_repair m1 rm in
          cs2 <- cluster_state_from_db 90039 (all_hosts m2) ;;
          let '(_, _, aenv) := tail_envs env cs2 csd master [] in
          ua <- update_active_nodes cfg aenv (mm_an m2) ;;
          let m3 := with_an m2 (snd ua) in
          match fst ua with
          | AnFail _ => Ret (Some 90042, m3)
          | AnOk =>
              Do 90044 (DcsGet PActiveNodes) (fun r =>
                match r with
                | RVal (VHosts (_ :: _)) =>
                    e <- dcs_delete_ 90051 PMaintenance ;; Ret (match e with Some _ => Some 90051 | None => None end, m3)
                | RVal (VHosts []) | RErr ENotFound | RErr EMalformed | RVal _ => Ret (Some 90049, m3)
                | _ => Ret (Some 90046, m3)
                end)
          end
      end
  end.

Definition try_leave_maintenance (cfg : config) (env : mgr_env) (m : mgr_mem) : prog (mgr_next * mgr_mem) :=
  l <- lock_acquire 336 ;;
  if l then
    r <- leave_maintenance cfg env m ;;
    match fst r with
    | Some _ => Ret (NxMaintenance, snd r)
    | None => Do 344 (FileRemove f_maintenance) (fun _ => Ret (NxManager, snd r))
    end
  else Do 347 (FileRemove f_maintenance) (fun _ => Ret (NxCandidate, m)).

(* ---- what the gates hand to the tail of the iteration ----------------------------- *)
Record tail_ctx := {
  tc_cs : list (host * node_state); tc_csd : list (host * node_state);
  tc_master : host; tc_active : list host; tc_light : bool }.

Inductive gate_res := GNext (n : mgr_next) | GTail (c : tail_ctx).

(* the switch-request block of the iteration (469-524) *)
(* ErrManagerLockLost: the two lock re-checks of performSwitchover *)
Definition lock_lost (e : sw_err) : bool := match e with SwErr c => (c =? 1351) || (c =? 1422) | SwOk => false end.

Definition handle_switchover (cfg : config) (env : mgr_env) (m : mgr_mem) (cs : list (host * node_state)) (active : list host)
           (master : host) (sw : switch_rec) : prog mgr_mem :=
  t <- now_ 475 ;;
  if negb (sw_initiated_at sw =? 0) && (c_switchover_timeout cfg <? t - sw_initiated_at sw) then
    finish_switchover sw false ;;; Ret m            (* timed out: rejected *)
  else
  match approve_switchover cfg sw active cs with
  | Some _ => finish_switchover sw false ;;; Ret m
  | None =>
      st <- start_switchover sw ;;
      let '(sw1, e) := st in
      match e with
      | Some _ => Ret m
      | None =>
          let senv := {| se_old_master := master; se_all_hosts := all_hosts m; se_state := cs; se_active := active;
                         se_uuid_of := me_uuid_of env; se_emerge_file := f_emerge |} in
          r <- perform_switchover cfg senv sw1 (mm_an m) ;;
          let m1 := with_an m (snd r) in
          if lock_lost (fst r) then Ret m1 else       (* not the manager any more: the request is left alone *)
          Do 500 (DcsGet PSwitch) (fun g =>
            match g with
            | RErr ENotFound => Ret m1                     (* aborted meanwhile (or already finished as rejected) *)
            | _ =>
                match fst r with
                | SwErr _ => fail_switchover sw1 ;;; Ret m1
                | SwOk => finish_switchover sw1 true ;;; Ret m1
                end
            end)
      end
  end.

(* failure detection (526-558): returns (stop this iteration?, memory) *)
Definition failure_detection (cfg : config) (cs : list (host * node_state)) (msd : node_state) (active : list host)
           (m : mgr_mem) (master : host) (light : bool) : prog (bool * mgr_mem) :=
  if negb (ns_ping_ok msd) || ns_fs_ro msd then
    m1 <- (if failed_at m master =? 0 then
             t <- now_ 531 ;; start_timing_at 0 t ;;; start_timing_at 1 t ;;; Ret (set_failed_at_ m master t)
           else Ret m) ;;
    if light then Ret (false, m1)
    else
      ap <- approve_failover cfg cs msd active m1 master ;;
      (if ap then issue_failover master ;;; Ret tt else Ret tt) ;;;
      Ret (true, m1)
  else
    if negb (failed_at m master =? 0) then
      stop_timing 0 ;;; stop_timing 1 ;;; Ret (false, set_failed_at_ m master 0)
    else Ret (false, m).

(* what follows the request handling: failure detection, then the suspicious-master guard *)
Definition after_requests (cfg : config) (cs csd : list (host * node_state)) (active : list host) (m : mgr_mem) (master : host) (light : bool)
  : prog (gate_res * mgr_mem) :=
  match assoc master csd with
  | None => Panic 528
  | Some msd =>
      fd <- failure_detection cfg cs msd active m master light ;;
      let m := snd fd in
      if fst fd then Ret (GNext NxManager, m) else
      match assoc master cs with
      | None => Panic 560
      | Some ms =>
          if negb (ns_ping_ok ms) then Ret (GNext NxManager, m)       (* MASTER SUSPICIOUS: no repair of any kind *)
          else Ret (GTail {| tc_cs := cs; tc_csd := csd; tc_master := master; tc_active := active; tc_light := light |}, m)
      end
  end.

(* maintenance handling (422-467): Some next = leave the iteration *)
Definition handle_maintenance (cfg : config) (env : mgr_env) (m : mgr_mem) (omt : option maint_rec) (master : host) : prog (option mgr_next * mgr_mem) :=
  match omt with
  | None => Ret (None, m)
  | Some mt =>
      if mt_light mt then
        if mt_should_leave mt then r <- try_leave_maintenance cfg env m ;; Ret (Some (fst r), snd r)
        else if negb (mt_paused mt) then
          e <- set_maintenance 447 {| mt_paused := true; mt_should_leave := mt_should_leave mt; mt_light := true |} ;;
          Ret (match e with Some _ => Some NxManager | None => None end, m)
        else Ret (None, m)
      else
        if negb (mt_paused mt) then
          e <- enter_maintenance cfg mt master (mem_host master (map fst (all_hosts m))) ;;
          Ret (match e with Some _ => Some NxManager | None => Some NxMaintenance end, m)
        else Ret (Some NxMaintenance, m)
  end.

(* the iteration once both views of the cluster are at hand *)
Definition manager_decide (cfg : config) (env : mgr_env) (m : mgr_mem) (cs csd : list (host * node_state)) : prog (gate_res * mgr_mem) :=
  (* the maintenance record is read first: an acknowledged full maintenance freezes the iteration before the
     master record is looked up (and possibly re-learned) *)
  Do 425 (DcsGet PMaintenance) (fun rm =>
  let omt := match rm with RVal (VMaint mt) => Some mt | _ => None end in
  let read_failed := match rm with RVal (VMaint _) | RErr ENotFound => false | _ => true end in
  fe <- (if read_failed then Do 431 (FileExists f_maintenance) (fun r => Ret (match r with RBool b => b | _ => false end)) else Ret false) ;;
  if fe then Ret (GNext NxMaintenance, m) else
  if read_failed then Ret (GNext NxManager, m) else      (* unreadable record: nothing is done in this iteration *)
  if match omt with Some mt => negb (mt_light mt) && mt_paused mt | None => false end then Ret (GNext NxMaintenance, m) else
  mr <- get_current_master cs ;;
  match mr with
  | MrMany => Do 408 (FileWrite f_emerge) (fun _ => Ret (GNext NxManager, m))
  | MrNone | MrErr => Ret (GNext NxManager, m)
  | MrOk master =>
  if negb (mem_host master (map fst (all_hosts m))) then Ret (GNext NxManager, m) else   (* recorded master not registered: skip *)
  Do 414 (DcsGet PActiveNodes) (fun ra =>
  match match ra with
        | RVal (VHosts l) => Some l
        | RErr ENotFound | RErr EMalformed | RVal _ => Some []
        | _ => None end with
  | None => Ret (GNext NxManager, m)
  | Some active =>
  let light := match omt with Some mt => mt_light mt | None => false end in
  mh <- handle_maintenance cfg env m omt master ;;
  let m := snd mh in
  match fst mh with
  | Some nx => Ret (GNext nx, m)
  | None =>
  Do 470 (DcsGet PSwitch) (fun rs =>
  match rs with
  | RVal (VSwitch sw) =>
      if light && is_failover sw then after_requests cfg cs csd active m master light   (* failover parked by light maintenance *)
      else m' <- handle_switchover cfg env m cs active master sw ;; Ret (GNext NxManager, m')
  | RErr ENotFound => after_requests cfg cs csd active m master light
  | _ => Ret (GNext NxManager, m)
  end)
  end end) end).

(* the iteration up to the repair tail *)
Definition manager_gates (cfg : config) (env : mgr_env) (m : mgr_mem) : prog (gate_res * mgr_mem) :=
  c <- Do 368 DcsConnected (fun r => Ret (match r with RBool b => b | _ => false end)) ;;
  if negb c then Ret (GNext NxLost, m) else
  l <- lock_acquire 371 ;;
  if negb l then Ret (GNext NxCandidate, m) else
  u <- update_hosts_info m ;;
  let m := snd u in
  cs <- cluster_state_from_db 384 (all_hosts m) ;;
  ocsd <- cluster_state_from_dcs 388 (all_hosts m) ;;
  match ocsd with
  | None => Ret (GNext NxManager, m)
  | Some csd => manager_decide cfg env m cs csd
  end.

(* ---- the tail: repairs, after-crash failover, active list, optimisation sync ---- *)
Definition manager_tail (cfg : config) (env : mgr_env) (m : mgr_mem) (c : tail_ctx) : prog mgr_mem :=
  let '(oenv, renv, aenv) := tail_envs env (tc_cs c) (tc_csd c) (tc_master c) (tc_active c) in
  repair_offline_mode cfg oenv ;;;
  rm <- repair_cluster cfg renv (mm_repair m) ;;
  let m := with_repair m rm in
  match assoc (tc_master c) (tc_csd c) with
  | None => Panic 570
  | Some msd =>
      filed <- (if c_resetup_crashed cfg && (1 <? count_ha_nodes (tc_cs c)) && crash_recovered cfg msd then
                  if tc_light c then Ret false
                  else
                    ap <- approve_failover cfg (tc_cs c) msd (tc_active c) m (tc_master c) ;;
                    if ap then issue_failover (tc_master c) ;;; Ret true else Ret false
                else Ret false) ;;
      if filed then Ret m else
      ua <- update_active_nodes cfg aenv (mm_an m) ;;
      let m := with_an m (snd ua) in
      (if c_repl_mon cfg then
         Do 20254 (DcsCreate (POther 1) (VOpaque 0)) (fun _ => Ret tt)   (* repl_mon timestamp: not modelled further *)
       else Ret tt) ;;;
      opt_sync {| ov_master := tc_master c; ov_states := tc_csd c; ov_cluster := map fst (all_hosts m);
                  ov_low := 60; ov_high := 120 |} ;;;
      Ret m
  end.

Definition state_manager (cfg : config) (env : mgr_env) (m : mgr_mem) : prog (mgr_next * mgr_mem) :=
  g <- manager_gates cfg env m ;;
  match fst g with
  | GNext n => Ret (n, snd g)
  | GTail c => m' <- manager_tail cfg env (snd g) c ;; Ret (NxManager, m')
  end.

(* ---- the other states of the daemon that take part in C09 ------------------------ *)
Definition state_candidate (m : mgr_mem) : prog (mgr_next * mgr_mem) :=
  c <- Do 775 DcsConnected (fun r => Ret (match r with RBool b => b | _ => false end)) ;;
  if negb c then Ret (NxLost, m) else
  u <- update_hosts_info m ;;
  if negb (fst u) then Ret (NxCandidate, snd u) else
  let m := snd u in
  Do 783 (DcsGet PMaintenance) (fun rm =>
    match rm with
    | RVal (VMaint mt) =>
        if mt_paused mt && negb (mt_light mt) then Ret (NxMaintenance, m)
        else l <- lock_acquire 792 ;; Ret (if l then NxManager else NxCandidate, m)
    | RErr ENotFound => l <- lock_acquire 792 ;; Ret (if l then NxManager else NxCandidate, m)
    | _ => Ret (NxCandidate, m)
    end).

Definition state_maintenance (cfg : config) (env : mgr_env) (m : mgr_mem) : prog (mgr_next * mgr_mem) :=
  fe <- Do 352 (FileExists f_maintenance) (fun r => Ret (match r with RBool b => b | _ => false end)) ;;
  (if fe then Ret tt else Do 353 (FileWrite f_maintenance) (fun _ => Ret tt)) ;;;
  Do 355 (DcsGet PMaintenance) (fun rm =>
    match rm with
    | RVal (VMaint mt) => if mt_should_leave mt then try_leave_maintenance cfg env m else Ret (NxMaintenance, m)
    | RErr ENotFound => try_leave_maintenance cfg env m
    | _ => Ret (NxMaintenance, m)
    end).
