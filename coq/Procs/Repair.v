(* internal/app/app.go repairCluster (1774), repairMasterNode, repairSlaveNode,
   repairCascadeNode (1892), findBestStreamFrom (2035);
   internal/app/replication.go TryRepairReplication, MarkReplicationRunning. *)
From Coq Require Import ZArith NArith Bool List.
From Mysync Require Import Gtid.Interval Gtid.GtidSet Base.Prog Base.Config Procs.NodeOps Procs.Lost Procs.ActiveNodes Procs.Switchover Procs.DiskGuard.
Import ListNotations.
Open Scope Z_scope.

(* per-host repair history (ReplicationRepairState) *)
Record repair_state := { rp_last_attempt : Z; rp_start_count : Z; rp_reset_count : Z; rp_last_gtid : gtidset }.

Record repair_mem := {
  rm_repair : list (host * repair_state);
  rm_stream_failed_at : list (host * Z) }.     (* timings[StreamFromFailedAt] *)

Record repair_env := {
  re_master : host;
  re_state : list (host * node_state);
  re_state_dcs : list (host * node_state);
  re_order : list host;                          (* Go map iteration order of this pass *)
  re_uuid_of : list (host * N);
  re_emerge_file : N }.

Inductive repair_algo := AlgStart | AlgReset.

(* cooldownPassed: last_attempt < now - cooldown *)
Definition cooldown_passed (cfg : config) (st : repair_state) : prog bool :=
  t <- now_ 70239 ;; Ret (rp_last_attempt st <? t - c_repair_cooldown cfg).

Definition suitable_algo (cfg : config) (st : repair_state) : option (repair_algo * Z) :=
  if rp_start_count st <? c_repair_max_attempts cfg then Some (AlgStart, rp_start_count st)
  else if c_repair_aggressive cfg && (rp_reset_count st <? c_repair_max_attempts cfg) then Some (AlgReset, rp_reset_count st)
  else None.

Definition reset_slave_algorithm (h master : host) : prog oerr :=
  e1 <- exec_ 70142 h SSetOffline ;;
  match e1 with Some x => Ret (Some x) | None =>
  e2 <- set_read_only h true ;;
  match e2 with Some x => Ret (Some x) | None =>
  e3 <- exec_ 70154 h SStopRepl ;;
  match e3 with Some x => Ret (Some x) | None =>
  e4 <- exec_ 70160 h SResetReplAll ;;
  match e4 with Some x => Ret (Some x) | None =>
  e5 <- exec_ 70166 h (SChangeSource master) ;;
  match e5 with Some x => Ret (Some x) | None => exec_ 70172 h SStartRepl end end end end end.

Definition try_repair_replication (cfg : config) (h master : host) (mem : repair_mem) : prog repair_mem :=
  st0 <- (match assoc h (rm_repair mem) with
          | Some st => Ret (Some st)
          | None =>
              s <- replica_status 70258 h ;;
              match snd s, fst s with
              | Some _, _ => Ret None
              | None, None => Ret None                   (* no status any more (the channel is gone): an error, nothing is recorded *)
              | None, Some rs => t <- now_ 70264 ;; Ret (Some {| rp_last_attempt := t; rp_start_count := 0; rp_reset_count := 0; rp_last_gtid := rs_executed rs |})
              end
          end) ;;
  match st0 with
  | None => Ret mem
  | Some st =>
      let mem1 := {| rm_repair := assoc_set h st (rm_repair mem); rm_stream_failed_at := rm_stream_failed_at mem |} in
      cp <- cooldown_passed cfg st ;;
      if negb cp then Ret mem1
      else
        match suitable_algo cfg st with
        | None => Ret mem1
        | Some (alg, count) =>
            (match alg with AlgStart => exec_ 70118 h SStartRepl | AlgReset => reset_slave_algorithm h master end) ;;;
            t <- now_ 70103 ;;
            let st' := match alg with
                       | AlgStart => {| rp_last_attempt := t; rp_start_count := count + 1; rp_reset_count := rp_reset_count st; rp_last_gtid := rp_last_gtid st |}
                       | AlgReset => {| rp_last_attempt := t; rp_start_count := rp_start_count st; rp_reset_count := count + 1; rp_last_gtid := rp_last_gtid st |}
                       end in
            Ret {| rm_repair := assoc_set h st' (rm_repair mem1); rm_stream_failed_at := rm_stream_failed_at mem1 |}
        end
  end.

Definition mark_replication_running (cfg : config) (h : host) (mem : repair_mem) : prog repair_mem :=
  match assoc h (rm_repair mem) with
  | None => Ret mem
  | Some st =>
      cp <- cooldown_passed cfg st ;;
      if negb cp then Ret mem
      else
        s <- replica_status 70061 h ;;
        match snd s, fst s with
        | Some _, _ => Ret mem
        | None, None => Ret mem
        | None, Some rs =>
            if slave_ahead (rs_executed rs) (rp_last_gtid st)
            then Ret {| rm_repair := assoc_del h (rm_repair mem); rm_stream_failed_at := rm_stream_failed_at mem |}
            else Ret mem
        end
  end.

(* ---- cascade replicas ------------------------------------------------------------ *)
Definition fetch_cascade_topology : prog (option (list (host * option host))) :=
  c <- dcs_children_ 30076 PCascadeNodes ;;
  match snd c with
  | Some _ => Ret None
  | None =>
      (fix go (l : list host) : prog (option (list (host * option host))) :=
         match l with
         | [] => Ret (Some [])
         | h :: r =>
             Do 30082 (DcsGet (PCascadeNode h)) (fun x =>
               match x with
               | RVal (VStreamFrom sf) => y <- go r ;; Ret (match y with Some t => Some ((h, sf) :: t) | None => None end)
               | _ => Ret None
               end)
         end) (fst c)
  end.

Definition slave_lag_of (ns : node_state) : option Z := match ns_slave ns with Some rs => rs_lag rs | None => None end.

Definition ns_repl_running (ns : node_state) : bool :=
  match ns_slave ns with Some rs => match repl_state_of rs with ReplRunning => true | _ => false end | None => false end.

(* findBestStreamFrom: walk the configured chain; fuel = number of hosts + 1 is enough
   because every step extends the loop detector with a new host or stops *)
Fixpoint find_best_stream_from (fuel : nat) (cfg : config) (env : repair_env) (topo : list (host * option host)) (self : host) (path : list host) : prog host :=
  match fuel with
  | O => Ret (re_master env)                 (* unreachable: see C16_terminates *)
  | S f =>
      let cur := match path with x :: _ => x | [] => self end in
      match (match assoc cur topo with Some sf => sf | None => None end) with
      | None => Ret (re_master env)
      | Some sf =>
          if mem_host sf path then Ret (re_master env)
          else
            let streaming_from_it :=
              match path with
              | [_] => match assoc self (re_state env) with
                       | Some me => ns_repl_running me && match ns_slave me with Some rs => N.eqb (rs_source rs) sf | None => false end
                       | None => false
                       end
              | _ => false
              end in
            if streaming_from_it then Ret sf
            else
              match assoc sf (re_state env) with
              | None => Ret (re_master env)                (* a source that is not registered: fall back to the master *)
              | Some cand =>
                  let reasonable := ns_is_master cand ||
                    (ns_repl_running cand && match slave_lag_of cand with Some l => l <? c_stream_from_reasonable_lag cfg | None => false end) in
                  if ns_ping_ok cand && negb (ns_offline cand) && reasonable then Ret sf
                  else find_best_stream_from f cfg env topo self (sf :: path)
              end
      end
  end.

Definition node_gtid (ns : node_state) : option gtidset :=
  if ns_is_master ns then ns_master_gtid ns else match ns_slave ns with Some rs => Some (rs_executed rs) | None => None end.

(* repairCascadeNode; returns the new StreamFromFailedAt of the host (None = zero) *)
Definition repair_cascade_node (cfg : config) (env : repair_env) (topo : list (host * option host)) (h : host) (ns : node_state) (lost_at : option Z)
  : prog (option Z) :=
  let configured := match assoc h topo with Some sf => sf | None => None end in
  match ns_slave ns with
  | None =>
      (* status unknown: blind re-point to the resolved source (the configured one when it is usable) *)
      src <- find_best_stream_from (S (S (length topo))) cfg env topo h [h] ;;
      e <- perform_change_master cfg h src ;; match e with Some _ => Ret lost_at | None => exec_ 1905 h SStartRepl ;;; Ret lost_at end
  | Some rs =>
      let running := ns_repl_running ns in
      let upstream := rs_source rs in
      cand <- find_best_stream_from (S (S (length topo))) cfg env topo h [h] ;;
      if running && N.eqb cand upstream then Ret None
      else if negb running && N.eqb cand upstream then
        if perm_broken ns then Ret lost_at else exec_ 1933 h SStartRepl ;;; Ret lost_at
      else
        la <- (if negb running && match lost_at with None => true | Some _ => false end then t <- now_ 1943 ;; Ret (Some t) else Ret lost_at) ;;
        (* cand <> upstream here *)
        stopped <- (if running then e <- exec_ 1951 h SStopRepl ;; Ret (match e with Some _ => false | None => true end) else Ret true) ;;
        if negb stopped then Ret la
        else
          my <- replica_status 1964 h ;;
          match snd my, fst my with
          | Some _, _ => Ret la
          | None, None => Ret la                            (* no status any more: give up for this pass *)
          | None, Some myrs =>
              match assoc cand (re_state env) with
              | None => Panic 1971
              | Some cst =>
                  match node_gtid cst with
                  | None => Ret la                          (* the candidate's state is incomplete: put off *)
                  | Some cg =>
                      let mine := rs_executed myrs in
                      let cuuid := match assoc cand (re_uuid_of env) with Some u => u | None => 0%N end in
                      if slave_ahead mine cg then Ret la
                      else if split_brained mine cg cuuid then Do 1994 (FileWrite (re_emerge_file env)) (fun _ => Ret la)
                      else if behind_or_equal mine cg then
                        e <- perform_change_master cfg h cand ;;
                        match e with Some _ => Ret la | None => exec_ 2004 h SStartRepl ;;; Ret la end
                      else Ret la
                  end
              end
          end
  end.

Definition set_failed_at (mem : repair_mem) (h : host) (v : option Z) : repair_mem :=
  {| rm_repair := rm_repair mem;
     rm_stream_failed_at := match v with Some t => assoc_set h t (rm_stream_failed_at mem) | None => assoc_del h (rm_stream_failed_at mem) end |}.

Definition repair_slave_node (cfg : config) (env : repair_env) (h : host) (ns : node_state) (mem : repair_mem) : prog repair_mem :=
  let master := re_master env in
  (if negb (ns_ro ns) then set_read_only h true ;;; Ret tt else Ret tt) ;;;
  if ns_is_master ns then
    stop_replication_on_master h ;;;
    perform_change_master cfg h master ;;;
    set_recovery h ;;; Ret mem
  else
    m1 <- (if ns_is_cascade ns then
             topo <- fetch_cascade_topology ;;
             match topo with
             | None => Ret None
             | Some tp => la <- repair_cascade_node cfg env tp h ns (assoc h (rm_stream_failed_at mem)) ;; Ret (Some (set_failed_at mem h la))
             end
           else Ret (Some (set_failed_at mem h None))) ;;
    match m1 with
    | None => Ret mem                                        (* topology unreadable: return *)
    | Some mem1 =>
        (if negb (ns_is_cascade ns) then
           match ns_slave ns with
           | Some rs =>
               if negb (N.eqb (rs_source rs) master) then perform_change_master cfg h master ;;; Ret tt
               else match repl_state_of rs with ReplStopped => exec_ 1870 h SStartRepl ;;; Ret tt | _ => Ret tt end
           | None => Ret tt
           end
         else Ret tt) ;;;
        match ns_slave ns with
        | None => Ret mem1
        | Some rs =>
            match repl_state_of rs with
            | ReplError => if perm_broken ns then Ret mem1 else try_repair_replication cfg h master mem1
            | _ => mark_replication_running cfg h mem1
            end
        end
    end.

Definition repair_master_node (cfg : config) (env : repair_env) (ms : node_state) : prog unit :=
  repair_read_only_on_master cfg (re_master env) ms (re_state_dcs env) ;;;
  Do 11028 (Sql (re_master env) SListEvents) (fun _ => Ret tt).

Fixpoint repair_cluster_loop (cfg : config) (env : repair_env) (l : list host) (mem : repair_mem) : prog repair_mem :=
  match l with
  | [] => Ret mem
  | h :: r =>
      match assoc h (re_state env) with
      | None => repair_cluster_loop cfg env r mem
      | Some ns =>
          if negb (ns_ping_ok ns) then repair_cluster_loop cfg env r mem
          else if N.eqb h (re_master env) then repair_master_node cfg env ns ;;; repair_cluster_loop cfg env r mem
          else m <- repair_slave_node cfg env h ns mem ;; repair_cluster_loop cfg env r m
      end
  end.

Definition repair_cluster (cfg : config) (env : repair_env) (mem : repair_mem) : prog repair_mem :=
  repair_cluster_loop cfg env (re_order env) mem.
