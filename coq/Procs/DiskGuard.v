(* internal/app/app.go repairReadOnlyOnMaster (1693) and nodestate.DiskState.Usage. *)
From Coq Require Import ZArith NArith Bool List.
From Mysync Require Import Gtid.Interval Gtid.GtidSet Base.Prog Base.Config Procs.NodeOps.
Import ListNotations.
Open Scope Z_scope.

(* DiskState.Usage() = 100*used/total as an exact rational compared with a
   threshold given in hundredths of a percent (95.00% = 9500) *)
Definition usage_ge (d : Z * Z) (t : Z) : bool :=
  let '(used, total) := d in
  if total =? 0 then 0 >=? t else if total <? used then 10000 >=? t else t * total <=? 10000 * used.
Definition usage_gt (d : Z * Z) (t : Z) : bool :=
  let '(used, total) := d in
  if total =? 0 then 0 >? t else if total <? used then 10000 >? t else t * total <? 10000 * used.

Record guard_counts := { g_need_ro : bool; g_may_write : bool; g_running : Z; g_low : Z; g_normal : Z }.

Definition is_running_semisync_replica (cfg : config) (ns : node_state) : bool :=
  c_semi_sync cfg &&
  match ns_semi ns with Some (_, sl, _) => sl | None => false end &&
  match ns_slave ns with Some rs => match repl_state_of rs with ReplRunning => true | _ => false end | None => false end.

Definition guard_step (cfg : config) (master : host) (acc : guard_counts) (hn : host * node_state) : guard_counts :=
  let '(h, ns) := hn in
  match ns_disk ns with
  | None => acc
  | Some d =>
      if ns_is_master ns && N.eqb master h then
        if usage_ge d (c_critical_disk cfg) then
          {| g_need_ro := true; g_may_write := g_may_write acc; g_running := g_running acc; g_low := g_low acc; g_normal := g_normal acc |}
        else if usage_gt d (c_not_critical_disk cfg) then
          {| g_need_ro := g_need_ro acc; g_may_write := false; g_running := g_running acc; g_low := g_low acc; g_normal := g_normal acc |}
        else acc
      else if is_running_semisync_replica cfg ns then
        if usage_ge d (c_critical_disk cfg) then
          {| g_need_ro := g_need_ro acc; g_may_write := g_may_write acc; g_running := g_running acc + 1; g_low := g_low acc + 1; g_normal := g_normal acc |}
        else if usage_gt d (c_not_critical_disk cfg) then
          {| g_need_ro := g_need_ro acc; g_may_write := g_may_write acc; g_running := g_running acc + 1; g_low := g_low acc; g_normal := g_normal acc |}
        else
          {| g_need_ro := g_need_ro acc; g_may_write := g_may_write acc; g_running := g_running acc + 1; g_low := g_low acc; g_normal := g_normal acc + 1 |}
      else acc
  end.

Inductive guard_action := GaSetRO (super : bool) | GaSetWritable | GaNone.

(* the decision: pure function of the master's state and the health records *)
Definition guard_decide (cfg : config) (master : host) (mstate : node_state) (dcs_states : list (host * node_state)) : guard_action :=
  let c := fold_left (guard_step cfg master) dcs_states
             {| g_need_ro := false; g_may_write := true; g_running := 0; g_low := 0; g_normal := 0 |} in
  let '(need_ro, may_write) :=
    if 0 <? g_running c then
      match ns_semi mstate with
      | Some (_, _, w) => if g_running c - w <? g_low c then (true, g_may_write c)
                          else if g_normal c =? 0 then (g_need_ro c, false) else (g_need_ro c, g_may_write c)
      | None => if g_normal c =? 0 then (g_need_ro c, false) else (g_need_ro c, g_may_write c)
      end
    else (g_need_ro c, g_may_write c) in
  if need_ro then
    let keep := c_keep_super_writable cfg in
    if ns_ro mstate && negb (Bool.eqb keep (ns_super_ro mstate)) then GaNone else GaSetRO (negb keep)
  else if may_write then (if negb (ns_ro mstate) then GaNone else GaSetWritable)
  else GaNone.

Definition repair_read_only_on_master (cfg : config) (master : host) (mstate : node_state) (dcs_states : list (host * node_state)) : prog unit :=
  match guard_decide cfg master mstate dcs_states with
  | GaSetRO super =>
      e <- set_read_only_with_force 64 master super ;;
      match e with
      | Some _ => Ret tt
      | None => Do 1742 (DcsSet PLowSpace (VBool true)) (fun _ => Ret tt)
      end
  | GaSetWritable =>
      e <- exec_ 1756 master SSetWritable ;;
      match e with
      | Some _ => Ret tt
      | None => Do 1761 (DcsSet PLowSpace (VBool false)) (fun _ => Ret tt)
      end
  | GaNone => Ret tt
  end.
