(* internal/mysql/node.go methods and internal/app/app.go getNodeState as
   programs over SQL statements (DESIGN.md Appendix A).  Site numbers: 1xxxx =
   node.go line, otherwise app.go line. *)
From Coq Require Import ZArith NArith Bool List.
From Mysync Require Import Gtid.Interval Gtid.GtidSet Base.Prog Base.Config.
Import ListNotations.
Open Scope Z_scope.

Definition sec : Z := 1000000000.

(* statements that only read *)
Definition stmt_reads (st : stmt) : bool :=
  match st with
  | SPing | SIsReadOnly | SIsOffline | SShowReplica | SGtidExecuted | SSemiStatus | SReplSettings
  | SUuid | SStartupTime | SBinlogs | SWaitingAck | SProcessIds | SListEvents | SReplMonDelay | SRefused => true
  | _ => false
  end.



(* result of a node method: None = nil error *)
Definition oerr := option err.

Definition resp_err (r : resp) : oerr := match r with RErr e => Some e | _ => None end.

(* a statement that returns no rows (exec / execMogrify) *)
Definition exec_ (s : site) (h : host) (st : stmt) : prog oerr :=
  Do s (Sql h st) (fun r => match r with ROk => Ret None | RErr e => Ret (Some e) | _ => Ret (Some EOther) end).

Definition ping (s : site) (h : host) : prog (bool * oerr) :=
  Do s (Sql h SPing) (fun r => match r with RBool b => Ret (b, None) | RErr e => Ret (false, Some e) | _ => Ret (false, Some EOther) end).

Definition is_read_only (s : site) (h : host) : prog (bool * bool * oerr) :=
  Do s (Sql h SIsReadOnly) (fun r => match r with RFlags a b => Ret (a, b, None) | RErr e => Ret (false, false, Some e) | _ => Ret (false, false, Some EOther) end).

Definition is_offline (s : site) (h : host) : prog (bool * oerr) :=
  Do s (Sql h SIsOffline) (fun r => match r with RBool b => Ret (b, None) | RErr e => Ret (false, Some e) | _ => Ret (false, Some EOther) end).

(* GetReplicaStatus: (nil,nil) when the server has no channel *)
Definition replica_status (s : site) (h : host) : prog (option repl_status * oerr) :=
  Do s (Sql h SShowReplica) (fun r => match r with RRepl o => Ret (o, None) | RErr e => Ret (None, Some e) | _ => Ret (None, Some EOther) end).

Definition gtid_executed (s : site) (h : host) : prog (gtidset * oerr) :=
  Do s (Sql h SGtidExecuted) (fun r => match r with RGtid g => Ret (g, None) | RErr e => Ret ([], Some e) | _ => Ret ([], Some EOther) end).

(* SemiSyncStatus: errno 1193 (plugin not loaded) = zero status, no error *)
Definition semi_sync_status (s : site) (h : host) : prog ((bool * bool * Z) * oerr) :=
  Do s (Sql h SSemiStatus) (fun r =>
    match r with
    | RSemi m sl w => Ret ((m, sl, w), None)
    | RErr (EMysql 1193) => Ret ((false, false, 0), None)
    | RErr e => Ret ((false, false, 0), Some e)
    | _ => Ret ((false, false, 0), Some EOther)
    end).

Definition repl_settings (s : site) (h : host) : prog ((Z * Z) * oerr) :=
  Do s (Sql h SReplSettings) (fun r => match r with RZ2 a b => Ret ((a, b), None) | RErr e => Ret ((0, 0), Some e) | _ => Ret ((0, 0), Some EOther) end).

Definition is_waiting_ack (s : site) (h : host) : prog (bool * oerr) :=
  Do s (Sql h SWaitingAck) (fun r => match r with RBool b => Ret (b, None) | RErr e => Ret (false, Some e) | _ => Ret (false, Some EOther) end).

(* setReadonlyWithTimeout (node.go:760): set, then verify both flags *)
Definition set_read_only_once (h : host) (super : bool) : prog oerr :=
  e <- exec_ 10767 h (SSetRO super) ;;
  match e with
  | Some x => Ret (Some x)
  | None =>
      f <- is_read_only 10773 h ;;
      let '(ro, sro, e2) := f in
      match e2 with
      | Some x => Ret (Some x)
      | None => if negb (Bool.eqb sro super) then Ret (Some EOther) else if negb ro then Ret (Some EOther) else Ret None
      end
  end.
Definition set_read_only := set_read_only_once.

(* the concurrent "kill everything" loop of SetReadOnlyWithForce: how often it
   iterates depends on scheduling, hence Peek *)
Fixpoint kill_loop (fuel : nat) (h : host) : prog resp :=
  match fuel with
  | O => Ret ROk
  | S f =>
      Do 10810 (Peek (Sql h SProcessIds)) (fun more =>
        match more with
        | RBool true =>
            Do 10811 (Sql h SProcessIds) (fun r =>
              match r with
              | RIds ids => forM_ ids (fun id => exec_ 10814 h (SKill id) ;;; Ret tt) ;;; kill_loop f h
              | _ => kill_loop f h
              end)
        | _ => Ret ROk
        end)
  end.

(* SetReadOnlyWithForce (node.go:784): three graceful attempts, then the forced
   attempt concurrently with the kill loop *)
Definition set_read_only_with_force (fuel : nat) (h : host) (super : bool) : prog oerr :=
  e1 <- set_read_only_once h super ;;
  match e1 with None => Ret None | Some _ =>
  e2 <- set_read_only_once h super ;;
  match e2 with None => Ret None | Some _ =>
  e3 <- set_read_only_once h super ;;
  match e3 with None => Ret None | Some _ =>
    Par 10799 [(h, (e <- set_read_only_once h super ;; Ret (match e with None => ROk | Some x => RErr x end)));
               (0%N, kill_loop fuel h)]      (* key 0 = the background kill loop (hosts are numbered from 1) *)
      (fun rs => match find (fun x => N.eqb (fst x) h) rs with Some (_, r) => Ret (resp_err r) | None => Ret (Some EOther) end)
  end end end.

(* ---- node state (nodestate.NodeState) ------------------------------------- *)
Inductive repl_state := ReplRunning | ReplStopped | ReplError.
Definition repl_state_of (rs : repl_status) : repl_state :=
  if rs_io rs && rs_sql rs then ReplRunning
  else if (rs_io_errno rs =? 0) && (rs_sql_errno rs =? 0) then ReplStopped else ReplError.

(* mysql.IsErrorDubious *)
Definition dubious_errnos : list Z := [1040; 1129; 1130; 1203; 3159; 1045; 1044; 1698].
Definition err_dubious (e : err) : bool :=
  match e with EMysql n => existsb (Z.eqb n) dubious_errnos | _ => false end.

Definition ns_set_error (ns : node_state) : node_state :=
  {| ns_ping_ok := ns_ping_ok ns; ns_ping_dubious := ns_ping_dubious ns; ns_is_master := ns_is_master ns; ns_ro := ns_ro ns;
     ns_super_ro := ns_super_ro ns; ns_offline := ns_offline ns; ns_is_cascade := ns_is_cascade ns; ns_fs_ro := ns_fs_ro ns;
     ns_has_error := true; ns_disk := ns_disk ns; ns_daemon := ns_daemon ns; ns_master_gtid := ns_master_gtid ns;
     ns_slave := ns_slave ns; ns_semi := ns_semi ns; ns_repl_settings := ns_repl_settings ns; ns_check_at := ns_check_at ns |}.

(* the error tail of getNodeState: if the first ping was ok, ping once more *)
Definition gns_fail (h : host) (ns : node_state) : prog node_state :=
  if ns_ping_ok ns then
    p <- ping 2191 h ;;
    let '(ok, e) := p in
    Ret {| ns_ping_ok := ok; ns_ping_dubious := match e with Some x => err_dubious x | None => ns_ping_dubious ns end;
           ns_is_master := ns_is_master ns; ns_ro := ns_ro ns; ns_super_ro := ns_super_ro ns; ns_offline := ns_offline ns;
           ns_is_cascade := ns_is_cascade ns; ns_fs_ro := ns_fs_ro ns; ns_has_error := true; ns_disk := ns_disk ns;
           ns_daemon := ns_daemon ns; ns_master_gtid := ns_master_gtid ns; ns_slave := ns_slave ns; ns_semi := ns_semi ns;
           ns_repl_settings := ns_repl_settings ns; ns_check_at := ns_check_at ns |}
  else Ret (ns_set_error ns).

(* getNodeState (app.go:2121) *)
Definition get_node_state (h : host) (is_cascade : bool) : prog node_state :=
  Do 2131 Now (fun tnow =>
  let t := match tnow with RZ z => z | _ => 0 end in
  let base := {| ns_ping_ok := false; ns_ping_dubious := false; ns_is_master := false; ns_ro := false; ns_super_ro := false;
                 ns_offline := false; ns_is_cascade := is_cascade; ns_fs_ro := false; ns_has_error := false; ns_disk := None;
                 ns_daemon := None; ns_master_gtid := None; ns_slave := None; ns_semi := None; ns_repl_settings := None; ns_check_at := t |} in
  p <- ping 2133 h ;;
  let '(ok, e) := p in
  let ns1 := {| ns_ping_ok := ok; ns_ping_dubious := match e with Some x => err_dubious x | None => false end;
                ns_is_master := false; ns_ro := false; ns_super_ro := false; ns_offline := false; ns_is_cascade := is_cascade;
                ns_fs_ro := false; ns_has_error := false; ns_disk := None; ns_daemon := None; ns_master_gtid := None;
                ns_slave := None; ns_semi := None; ns_repl_settings := None; ns_check_at := t |} in
  match e with Some _ => gns_fail h ns1 | None =>
  if negb ok then gns_fail h ns1 else
  f <- is_read_only 2142 h ;;
  let '(ro, sro, e2) := f in
  let ns2 := {| ns_ping_ok := true; ns_ping_dubious := false; ns_is_master := false; ns_ro := ro; ns_super_ro := sro;
                ns_offline := false; ns_is_cascade := is_cascade; ns_fs_ro := false; ns_has_error := false; ns_disk := None;
                ns_daemon := None; ns_master_gtid := None; ns_slave := None; ns_semi := None; ns_repl_settings := None; ns_check_at := t |} in
  match e2 with Some _ => gns_fail h ns2 | None =>
  o <- is_offline 2146 h ;;
  let '(off, e3) := o in
  let ns3 := {| ns_ping_ok := true; ns_ping_dubious := false; ns_is_master := false; ns_ro := ro; ns_super_ro := sro;
                ns_offline := off; ns_is_cascade := is_cascade; ns_fs_ro := false; ns_has_error := false; ns_disk := None;
                ns_daemon := None; ns_master_gtid := None; ns_slave := None; ns_semi := None; ns_repl_settings := None; ns_check_at := t |} in
  match e3 with Some _ => gns_fail h ns3 | None =>
  s <- replica_status 2150 h ;;
  let '(st, e4) := s in
  match e4 with Some _ => gns_fail h ns3 | None =>
  rs <- repl_settings 2154 h ;;
  let '(rset, e5) := rs in
  match e5 with Some _ => gns_fail h ns3 | None =>
  let mk (is_m : bool) (mg : option gtidset) (sl : option repl_status) (semi : option (bool * bool * Z)) :=
    {| ns_ping_ok := true; ns_ping_dubious := false; ns_is_master := is_m; ns_ro := ro; ns_super_ro := sro;
       ns_offline := off; ns_is_cascade := is_cascade; ns_fs_ro := false; ns_has_error := false; ns_disk := None;
       ns_daemon := None; ns_master_gtid := mg; ns_slave := sl; ns_semi := semi; ns_repl_settings := Some rset; ns_check_at := t |} in
  match st with
  | Some rstat =>
      ss <- semi_sync_status 2180 h ;;
      let '(semi, e7) := ss in
      match e7 with
      | Some _ => gns_fail h (mk false None (Some rstat) None)
      | None => Ret (mk false None (Some rstat) (Some semi))
      end
  | None =>
      g <- gtid_executed 2173 h ;;
      let '(gs, e6) := g in
      match e6 with
      | Some _ => gns_fail h (mk true (Some []) None None)       (* MasterState is allocated before the query *)
      | None =>
          ss <- semi_sync_status 2180 h ;;
          let '(semi, e7) := ss in
          match e7 with
          | Some _ => gns_fail h (mk true (Some gs) None None)
          | None => Ret (mk true (Some gs) None (Some semi))
          end
      end
  end
  end end end end end).
