(* internal/app/app.go stateLost (258) and checkHAReplicasRunning (164). *)
From Coq Require Import ZArith NArith Bool List.
From Mysync Require Import Gtid.Interval Gtid.GtidSet Base.Prog Base.Config Procs.NodeOps.
Import ListNotations.
Open Scope Z_scope.

Inductive app_state := StFirstRun | StManager | StCandidate | StLost | StMaintenance.

(* what the process knows from its cached cluster registry + its own memory *)
Record lost_env := {
  le_local : host;
  le_ha_hosts : list host;          (* cluster.HANodeHosts(), contains local iff local is an HA host *)
  le_local_is_ha : bool;
  le_local_is_cascade : bool;
  le_lost_at : option Z }.          (* timings[ZKHALost][local] *)

(* per-replica probe of checkHAReplicasRunning: ROk = good replica *)
Definition probe_replica (cfg : config) (local h : host) : prog resp :=
  s <- replica_status 167 h ;;
  let '(st, e) := s in
  match e with
  | Some x => Ret (RErr x)
  | None =>
    match st with
    | None => Ret (RErr EOther)                                   (* "is master" *)
    | Some rs =>
        if negb (rs_io rs && rs_sql rs) then Ret (RErr EOther)
        else if negb (N.eqb (rs_source rs) local) then Ret (RErr EOther)
        else if negb (c_semi_sync cfg) then Ret ROk
        else
          ss <- semi_sync_status 183 h ;;
          let '(semi, e2) := ss in
          match e2 with
          | Some x => Ret (RErr x)
          | None => let '(_, sl, _) := semi in if sl then Ret ROk else Ret (RErr EOther)
          end
    end
  end.

Definition count_if {A} (f : A -> bool) (l : list A) : Z := Z.of_nat (length (filter f l)).

Definition check_ha_replicas_running (cfg : config) (env : lost_env) : prog (bool * bool) :=
  Par 193 (map (fun h => (h, probe_replica cfg (le_local env) h)) (le_ha_hosts env))
    (fun rs =>
      let available := count_if (fun '(_, r) => match r with ROk => true | _ => false end) rs in
      let unreachable := count_if (fun '(_, r) => match r with RErr EDeadline => true | _ => false end) rs in
      if c_semi_sync cfg then
        ss <- semi_sync_status 215 (le_local env) ;;
        let '(semi, e) := ss in
        match e with
        | Some _ => Ret (false, 0 <? unreachable)
        | None => let '(_, _, w) := semi in Ret (w <=? available, 0 <? unreachable)
        end
      else Ret (Z.of_nat (length (le_ha_hosts env)) - 1 <=? available, 0 <? unreachable)).

(* stopReplicationOnMaster (app.go:2331) *)
Definition stop_replication_on_master (h : host) : prog oerr :=
  e <- exec_ 2334 h SSetOffline ;;
  match e with Some x => Ret (Some x) | None => exec_ 2339 h SSemiDisable end.

Definition lost_continue (e : oerr) : bool :=
  match e with Some EDeadline | Some ELockWait => true | _ => false end.

(* ---- the decision, as a pure function of what was read -------------------- *)
Inductive lost_decision := LdLive | LdPostpone (lost_at : option Z) | LdFence (lost_at : option Z).

Definition lost_decide (cfg : config) (env : lost_env) (is_master repl_running has_unreach : bool) (now now2 : Z) : lost_decision :=
  if is_master && repl_running then LdLive
  else
    let lost_at := if has_unreach then (match le_lost_at env with Some t => Some t | None => Some now end) else le_lost_at env in
    if has_unreach && (now2 - (match lost_at with Some t => t | None => 0 end) <=? c_inactivation_delay cfg) then LdPostpone lost_at
    else LdFence lost_at.

(* fencing a master: forced read-only; on deadline / lock-wait timeout look for
   commits stuck on a semi-sync ACK, cut sessions + disable semi-sync, retry *)
Definition fence_master (local : host) (lost_at : option Z) : prog (app_state * option Z) :=
  e <- set_read_only_with_force 64 local true ;;
  if negb (lost_continue e) then Ret (StLost, lost_at)
  else
    w <- is_waiting_ack 304 local ;;
    let '(blocked, e2) := w in
    match e2 with
    | Some _ => Ret (StLost, lost_at)
    | None =>
        if blocked then
          e3 <- stop_replication_on_master local ;;
          match e3 with
          | Some _ => Ret (StLost, lost_at)
          | None =>
              e4 <- set_read_only_with_force 64 local true ;;
              match e4 with
              | Some _ => Ret (StLost, lost_at)
              | None => g <- gtid_executed 326 local ;; Ret (StLost, lost_at)
              end
          end
        else g <- gtid_executed 326 local ;; Ret (StLost, lost_at)
    end.

Definition fence_replica (local : host) (lost_at : option Z) : prog (app_state * option Z) :=
  e <- set_read_only local true ;;
  g <- gtid_executed 326 local ;; Ret (StLost, lost_at).

Definition lost_act (local : host) (is_master : bool) (d : lost_decision) : prog (app_state * option Z) :=
  match d with
  | LdLive => Ret (StLost, None)
  | LdPostpone la => Ret (StLost, la)
  | LdFence la => if is_master then fence_master local la else fence_replica local la
  end.

Definition lost_static_noop (cfg : config) (env : lost_env) : bool :=
  (Nat.eqb (length (le_ha_hosts env)) 1) || negb (le_local_is_ha env) || c_disable_ro_on_lost cfg.

(* stateLost: returns next state and the new value of the loss clock *)
Definition state_lost (cfg : config) (env : lost_env) : prog (app_state * option Z) :=
  let local := le_local env in
  Do 260 DcsConnected (fun c =>
  match c with
  | RBool true => Ret (StCandidate, None)
  | _ =>
  if lost_static_noop cfg env then Ret (StLost, le_lost_at env)
  else
    ns <- get_node_state local (le_local_is_cascade env) ;;
    rr <- check_ha_replicas_running cfg env ;;
    let '(repl_running, has_unreach) := rr in
    if ns_is_master ns && repl_running then Ret (StLost, None)
    else
      Do 287 Now (fun tn =>
      let now := match tn with RZ z => z | _ => 0 end in
      Do 289 Now (fun tn2 =>
      let now2 := match tn2 with RZ z => z | _ => 0 end in
      lost_act local (ns_is_master ns) (lost_decide cfg env (ns_is_master ns) repl_running has_unreach now now2)))
  end).
