(* internal/app/app.go repairOfflineMode (1569), repairMasterOfflineMode,
   repairSlaveOfflineMode; internal/app/offline_mode_filter.go. *)
From Coq Require Import ZArith NArith Bool List.
From Mysync Require Import Gtid.Interval Gtid.GtidSet Base.Prog Base.Config Procs.NodeOps Procs.ActiveNodes Procs.Switchover.
Import ListNotations.
Open Scope Z_scope.

Record off_env := {
  oe_master : host;
  oe_state : list (host * node_state);
  oe_order : list host;               (* Go map iteration order of this pass: ANY permutation of the hosts *)
  oe_zone : list (host * N) }.        (* availability zone of each host (getAvailabilityZone) *)

Definition zone_of (env : off_env) (h : host) : N := match assoc h (oe_zone env) with Some z => z | None => 0%N end.

Definition pending_get (z : N) (p : list (N * Z)) : Z := match assoc z p with Some c => c | None => 0 end.

(* OfflineModeFilter.CanSetOffline *)
Definition can_set_offline (cfg : config) (env : off_env) (h : host) (pending : list (N * Z)) : bool :=
  if c_offline_max_pct cfg <=? 0 then false
  else if 100 <=? c_offline_max_pct cfg then true
  else
    let az := zone_of env h in
    let same := filter (fun '(x, ns) => negb (ns_is_master ns) && N.eqb (zone_of env x) az) (oe_state env) in
    let total := Z.of_nat (length same) in
    let offline := Z.of_nat (length (filter (fun '(_, ns) => ns_offline ns) same)) in
    if total =? 0 then false
    else (100 * (offline + pending_get az pending + 1)) / total <=? c_offline_max_pct cfg.

Definition is_recovery_needed (s : site) (h : host) : prog bool :=
  Do s (DcsGet (PRecovery h)) (fun r => match r with RVal _ => Ret true | _ => Ret false end).

Definition repair_master_offline (h : host) (ns : node_state) : prog unit :=
  if ns_offline ns then
    rn <- is_recovery_needed 1587 h ;;
    if rn then Ret tt else exec_ 1591 h SSetOnline ;;; Ret tt
  else Ret tt.

Definition startup_time (s : site) (h : host) : prog (Z * oerr) :=
  Do s (Sql h SStartupTime) (fun r => match r with RZ z => Ret (z, None) | RErr e => Ret (0, Some e) | _ => Ret (0, Some EOther) end).

Definition slave_lag (ns : node_state) : option Z :=
  match ns_slave ns with Some rs => rs_lag rs | None => None end.

(* returns the updated per-zone counter of replicas taken offline in this pass *)
Definition repair_slave_offline (cfg : config) (env : off_env) (h : host) (ns : node_state) (ms : node_state) (pending : list (N * Z))
  : prog (list (N * Z)) :=
  match slave_lag ns with
  | None => Ret pending
  | Some lag =>
      let broken := perm_broken ns in
      if ns_offline ns && (lag <=? c_offline_disable_lag cfg) then
        if broken then Ret pending
        else
          Do 1614 (DcsGet (PResetupStatus h)) (fun r =>
            match r with
            | RVal (VResetup status upd) =>
                st <- startup_time 1619 h ;;
                match snd st with
                | Some _ => Ret pending
                | None =>
                    if status || (upd <? fst st) then Ret pending
                    else set_default_repl_settings h (oe_master env) ;;; exec_ 1632 h SSetOnline ;;; Ret pending
                end
            | _ => Ret pending
            end)
      else
        p1 <- (if negb (ns_offline ns) && negb (ns_ro ms) && (c_offline_enable_lag cfg <? lag) then
                 if can_set_offline cfg env h pending then
                   e <- exec_ 1644 h SSetOffline ;;
                   match e with
                   | Some _ => Ret pending
                   | None => opt_enable h ;;; Ret (assoc_set (zone_of env h) (pending_get (zone_of env h) pending + 1) pending)
                   end
                 else Ret pending
               else Ret pending) ;;
        if negb broken then Ret p1
        else
          Do 30179 (DcsGet PLastShutdown) (fun r =>
            let cont (last : Z) : prog (list (N * Z)) :=
              t <- now_ 1673 ;;
              if negb (ns_offline ns) && (c_offline_enable_interval cfg <? t - last) then
                tn <- now_ 30174 ;;
                dcs_set_ 30174 PLastShutdown (VTime tn) ;;;
                exec_ 1679 h SSetOffline ;;; Ret p1
              else Ret p1 in
            match r with
            | RVal (VTime t) => cont t
            | RErr ENotFound =>
                t1 <- now_ 30181 ;;
                Do 30181 (DcsCreate PLastShutdown (VTime t1)) (fun r2 =>
                  match r2 with
                  | ROk => t2 <- now_ 30185 ;; cont t2
                  | _ => t2 <- now_ 30183 ;; Ret p1
                  end)
            | RErr _ => Ret p1
            | _ => cont 0
            end)
  end.

Fixpoint repair_offline_loop (cfg : config) (env : off_env) (ms : option node_state) (l : list host) (pending : list (N * Z)) : prog unit :=
  match l with
  | [] => Ret tt
  | h :: r =>
      match assoc h (oe_state env) with
      | None => repair_offline_loop cfg env ms r pending
      | Some ns =>
          if negb (ns_ping_ok ns) then repair_offline_loop cfg env ms r pending
          else if N.eqb h (oe_master env) then repair_master_offline h ns ;;; repair_offline_loop cfg env ms r pending
          else
            match ms with
            | None => Panic 1579                       (* clusterState[master] is nil and dereferenced *)
            | Some m => p <- repair_slave_offline cfg env h ns m pending ;; repair_offline_loop cfg env ms r p
            end
      end
  end.

Definition repair_offline_mode (cfg : config) (env : off_env) : prog unit :=
  repair_offline_loop cfg env (assoc (oe_master env) (oe_state env)) (oe_order env) [].
