(* internal/app/app.go performSwitchover (1224-1523), performChangeMaster (2076),
   waitForCatchUp (2290), getNodePositions (2355), getClusterStateFromDB;
   internal/app/app_dcs.go Start/Fail/FinishSwitchover; timing_tracker.go;
   optimization/controller.go DisableAll.
   force_switchover and external replication are off (DESIGN.md section 6). *)
From Coq Require Import ZArith NArith Bool List.
From Mysync Require Import Gtid.Interval Gtid.GtidSet Pure.Quorum Pure.Desirable Base.Prog Base.Config Procs.NodeOps Procs.ActiveNodes.
Import ListNotations.
Open Scope Z_scope.

Inductive sw_err := SwOk | SwErr (code : Z).    (* code = source line of the failing exit *)

(* ---- timing tracker (DCS side effects only; the log_timing command is not configured) *)
Definition dcs_get_time (s : site) (p : dpath) : prog bool :=
  Do s (DcsGet p) (fun r => match r with RVal (VTime _) => Ret true | _ => Ret false end).
Definition dcs_delete_ (s : site) (p : dpath) : prog oerr :=
  Do s (DcsDelete p) (fun r => match r with ROk => Ret None | RErr e => Ret (Some e) | _ => Ret (Some EOther) end).
Definition dcs_set_ (s : site) (p : dpath) (v : dval) : prog oerr :=
  Do s (DcsSet p v) (fun r => match r with ROk => Ret None | RErr e => Ret (Some e) | _ => Ret (Some EOther) end).

Definition start_timing_now (n : N) : prog unit :=
  t <- now_ 40038 ;; dcs_set_ 40040 (PTiming n) (VTime t) ;;; Ret tt.
Definition start_timing_at (n : N) (t : Z) : prog unit :=
  if t =? 0 then start_timing_now n else dcs_set_ 40040 (PTiming n) (VTime t) ;;; Ret tt.
Definition stop_timing (n : N) : prog unit :=
  t <- now_ 40053 ;;
  ok <- dcs_get_time 40054 (PTiming n) ;;
  if ok then dcs_delete_ 40046 (PTiming n) ;;; Ret tt else Ret tt.
Definition log_switchover_failure (sw : switch_rec) : prog unit :=
  t <- now_ 40064 ;;
  match sw_kind sw with
  | SwFailover => Ret tt
  | SwSwitchover =>
      ok <- dcs_get_time 40068 (PTiming 2) ;;
      if ok then dcs_delete_ 40072 (PTiming 2) ;;; dcs_delete_ 40073 (PTiming 0) ;;; Ret tt else Ret tt
  end.

(* NB: a request written by an external worker may lack master_transition; then
   MasterTransition is "" - neither failover nor switchover.  sw_kind holds
   SwFailover only for "failover"; sw_master_transition = false encodes "". *)
Definition is_failover (sw : switch_rec) : bool := match sw_kind sw with SwFailover => true | _ => false end.
Definition is_switchover (sw : switch_rec) : bool := sw_master_transition sw && negb (is_failover sw).

Definition with_result (sw : switch_rec) (ok : bool) (t : Z) (run_count : Z) : switch_rec :=
  {| sw_from := sw_from sw; sw_to := sw_to sw; sw_cause_ := sw_cause_ sw; sw_kind := sw_kind sw;
     sw_master_transition := sw_master_transition sw; sw_run_count := run_count; sw_initiated_at := sw_initiated_at sw;
     sw_started := sw_started sw; sw_started_at := sw_started_at sw; sw_result := Some (ok, t) |}.

(* FinishSwitchover(sw, err): ok = (err = nil) *)
Definition finish_switchover (sw : switch_rec) (ok : bool) : prog oerr :=
  t <- now_ 20138 ;;
  let sw' := with_result sw ok t (sw_run_count sw) in
  (if negb ok then log_switchover_failure sw'
   else if negb (is_failover sw) then stop_timing 2 else stop_timing 1) ;;;
  e <- dcs_delete_ 20152 PSwitch ;;
  match e with
  | Some x => Ret (Some x)
  | None => if ok then dcs_set_ 20157 PLastSwitch (VSwitch sw') else dcs_set_ 20159 PLastRejected (VSwitch sw')
  end.

Definition fail_switchover (sw : switch_rec) : prog oerr :=
  t <- now_ 20170 ;;
  dcs_set_ 20171 PSwitch (VSwitch (with_result sw false t (sw_run_count sw + 1))).

Definition start_switchover (sw : switch_rec) : prog (switch_rec * oerr) :=
  t <- now_ 20178 ;;
  let sw' := {| sw_from := sw_from sw; sw_to := sw_to sw; sw_cause_ := sw_cause_ sw; sw_kind := sw_kind sw;
                sw_master_transition := sw_master_transition sw; sw_run_count := sw_run_count sw; sw_initiated_at := sw_initiated_at sw;
                sw_started := true; sw_started_at := t; sw_result := sw_result sw |} in
  (if negb (is_failover sw) then start_timing_at 2 (sw_initiated_at sw) else Ret tt) ;;;
  e <- dcs_set_ 20183 PSwitch (VSwitch sw') ;; Ret (sw', e).

(* ---- optimisation shut-off (controller.DisableAll) ----------------------------- *)
Definition dcs_children_ (s : site) (p : dpath) : prog (list host * oerr) :=
  Do s (DcsChildren p) (fun r => match r with RHosts l => Ret (l, None) | RErr e => Ret ([], Some e) | _ => Ret ([], Some EOther) end).

Definition set_repl_settings (s1 s2 : site) (h : host) (rs : Z * Z) : prog oerr :=
  e <- exec_ s1 h (SSetFlush (fst rs)) ;; match e with Some x => Ret (Some x) | None => exec_ s2 h (SSetSyncBinlog (snd rs)) end.

Definition opt_delete_host (s : site) (h : host) : prog oerr :=
  Do s (DcsDelete (POptNode h)) (fun r => match r with ROk | RErr ENotFound => Ret None | RErr e => Ret (Some e) | _ => Ret (Some EOther) end).

(* disable = restore the master's durability settings, THEN deregister *)
Definition opt_disable (h : host) (rs : Z * Z) : prog oerr :=
  e <- set_repl_settings 11186 11190 h rs ;;
  match e with Some x => Ret (Some x) | None => opt_delete_host 50147 h end.

Definition opt_disable_all (master : host) (nodes : list host) : prog oerr :=
  hs <- dcs_children_ 50153 POptNodes ;;
  let names := match snd hs with Some _ => nodes | None => fst hs end in
  r <- repl_settings 50114 master ;;
  let rs := match snd r with Some _ => (1, 1) | None => fst r end in
  errs <- forM names (fun h => if mem_host h nodes then opt_disable h rs else Ret None) ;;
  Ret (if existsb (fun e => match e with Some _ => true | None => false end) errs then Some EOther else None).

(* stopActiveNodeOptimization hands cluster.Get(oldMaster) to DisableAll: a recorded master the
   process has no handle for is a nil node, dereferenced right after the registry listing
   (stateManager does not get here with an unregistered master); members of the active list
   that are not registered hosts are skipped *)
Definition opt_disable_all_k (known : bool) (master : host) (nodes : list host) : prog oerr :=
  if known then opt_disable_all master nodes else (dcs_children_ 50153 POptNodes ;;; Panic 50114).
Definition registered_only (all : list host) (l : list host) : list host := filter (fun h => mem_host h all) l.

(* ---- helpers --------------------------------------------------------------------- *)
Definition lock_acquire (s : site) : prog bool :=
  Do s LockAcquire (fun r => match r with RBool b => Ret b | _ => Ret false end).

(* performChangeMaster(host, master) *)
Fixpoint wait_repl_start (fuel : nat) (h : host) (deadline : Z) : prog unit :=
  match fuel with
  | O => Ret tt
  | S f =>
      t <- now_ 2101 ;;
      if t <? deadline then
        s <- replica_status 2102 h ;;
        match snd s with
        | Some _ => wait_repl_start f h deadline
        | None =>
            match fst s with
            | None => Do 2111 (Sleep sec) (fun _ => wait_repl_start f h deadline)   (* no status: not running yet *)
            | Some rs => if rs_io rs && rs_sql rs then Ret tt else Do 2111 (Sleep sec) (fun _ => wait_repl_start f h deadline)
            end
        end
      else Ret tt
  end.

Definition perform_change_master (cfg : config) (h master : host) : prog oerr :=
  if N.eqb h master then Panic 2079
  else
    e1 <- exec_ 2082 h SStopRepl ;;
    match e1 with Some x => Ret (Some x) | None =>
    e2 <- exec_ 2088 h (SChangeSource master) ;;
    match e2 with Some x => Ret (Some x) | None =>
    e3 <- exec_ 2094 h SStartRepl ;;
    match e3 with Some x => Ret (Some x) | None =>
    t <- now_ 2099 ;;
    wait_repl_start 40 h (t + c_wait_repl_start_timeout cfg) ;;; Ret None
    end end end.

(* getClusterStateFromDB: all registered hosts in parallel *)
Definition cluster_state_from_db (s : site) (hosts : list (host * bool)) : prog (list (host * node_state)) :=
  Par s (map (fun '(h, casc) => (h, (ns <- get_node_state h casc ;; Ret (RNodeState ns)))) hosts)
    (fun rs => Ret (flat_map (fun '(h, _) => match assoc h rs with Some (RNodeState ns) => [(h, ns)] | _ => [] end) hosts)).

Definition dubious_ha_hosts (cs : list (host * node_state)) : list host :=
  map fst (filter (fun '(_, ns) => negb (ns_ping_ok ns) && ns_ping_dubious ns && negb (ns_is_cascade ns)) cs).

Definition perm_broken (ns : node_state) : bool :=
  match ns_slave ns with
  | Some rs => existsb (Z.eqb (rs_sql_errno rs)) [1146; 1118] || existsb (Z.eqb (rs_io_errno rs)) [1236; 13114]
  | None => false
  end.

(* MysqlGTIDSet.Update(other): union, normalizing touched slices *)
Definition tag_union (tm : tagmap) (t : N) (sl : islice) : tagmap :=
  match lookup t tm with
  | Some cur => map (fun '(t', s) => if N.eqb t' t then (t', normalize (cur ++ sl)) else (t', s)) tm
  | None => tm ++ [(t, sl)]
  end.
Definition uuid_union (s : gtidset) (u : N) (otm : tagmap) : gtidset :=
  match lookup u s with
  | Some cur => map (fun '(u', tm) => if N.eqb u' u then (u', fold_left (fun acc '(t, sl) => tag_union acc t sl) otm cur) else (u', tm)) s
  | None => s ++ [(u, otm)]
  end.
Definition set_union (a b : gtidset) : gtidset := fold_left (fun acc '(u, tm) => uuid_union acc u tm) b a.

Definition get_priority (s : site) (h : host) : prog (Z * oerr) :=
  Do s (DcsGet (PHaNode h)) (fun r =>
    match r with
    | RVal (VPriority p) => Ret (p, None)
    | RErr ENotFound | RErr EMalformed => Ret (0, None)
    | RErr e => Ret (0, Some e)
    | _ => Ret (0, None)
    end).

(* one branch of getNodePositions: RPos p, or RErr on any failure *)
Definition position_of (h : host) : prog resp :=
  s <- replica_status 2360 h ;;
  match snd s with
  | Some e => Ret (RErr e)
  | None =>
      let lag := match fst s with Some rs => match rs_lag rs with Some l => l | None => 99999999 end | None => 99999999 end in
      g <- (match fst s with
            | None => x <- gtid_executed 2378 h ;; Ret (match snd x with Some _ => None | None => Some (fst x) end)
            | Some rs => Ret (Some (match rs_retrieved rs with [] => rs_executed rs | _ => set_union (rs_executed rs) (rs_retrieved rs) end))
            end) ;;
      match g with
      | None => Ret (RErr EOther)
      | Some gs =>
          p <- get_priority 2394 h ;;
          match snd p with
          | Some e => Ret (RErr e)
          | None => Ret (RPos {| p_host := h; p_set := gs; p_lag := lag; p_prio := fst p |})
          end
      end
  end.

(* getNodePositions: the positions arrive in goroutine completion order *)
Definition node_positions (s : site) (hosts : list host) : prog (option (list position)) :=
  Par s (map (fun h => (h, position_of h)) hosts)
    (fun rs =>
      if existsb (fun '(_, r) => match r with RPos _ => false | _ => true end) rs then Ret None
      else Ret (Some (flat_map (fun '(_, r) => match r with RPos p => [p] | _ => [] end) rs))).

(* waitForCatchUp(node, set, timeout, 1s): Some true = caught up, Some false = not, None = error *)
Definition async_switch_allowed (cfg : config) (h : host) (sw : switch_rec) : prog bool :=
  match sw_cause_ sw with
  | CauseAuto =>
      if c_async cfg && (0 <? c_async_allowed_lag cfg) then
        Do 60014 (DcsGet (POther 1)) (fun r =>       (* master_repl_mon_ts *)
          match r with
          | RErr ENotFound | RVal _ =>
              Do 60019 (Sql h SReplMonDelay) (fun r2 =>
                match r2 with
                | RZ d => Ret (d * sec <? c_async_allowed_lag cfg)
                | _ => Ret false
                end)
          | _ => Ret false
          end)
      else Ret false
  | _ => Ret false
  end.

Fixpoint wait_for_catch_up (fuel : nat) (cfg : config) (h : host) (target : gtidset) (sw : switch_rec) (deadline : Z) : prog (option bool) :=
  match fuel with
  | O => Ret (Some false)
  | S f =>
      g <- gtid_executed 2293 h ;;
      match snd g with
      | Some _ => Ret None
      | None =>
          if set_contain (fst g) target then Ret (Some true)
          else
            Do 2302 (DcsGet PSwitch) (fun r =>
              match r with
              | RErr ENotFound => Ret (Some false)
              | RVal (VSwitch cur) =>
                  a <- async_switch_allowed cfg h cur ;;
                  if a then Ret (Some true)
                  else Do 2308 (Sleep sec) (fun _ => t <- now_ 2309 ;; if deadline <? t then Ret (Some false) else wait_for_catch_up f cfg h target sw deadline)
              | _ =>
                  (* read error / malformed: the zero-value request is used *)
                  Do 2308 (Sleep sec) (fun _ => t <- now_ 2309 ;; if deadline <? t then Ret (Some false) else wait_for_catch_up f cfg h target sw deadline)
              end)
      end
  end.

Definition is_slave_permanently_lost (rs : repl_status) (master_set : gtidset) : bool :=
  match repl_state_of rs with
  | ReplError => true
  | _ => slave_ahead (rs_executed rs) master_set
  end.

(* ReenableEventsRetry: three attempts; because of a shadowed variable the final
   error is never returned (the switchover goes on) *)
Definition reenable_events (h : host) : prog unit :=
  let attempt := Do 11028 (Sql h SListEvents) (fun r => match r with ROk => Ret true | _ => Ret false end) in
  a <- attempt ;; if a then Ret tt else b <- attempt ;; if b then Ret tt else c <- attempt ;; Ret tt.

Record sw_env := {
  se_old_master : host;
  se_all_hosts : list (host * bool);            (* cluster.AllNodeHosts() with the cascade flag *)
  se_state : list (host * node_state);          (* clusterState handed in by the manager iteration *)
  se_active : list host;                        (* active_nodes snapshot *)
  se_uuid_of : list (host * N);                 (* server uuids (cached by the node handles) *)
  se_emerge_file : N }.

Definition state_ping (cs : list (host * node_state)) (h : host) : option bool :=
  match assoc h cs with Some ns => Some (ns_ping_ok ns) | None => None end.

Definition bound_of (cfg : config) : Z :=
  if c_async cfg then Z.max (c_priority_choice_max_lag cfg) (c_async_allowed_lag cfg / sec) else c_priority_choice_max_lag cfg.

(* phase 1 branch *)
Definition freeze_host (env : sw_env) (h : host) : prog resp :=
  match state_ping (se_state env) h with
  | None | Some false => Ret (RErr EOther)     (* a member that is not a registered host counts as unreachable *)
  | Some true =>
      e <- set_read_only h true ;;
      match e with
      | None => Ret ROk
      | Some _ => e2 <- set_read_only_with_force 64 h true ;; Ret (match e2 with None => ROk | Some x => RErr x end)
      end
  end.

(* phase 2 branch *)
Definition stop_io_host (env : sw_env) (h : host) (casc : bool) : prog resp :=
  match state_ping (se_state env) h with
  | None | Some false => Ret (RErr EOther)
  | Some true =>
      e <- exec_ 1323 h SStopIO ;;
      match e with
      | Some x => Ret (RErr x)
      | None => ns <- get_node_state h casc ;; if perm_broken ns then Ret (RErr EOther) else Ret ROk
      end
  end.

Definition res_ok (rs : list (host * resp)) (h : host) : bool :=
  match assoc h rs with Some ROk => true | None => true | _ => false end.   (* absent key: errs[host] == nil *)

(* ---- stage 3: from the second lock re-check to the end (phases 5 and 6) -------- *)
Definition sw_promote (cfg : config) (env : sw_env) (mem : an_mem) (active : list host) (nm : host) (most_recent_set : gtidset)
  : prog (sw_err * an_mem) :=
  let old := se_old_master env in
  l2 <- lock_acquire 1421 ;;
  if negb l2 then Ret (SwErr 1422, mem) else
  cs2 <- cluster_state_from_db 1427 (se_all_hosts env) ;;
  match state_ping cs2 nm with
  | None => Panic 1428
  | Some false => Ret (SwErr 1429, mem)
  | Some true =>
  if match dubious_ha_hosts cs2 with [] => false | _ => true end then Ret (SwErr 1432, mem) else
  e5 <- exec_ 1437 nm SSetOnline ;;
  match e5 with Some _ => Ret (SwErr 1439, mem) | None =>
  Par 1441 (map (fun h => (h,
      match state_ping cs2 h with
      | None => Ret ROk
      | Some pok => if N.eqb h nm || negb pok then Ret ROk
                    else e <- perform_change_master cfg h nm ;; Ret (match e with Some x => RErr x | None => ROk end)
      end)) active) (fun errs3 =>
  if existsb (fun '(_, r) => match r with ROk => false | _ => true end) errs3 then Ret (SwErr 1454, mem) else
  os <- replica_status 1458 old ;;
  rec <- (match snd os, fst os with
          | None, Some rs => if is_slave_permanently_lost rs most_recent_set then set_recovery old else Ret None
          | _, _ => set_recovery old
          end) ;;
  match rec with Some _ => Ret (SwErr 1463, mem) | None =>
  e6 <- exec_ 1475 nm SStopRepl ;;
  match e6 with Some _ => Ret (SwErr 1477, mem) | None =>
  e7 <- exec_ 1479 nm SResetReplAll ;;
  match e7 with Some _ => Ret (SwErr 1481, mem) | None =>
  cs3 <- cluster_state_from_db 1486 (se_all_hosts env) ;;
  ua <- update_active_nodes cfg {| ae_master := nm; ae_master_uuid := match assoc nm (se_uuid_of env) with Some u => u | None => 0%N end;
                                   ae_state := cs3; ae_state_dcs := cs3; ae_old_active := se_active env |} mem ;;
  let mem' := snd ua in
  e8 <- exec_ 1493 nm SSetWritable ;;
  match e8 with Some _ => Ret (SwErr 1495, mem') | None =>
  stop_timing 0 ;;;
  reenable_events nm ;;;
  e9 <- dcs_set_ 1517 PMaster (VHost nm) ;;
  Ret (match e9 with Some _ => SwErr 1519 | None => SwOk end, mem')
  end end end end) end end.

(* the candidate: the requested host, else (moving away from a host) the most
   desirable of the others, else the most recent one *)
Definition sw_choose (cfg : config) (sw : switch_rec) (positions : list position) (most_recent_host : host) : option host :=
  match sw_to sw, sw_from sw with
  | Some t, _ => Some t
  | None, Some f =>
      let ps := filter_out_host positions f in
      match most_desirable (S (length ps)) ps (bound_of cfg) with
      | DesFound h => Some h
      | _ => None
      end
  | None, None => Some most_recent_host
  end.

(* ---- stage 2: split-brain test, candidate, catch-up (phases 3 and 4), then stage 3 *)
Definition sw_after_positions (cfg : config) (env : sw_env) (sw : switch_rec) (mem : an_mem) (active : list host) (positions : list position)
  : prog (sw_err * an_mem) :=
  match most_recent positions with
  | RecentPanic => Panic 1368
  | RecentSplitBrain => Do 1370 (FileWrite (se_emerge_file env)) (fun _ => Ret (SwErr 1375, mem))
  | RecentFound most_recent_host most_recent_set =>
  match sw_choose cfg sw positions most_recent_host with
  | None => Ret (SwErr 1389, mem)
  | Some nm =>
  (* cluster.Get(newMaster) == nil: a requested target that is not a registered host *)
  if negb (mem_host nm (map fst (se_all_hosts env))) then Ret (SwErr 1399, mem) else
  pre <- (if negb (N.eqb nm most_recent_host) then
            e <- exec_ 1401 most_recent_host SSetOnline ;;
            match e with
            | Some _ => Ret false
            | None => e2 <- perform_change_master cfg nm most_recent_host ;; Ret (match e2 with Some _ => false | None => true end)
            end
          else Ret true) ;;
  if negb pre then Ret (SwErr 1403, mem) else
  t0 <- now_ 2291 ;;
  cu <- wait_for_catch_up 2000 cfg nm most_recent_set sw (t0 + c_slave_catch_up_timeout cfg) ;;
  match cu with
  | None => Ret (SwErr 1414, mem)
  | Some false => Ret (SwErr 1417, mem)
  | Some true => sw_promote cfg env mem active nm most_recent_set
  end end end.

(* ---- the procedure (stage 1: checks, optimisation shut-off, freeze, quorum, first
   lock re-check, positions); mem is the manager's process-local memory used by
   updateActiveNodes *)
Definition perform_switchover (cfg : config) (env : sw_env) (sw : switch_rec) (mem : an_mem) : prog (sw_err * an_mem) :=
  let old := se_old_master env in
  let cs := se_state env in
  let active_with_old := se_active env in
  if match sw_to sw with Some t => negb (mem_host t active_with_old) | None => false end then Ret (SwErr 1227, mem)
  else if match dubious_ha_hosts cs with [] => false | _ => true end then Ret (SwErr 1232, mem)
  else
  let active :=
    match sw_cause_ sw, sw_from sw with
    | CauseAuto, Some f => if N.eqb f old then filter_out active_with_old [old] else active_with_old
    | _, _ => active_with_old
    end in
  (* stopActiveNodeOptimization: cluster.Get of the old master and of every candidate; a nil handle is dereferenced *)
  e0 <- opt_disable_all_k (mem_host old (map fst (se_all_hosts env))) old (registered_only (map fst (se_all_hosts env)) active) ;;
  match e0 with Some _ => Ret (SwErr 1245, mem) | None =>
  (if negb (is_failover sw) then start_timing_now 0 else Ret tt) ;;;
  Par 1260 (map (fun h => (h, freeze_host env h)) active) (fun errs =>
  if negb (res_ok errs old) && mem_host old active && negb (is_failover sw) then
    e <- finish_switchover sw false ;;
    Ret (match e with Some _ => SwErr 1299 | None => SwErr 1302 end, mem)
  else
  match state_ping cs old with
  | None => Panic 1308
  | Some _ =>
  Par 1315 (map (fun h => (h, stop_io_host env h (match assoc h (se_all_hosts env) with Some c => c | None => false end))) (filter_out active [old])) (fun errs2 =>
  let frozen := filter (fun h => res_ok errs h && res_ok errs2 h) active in
  if negb (check_quorum (c_semi_sync cfg) (c_wait_count cfg) (Z.of_nat (length active_with_old)) (Z.of_nat (length frozen))) then Ret (SwErr 1345, mem)
  else
  l1 <- lock_acquire 1350 ;;
  if negb l1 then Ret (SwErr 1351, mem) else
  op <- node_positions 1356 frozen ;;
  match op with
  | None => Ret (SwErr 1358, mem)
  | Some positions =>
  if negb (Nat.eqb (length positions) (length frozen)) then Ret (SwErr 1361, mem)
  else if match positions, sw_from sw with [p], Some f => N.eqb f (p_host p) | _, _ => false end then Ret (SwErr 1364, mem)
  else sw_after_positions cfg env sw mem active positions
  end) end) end.
