(* internal/app/app.go checkQuorum (653): the manager's own quorum under manager_switchover - how many HA hosts whose
   health record says "alive" the manager itself can see.  Only the counting and the verdict are modelled (the clock
   handling around the verdict is not). *)
From Coq Require Import ZArith NArith Bool List.
From Mysync Require Import Gtid.Interval Gtid.GtidSet Base.Prog Procs.ActiveNodes.
Import ListNotations.
Open Scope Z_scope.

(* (working, visible); the Go loop BREAKS at the first HA host that is missing from either view *)
Fixpoint quorum_counts (ha : list host) (db dcs : list (host * node_state)) (w v : Z) : Z * Z :=
  match ha with
  | [] => (w, v)
  | h :: r =>
      match assoc h db, assoc h dcs with
      | Some sdb, Some sd =>
          if ns_ping_ok sd then quorum_counts r db dcs (w + 1) (if ns_ping_ok sdb then v + 1 else v)
          else quorum_counts r db dcs w v
      | _, _ => (w, v)
      end
  end.

Definition manager_lost_quorum (ha : list host) (db dcs : list (host * node_state)) : bool :=
  let '(w, v) := quorum_counts ha db dcs 0 0 in (0 <? w) && (v <=? (w - 1) / 2).
