(* A small world model: ONE MySQL server as mysync's statements see and change it, fault-free (every statement is
   answered, the replication source is reachable, no commit is stuck, no replication error re-appears), a
   coordination service that accepts every write, and a clock.  It is the executable reading of what the fake server of
   the harness does (internal/verifkit/fakemysql.go `apply`); the correspondence check Corr/World.v runs the same
   statement sequences on that fake and on [srv_step].

   [wrun p w] runs a program against the world; [wrun_runs] shows that what it produces is one of the runs of the
   oracle semantics, so every theorem about [runs] applies to it.  The point of the world is the other direction:
   statements that say where repeated repair LEADS (C10), which the call-level theorems cannot express. *)
From Coq Require Import ZArith NArith Bool List Lia Permutation.
From Mysync Require Import Gtid.Interval Gtid.GtidSet Base.Prog Base.ProgFacts.
Import ListNotations.
Open Scope Z_scope.

Record chan := { c_source : host; c_io : bool; c_sql : bool; c_io_errno : Z; c_sql_errno : Z }.
Record srv := {
  s_ro : bool; s_sro : bool; s_offline : bool;
  s_chan : option chan;
  s_semi_m : bool; s_semi_s : bool; s_wait : Z;
  s_flush : Z; s_sync : Z;
  s_exec : gtidset; s_retr : gtidset }.

Definition with_chan (s : srv) (c : option chan) (retr : gtidset) : srv :=
  {| s_ro := s_ro s; s_sro := s_sro s; s_offline := s_offline s; s_chan := c; s_semi_m := s_semi_m s; s_semi_s := s_semi_s s;
     s_wait := s_wait s; s_flush := s_flush s; s_sync := s_sync s; s_exec := s_exec s; s_retr := retr |}.
Definition with_ro (s : srv) (ro sro : bool) : srv :=
  {| s_ro := ro; s_sro := sro; s_offline := s_offline s; s_chan := s_chan s; s_semi_m := s_semi_m s; s_semi_s := s_semi_s s;
     s_wait := s_wait s; s_flush := s_flush s; s_sync := s_sync s; s_exec := s_exec s; s_retr := s_retr s |}.
Definition with_offline (s : srv) (b : bool) : srv :=
  {| s_ro := s_ro s; s_sro := s_sro s; s_offline := b; s_chan := s_chan s; s_semi_m := s_semi_m s; s_semi_s := s_semi_s s;
     s_wait := s_wait s; s_flush := s_flush s; s_sync := s_sync s; s_exec := s_exec s; s_retr := s_retr s |}.
Definition with_semi (s : srv) (m sl : bool) (w : Z) : srv :=
  {| s_ro := s_ro s; s_sro := s_sro s; s_offline := s_offline s; s_chan := s_chan s; s_semi_m := m; s_semi_s := sl;
     s_wait := w; s_flush := s_flush s; s_sync := s_sync s; s_exec := s_exec s; s_retr := s_retr s |}.
Definition with_durability (s : srv) (f y : Z) : srv :=
  {| s_ro := s_ro s; s_sro := s_sro s; s_offline := s_offline s; s_chan := s_chan s; s_semi_m := s_semi_m s; s_semi_s := s_semi_s s;
     s_wait := s_wait s; s_flush := f; s_sync := y; s_exec := s_exec s; s_retr := s_retr s |}.

Definition threads (c : chan) (io sql : bool) : chan :=
  {| c_source := c_source c; c_io := io; c_sql := sql; c_io_errno := (if io then 0 else c_io_errno c); c_sql_errno := c_sql_errno c |}.
Definition chan_running (c : chan) : bool := c_io c || c_sql c.

Definition status_of (s : srv) : option repl_status :=
  match s_chan s with
  | None => None
  | Some c => Some {| rs_source := c_source c; rs_io := c_io c; rs_sql := c_sql c; rs_io_errno := c_io_errno c; rs_sql_errno := c_sql_errno c;
                      rs_lag := (if c_io c && c_sql c then Some 0 else None);
                      rs_executed := s_exec s; rs_retrieved := s_retr s; rs_file := 1%N; rs_pos := 0 |}
  end.

(* one statement on the server *)
Definition srv_step (s : srv) (st : stmt) : srv * resp :=
  match st with
  | SPing => (s, RBool true)
  | SIsReadOnly => (s, RFlags (s_ro s) (s_sro s))
  | SIsOffline => (s, RBool (s_offline s))
  | SShowReplica => (s, RRepl (status_of s))
  | SGtidExecuted => (s, RGtid (s_exec s))
  | SSemiStatus => (s, RSemi (s_semi_m s) (s_semi_s s) (s_wait s))
  | SReplSettings => (s, RZ2 (s_flush s) (s_sync s))
  | SWaitingAck => (s, RBool false)
  | SProcessIds => (s, RIds [])
  | SSetRO super => (with_ro s true super, ROk)
  | SSetWritable => (with_ro s false false, ROk)
  | SSetOffline => (with_offline s true, ROk)
  | SSetOnline => (with_offline s false, ROk)
  | SStopIO => (match s_chan s with Some c => with_chan s (Some (threads c false (c_sql c))) (s_retr s) | None => s end, ROk)
  | SStartIO => match s_chan s with Some c => (with_chan s (Some (threads c true (c_sql c))) (s_retr s), ROk) | None => (s, RErr (EMysql 1200)) end
  | SStopSQL => (match s_chan s with Some c => with_chan s (Some (threads c (c_io c) false)) (s_retr s) | None => s end, ROk)
  | SStartSQL => match s_chan s with Some c => (with_chan s (Some (threads c (c_io c) true)) (s_retr s), ROk) | None => (s, RErr (EMysql 1200)) end
  | SStopRepl => (match s_chan s with Some c => with_chan s (Some (threads c false false)) (s_retr s) | None => s end, ROk)
  | SStartRepl => match s_chan s with Some c => (with_chan s (Some (threads c true true)) (s_retr s), ROk) | None => (s, RErr (EMysql 1200)) end
  | SResetReplAll =>
      match s_chan s with
      | Some c => if chan_running c then (s, RErr (EMysql 3081)) else (with_chan s None [], ROk)
      | None => (with_chan s None [], ROk)
      end
  | SChangeSource src =>
      match s_chan s with
      | Some c => if chan_running c then (s, RErr (EMysql 3021))
                  else (with_chan s (Some {| c_source := src; c_io := false; c_sql := false; c_io_errno := 0; c_sql_errno := 0 |}) [], ROk)
      | None => (with_chan s (Some {| c_source := src; c_io := false; c_sql := false; c_io_errno := 0; c_sql_errno := 0 |}) [], ROk)
      end
  | SSemiSetMaster => (with_semi s true false (s_wait s), ROk)
  | SSemiSetSlave => (with_semi s false true (s_wait s), ROk)
  | SSemiDisable => (with_semi s false false (s_wait s), ROk)
  | SSetWaitCount c => (with_semi s (s_semi_m s) (s_semi_s s) c, ROk)
  | SSetFlush v => (with_durability s v (s_sync s), ROk)
  | SSetSyncBinlog v => (with_durability s (s_flush s) v, ROk)
  | _ => (s, ROk)
  end.

(* the world: the server of host [w_host], the clock, and what the coordination service was asked to create *)
Record world := { w_host : host; w_srv : srv; w_now : Z; w_created : list dpath; w_active : list host }.

Definition wstep (w : world) (c : call) : world * resp :=
  match c with
  | Sql h st =>
      if N.eqb h (w_host w) then
        let '(s', r) := srv_step (w_srv w) st in
        ({| w_host := w_host w; w_srv := s'; w_now := w_now w; w_created := w_created w; w_active := w_active w |}, r)
      else (w, RErr EConn)
  | Now => ({| w_host := w_host w; w_srv := w_srv w; w_now := w_now w + 1; w_created := w_created w; w_active := w_active w |}, RZ (w_now w))
  | Sleep d => ({| w_host := w_host w; w_srv := w_srv w; w_now := w_now w + d; w_created := w_created w; w_active := w_active w |}, ROk)
  | DcsGet PActiveNodes => (w, RVal (VHosts (w_active w)))
  | DcsGet _ => (w, RErr ENotFound)
  | DcsChildren _ => (w, RHosts [])
  | DcsSet PActiveNodes (VHosts l) => ({| w_host := w_host w; w_srv := w_srv w; w_now := w_now w; w_created := w_created w; w_active := l |}, ROk)
  | DcsCreate p _ => ({| w_host := w_host w; w_srv := w_srv w; w_now := w_now w; w_created := p :: w_created w; w_active := w_active w |}, ROk)
  | LockAcquire => (w, RBool true)
  | DcsConnected => (w, RBool true)
  | FileExists _ => (w, RBool false)
  | Peek _ => (w, RBool false)
  | _ => (w, ROk)
  end.

(* running a program against the world; parallel branches one after the other, results in branch order *)
Fixpoint wrun {A} (p : prog A) (w : world) : outcome A * world * trace :=
  match p with
  | Ret a => (Done a, w, [])
  | Panic s => (Panicked s, w, [])
  | Do s c k =>
      let '(w1, r) := wstep w c in
      let '(o, w2, tr) := wrun (k r) w1 in
      (o, w2, {| ev_site := s; ev_call := c; ev_resp := r |} :: tr)
  | Par s bs k =>
      let fix go (bs : list (host * prog resp)) (w : world) : option (list (host * resp)) * site * world * trace :=
        match bs with
        | [] => (Some [], 0, w, [])
        | (h, b) :: r =>
            match wrun b w with
            | (Done x, w1, t1) =>
                match go r w1 with
                | (Some rs, s0, w2, t2) => (Some ((h, x) :: rs), s0, w2, t1 ++ t2)
                | (None, s0, w2, t2) => (None, s0, w2, t1 ++ t2)
                end
            | (Panicked s0, w1, t1) => (None, s0, w1, t1)
            end
        end in
      match go bs w with
      | (Some rs, _, w1, t1) => let '(o, w2, t2) := wrun (k rs) w1 in (o, w2, t1 ++ t2)
      | (None, s0, w1, t1) => (Panicked s0, w1, t1)
      end
  end.

Definition wout {A} (x : outcome A * world * trace) : outcome A := fst (fst x).
Definition wworld {A} (x : outcome A * world * trace) : world := snd (fst x).
Definition wtrace {A} (x : outcome A * world * trace) : trace := snd x.
