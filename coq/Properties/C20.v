(* C20 - Daemon robustness: no crash, no leak, no data race on any input.
   Theorems only.  A crash of the process is `Panic` in the model (nil dereferences and explicit panics are
   modelled at the sites where the code has them and compared with the implementation: a run that panics in
   the code must panic in the model and vice versa - Corr/Mgr.v, Corr/C10.v, Corr/C11.v).  Leaks and data
   races are runtime behaviour no Gallina model can exhibit: they are decided by the harness (goroutine /
   connection counts over long runs; the race detector over the concurrent loops) - partial. *)
From Coq Require Import ZArith NArith Bool List.
From Mysync Require Import Gtid.Interval Gtid.GtidSet Pure.Quorum Base.Prog Base.ProgFacts Base.Config
  Base.Post Procs.NodeOps Procs.Lost Procs.ActiveNodes Procs.Switchover Procs.Repair Procs.Optimization Procs.Manager Procs.Recovery Proofs.RepairProofs Proofs.ManagerProofs Proofs.RecoveryProofs Proofs.NoCrash Procs.LagCheck Proofs.LagCheckProofs Proofs.GatesProofs.
Import ListNotations.
Open Scope Z_scope.

(* soundness of the judgement: a nopanic program never ends a run by crashing, whatever is answered *)
Theorem C20_nopanic_means_no_crash : forall A (p : prog A), nopanic p -> forall tr o, runs p tr o -> exists a, o = Done a.
Proof. intros A p H tr o R. exact (nopanic_sound p H tr o R). Qed.
Print Assumptions C20_nopanic_means_no_crash.

(* the recovery check (after the repair 5d843b2) cannot crash, whatever the coordination service and the
   servers contain or return *)
Theorem C20_recovery_check_never_crashes : forall me m clk, nopanic (check_recovery me m clk).
Proof. exact check_recovery_nopanic. Qed.
Print Assumptions C20_recovery_check_never_crashes.

(* failure detection and the suspicious-master guard cannot crash once the recorded master is present in
   both views - which the repaired stateManager (d1e5675) establishes before it gets there *)
Theorem C20_failure_detection_never_crashes : forall cfg cs csd active m master light msd ms,
  assoc master csd = Some msd -> assoc master cs = Some ms -> nopanic (after_requests cfg cs csd active m master light).
Proof. exact after_requests_nopanic. Qed.
Print Assumptions C20_failure_detection_never_crashes.

Theorem C20_candidate_never_crashes : forall m, nopanic (state_candidate m).
Proof. exact state_candidate_nopanic. Qed.
Print Assumptions C20_candidate_never_crashes.

(* switching optimisation off at the start of a switchover (after the repair 923b14a) cannot crash for a
   registered old master, whatever hosts the published active list and the optimisation registry name *)
Theorem C20_optimisation_shutoff_never_crashes : forall master nodes, nopanic (opt_disable_all_k true master nodes).
Proof. exact disable_all_nopanic. Qed.
Print Assumptions C20_optimisation_shutoff_never_crashes.

(* enabling semi-sync on joining replicas (after the repair becaa66) cannot crash, whatever the cluster view
   holds for them or for the recorded master *)
Theorem C20_semisync_join_never_crashes : forall env ms l w active, nopanic (enable_loop env ms l w active).
Proof. exact enable_loop_nopanic. Qed.
Print Assumptions C20_semisync_join_never_crashes.

(* performChangeMaster(host, host) panics deliberately ... *)
Theorem C20_change_master_to_itself_panics : forall cfg h, runs (perform_change_master cfg h h) [] (Panicked 2079).
Proof. exact change_master_to_itself_panics. Qed.
Print Assumptions C20_change_master_to_itself_panics.
(* ... but (after the repair bee82ca) the cascade repair never gets there: whatever the stream_from
   configuration (self-references, cycles, dangling or empty sources) and whatever the servers answer,
   no run of repairCascadeNode ends in that panic *)
Theorem C20_cascade_repair_never_repoints_to_itself : forall cfg env topo h ns la tr s,
  h <> re_master env -> runs (repair_cascade_node cfg env topo h ns la) tr (Panicked s) -> s <> 2079.
Proof. exact cascade_repair_no_self_repoint_panic. Qed.
Print Assumptions C20_cascade_repair_never_repoints_to_itself.

(* ---- the whole iteration -----------------------------------------------------------------------------------
   NO run of the manager iteration (stateManager: registry refresh, both views of the cluster, maintenance,
   switch requests with the complete performSwitchover, failure detection, and the repair tail: offline-mode
   repair, repairCluster with the cascade resolver, updateActiveNodes, optimisation sync) ends in a crash -
   for every process memory, every iteration order and EVERY response of every MySQL statement, coordination
   call, clock and file operation, hence for every content of the coordination service (dangling master,
   unregistered active-list members and stream_from sources, missing or malformed health records) and every
   server state.  No hypothesis.  The crash leaves that remain in the model sit behind lookups in the two
   views; they are unreachable because both views are built over one host list and the recorded master is
   checked to be on it (Base/Post.v: the join of a parallel section receives one result per branch).
   Seven leaves WERE reachable when the proof was first attempted; each witness reproduced on the real code
   and was repaired in /repo: a replica status that comes back empty (four sites, afce506), a health record
   without replication settings (188364a), a stream_from candidate whose state was collected only partly
   (226864b).  The pre-switchover speed-up phase is not part of perform_switchover's model; it is covered by its
   own theorem below. *)
Theorem C20_manager_iteration_never_crashes : forall cfg env m tr o,
  runs (state_manager cfg env m) tr o -> exists a, o = Done a.
Proof. exact state_manager_never_crashes. Qed.
Print Assumptions C20_manager_iteration_never_crashes.

(* the premise is satisfiable: a concrete run (the coordination service is not connected) *)
Example C20_manager_iteration_has_runs : forall cfg env m,
  runs (state_manager cfg env m) [{| ev_site := 368; ev_call := DcsConnected; ev_resp := RBool false |}] (Done (NxLost, m)).
Proof. exact state_manager_has_runs. Qed.

(* the same judgement, site by site: every crash leaf the iteration could reach satisfies False *)
Theorem C20_manager_iteration_has_no_reachable_crash_site : forall cfg env m,
  post (fun _ : site => False) (fun _ => True) (state_manager cfg env m).
Proof. exact state_manager_nocrash. Qed.
Print Assumptions C20_manager_iteration_has_no_reachable_crash_site.

(* the paused state (stateMaintenance, with leaving: re-learning the master, repair, active list) *)
Theorem C20_maintenance_state_never_crashes : forall cfg env m tr o,
  runs (state_maintenance cfg env m) tr o -> exists a, o = Done a.
Proof. exact state_maintenance_never_crashes. Qed.
Print Assumptions C20_maintenance_state_never_crashes.

(* the Lost state (fencing) *)
Theorem C20_lost_state_never_crashes : forall cfg env, nopanic (state_lost cfg env).
Proof. exact state_lost_nopanic. Qed.
Print Assumptions C20_lost_state_never_crashes.

(* the speed-up phase that precedes a planned switchover (replication.go optimizationPhase: choice of the replica,
   registration, the waiter and the concurrently ticking syncer) never crashes either, given what stateManager
   establishes for the view it hands over: the hosts of the health records are registered hosts and so is the
   master.  An eighth reachable crash leaf was found here (a requested target that is in the active list but not
   registered: nil handle passed to the controller) and repaired in /repo (5861b10). *)
Theorem C20_speedup_phase_never_crashes : forall fuel cfg env sw active timeout tr o,
  incl (map fst (ov_states env)) (ov_cluster env) -> In (ov_master env) (ov_cluster env) ->
  runs (optimization_phase fuel cfg env sw active timeout) tr o -> exists a, o = Done a.
Proof. exact optimization_phase_never_crashes. Qed.
Print Assumptions C20_speedup_phase_never_crashes.

(* the background lag checker of every process (LagResetupper.CheckNeedResetup of internal/app/resetup): never crashes, for every
   registry, every master record (missing, dangling, the local host) and every answer of every call - the crash leaf
   "recorded master is not a registered host" was found on the real code and repaired (fix 5ceb11e) - and it only reads *)
Theorem C20_lag_checker_never_crashes : forall bound local m, nopanic (lag_check bound local m).
Proof. exact lag_check_nopanic. Qed.
Print Assumptions C20_lag_checker_never_crashes.

Theorem C20_lag_checker_only_reads : forall bound local m, allcalls (fun _ c => readb c = true) (lag_check bound local m).
Proof. exact lag_check_only_reads. Qed.
Print Assumptions C20_lag_checker_only_reads.
