(* C20 - Daemon robustness: no crash, no leak, no data race on any input.
   Theorems only.  A crash of the process is `Panic` in the model (nil dereferences and explicit panics are
   modelled at the sites where the code has them and compared with the implementation: a run that panics in
   the code must panic in the model and vice versa - Corr/Mgr.v, Corr/C10.v, Corr/C11.v).  Leaks and data
   races are runtime behaviour no Gallina model can exhibit: they are decided by the harness (goroutine /
   connection counts over long runs; the race detector over the concurrent loops) - partial. *)
From Coq Require Import ZArith NArith Bool List.
From Mysync Require Import Gtid.Interval Gtid.GtidSet Pure.Quorum Base.Prog Base.ProgFacts Base.Config
  Procs.NodeOps Procs.ActiveNodes Procs.Switchover Procs.Repair Procs.Manager Procs.Recovery Proofs.RepairProofs Proofs.ManagerProofs Proofs.RecoveryProofs.
Import ListNotations.
Open Scope Z_scope.

(* soundness of the judgement: a nopanic program never ends a run by crashing, whatever is answered *)
Theorem C20_nopanic_means_no_crash : forall A (p : prog A), nopanic p -> forall tr o, runs p tr o -> exists a, o = Done a.
Proof. intros A p H tr o R. exact (nopanic_sound p H tr o R). Qed.
Print Assumptions C20_nopanic_means_no_crash.

(* the recovery check (after the repair 5d843b2) cannot crash, whatever the coordination service and the
   servers contain or return *)
Theorem C20_recovery_check_never_crashes : forall me m clk, nopanic (check_recovery me m clk).
Proof. exact check_recovery_nopanic. Qed.
Print Assumptions C20_recovery_check_never_crashes.

(* failure detection and the suspicious-master guard cannot crash once the recorded master is present in
   both views - which the repaired stateManager (d1e5675) establishes before it gets there *)
Theorem C20_failure_detection_never_crashes : forall cfg cs csd active m master light msd ms,
  assoc master csd = Some msd -> assoc master cs = Some ms -> nopanic (after_requests cfg cs csd active m master light).
Proof. exact after_requests_nopanic. Qed.
Print Assumptions C20_failure_detection_never_crashes.

Theorem C20_candidate_never_crashes : forall m, nopanic (state_candidate m).
Proof. exact state_candidate_nopanic. Qed.
Print Assumptions C20_candidate_never_crashes.

(* switching optimisation off at the start of a switchover (after the repair 923b14a) cannot crash for a
   registered old master, whatever hosts the published active list and the optimisation registry name *)
Theorem C20_optimisation_shutoff_never_crashes : forall master nodes, nopanic (opt_disable_all_k true master nodes).
Proof. exact disable_all_nopanic. Qed.
Print Assumptions C20_optimisation_shutoff_never_crashes.

(* enabling semi-sync on joining replicas (after the repair becaa66) cannot crash, whatever the cluster view
   holds for them or for the recorded master *)
Theorem C20_semisync_join_never_crashes : forall env ms l w active, nopanic (enable_loop env ms l w active).
Proof. exact enable_loop_nopanic. Qed.
Print Assumptions C20_semisync_join_never_crashes.

(* performChangeMaster(host, host) panics deliberately ... *)
Theorem C20_change_master_to_itself_panics : forall cfg h, runs (perform_change_master cfg h h) [] (Panicked 2079).
Proof. exact change_master_to_itself_panics. Qed.
Print Assumptions C20_change_master_to_itself_panics.
(* ... but (after the repair bee82ca) the cascade repair never gets there: whatever the stream_from
   configuration (self-references, cycles, dangling or empty sources) and whatever the servers answer,
   no run of repairCascadeNode ends in that panic *)
Theorem C20_cascade_repair_never_repoints_to_itself : forall cfg env topo h ns la tr s,
  h <> re_master env -> runs (repair_cascade_node cfg env topo h ns la) tr (Panicked s) -> s <> 2079.
Proof. exact cascade_repair_no_self_repoint_panic. Qed.
Print Assumptions C20_cascade_repair_never_repoints_to_itself.
