(* C09 - Maintenance freezes automation; leaving re-learns the real master.
   Theorems only.  Model: Procs/Manager.v (stateMaintenance, stateCandidate, tryLeaveMaintenance,
   leaveMaintenance, ensureCurrentMaster, the maintenance gates of stateManager), tied to the code by
   the K2 replay of the real state handlers (Corr/Mgr.v).  The clause "across restarts and coordination
   outages" and the effect on the servers are decided by the monitor on the fakes' ground truth. *)
From Coq Require Import ZArith NArith Bool List.
From Mysync Require Import Gtid.Interval Gtid.GtidSet Pure.Quorum Base.Prog Base.ProgFacts Base.Config
  Procs.NodeOps Procs.ActiveNodes Procs.Switchover Procs.Manager Proofs.ManagerProofs Proofs.GatesProofs.
Import ListNotations.
Open Scope Z_scope.

(* the paused loop only keeps its marker file and re-reads the record *)
Theorem C09_paused_loop_is_frozen : forall cfg env m tr n m',
  runs (state_maintenance cfg env m) tr (Done (n, m')) ->
  (forall e, In e tr -> ev_call e = DcsGet PMaintenance ->
     ev_resp e <> RErr ENotFound /\ forall mt, ev_resp e = RVal (VMaint mt) -> mt_should_leave mt = false) ->
  n = NxMaintenance /\ m' = m /\ Forall (fun e => frozen_call (ev_call e)) tr.
Proof. exact state_maintenance_frozen. Qed.
Print Assumptions C09_paused_loop_is_frozen.

(* candidates follow once the mode is acknowledged, having only refreshed the registry *)
Theorem C09_candidate_follows : forall m tr n m',
  runs (state_candidate m) tr (Done (n, m')) ->
  (exists e mt, In e tr /\ ev_call e = DcsGet PMaintenance /\ ev_resp e = RVal (VMaint mt) /\ mt_paused mt = true /\ mt_light mt = false) ->
  n = NxMaintenance /\ Forall (fun e => registry_read (ev_call e)) tr.
Proof. exact state_candidate_follows. Qed.
Print Assumptions C09_candidate_follows.

(* light maintenance suppresses failover filing: C05_detection_files_only_when_approved requires light = false *)

(* re-learning the master: recorded only when exactly one alive master exists *)
Theorem C09_relearn_master : forall cs tr r,
  runs (ensure_current_master cs) tr (Done r) ->
  match r with
  | MrOk mm => alive_masters cs = [mm] /\ exists e, tr = [e] /\ ev_call e = DcsSet PMaster (VHost mm) /\ ev_resp e = ROk
  | MrMany => 2 <= Z.of_nat (length (alive_masters cs)) /\ tr = []
  | MrNone => alive_masters cs = [] /\ tr = []
  | MrErr => exists mm, alive_masters cs = [mm] /\ exists e, tr = [e] /\ ev_call e = DcsSet PMaster (VHost mm) /\ ev_resp e <> ROk
  end.
Proof. exact ensure_current_master_spec. Qed.
Print Assumptions C09_relearn_master.

(* leaving succeeds only with exactly one alive master in the freshly read state: it is recorded, the active
   list read back is non-empty, and only then is the record removed *)
Theorem C09_leave_success : forall cfg env m tr m',
  runs (leave_maintenance cfg env m) tr (Done (None, m')) ->
  exists cs mm, alive_masters cs = [mm] /\
    has_ev tr (fun e => ev_call e = DcsSet PMaster (VHost mm) /\ ev_resp e = ROk) /\
    has_ev tr (fun e => ev_call e = DcsGet PActiveNodes /\ exists h l, ev_resp e = RVal (VHosts (h :: l))) /\
    has_ev tr (fun e => ev_call e = DcsDelete PMaintenance /\ ev_resp e = ROk).
Proof. exact leave_maintenance_success. Qed.
Print Assumptions C09_leave_success.

(* several alive masters: the mode is kept and the emergency marker raised *)
Theorem C09_many_masters_keep_mode : forall cfg env m tr m1,
  runs (leave_maintenance cfg env m) tr (Done (Some 90030, m1)) ->
  has_ev tr (fun e => ev_call e = FileWrite f_emerge) /\ ~ has_ev tr (fun e => ev_call e = DcsDelete PMaintenance).
Proof. exact leave_maintenance_many_masters. Qed.
Print Assumptions C09_many_masters_keep_mode.

(* A process that runs stateManager while full maintenance is acknowledged (it was restarted, or took the lock over)
   only READS - registry, servers, health records, maintenance record - and goes to the paused state; it never
   reaches the master lookup, the request handling or the repair tail.  No hypothesis about the master record is
   left: the first versions of this theorem needed "the master key was read successfully" and then "is present",
   because getCurrentMaster ran BEFORE the maintenance record was read and re-learns and WRITES a master it cannot
   read or find.  Both witnesses reproduced on the real code (C09-K3: failed read, C09-K4: missing key) and were
   repaired in /repo (b339185, 38205c1: the maintenance record is read first). *)
Theorem C09_manager_iteration_is_frozen_when_acknowledged : forall cfg env m tr o,
  runs (manager_gates cfg env m) tr o ->
  (forall e, In e tr -> ev_call e = DcsGet PMaintenance ->
     exists mt, ev_resp e = RVal (VMaint mt) /\ mt_light mt = false /\ mt_paused mt = true) ->
  only_reads tr /\ (forall c m', o <> Done (GTail c, m')) /\
  (forall e, In e tr -> ev_call e = DcsGet PMaintenance -> exists m', o = Done (GNext NxMaintenance, m')).
Proof. exact manager_frozen_when_acknowledged. Qed.
Print Assumptions C09_manager_iteration_is_frozen_when_acknowledged.
