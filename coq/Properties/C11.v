(* C11 - Recovery protocol keeps diverged ex-masters out until proven clean.
   Theorems only.  Model: Procs/Recovery.v (checkRecovery), set_recovery and calc_active_host of
   Procs/ActiveNodes.v, tied to the code by the K2 replay of the real checkRecovery / SetRecovery
   (Corr/C11.v) and of the procedures that mark hosts (C01, C10).  "never promoted while marked"
   follows from the exclusion from the published list (candidates are taken from it: C01) and is
   checked by the monitors of C01/C10; the interleaving with manager iterations is monitor-only. *)
From Coq Require Import ZArith NArith Bool List.
From Mysync Require Import Proofs.SettleProofs Procs.Repair Gtid.Interval Gtid.GtidSet Base.Prog Base.ProgFacts Base.Config
  Procs.NodeOps Procs.ActiveNodes Procs.Switchover Procs.Manager Procs.Recovery Proofs.ManagerProofs Proofs.RecoveryProofs Proofs.PromotedProofs.
Import ListNotations.
Open Scope Z_scope.

(* the host's own check only reads, may write the resetup marker file, and may delete ONE coordination
   key: its own host's mark - never another host's, never anything else *)
Theorem C11_check_touches_only_own_mark : forall me m clk, allcalls (fun _ c => rec_call_ok me c) (check_recovery me m clk).
Proof. exact check_recovery_calls. Qed.
Print Assumptions C11_check_touches_only_own_mark.

(* the mark is cleared only once proven clean - for every response of every call *)
Theorem C11_mark_cleared_only_when_clean : forall me m clk tr o,
  runs (check_recovery me m clk) tr o -> has_ev tr (is_clear me) ->
  exists rs mg master,
    has_ev tr (fun e => ev_call e = FileExists f_resetup /\ ev_resp e <> RBool true) /\
    has_ev tr (fun e => ev_call e = Sql me SShowReplica /\ ev_resp e = RRepl (Some rs)) /\
    has_ev tr (fun e => ev_call e = DcsGet PMaster /\ ev_resp e = RVal (VHost master)) /\
    has_ev tr (fun e => ev_call e = Sql master SGtidExecuted /\ ev_resp e = RGtid mg) /\
    permanently_lost rs mg = false /\
    has_ev tr (fun e => ev_call e = Sql me SIsReadOnly /\ exists s, ev_resp e = RFlags true s) /\
    (master = me \/ has_ev tr (fun e => ev_call e = Sql me SWaitingAck /\ ev_resp e = RBool false)).
Proof. exact mark_cleared_only_when_clean. Qed.
Print Assumptions C11_mark_cleared_only_when_clean.

Theorem C11_clean_means_contained : forall rs mg, permanently_lost rs mg = false ->
  repl_state_of rs <> ReplError /\ behind_or_equal (rs_executed rs) mg = true.
Proof. exact not_lost_means_contained. Qed.
Print Assumptions C11_clean_means_contained.

(* while marked, never in the published list (unless it is the recorded master) *)
Theorem C11_marked_host_is_not_active : forall cfg env recovery mgtid mem h ns,
  h <> ae_master env -> mem_host h recovery = true ->
  calc_active_host cfg env (Some recovery) mgtid mem (h, ns) = Ret (false, mem).
Proof. exact marked_host_is_not_active. Qed.
Print Assumptions C11_marked_host_is_not_active.

(* a host marked for recovery is not in the computed list (C11_marked_host_is_not_active), and only members of the list that performSwitchover is given are ever made writable by it: a marked host is not promoted under a list computed after the mark *)
Theorem C11_only_listed_hosts_are_promoted : forall cfg env sw mem tr o,
  runs (perform_switchover cfg env sw mem) tr o ->
  forall e h, In e tr -> ev_call e = Sql h SSetWritable -> In h (se_active env).
Proof. exact promoted_host_is_listed. Qed.
Print Assumptions C11_only_listed_hosts_are_promoted.

(* "a host found claiming to be master beside the recorded one is marked for recovery": the repair of such a host
   (repairSlaveNode with a state that shows no replication channel) goes on to the marking protocol in every run that
   does not crash - whatever stopping its replication and re-pointing it answered (a re-pointing that fails half way
   leaves a host that no longer looks like a master; it must be marked in this very pass). *)
Theorem C11_stale_master_is_always_marked : forall cfg env h ns mem tr o,
  ns_is_master ns = true -> h <> re_master env ->
  runs (repair_slave_node cfg env h ns mem) tr o -> (exists a, o = Done a) ->
  exists e, In e tr /\ ev_site e = 20082 /\ ev_call e = DcsGet PActiveNodes.
Proof. exact stale_master_marking_attempted. Qed.
Print Assumptions C11_stale_master_is_always_marked.
