(* C03 - Exclusive manager: one lock holder, and only the holder acts.
   Theorems only.  Coordination half: Dcs/ZkModel.v (AcquireLock / ReleaseLock with the lock cache)
   over histories of any length; application half: Procs/Manager.v and Procs/Switchover.v. *)
From Coq Require Import ZArith NArith Bool List.
From Mysync Require Import Gtid.Interval Gtid.GtidSet Base.Prog Base.ProgFacts Base.Config
  Procs.NodeOps Procs.ActiveNodes Procs.Switchover Procs.Manager Proofs.SwitchoverProofs Proofs.ManagerProofs Proofs.LockLost.
From Mysync Require Import Dcs.ZkModel Proofs.ZkProofs.
Import ListNotations.
Open Scope Z_scope.

(* after ANY history in which lock paths are touched only through AcquireLock / ReleaseLock (and reads),
   with any cache TTL, session expiries and reconnects at arbitrary points: if one process is told it holds
   the lock and right afterwards another one is told so, they are the same process *)
Theorem C03_lock_is_exclusive : forall cs p ttl ops c1 c2 rp1 rp2,
  NoDup cs -> (forall c, In c cs -> N.lt c 100) -> Forall (wf_op cs p) ops ->
  In c1 cs -> In c2 cs -> normalize rp1 = p -> normalize rp2 = p ->
  let st := zstates (zinit ttl cs) ops in
  let st1 := fst (zstep st (OAcquire c1 rp1)) in
  snd (zstep st (OAcquire c1 rp1)) = ZBool true ->
  snd (zstep st1 (OAcquire c2 rp2)) = ZBool true ->
  c1 = c2.
Proof. exact lock_is_exclusive. Qed.
Print Assumptions C03_lock_is_exclusive.

(* the invariant behind it: a cached belief always has the process' own live lock node behind it *)
Theorem C03_cached_belief_is_backed : forall cs p ttl ops, NoDup cs -> (forall c, In c cs -> N.lt c 100) ->
  Forall (wf_op cs p) ops -> lock_inv cs p (zstates (zinit ttl cs) ops).
Proof. exact lock_inv_reachable. Qed.
Print Assumptions C03_cached_belief_is_backed.

(* never told so after its session was lost unless it re-acquired: the belief is dropped with the session *)
Theorem C03_session_loss_drops_belief : forall st c, zc_cache (cget (zs_clients (fst (zstep st (OExpire c)))) c) = [].
Proof. exact expire_clears_cache. Qed.
Print Assumptions C03_session_loss_drops_belief.

(* releasing never removes a lock owned by another process *)
Theorem C03_release_keeps_foreign_lock : forall st c rp n c',
  tget (zs_tree st) (normalize rp) = Some n -> zn_val n = ZOwner c' -> c <> c' ->
  zs_tree (fst (zstep st (ORelease c rp))) = zs_tree st.
Proof. exact release_keeps_foreign_lock. Qed.
Print Assumptions C03_release_keeps_foreign_lock.

(* only the holder acts: an iteration that is not told it holds the lock issues nothing further *)
Theorem C03_no_lock_no_action : forall cfg env m tr o,
  runs (manager_gates cfg env m) tr o ->
  match tr with
  | e0 :: e1 :: rest =>
      ev_call e0 = DcsConnected /\ ev_call e1 = LockAcquire /\
      (ev_resp e1 <> RBool true -> rest = [] /\ o = Done (GNext NxCandidate, m))
  | [e0] => ev_call e0 = DcsConnected /\ o = Done (GNext NxLost, m)
  | [] => False
  end.
Proof. exact no_lock_no_action. Qed.
Print Assumptions C03_no_lock_no_action.

(* a switchover re-confirms the lock after freezing and again after catch-up, before it promotes (C01's theorem) *)
Theorem C03_switchover_rechecks_lock : forall cfg env sw mem, safe Z lk_step lk_ok 0 (perform_switchover cfg env sw mem).
Proof. exact switchover_lock_rechecks. Qed.
Print Assumptions C03_switchover_rechecks_lock.

(* ... and a process whose lock re-check inside a switchover is refused issues NOTHING further in its handling of
   the request (after the repair 6ae7e63: no failed-attempt record either) - the request is the new manager's *)
Theorem C03_nothing_after_a_refused_recheck : forall cfg env m cs active master sw tr o,
  runs (handle_switchover cfg env m cs active master sw) tr o ->
  forall t1 e t2, tr = t1 ++ e :: t2 -> refused e -> t2 = [].
Proof. exact nothing_after_a_refused_lock. Qed.
Print Assumptions C03_nothing_after_a_refused_recheck.
