(* C10 - Repair converges to the canonical topology without changing the master.
   Theorems only; model Procs/Repair.v (repairCluster, repairMasterNode,
   repairSlaveNode, performChangeMaster, TryRepairReplication,
   MarkReplicationRunning).  The safety clauses are proved for every response of
   every call; CONVERGENCE (three fault-free iterations reach the canonical
   topology) is decided by the implementation-side monitor on the fake servers
   (C10 is labelled partial for that clause, DESIGN.md section 10). *)
From Coq Require Import ZArith NArith Bool List.
From Mysync Require Import Gtid.Interval Gtid.GtidSet Base.Prog Base.ProgFacts Base.Config Procs.NodeOps Procs.ActiveNodes Procs.Switchover Procs.Repair Procs.DiskGuard Procs.OfflineMode Env.World Proofs.RepairProofs Proofs.SettleProofs Proofs.WorldProofs.
Import ListNotations.
Open Scope Z_scope.

(* repairing replica h (h <> recorded master), whatever the servers answer:
   - every statement goes to h itself (a registered host of this pass),
   - no SET read_only=0, no write of the recorded master, the only coordination
     writes are those of the recovery protocol,
   - a re-pointing statement never names h itself *)
Theorem C10_replica_repair_footprint : forall cfg env h ns mem tr o, h <> re_master env ->
  runs (repair_slave_node cfg env h ns mem) tr o -> Forall (fun e => rs_ok h (ev_call e)) tr.
Proof. intros cfg env h ns mem tr o Hne H. exact (allcalls_sound _ _ (repair_slave_calls cfg env h ns mem Hne) tr o H). Qed.
Print Assumptions C10_replica_repair_footprint.

(* the replication configuration of a replica is reset only by the reset
   algorithm, selected only under aggressive repair, with the start attempts
   exhausted and the reset attempts below the limit *)
Theorem C10_reset_is_guarded : forall cfg st count, suitable_algo cfg st = Some (AlgReset, count) ->
  c_repair_aggressive cfg = true /\ c_repair_max_attempts cfg <= rp_start_count st /\
  rp_reset_count st < c_repair_max_attempts cfg /\ count = rp_reset_count st.
Proof. exact suitable_algo_reset_guard. Qed.
Print Assumptions C10_reset_is_guarded.

Theorem C10_no_reset_otherwise : forall cfg h m mem st tr o,
  assoc h (rm_repair mem) = Some st -> (forall count, suitable_algo cfg st <> Some (AlgReset, count)) ->
  runs (try_repair_replication cfg h m mem) tr o -> Forall (fun e => no_reset (ev_call e)) tr.
Proof. intros cfg h m mem st tr o Ha Hs H. exact (allcalls_sound _ _ (try_repair_no_reset_unless_allowed cfg h m mem st Ha Hs) tr o H). Qed.
Print Assumptions C10_no_reset_otherwise.

(* "... and bring the master ... to the semi-sync setting implied by the active list": whenever adjustSemiSyncOnMaster
   reports success for a positive count w, the master's health record showed the plugin on or SET ...master_enabled=1
   was answered OK in that run, and it showed the count w or SET ...wait_for_slave_count=w was answered OK - for every
   response of every call.  (End to end - over whole manager iterations from arbitrary starting states - the clause is
   decided on the implementation: TestVerifC10Master.) *)
Theorem C10_master_semisync_setting_is_brought : forall master ms w tr, 0 < w ->
  runs (adjust_semi_sync_on_master master ms w) tr (Done None) ->
  exists en sl cur, ns_semi ms = Some (en, sl, cur) /\
    (cur = w \/ exists e, In e tr /\ ok_call (Sql master (SSetWaitCount w)) e) /\
    (en = true \/ exists e, In e tr /\ ok_call (Sql master SSemiSetMaster) e).
Proof. exact adjust_master_brings_setting. Qed.
Print Assumptions C10_master_semisync_setting_is_brought.

(* ---- where repair LEADS: the convergence step, in a world model -------------------------------------------------
   Env/World.v is an executable reading of one MySQL server as mysync's statements see and change it (fault-free),
   tied to the fake server of the harness by the correspondence check Corr/World.v (the same statement sequences on
   both).  [wrun p w] runs a program against it. *)

(* what the world produces is one of the runs of the oracle semantics: every theorem about [runs] applies to it *)
Theorem C10_world_run_is_a_run : forall A (p : prog A) w, runs p (wtrace (wrun p w)) (wout (wrun p w)).
Proof. exact @wrun_runs. Qed.
Print Assumptions C10_world_run_is_a_run.

(* what getNodeState reports about the server is what the server is *)
Theorem C10_observation_is_faithful : forall h casc w, w_host w = h ->
  exists ns tr, wrun (get_node_state h casc) w =
                (Done ns, {| w_host := w_host w; w_srv := w_srv w; w_now := w_now w + 1; w_created := w_created w; w_active := w_active w |}, tr)
                /\ observed_as (w_srv w) casc ns.
Proof. exact observe_world. Qed.
Print Assumptions C10_observation_is_faithful.

(* "from any combination of read-only flags, replication sources and thread states ... repeated manager iterations make
   every reachable HA node read-only and - unless its replication is broken - a replica of the recorded master":
   ONE fault-free pass of repairSlaveNode over a reachable HA replica whose replication is not in error leaves the
   server read-only with both threads running from the recorded master, whatever its flags, source (the master,
   another host, none: a stale master) and thread states were; and the pass returns (no crash). *)
Theorem C10_one_repair_pass_makes_a_running_replica : forall cfg env h ns mem w,
  w_host w = h -> h <> re_master env -> observed_as (w_srv w) false ns -> no_repl_error (w_srv w) -> rm_repair mem = [] ->
  (exists a, wout (wrun (repair_slave_node cfg env h ns mem) w) = Done a) /\
  replica_ok (re_master env) (w_srv (wworld (wrun (repair_slave_node cfg env h ns mem) w))).
Proof. exact replica_repair_converges. Qed.
Print Assumptions C10_one_repair_pass_makes_a_running_replica.

(* the premises are satisfiable, and by a server that is NOT yet in the canonical state *)
Example C10_convergence_premises_hold : exists ns, observed_as (w_srv w_example) false ns /\ no_repl_error (w_srv w_example) /\ ~ replica_ok 1%N (w_srv w_example).
Proof. exact world_premises_hold. Qed.

(* ... and a replica that IS in the canonical state (read-only, both threads running from the recorded master) is only
   looked at: its repair issues no statement that changes a server and no coordination write, for every response *)
Theorem C10_converged_replica_is_left_alone : forall cfg env h ns mem rs,
  ns_ro ns = true -> ns_is_master ns = false -> ns_is_cascade ns = false -> ns_slave ns = Some rs ->
  rs_source rs = re_master env -> rs_io rs = true -> rs_sql rs = true ->
  allcalls (fun _ c => looks_only c = true) (repair_slave_node cfg env h ns mem).
Proof. exact converged_replica_left_alone. Qed.
Print Assumptions C10_converged_replica_is_left_alone.

(* "... and bring the master online, writable": with no disk-usage report in the health records (disk pressure is not
   among the dimensions of C10) ONE fault-free pass of repairMasterNode leaves the master with read_only = 0 - and
   super_read_only = 0 - from ANY combination of the two flags, and sends a writable master nothing that changes it *)
Theorem C10_one_repair_pass_makes_the_master_writable : forall cfg env ms w,
  w_host w = re_master env -> ns_ro ms = s_ro (w_srv w) ->
  (forall h ns, In (h, ns) (re_state_dcs env) -> ns_disk ns = None) ->
  wout (wrun (repair_master_node cfg env ms) w) = Done tt /\
  s_ro (w_srv (wworld (wrun (repair_master_node cfg env ms) w))) = false /\
  (s_ro (w_srv w) = true -> s_sro (w_srv (wworld (wrun (repair_master_node cfg env ms) w))) = false) /\
  (s_ro (w_srv w) = false -> w_srv (wworld (wrun (repair_master_node cfg env ms) w)) = w_srv w).
Proof. exact master_repair_unfences. Qed.
Print Assumptions C10_one_repair_pass_makes_the_master_writable.

(* ... and ONE fault-free pass of repairMasterOfflineMode sets an offline master (not marked for recovery) online, leaving
   its read-only flag as it was *)
Theorem C10_one_repair_pass_brings_the_master_online : forall h ns w,
  w_host w = h -> ns_offline ns = s_offline (w_srv w) ->
  wout (wrun (repair_master_offline h ns) w) = Done tt /\
  s_offline (w_srv (wworld (wrun (repair_master_offline h ns) w))) = false /\
  s_ro (w_srv (wworld (wrun (repair_master_offline h ns) w))) = s_ro (w_srv w).
Proof. exact master_offline_repair_brings_online. Qed.
Print Assumptions C10_one_repair_pass_brings_the_master_online.

(* "repeated manager iterations": the canonical state is a FIXED POINT.  From any state (as above) the first pass reaches
   the canonical state, and the next pass - over whatever getNodeState then reports - leaves the server exactly as it is:
   read-only, both threads running from the recorded master.  (By induction every later pass does.) *)
Theorem C10_second_repair_pass_changes_nothing : forall cfg env h ns mem w ns2 mem2,
  w_host w = h -> h <> re_master env -> observed_as (w_srv w) false ns -> no_repl_error (w_srv w) -> rm_repair mem = [] ->
  let w1 := wworld (wrun (repair_slave_node cfg env h ns mem) w) in
  observed_as (w_srv w1) false ns2 ->
  replica_ok (re_master env) (w_srv w1) /\
  w_srv (wworld (wrun (repair_slave_node cfg env h ns2 mem2) w1)) = w_srv w1.
Proof. exact replica_repair_twice. Qed.
Print Assumptions C10_second_repair_pass_changes_nothing.

Theorem C10_canonical_replica_is_a_fixed_point : forall cfg env h ns mem w,
  w_host w = h -> observed_as (w_srv w) false ns -> replica_ok (re_master env) (w_srv w) ->
  w_srv (wworld (wrun (repair_slave_node cfg env h ns mem) w)) = w_srv w.
Proof. exact replica_fixed_point. Qed.
Print Assumptions C10_canonical_replica_is_a_fixed_point.
