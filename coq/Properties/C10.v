(* C10 - Repair converges to the canonical topology without changing the master.
   Theorems only; model Procs/Repair.v (repairCluster, repairMasterNode,
   repairSlaveNode, performChangeMaster, TryRepairReplication,
   MarkReplicationRunning).  The safety clauses are proved for every response of
   every call; CONVERGENCE (three fault-free iterations reach the canonical
   topology) is decided by the implementation-side monitor on the fake servers
   (C10 is labelled partial for that clause, DESIGN.md section 10). *)
From Coq Require Import ZArith NArith Bool List.
From Mysync Require Import Gtid.Interval Gtid.GtidSet Base.Prog Base.ProgFacts Base.Config Procs.NodeOps Procs.ActiveNodes Procs.Switchover Procs.Repair Proofs.RepairProofs.
Import ListNotations.
Open Scope Z_scope.

(* repairing replica h (h <> recorded master), whatever the servers answer:
   - every statement goes to h itself (a registered host of this pass),
   - no SET read_only=0, no write of the recorded master, the only coordination
     writes are those of the recovery protocol,
   - a re-pointing statement never names h itself *)
Theorem C10_replica_repair_footprint : forall cfg env h ns mem tr o, h <> re_master env ->
  runs (repair_slave_node cfg env h ns mem) tr o -> Forall (fun e => rs_ok h (ev_call e)) tr.
Proof. intros cfg env h ns mem tr o Hne H. exact (allcalls_sound _ _ (repair_slave_calls cfg env h ns mem Hne) tr o H). Qed.
Print Assumptions C10_replica_repair_footprint.

(* the replication configuration of a replica is reset only by the reset
   algorithm, selected only under aggressive repair, with the start attempts
   exhausted and the reset attempts below the limit *)
Theorem C10_reset_is_guarded : forall cfg st count, suitable_algo cfg st = Some (AlgReset, count) ->
  c_repair_aggressive cfg = true /\ c_repair_max_attempts cfg <= rp_start_count st /\
  rp_reset_count st < c_repair_max_attempts cfg /\ count = rp_reset_count st.
Proof. exact suitable_algo_reset_guard. Qed.
Print Assumptions C10_reset_is_guarded.

Theorem C10_no_reset_otherwise : forall cfg h m mem st tr o,
  assoc h (rm_repair mem) = Some st -> (forall count, suitable_algo cfg st <> Some (AlgReset, count)) ->
  runs (try_repair_replication cfg h m mem) tr o -> Forall (fun e => no_reset (ev_call e)) tr.
Proof. intros cfg h m mem st tr o Ha Hs H. exact (allcalls_sound _ _ (try_repair_no_reset_unless_allowed cfg h m mem st Ha Hs) tr o H). Qed.
Print Assumptions C10_no_reset_otherwise.
