(* C15 - Coordination data-plane contract, incl. ephemeral health records.
   Theorems only.  Model: Dcs/ZkModel.v, a state machine for internal/dcs/zk.go over an abstract
   ZooKeeper tree, tied to the code by running the same operation sequences through the REAL zkDCS
   + go-zookeeper client against the fake server and comparing every result (Corr/C15.v). *)
From Coq Require Import ZArith NArith Bool List.
From Mysync Require Import Dcs.ZkModel Proofs.ZkProofs.
Import ListNotations.
Open Scope Z_scope.

Theorem C15_create_fails_with_exists_iff_key_exists : forall st c rp v eph,
  snd (zstep st (OCreate c rp v eph)) = ZExists <-> texists st (normalize rp).
Proof. exact create_exists_iff. Qed.
Print Assumptions C15_create_fails_with_exists_iff_key_exists.

Theorem C15_create_on_existing_changes_nothing : forall st c rp v eph,
  texists st (normalize rp) -> zstep st (OCreate c rp v eph) = (st, ZExists).
Proof. exact create_existing_unchanged. Qed.
Print Assumptions C15_create_on_existing_changes_nothing.

(* set overwrites and keeps the kind of the key; an ephemeral set on a plain key is refused: a plain key is
   never silently turned into an ephemeral one *)
Theorem C15_set_overwrites_never_changes_kind : forall st c rp v eph n,
  normalize rp <> [] -> tget (zs_tree st) (normalize rp) = Some n ->
  (eph = true /\ zn_eph n = None -> zstep st (OSet c rp v eph) = (st, ZErr)) /\
  (~ (eph = true /\ zn_eph n = None) ->
     snd (zstep st (OSet c rp v eph)) = ZOk /\
     tget (zs_tree (fst (zstep st (OSet c rp v eph)))) (normalize rp) = Some {| zn_val := ZJson v; zn_eph := zn_eph n |}).
Proof. exact set_existing. Qed.
Print Assumptions C15_set_overwrites_never_changes_kind.

Theorem C15_get_missing_iff : forall st c rp, normalize rp <> [] ->
  (snd (zstep st (OGet c rp)) = ZNotFound <-> tget (zs_tree st) (normalize rp) = None).
Proof. exact get_missing_iff. Qed.
Print Assumptions C15_get_missing_iff.
Theorem C15_get_unparsable_iff : forall st c rp, normalize rp <> [] ->
  (snd (zstep st (OGet c rp)) = ZMalformed <->
   exists n, tget (zs_tree st) (normalize rp) = Some n /\ (zn_val n = ZGarbage \/ zn_val n = ZEmpty)).
Proof. exact get_malformed_iff. Qed.
Print Assumptions C15_get_unparsable_iff.

Theorem C15_delete_is_idempotent : forall st c rp, normalize rp <> [] -> tget (zs_tree st) (normalize rp) = None ->
  zstep st (ODelete c rp) = (st, ZOk).
Proof. exact delete_missing. Qed.
Print Assumptions C15_delete_is_idempotent.
Theorem C15_deleted_is_missing : forall st c rp, snd (zstep st (ODelete c rp)) = ZOk ->
  normalize rp <> [] /\ tget (zs_tree (fst (zstep st (ODelete c rp)))) (normalize rp) = None.
Proof. exact delete_then_missing. Qed.
Print Assumptions C15_deleted_is_missing.

Theorem C15_children_of_missing_key : forall st c rp, normalize rp <> [] ->
  (snd (zstep st (OChildren c rp)) = ZNotFound <-> tget (zs_tree st) (normalize rp) = None).
Proof. exact children_missing_iff. Qed.
Print Assumptions C15_children_of_missing_key.

(* keys differing only by redundant slashes are the same key, for every operation *)
Theorem C15_redundant_slashes : forall a b, normalize (a ++ None :: b) = normalize (a ++ b).
Proof. exact redundant_slashes_ignored. Qed.
Print Assumptions C15_redundant_slashes.
Theorem C15_same_key_same_behaviour : forall st o r1 r2, normalize r1 = normalize r2 ->
  zstep st (op_with_path o r1) = zstep st (op_with_path o r2).
Proof. exact same_key_same_behaviour. Qed.
Print Assumptions C15_same_key_same_behaviour.

(* ephemeral keys exist only while the session that created them lives *)
Theorem C15_session_end_removes_exactly_its_ephemerals : forall st c, uniq (zs_tree st) ->
  let s := zc_session (cget (zs_clients st) c) in
  let st' := fst (zstep st (OExpire c)) in
  forall p, tget (zs_tree st') p =
            match tget (zs_tree st) p with
            | Some n => match zn_eph n with Some s' => if N.eqb s' s then None else Some n | None => Some n end
            | None => None
            end.
Proof. exact expire_removes_ephemerals. Qed.
Print Assumptions C15_session_end_removes_exactly_its_ephemerals.
