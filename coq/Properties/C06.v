(* C06 - Every switch request reaches exactly one terminal outcome, in bounded time.
   Theorems only.  Model: Procs/Manager.v (handle_switchover, approve_switchover) and
   Procs/Switchover.v (start/fail/finish_switchover), tied to the code by the K2 replay of the
   real stateManager (Corr/Mgr.v).  The multi-iteration clauses (one manager at a time, no request
   filed over a pending one, outcome recorded once over the whole history) are decided on the
   implementation side by the monitor over histories of iterations. *)
From Coq Require Import ZArith NArith Bool List.
From Mysync Require Import Gtid.Interval Gtid.GtidSet Pure.Quorum Base.Prog Base.ProgFacts Base.Config
  Procs.NodeOps Procs.ActiveNodes Procs.Switchover Procs.Manager Proofs.MasterLast Proofs.ManagerProofs Proofs.OutcomeProofs.
Import ListNotations.
Open Scope Z_scope.

(* terminal bookkeeping: FinishSwitchover removes the request and then records it exactly once - as
   succeeded iff ok - and the record is that same request with its result; if the removal fails nothing
   is recorded.  For every response of every call. *)
Theorem C06_finish_records_exactly_once : forall sw ok tr o, runs (finish_switchover sw ok) tr o ->
  exists t rc,
    let rec := with_result sw ok t rc in
    match switch_writes tr with
    | [d] => ev_call d = DcsDelete PSwitch /\ ev_resp d <> ROk
    | [d; s] => ev_call d = DcsDelete PSwitch /\ ev_resp d = ROk /\
                ev_call s = (if ok then DcsSet PLastSwitch (VSwitch rec) else DcsSet PLastRejected (VSwitch rec))
    | _ => False
    end.
Proof. exact finish_switchover_records. Qed.
Print Assumptions C06_finish_records_exactly_once.

(* each failed attempt is counted, and the request written back is the same request *)
Theorem C06_failed_attempt_is_counted : forall sw tr o, runs (fail_switchover sw) tr o ->
  exists e0 e1, tr = [e0; e1] /\ ev_call e0 = Now /\
    ev_call e1 = DcsSet PSwitch (VSwitch (with_result sw false (now_val e0) (sw_run_count sw + 1))).
Proof. exact fail_switchover_counts. Qed.
Print Assumptions C06_failed_attempt_is_counted.
Theorem C06_written_back_is_same_request : forall sw ok t rc, same_request sw (with_result sw ok t rc).
Proof. exact with_result_same. Qed.
Print Assumptions C06_written_back_is_same_request.

(* the attempt limit: a planned request at or over the limit is rejected - whatever the cluster looks like -
   so over ANY history at most (limit - initial count) attempts are started *)
Theorem C06_attempt_limit_rejects : forall cfg sw active cs,
  is_failover sw = false -> 0 < c_switchover_max_attempts cfg -> c_switchover_max_attempts cfg <= sw_run_count sw ->
  approve_switchover cfg sw active cs = Some 814.
Proof. exact approve_switchover_limit. Qed.
Print Assumptions C06_attempt_limit_rejects.
Theorem C06_attempts_bounded : forall cfg (sw : switch_rec) (n : nat) active cs,
  is_failover sw = false -> 0 < c_switchover_max_attempts cfg ->
  let sw_n := with_result sw false 0 (sw_run_count sw + Z.of_nat n) in
  c_switchover_max_attempts cfg <= sw_run_count sw + Z.of_nat n -> approve_switchover cfg sw_n active cs = Some 814.
Proof. exact attempts_bounded. Qed.
Print Assumptions C06_attempts_bounded.

(* an approved request is not re-judged: neither on retry nor when the manager that started the attempt died
   (after the repair of C07-F1 in /repo a started request counts as approved) *)
Theorem C06_not_rejudged : forall cfg sw active cs,
  (0 < sw_run_count sw \/ sw_started sw = true) ->
  (is_failover sw = true \/ c_switchover_max_attempts cfg <= 0 \/ sw_run_count sw < c_switchover_max_attempts cfg) ->
  approve_switchover cfg sw active cs = None.
Proof. exact approve_switchover_not_rejudged. Qed.
Print Assumptions C06_not_rejudged.

(* "never stays pending past the switchover timeout" (after the repair ff31fd9): an iteration that finds the
   request older than the timeout does nothing but finish it as rejected - it removes the request and, when the
   removal succeeded, records it under last_rejected_switch *)
Theorem C06_timeout_terminates : forall cfg env m cs active master sw tr o,
  sw_initiated_at sw <> 0 ->
  runs (handle_switchover cfg env m cs active master sw) tr o ->
  forall e0 tr', tr = e0 :: tr' -> c_switchover_timeout cfg < now_val e0 - sw_initiated_at sw ->
  exists t rc,
    let rec := with_result sw false t rc in
    match switch_writes tr with
    | [d] => ev_call d = DcsDelete PSwitch /\ ev_resp d <> ROk
    | [d; s] => ev_call d = DcsDelete PSwitch /\ ev_resp d = ROk /\ ev_call s = DcsSet PLastRejected (VSwitch rec)
    | _ => False
    end.
Proof. exact timed_out_request_is_rejected. Qed.
Print Assumptions C06_timeout_terminates.

(* "a request reported as succeeded implies the recorded master is the promoted node and is writable":
   performSwitchover reports success only when its last call - the write of the master key with the
   host whose SET read_only=0 was answered OK - was answered OK too ... *)
Theorem C06_success_means_promoted_and_recorded : forall cfg env sw mem tr mem',
  runs (perform_switchover cfg env sw mem) tr (Done (SwOk, mem')) ->
  exists t1 e h w, tr = t1 ++ [e] /\ ev_call e = DcsSet PMaster (VHost h) /\ ev_resp e = ROk /\
                   In w t1 /\ ev_call w = Sql h SSetWritable /\ ev_resp w = ROk.
Proof. exact success_means_master_recorded. Qed.
Print Assumptions C06_success_means_promoted_and_recorded.

(* ... and the iteration that handles a request writes the success record (last_switch) only then *)
Theorem C06_success_record_only_after_promotion : forall cfg env m cs active master sw tr o,
  runs (handle_switchover cfg env m cs active master sw) tr o ->
  no_success_record tr \/ promoted_and_recorded tr.
Proof. exact success_record_means_promoted. Qed.
Print Assumptions C06_success_record_only_after_promotion.
