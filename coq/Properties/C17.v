(* C17 - Offline-mode policy: thresholds, hysteresis and per-zone cap.
   Theorems only; model Procs/OfflineMode.v (repairOfflineMode,
   repairMasterOfflineMode, repairSlaveOfflineMode, OfflineModeFilter). *)
From Coq Require Import ZArith NArith Bool List.
From Mysync Require Import Gtid.Interval Gtid.GtidSet Base.Prog Base.Config Procs.NodeOps Procs.ActiveNodes Procs.Switchover Procs.OfflineMode Proofs.OfflineProofs Procs.Repair Env.World Proofs.OfflineWorld.
Import ListNotations.
Open Scope Z_scope.

(* for every response of every call and every value of the per-pass counters:
   a replica is taken offline for lag (site 1644) only when it is online, the
   master is writable, its lag exceeds the enable threshold and the zone filter
   (evaluated with the counters of THIS pass) allows it; as permanently broken
   (site 1679) only when broken and online; it is brought online only when
   offline, not permanently broken and its lag is at or below the disable
   threshold; every statement addresses that replica *)
Theorem C17_replica_statements_are_gated : forall cfg env h ns ms pending tr o,
  runs (repair_slave_offline cfg env h ns ms pending) tr o ->
  Forall (fun e => slave_call_ok cfg env h ns ms pending (ev_site e) (ev_call e)) tr.
Proof. intros. eapply (Base.ProgFacts.allcalls_sound _ _ (slave_offline_calls cfg env h ns ms pending)); eauto. Qed.
Print Assumptions C17_replica_statements_are_gated.

(* hysteresis: between the thresholds nothing is issued *)
Theorem C17_between_thresholds_untouched : forall cfg env h ns ms pending lag,
  slave_lag ns = Some lag -> perm_broken ns = false ->
  c_offline_disable_lag cfg < lag <= c_offline_enable_lag cfg ->
  repair_slave_offline cfg env h ns ms pending = Ret pending.
Proof. exact slave_between_thresholds_untouched. Qed.
Print Assumptions C17_between_thresholds_untouched.

(* the zone filter: floor(100*(offline + pending + 1)/total) <= pct over the
   non-master hosts of the replica's zone *)
Theorem C17_zone_cap : forall cfg env h pending, 0 < c_offline_max_pct cfg < 100 ->
  let az := zone_of env h in
  let same := filter (fun '(x, ns) => negb (ns_is_master ns) && N.eqb (zone_of env x) az) (oe_state env) in
  let total := Z.of_nat (length same) in
  let offline := Z.of_nat (length (filter (fun '(_, ns) => ns_offline ns) same)) in
  (can_set_offline cfg env h pending = true <->
   0 < total /\ (100 * (offline + pending_get az pending + 1)) / total <= c_offline_max_pct cfg).
Proof. exact can_set_offline_spec. Qed.
Print Assumptions C17_zone_cap.

(* the master is only ever set online, only when offline *)
Theorem C17_master_only_set_online : forall h ns tr o, runs (repair_master_offline h ns) tr o ->
  Forall (fun e => master_call_ok h ns (ev_call e)) tr.
Proof. intros. eapply (Base.ProgFacts.allcalls_sound _ _ (master_offline_calls h ns)); eauto. Qed.
Print Assumptions C17_master_only_set_online.

(* ... and not while its recovery mark is read as present *)
Theorem C17_master_marked_for_recovery_stays_offline : forall h ns e1 tr1 v o,
  ns_offline ns = true ->
  runs (repair_master_offline h ns) (e1 :: tr1) o ->
  ev_resp e1 = RVal v ->
  ev_call e1 = DcsGet (PRecovery h) /\ tr1 = [].
Proof. exact master_marked_stays_offline. Qed.
Print Assumptions C17_master_marked_for_recovery_stays_offline.

(* where it leads, executed against the fault-free server of the world model (Env/World.v, tied to the fake server by the
   K4 correspondence): an online replica whose lag exceeds the enable threshold - master writable, replication not
   permanently broken, the zone cap allowing it - IS in offline mode after the pass and the zone's counter of this pass
   went up by one; a replica that is online and within the threshold is not touched at all (no call is issued) *)
Theorem C17_lagging_replica_goes_offline : forall cfg env h ns ms pending lag w,
  w_host w = h -> slave_lag ns = Some lag -> ns_offline ns = false -> ns_ro ms = false ->
  (c_offline_enable_lag cfg <? lag) = true -> can_set_offline cfg env h pending = true -> perm_broken ns = false ->
  wout (wrun (repair_slave_offline cfg env h ns ms pending) w) =
    Done (assoc_set (zone_of env h) (pending_get (zone_of env h) pending + 1) pending) /\
  s_offline (w_srv (wworld (wrun (repair_slave_offline cfg env h ns ms pending) w))) = true /\
  s_ro (w_srv (wworld (wrun (repair_slave_offline cfg env h ns ms pending) w))) = s_ro (w_srv w).
Proof. exact lagging_replica_goes_offline. Qed.
Print Assumptions C17_lagging_replica_goes_offline.

Theorem C17_healthy_online_replica_is_not_touched : forall cfg env h ns ms pending lag w,
  slave_lag ns = Some lag -> ns_offline ns = false -> (c_offline_enable_lag cfg <? lag) = false -> perm_broken ns = false ->
  wrun (repair_slave_offline cfg env h ns ms pending) w = (Done pending, w, []).
Proof. exact healthy_replica_stays_online. Qed.
Print Assumptions C17_healthy_online_replica_is_not_touched.
