(* C02 - Single-fault tolerance: no acknowledged loss, one writable master.
   Theorems only.  C02 is a whole-cluster property: it composes the per-procedure theorems of this
   development (C01 promotion, C03 exclusive manager, C04 active list / acknowledgement count, C05 failover
   gates, C06 request lifecycle, C08 fence of a lost master, C10 repair, C11 recovery) with the behaviour of
   MySQL replication and ZooKeeper.  The composition itself is NOT proved here (no proved model of the
   servers); it is decided on the implementation by the simulation of the real daemons over the fake
   servers (harness zz_verif_c02_test.go): partial.  The theorems below are the safety core C02 rests on,
   restated for every crash / fault prefix. *)
From Coq Require Import ZArith NArith Bool List.
From Mysync Require Import Gtid.Interval Gtid.GtidSet Pure.Quorum Base.Prog Base.ProgFacts Base.Hoare Base.Config
  Procs.NodeOps Procs.Lost Procs.ActiveNodes Procs.Switchover Procs.Manager Proofs.LostProofs Proofs.SwitchoverProofs Proofs.ManagerProofs Proofs.WritableProofs.
Import ListNotations.
Open Scope Z_scope.

(* one writable master: nobody is made writable by performSwitchover without both lock re-checks - on every
   prefix of every run (faults make calls fail, crashes truncate runs) *)
Theorem C02_promotion_only_by_the_lock_holder : forall cfg env sw mem tr o k,
  runs (perform_switchover cfg env sw mem) tr o -> trace_ok Z lk_step lk_ok 0 (firstn k tr).
Proof. intros cfg env sw mem tr o k H. eapply safe_on_every_crash_prefix; [apply switchover_lock_rechecks|exact H]. Qed.
Print Assumptions C02_promotion_only_by_the_lock_holder.

(* no acknowledged loss: the promoted node was seen to contain the most recent frozen position first *)
Theorem C02_promotion_needs_catch_up : forall cfg env sw mem active positions tr o,
  runs (sw_after_positions cfg env sw mem active positions) tr o -> issues_set_writable tr ->
  exists mrh mrs nm, most_recent positions = RecentFound mrh mrs /\ sw_choose cfg sw positions mrh = Some nm /\
                     catch_up_evidence cfg nm mrs tr.
Proof. exact promotion_needs_catch_up. Qed.
Print Assumptions C02_promotion_needs_catch_up.

(* an automatic failover is filed only through an approval (C05) *)
Theorem C02_failover_only_when_approved : forall cfg cs msd active m master light tr o,
  runs (failure_detection cfg cs msd active m master light) tr o ->
  forall e, In e tr -> is_file_request (ev_call e) ->
    exists m1 tr_a, runs (approve_failover cfg cs msd active m1 master) tr_a (Done true) /\ incl tr_a tr.
Proof.
  intros cfg cs msd active m master light tr o H e Hin Hf.
  destruct (failure_detection_files _ _ _ _ _ _ _ _ _ H e Hin Hf) as (_ & _ & _ & m1 & tra & R & I & _). exists m1, tra. auto.
Qed.
Print Assumptions C02_failover_only_when_approved.

(* one writable master, from the side of what mysync does outside a switchover: in the repair tail of a manager
   iteration (offline-mode repair, topology repair with the disk guard, crash-recovery request, active-list update,
   optimisation sync) every SET read_only=0 goes to the recorded master - for every response of every call *)
Theorem C02_repair_tail_makes_only_the_recorded_master_writable : forall cfg env m c tr o,
  runs (manager_tail cfg env m c) tr o ->
  forall e h, In e tr -> ev_call e = Sql h SSetWritable -> h = tc_master c.
Proof. exact tail_writable_is_recorded_master. Qed.
Print Assumptions C02_repair_tail_makes_only_the_recorded_master_writable.
