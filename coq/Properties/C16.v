(* C16 - Cascade replicas: source resolution terminates, never self, never quorum.
   Theorems only; model Procs/Repair.v (findBestStreamFrom, repairCascadeNode). *)
From Coq Require Import ZArith NArith Bool List.
From Mysync Require Import Gtid.Interval Gtid.GtidSet Base.Prog Base.ProgFacts Base.Config Procs.NodeOps Procs.ActiveNodes Procs.Switchover Procs.Repair Procs.Manager Proofs.RepairProofs Proofs.NearestAncestor Proofs.PromotedProofs Procs.MgrQuorum Proofs.MgrQuorumProofs.
Import ListNotations.
Open Scope Z_scope.

(* termination: the answer does not depend on the fuel once it exceeds the number
   of topology entries + 1 (chains, cycles, self-references, any topology) *)
Theorem C16_resolution_terminates : forall cfg env topo self k,
  find_best_stream_from (S (S (length topo))) cfg env topo self [self] =
  find_best_stream_from (k + S (S (length topo))) cfg env topo self [self].
Proof. exact find_best_terminates. Qed.
Print Assumptions C16_resolution_terminates.

(* it is a pure function of the manager's view: it issues no call at all *)
Theorem C16_resolution_is_pure : forall fuel cfg env topo self path,
  (exists r, find_best_stream_from fuel cfg env topo self path = Ret r) \/
  (exists s, find_best_stream_from fuel cfg env topo self path = Panic s).
Proof. exact find_best_pure. Qed.
Print Assumptions C16_resolution_is_pure.

Theorem C16_never_the_replica_itself : forall fuel cfg env topo self r, self <> re_master env ->
  find_best_stream_from fuel cfg env topo self [self] = Ret r -> r <> self.
Proof. intros fuel cfg env topo self r Hm H. apply (find_best_never_self fuel cfg env topo self [self] r); [left; reflexivity|exact Hm|exact H]. Qed.
Print Assumptions C16_never_the_replica_itself.

Theorem C16_configured_source_when_healthy : forall fuel cfg env topo self sf cand,
  assoc self topo = Some (Some sf) -> sf <> self -> assoc sf (re_state env) = Some cand -> source_healthy cfg cand = true ->
  find_best_stream_from (S fuel) cfg env topo self [self] = Ret sf.
Proof. exact find_best_configured_healthy. Qed.
Print Assumptions C16_configured_source_when_healthy.

Theorem C16_master_when_unconfigured : forall fuel cfg env topo self,
  (assoc self topo = None \/ assoc self topo = Some None) ->
  find_best_stream_from (S fuel) cfg env topo self [self] = Ret (re_master env).
Proof. exact find_best_unconfigured_is_master. Qed.
Print Assumptions C16_master_when_unconfigured.

(* repairing a cascade replica: all statements go to the replica itself and a
   re-pointing statement never names the replica - for every response *)
Theorem C16_cascade_repair_footprint : forall cfg env topo h ns la tr o,
  runs (repair_cascade_node cfg env topo h ns la) tr o -> Forall (fun e => rs_ok h (ev_call e)) tr.
Proof. intros cfg env topo h ns la tr o H. exact (allcalls_sound _ _ (r_cascade cfg env topo h ns la) tr o H). Qed.
Print Assumptions C16_cascade_repair_footprint.

(* cascade replicas are not in the computed list (C04_membership), and only members of the list that performSwitchover is given are ever made writable by it: a cascade replica is not promoted *)
Theorem C16_only_listed_hosts_are_promoted : forall cfg env sw mem tr o,
  runs (perform_switchover cfg env sw mem) tr o ->
  forall e h, In e tr -> ev_call e = Sql h SSetWritable -> In h (se_active env).
Proof. exact promoted_host_is_listed. Qed.
Print Assumptions C16_only_listed_hosts_are_promoted.

(* "cascade replicas are never counted towards quorum" - the manager's OWN quorum under manager_switchover
   (checkQuorum): the verdict is a function of the entries of the HA hosts alone; what the two views hold for any other
   host (cascade replicas, however many and whether reachable or not) has no influence, and neither count exceeds the
   number of HA hosts *)
Theorem C16_manager_quorum_ignores_cascade_replicas : forall ha db dcs db' dcs',
  (forall h, In h ha -> assoc h db = assoc h db' /\ assoc h dcs = assoc h dcs') ->
  manager_lost_quorum ha db dcs = manager_lost_quorum ha db' dcs'.
Proof. exact manager_quorum_ignores_non_ha. Qed.
Print Assumptions C16_manager_quorum_ignores_cascade_replicas.

Theorem C16_manager_quorum_counts_ha_hosts_only : forall ha db dcs,
  let '(w, v) := quorum_counts ha db dcs 0 0 in (0 <= v <= w /\ w <= Z.of_nat (length ha))%Z.
Proof. exact manager_quorum_counts_at_most_ha. Qed.
Print Assumptions C16_manager_quorum_counts_ha_hosts_only.

(* ... and the HA counts behind the failover / switchover approval (alive replicas within the published list, "every
   other HA node still replicates", the dubious hosts): an entry that says "cascade replica" contributes nothing to any
   of them - also when that host is (still) named in the list *)
Theorem C16_cascade_entries_contribute_nothing_to_the_ha_counts : forall h ns cs nodes,
  ns_is_cascade ns = true ->
  count_ha_nodes ((h, ns) :: cs) = count_ha_nodes cs /\
  count_running_ha_slaves ((h, ns) :: cs) = count_running_ha_slaves cs /\
  dubious_ha_hosts ((h, ns) :: cs) = dubious_ha_hosts cs /\
  count_alive_ha_slaves_within (h :: nodes) ((h, ns) :: cs) = count_alive_ha_slaves_within nodes ((h, ns) :: cs).
Proof. exact cascade_entries_contribute_nothing. Qed.
Print Assumptions C16_cascade_entries_contribute_nothing_to_the_ha_counts.

(* "otherwise the nearest healthy ancestor along the configured chain, otherwise the master": the walk, step by step,
   for every topology (path = the ancestors visited so far, the replica last).  An unhealthy configured source that is
   not yet on the path is skipped, a healthy one is the answer, a source already on the path (a cycle anywhere in the
   chain, not only through the replica) or not registered ends the walk at the master. *)
Theorem C16_walk_skips_an_unhealthy_ancestor : forall cfg env topo self fuel x y rest sf cand,
  assoc x topo = Some (Some sf) -> mem_host sf (x :: y :: rest) = false ->
  assoc sf (re_state env) = Some cand -> source_healthy cfg cand = false ->
  find_best_stream_from (S fuel) cfg env topo self (x :: y :: rest) =
  find_best_stream_from fuel cfg env topo self (sf :: x :: y :: rest).
Proof. intros. eapply walk_skips_unhealthy; eassumption. Qed.
Print Assumptions C16_walk_skips_an_unhealthy_ancestor.

Theorem C16_walk_stops_at_the_first_healthy_ancestor : forall cfg env topo self fuel x y rest sf cand,
  assoc x topo = Some (Some sf) -> mem_host sf (x :: y :: rest) = false ->
  assoc sf (re_state env) = Some cand -> source_healthy cfg cand = true ->
  find_best_stream_from (S fuel) cfg env topo self (x :: y :: rest) = Ret sf.
Proof. intros. eapply walk_stops_at_healthy; eassumption. Qed.
Print Assumptions C16_walk_stops_at_the_first_healthy_ancestor.

Theorem C16_cycle_among_ancestors_ends_at_the_master : forall cfg env topo self fuel x y rest sf,
  assoc x topo = Some (Some sf) -> mem_host sf (x :: y :: rest) = true ->
  find_best_stream_from (S fuel) cfg env topo self (x :: y :: rest) = Ret (re_master env).
Proof. intros. eapply walk_cycle_is_master; eassumption. Qed.
Print Assumptions C16_cycle_among_ancestors_ends_at_the_master.

Theorem C16_first_step_skips_an_unhealthy_source_not_streamed_from : forall cfg env topo self fuel sf cand me,
  assoc self topo = Some (Some sf) -> mem_host sf [self] = false ->
  assoc self (re_state env) = Some me ->
  ns_repl_running me && match ns_slave me with Some rs => N.eqb (rs_source rs) sf | None => false end = false ->
  assoc sf (re_state env) = Some cand -> source_healthy cfg cand = false ->
  find_best_stream_from (S fuel) cfg env topo self [self] =
  find_best_stream_from fuel cfg env topo self [sf; self].
Proof. exact first_step_skips_unhealthy. Qed.
Print Assumptions C16_first_step_skips_an_unhealthy_source_not_streamed_from.
