(* C14 - Candidate selection honours priority within the lag bound.
   Theorems only.  Model: Pure/Desirable.v (getMostDesirableNode,
   getMostPriorityNode, filterOutNodeFromPositions of internal/app/util.go). *)
From Coq Require Import ZArith NArith Bool List.
From Mysync Require Import Gtid.Interval Gtid.GtidSet Proofs.GtidProofs Pure.Desirable Proofs.DesirableProofs Proofs.DesirableLag.
Import ListNotations.
Open Scope Z_scope.

(* the recursion always terminates: fuel length+1 is never exhausted *)
Theorem C14_terminates : forall fuel ps bound, 0 <= bound -> (length ps < fuel)%nat ->
  most_desirable fuel ps bound <> DesFuel.
Proof. exact most_desirable_terminates. Qed.
Print Assumptions C14_terminates.

Theorem C14_returns_offered_candidate : forall fuel ps bound h,
  most_desirable fuel ps bound = DesFound h -> exists p, In p ps /\ p_host p = h.
Proof. exact most_desirable_member. Qed.
Print Assumptions C14_returns_offered_candidate.

Theorem C14_error_iff_no_candidate : forall fuel ps bound, 0 <= bound -> (length ps < fuel)%nat ->
  (most_desirable fuel ps bound = DesNotFound <-> ps = []).
Proof. exact most_desirable_notfound_iff. Qed.
Print Assumptions C14_error_iff_no_candidate.

Theorem C14_never_the_from_host : forall fuel ps bound from h,
  most_desirable fuel (filter_out_host ps from) bound = DesFound h -> h <> from.
Proof. exact most_desirable_never_from. Qed.
Print Assumptions C14_never_the_from_host.

Theorem C14_top_priority_within_bound_wins : forall fuel ps bound top,
  most_priority ps = Some top -> p_lag top <= bound -> most_desirable (S fuel) ps bound = DesFound (p_host top).
Proof. exact most_desirable_top_within_bound. Qed.
Print Assumptions C14_top_priority_within_bound_wins.

Theorem C14_otherwise_top_or_fresher_by_more_than_bound : forall fuel ps bound top h, 0 <= bound ->
  most_priority ps = Some top -> most_desirable fuel ps bound = DesFound h ->
  h = p_host top \/ exists p, In p ps /\ p_host p = h /\ p_lag p < p_lag top - bound.
Proof. exact most_desirable_top_or_much_fresher. Qed.
Print Assumptions C14_otherwise_top_or_fresher_by_more_than_bound.

(* the "highest-priority candidate": maximal priority, and inside that priority
   no candidate holds strictly more transactions *)
Theorem C14_top_has_max_priority_and_most_transactions : forall ps top, all_wf ps -> most_priority ps = Some top ->
  In top ps /\
  forall p, In p ps -> p_prio p <= p_prio top /\ (p_prio p = p_prio top -> ~ strictly_more (p_set p) (p_set top)).
Proof. exact most_priority_spec. Qed.
Print Assumptions C14_top_has_max_priority_and_most_transactions.

(* equal priorities and all lags within the bound: the choice is the most recent node *)
Theorem C14_coincides_with_most_recent : forall fuel ps bound h st,
  (forall p q, In p ps -> In q ps -> p_prio p = p_prio q) ->
  (forall p, In p ps -> p_lag p <= bound) ->
  most_recent ps = RecentFound h st ->
  most_desirable (S fuel) ps bound = DesFound h.
Proof. exact desirable_coincides_with_most_recent. Qed.
Print Assumptions C14_coincides_with_most_recent.

Example C14_example :
  let a := {| p_host := 1%N; p_set := [(1%N, [(0%N, [(1, 11)])])]; p_lag := 100; p_prio := 10 |} in
  let b := {| p_host := 2%N; p_set := [(1%N, [(0%N, [(1, 21)])])]; p_lag := 3; p_prio := 5 |} in
  most_desirable 3 [a; b] 50 = DesFound 2%N /\ most_desirable 3 [a; b] 200 = DesFound 1%N.
Proof. vm_compute. split; reflexivity. Qed.

(* "... then with less lag": of all candidates with the top priority and exactly the transactions of the chosen one,
   the chosen one has the least lag - for every list of well-formed positions, in any order *)
Theorem C14_then_less_lag : forall ps top, all_wf ps -> most_priority ps = Some top ->
  forall p, In p ps -> p_prio p = p_prio top -> same (p_set p) (p_set top) -> p_lag top <= p_lag p.
Proof. exact most_priority_least_lag. Qed.
Print Assumptions C14_then_less_lag.
