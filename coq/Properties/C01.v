(* C01 - Promotion only of a caught-up node backed by a frozen quorum.
   Theorems only; model Procs/Switchover.v (performSwitchover in three stages,
   getNodePositions, waitForCatchUp, performChangeMaster, CheckAsyncSwitchAllowed).
   Oracle semantics: every external call may return ANY response; a crash is a
   prefix of a run.  What is assumed about MySQL itself (a read-only server with
   a stopped IO thread keeps its sets) is DESIGN.md Appendix C and is exercised by
   the implementation-side monitor on the fake servers, not proved here. *)
From Coq Require Import ZArith NArith Bool List.
From Mysync Require Import Gtid.Interval Gtid.GtidSet Pure.Desirable Base.Prog Base.ProgFacts Base.Config
  Procs.NodeOps Procs.ActiveNodes Procs.Switchover Proofs.GtidProofs Proofs.SwitchoverProofs.
Import ListNotations.
Open Scope Z_scope.

(* nothing is re-pointed before the lock was re-confirmed after the freeze, and
   nothing is promoted (RESET REPLICA ALL, SET read_only=0, write of `master`)
   before it was re-confirmed a second time after catch-up - in every run *)
Theorem C01_lock_reconfirmed_before_promotion : forall cfg env sw mem tr o,
  runs (perform_switchover cfg env sw mem) tr o -> trace_ok Z lk_step lk_ok 0 tr.
Proof. exact switchover_lock_rechecks_trace. Qed.
Print Assumptions C01_lock_reconfirmed_before_promotion.

(* split brain: when no frozen position contains all the others the rest of the
   procedure is exactly "write the emergency marker, fail" *)
Theorem C01_splitbrain_writes_marker_and_promotes_nothing : forall cfg env sw mem active positions,
  most_recent positions = RecentSplitBrain ->
  sw_after_positions cfg env sw mem active positions = Do 1370 (FileWrite (se_emerge_file env)) (fun _ => Ret (SwErr 1375, mem)).
Proof. exact splitbrain_aborts. Qed.
Print Assumptions C01_splitbrain_writes_marker_and_promotes_nothing.

Theorem C01_splitbrain_iff_no_maximum : forall positions, all_wf positions -> positions <> [] ->
  (most_recent positions = RecentSplitBrain <-> ~ exists p, In p positions /\ contains_all positions p).
Proof. exact most_recent_splitbrain_iff. Qed.
Print Assumptions C01_splitbrain_iff_no_maximum.

(* a node is made writable only after it reported an executed set containing the
   most recent frozen position (executed + received of every frozen member is
   contained in that position by C13) - or the async allowed-lag exception of an
   automatic failover fired *)
Theorem C01_promotion_needs_catch_up : forall cfg env sw mem active positions tr o,
  runs (sw_after_positions cfg env sw mem active positions) tr o ->
  issues_set_writable tr ->
  exists mrh mrs nm, most_recent positions = RecentFound mrh mrs /\ sw_choose cfg sw positions mrh = Some nm /\
                     catch_up_evidence cfg nm mrs tr.
Proof. exact promotion_needs_catch_up. Qed.
Print Assumptions C01_promotion_needs_catch_up.

Theorem C01_most_recent_contains_every_frozen_position : forall ps h st, all_wf ps -> most_recent ps = RecentFound h st ->
  exists p, In p ps /\ p_host p = h /\ p_set p = st /\ contains_all ps p.
Proof. exact most_recent_found. Qed.
Print Assumptions C01_most_recent_contains_every_frozen_position.
