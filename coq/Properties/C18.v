(* C18 - Disk-space guard: read-only at critical usage, hysteresis on return.
   Theorems only; model Procs/DiskGuard.v (repairReadOnlyOnMaster). *)
From Coq Require Import ZArith NArith Bool List.
From Mysync Require Import Gtid.Interval Gtid.GtidSet Base.Prog Base.Config Procs.NodeOps Procs.DiskGuard Proofs.DiskGuardProofs.
Import ListNotations.
Open Scope Z_scope.

(* read-only is issued iff it is needed and the master is not already in the
   required mode; the super flag is the negation of keep-super-writable *)
Theorem C18_read_only_iff : forall cfg master ms states s,
  guard_decide cfg master ms states = GaSetRO s <->
  guard_need_ro cfg master ms states = true /\
  (ns_ro ms && negb (Bool.eqb (c_keep_super_writable cfg) (ns_super_ro ms))) = false /\
  s = negb (c_keep_super_writable cfg).
Proof. exact guard_decide_ro_iff. Qed.
Print Assumptions C18_read_only_iff.

(* writable again iff read-only is not needed, nobody is in the grey zone
   (master <= non-critical and, if semi-sync replicas run, one of them too) and
   the master is currently read-only; otherwise the mode is left untouched *)
Theorem C18_writable_iff : forall cfg master ms states,
  guard_decide cfg master ms states = GaSetWritable <->
  guard_need_ro cfg master ms states = false /\ guard_may_write cfg master ms states = true /\ ns_ro ms = true.
Proof. exact guard_decide_rw_iff. Qed.
Print Assumptions C18_writable_iff.

(* the master-side trigger: some health record of the recorded master at or above critical *)
Theorem C18_master_critical_iff : forall cfg master states,
  g_need_ro (guard_counts_of cfg master states) = true <->
  exists h ns d, In (h, ns) states /\ ns_disk ns = Some d /\ ns_is_master ns = true /\ h = master /\ usage_ge d (c_critical_disk cfg) = true.
Proof. exact guard_master_critical_iff. Qed.
Print Assumptions C18_master_critical_iff.

Theorem C18_usage_is_exact_ratio : forall used total t, 0 < total -> 0 <= used <= total ->
  (usage_ge (used, total) t = true <-> t * total <= 10000 * used).
Proof. exact usage_ge_spec. Qed.
Print Assumptions C18_usage_is_exact_ratio.

(* execution, for every response of every call: only the master is addressed,
   only with the statement the decision names; the low-space flag only with the
   value of the change *)
Theorem C18_only_decided_action : forall cfg master ms states tr o,
  runs (repair_read_only_on_master cfg master ms states) tr o ->
  Forall (fun e => guard_call_ok master (guard_decide cfg master ms states) (ev_call e)) tr.
Proof. exact guard_trace_ok. Qed.
Print Assumptions C18_only_decided_action.

Theorem C18_untouched_in_between : forall cfg master ms states,
  guard_decide cfg master ms states = GaNone -> repair_read_only_on_master cfg master ms states = Ret tt.
Proof. exact guard_none_no_calls. Qed.
Print Assumptions C18_untouched_in_between.

Theorem C18_read_only_issued : forall cfg master ms states s tr o,
  guard_decide cfg master ms states = GaSetRO s ->
  runs (repair_read_only_on_master cfg master ms states) tr o ->
  exists e tr', tr = e :: tr' /\ ev_call e = Sql master (SSetRO s).
Proof. exact guard_ro_first_call. Qed.
Print Assumptions C18_read_only_issued.

Theorem C18_writable_issued : forall cfg master ms states tr o,
  guard_decide cfg master ms states = GaSetWritable ->
  runs (repair_read_only_on_master cfg master ms states) tr o ->
  exists e tr', tr = e :: tr' /\ ev_call e = Sql master SSetWritable.
Proof. exact guard_rw_first_call. Qed.
Print Assumptions C18_writable_issued.

(* the flag follows the change: written only right after the statement succeeded *)
Theorem C18_flag_only_after_successful_change : forall cfg master ms states tr o,
  runs (repair_read_only_on_master cfg master ms states) tr o ->
  guard_decide cfg master ms states = GaSetWritable ->
  forall e, In e tr -> (exists v, ev_call e = DcsSet PLowSpace v) ->
  tr = [{| ev_site := 1756; ev_call := Sql master SSetWritable; ev_resp := ROk |}; e] /\ ev_call e = DcsSet PLowSpace (VBool false).
Proof. exact guard_flag_after_success. Qed.
Print Assumptions C18_flag_only_after_successful_change.
