(* C07 - Switchover is resumable after a manager crash at any point.
   Theorems only.  A crash is the truncation of a run between two external calls.  What is PROVED: every
   safety theorem of the development that is stated over runs holds on every crash prefix (it is
   prefix-closed), instantiated below for the procedures a dying manager may be executing.  What is NOT
   proved: that the successor's run converges (that needs a proved model of MySQL replication and of the
   servers' state across the crash) - this clause is decided on the implementation by the crash sweep of the
   real daemons (harness zz_verif_c07_test.go: the manager dies before its k-th call for every k): partial. *)
From Coq Require Import ZArith NArith Bool List.
From Mysync Require Import Gtid.Interval Gtid.GtidSet Pure.Quorum Base.Prog Base.ProgFacts Base.Hoare Base.Config
  Procs.NodeOps Procs.ActiveNodes Procs.Switchover Procs.Manager Proofs.SwitchoverProofs Proofs.OptimizationProofs Proofs.ManagerProofs.
Import ListNotations.
Open Scope Z_scope.

(* generic: monitored safety survives a crash at any point *)
Theorem C07_safety_holds_on_every_crash_prefix : forall S step okc A (p : prog A) st tr o k,
  safe S step okc st p -> runs p tr o -> trace_ok S step okc st (firstn k tr).
Proof. intros S step okc A p st tr o k. apply safe_on_every_crash_prefix. Qed.
Print Assumptions C07_safety_holds_on_every_crash_prefix.

(* a manager that dies inside performSwitchover has not promoted anybody without both lock re-checks *)
Theorem C07_no_promotion_without_lock_rechecks_on_any_crash_prefix : forall cfg env sw mem tr o k,
  runs (perform_switchover cfg env sw mem) tr o -> trace_ok Z lk_step lk_ok 0 (firstn k tr).
Proof. intros cfg env sw mem tr o k H. eapply safe_on_every_crash_prefix; [apply switchover_lock_rechecks|exact H]. Qed.
Print Assumptions C07_no_promotion_without_lock_rechecks_on_any_crash_prefix.

(* the request survives the crash: the only calls that remove or rewrite it are the bookkeeping of
   FinishSwitchover / FailSwitchover; until then a dying manager has only issued calls that leave 'switch'
   alone, so the next manager finds it (with started_at / started_by from StartSwitchover) *)
Theorem C07_timed_out_request_is_kept : forall cfg env m cs active master sw tr o,
  sw_initiated_at sw <> 0 ->
  runs (handle_switchover cfg env m cs active master sw) tr o ->
  forall e0 tr', tr = e0 :: tr' -> c_switchover_timeout cfg < now_val e0 - sw_initiated_at sw ->
  exists d, switch_writes tr = [d] /\ exists t, ev_call d = DcsSet PSwitch (VSwitch (with_result sw false t (sw_run_count sw + 1))).
Proof. exact timed_out_request_stays_pending. Qed.
Print Assumptions C07_timed_out_request_is_kept.

(* the next manager acts only with the lock: C03_no_lock_no_action; it re-learns the state from the servers,
   not from the dead manager's memory: manager_gates starts from update_hosts_info and fresh cluster states *)
Theorem C07_successor_needs_the_lock : forall cfg env m tr o,
  runs (manager_gates cfg env m) tr o ->
  match tr with
  | e0 :: e1 :: rest =>
      ev_call e0 = DcsConnected /\ ev_call e1 = LockAcquire /\
      (ev_resp e1 <> RBool true -> rest = [] /\ o = Done (GNext NxCandidate, m))
  | [e0] => ev_call e0 = DcsConnected /\ o = Done (GNext NxLost, m)
  | [] => False
  end.
Proof. exact no_lock_no_action. Qed.
Print Assumptions C07_successor_needs_the_lock.
