(* C07 - Switchover is resumable after a manager crash at any point.
   Theorems only.  A crash is the truncation of a run between two external calls.  What is PROVED: every
   safety theorem of the development that is stated over runs holds on every crash prefix (it is
   prefix-closed), instantiated below for the procedures a dying manager may be executing.  What is NOT
   proved: that the successor's run converges (that needs a proved model of MySQL replication and of the
   servers' state across the crash) - this clause is decided on the implementation by the crash sweep of the
   real daemons (harness zz_verif_c07_test.go: the manager dies before its k-th call for every k): partial. *)
From Coq Require Import ZArith NArith Bool List.
From Mysync Require Import Gtid.Interval Gtid.GtidSet Pure.Quorum Base.Prog Base.ProgFacts Base.Hoare Base.Config
  Procs.NodeOps Procs.ActiveNodes Procs.Switchover Procs.Manager Proofs.SwitchoverProofs Proofs.MasterLast Proofs.OptimizationProofs Proofs.ManagerProofs.
Import ListNotations.
Open Scope Z_scope.

(* generic: monitored safety survives a crash at any point *)
Theorem C07_safety_holds_on_every_crash_prefix : forall S step okc A (p : prog A) st tr o k,
  safe S step okc st p -> runs p tr o -> trace_ok S step okc st (firstn k tr).
Proof. intros S step okc A p st tr o k. apply safe_on_every_crash_prefix. Qed.
Print Assumptions C07_safety_holds_on_every_crash_prefix.

(* a manager that dies inside performSwitchover has not promoted anybody without both lock re-checks *)
Theorem C07_no_promotion_without_lock_rechecks_on_any_crash_prefix : forall cfg env sw mem tr o k,
  runs (perform_switchover cfg env sw mem) tr o -> trace_ok Z lk_step lk_ok 0 (firstn k tr).
Proof. intros cfg env sw mem tr o k H. eapply safe_on_every_crash_prefix; [apply switchover_lock_rechecks|exact H]. Qed.
Print Assumptions C07_no_promotion_without_lock_rechecks_on_any_crash_prefix.

(* "recorded master updated last": in every run of performSwitchover the write of the master key is the
   last call, it is preceded by no other write of that key, and it names the host whose SET read_only=0
   was answered OK earlier in the same run *)
Theorem C07_recorded_master_written_last : forall cfg env sw mem tr o,
  runs (perform_switchover cfg env sw mem) tr o ->
  forall t1 e t2, tr = t1 ++ e :: t2 -> is_master_write (ev_call e) = true ->
    t2 = [] /\ Forall (fun x => is_master_write (ev_call x) = false) t1 /\
    exists h w, ev_call e = DcsSet PMaster (VHost h) /\ In w t1 /\ ev_call w = Sql h SSetWritable /\ ev_resp w = ROk.
Proof. exact master_written_last. Qed.
Print Assumptions C07_recorded_master_written_last.

(* hence a manager that dies anywhere before the last call of the procedure leaves the recorded master as
   it was: the successor finds the old master recorded and the request still pending *)
Theorem C07_crash_prefix_keeps_recorded_master : forall cfg env sw mem tr o k,
  runs (perform_switchover cfg env sw mem) tr o -> (k < length tr)%nat ->
  Forall (fun x => is_master_write (ev_call x) = false) (firstn k tr).
Proof. exact crash_prefix_keeps_master. Qed.
Print Assumptions C07_crash_prefix_keeps_recorded_master.

(* the procedure never records the outcome itself (that is the caller's FinishSwitchover, after it
   returned): a crash inside it cannot leave a success record behind *)
Theorem C07_procedure_never_records_success : forall cfg env sw mem tr o,
  runs (perform_switchover cfg env sw mem) tr o -> Forall (fun e => forall v, ev_call e <> DcsSet PLastSwitch v) tr.
Proof. exact switchover_never_records_success. Qed.
Print Assumptions C07_procedure_never_records_success.

(* the next manager acts only with the lock: C03_no_lock_no_action; it re-learns the state from the servers,
   not from the dead manager's memory: manager_gates starts from update_hosts_info and fresh cluster states *)
Theorem C07_successor_needs_the_lock : forall cfg env m tr o,
  runs (manager_gates cfg env m) tr o ->
  match tr with
  | e0 :: e1 :: rest =>
      ev_call e0 = DcsConnected /\ ev_call e1 = LockAcquire /\
      (ev_resp e1 <> RBool true -> rest = [] /\ o = Done (GNext NxCandidate, m))
  | [e0] => ev_call e0 = DcsConnected /\ o = Done (GNext NxLost, m)
  | [] => False
  end.
Proof. exact no_lock_no_action. Qed.
Print Assumptions C07_successor_needs_the_lock.
