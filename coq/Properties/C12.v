(* C12 - Quorum arithmetic: any failover quorum meets any acknowledging set.
   Theorems only; each is about the definitions REGENERATED from
   internal/mysql/switch_helper.go on every run (Generated/SwitchHelperGen.v). *)
From Coq Require Import ZArith Bool List Lia.
From Mysync Require Import Generated.SwitchHelperGen Proofs.QuorumProofs.
Open Scope Z_scope.

(* n = size of the published active list (it contains the master, hence
   max(n-1,0) replicas); w = configured acknowledgement count. *)
Theorem C12_required_le_replicas : forall sh n, 0 <= n -> 0 <= sh_w sh ->
  0 <= required_wsc sh n <= Z.max (n - 1) 0.
Proof. exact required_bounds. Qed.
Print Assumptions C12_required_le_replicas.

Theorem C12_required_zero_iff : forall sh n, 0 <= n -> 0 <= sh_w sh ->
  (required_wsc sh n = 0 <-> (n <= 1 \/ sh_w sh = 0)).
Proof. exact required_zero_iff'. Qed.
Print Assumptions C12_required_zero_iff.

Theorem C12_quorum_ge_1 : forall sh n, 0 <= n -> 0 <= sh_w sh -> 1 <= failover_quorum sh n.
Proof. exact quorum_ge_1'. Qed.
Print Assumptions C12_quorum_ge_1.

Theorem C12_quorum_plus_required_exceeds_replicas : forall sh n, 0 <= n -> 0 <= sh_w sh ->
  failover_quorum sh n + required_wsc sh n > Z.max (n - 1) 0.
Proof. exact quorum_plus_required'. Qed.
Print Assumptions C12_quorum_plus_required_exceeds_replicas.

(* every duplicate-free set F of replicas of the list that reaches the failover
   quorum shares a member with every duplicate-free set Ack of replicas that
   could have acknowledged a commit (|Ack| >= required count > 0) *)
Theorem C12_quorum_intersects :
  forall (host : Type) (host_eq_dec : forall x y : host, {x = y} + {x <> y})
         sh (replicas F Ack : list host),
  0 <= sh_w sh ->
  let n := Z.of_nat (S (length replicas)) in   (* list = master :: replicas *)
  NoDup F -> NoDup Ack -> incl F replicas -> incl Ack replicas ->
  failover_quorum sh n <= Z.of_nat (length F) ->
  0 < required_wsc sh n <= Z.of_nat (length Ack) ->
  exists h, In h F /\ In h Ack.
Proof. exact quorum_intersects. Qed.
Print Assumptions C12_quorum_intersects.

(* the comparison helper: with semi-sync it accepts exactly the counts that reach
   the quorum; without it exactly the counts >= 1 *)
Theorem C12_check_semisync : forall sh n p, sh_semisync sh = true ->
  (check_quorum sh n p = true <-> failover_quorum sh n <= p).
Proof. exact check_semisync. Qed.
Print Assumptions C12_check_semisync.

Theorem C12_check_async : forall sh n p, sh_semisync sh = false -> 0 <= p ->
  (check_quorum sh n p = true <-> 1 <= p).
Proof. exact check_async. Qed.
Print Assumptions C12_check_async.
