(* C05 - Automatic failover is filed only when every gate is open.
   Theorems only.  Model: Procs/Manager.v (stateManager, approveFailover, IssueFailover),
   tied to the code by the K2 replay of the real stateManager (Corr/Mgr.v).
   The theorems are about the two places of the iteration that can file a request
   (failure_detection and, through the same approve_failover, the after-crash check of the
   tail); that no OTHER part of the iteration issues `create switch` is checked on the
   implementation side by the monitor (DESIGN.md section 10: partial). *)
From Coq Require Import ZArith NArith Bool List.
From Mysync Require Import Gtid.Interval Gtid.GtidSet Pure.Quorum Base.Prog Base.ProgFacts Base.Config
  Procs.NodeOps Procs.ActiveNodes Procs.Switchover Procs.Manager Proofs.ManagerProofs Proofs.GatesProofs Procs.MgrQuorum Proofs.MgrQuorumProofs.
Import ListNotations.
Open Scope Z_scope.

(* what an approval implies - for every response of every call: failover enabled; unless the master
   crash-recovered (with resetup) or sits on a read-only filesystem, not every other HA node is still
   replicating and the failure clock has run for the delay; the alive replicas of the published list
   reach the quorum; the last successful automatic failover is at least the cooldown old *)
Theorem C05_approval_means_gates_open : forall cfg cs msd active m master tr,
  runs (approve_failover cfg cs msd active m master) tr (Done true) ->
  c_failover cfg = true /\
  (crash_recovered cfg msd = true \/ ns_fs_ro msd = true \/
   (all_others_replicating cs = false /\
    (c_failover_delay cfg <= 0 \/ failed_at m master = 0 \/ exists t, now_in tr t /\ c_failover_delay cfg <= t - failed_at m master))) /\
  check_quorum (c_semi_sync cfg) (c_wait_count cfg) (Z.of_nat (length active)) (count_alive_ha_slaves_within active cs) = true /\
  last_ok cfg tr.
Proof. exact approve_failover_true. Qed.
Print Assumptions C05_approval_means_gates_open.

(* failure detection files only with light maintenance off, a bad health record and an approval
   obtained in the same run under the clock this iteration keeps; what it files is the automatic
   failover from the recorded master.  (It runs only when no maintenance record and no pending
   request was read: manager_decide.) *)
Theorem C05_detection_files_only_when_approved : forall cfg cs msd active m master light tr o,
  runs (failure_detection cfg cs msd active m master light) tr o ->
  forall e, In e tr -> is_file_request (ev_call e) ->
    light = false /\ (ns_ping_ok msd = false \/ ns_fs_ro msd = true) /\
    (exists t, ev_call e = DcsCreate PSwitch (auto_request master t)) /\
    exists m1 tr_a, runs (approve_failover cfg cs msd active m1 master) tr_a (Done true) /\ incl tr_a tr /\
      (failed_at m master <> 0 -> m1 = m) /\ (failed_at m master = 0 -> exists t, now_in tr t /\ failed_at m1 master = t).
Proof. exact failure_detection_files. Qed.
Print Assumptions C05_detection_files_only_when_approved.

(* the failure clock of one evaluation ... *)
Theorem C05_clock_step : forall cfg cs msd active m master light tr b m',
  runs (failure_detection cfg cs msd active m master light) tr (Done (b, m')) ->
  exists now, failed_at m' master = clock_step (failed_at m master) (is_bad msd, now) /\
              (is_bad msd = true -> failed_at m master = 0 -> now_in tr now).
Proof. exact failure_detection_clock. Qed.
Print Assumptions C05_clock_step.

(* ... and over EVERY history of evaluations by one manager process (a new manager starts from
   clock 0): a running clock is the instant of the first evaluation of the trailing run of bad
   evaluations, i.e. the record was bad at every evaluation since the clock started *)
Theorem C05_clock_over_histories : forall (h : list (bool * Z)) (clk0 : Z),
  Forall (fun ev => snd ev <> 0) h ->
  let clk := fold_left clock_step h clk0 in
  clk <> 0 ->
  (exists pre suf, h = pre ++ suf /\ suf <> [] /\ Forall (fun ev => fst ev = true) suf /\
                   match suf with ev :: _ => clk = snd ev | [] => False end /\
                   match rev pre with ev :: _ => fst ev = false | [] => clk0 = 0 end)
  \/ (Forall (fun ev => fst ev = true) h /\ clk = clk0).
Proof. exact clock_history. Qed.
Print Assumptions C05_clock_over_histories.

(* "A manager that cannot reach the master while the master's own health record is good files nothing
   and performs no repair in that iteration": only the timing bookkeeping is touched and the iteration ends *)
Theorem C05_suspicious_master_does_nothing : forall cfg cs csd active m master light msd ms,
  assoc master csd = Some msd -> is_bad msd = false ->
  assoc master cs = Some ms -> ns_ping_ok ms = false ->
  allcalls (fun _ c => timing_only c) (after_requests cfg cs csd active m master light) /\
  forall tr g m', runs (after_requests cfg cs csd active m master light) tr (Done (g, m')) -> g = GNext NxManager.
Proof. exact suspicious_master_does_nothing. Qed.
Print Assumptions C05_suspicious_master_does_nothing.

(* ---- the whole iteration ------------------------------------------------------------------------
   a request is filed, anywhere in an iteration of stateManager (gates and repair tail), only after the
   maintenance record AND the pending-request key were both read as absent earlier in that iteration *)
Theorem C05_iteration_files_only_with_gates_open : forall cfg env m tr o,
  runs (state_manager cfg env m) tr o ->
  forall e, In e tr -> is_file_request (ev_call e) ->
    (exists gm, In gm tr /\ read_absent PMaintenance gm) /\ (exists gs, In gs tr /\ read_absent PSwitch gs).
Proof. exact iteration_files_only_with_gates_open. Qed.
Print Assumptions C05_iteration_files_only_with_gates_open.

(* before the repair tail the only thing that files is failure detection with light maintenance off
   (hence, by C05_detection_files_only_when_approved, an approval) *)
Theorem C05_gates_file_only_through_detection : forall cfg env m tr o,
  runs (manager_gates cfg env m) tr o ->
  forall e, In e tr -> is_file_request (ev_call e) -> gates_open cfg tr e.
Proof. exact gates_file_only_with_gates_open. Qed.
Print Assumptions C05_gates_file_only_through_detection.

(* in the repair tail the only thing that files is the crash-recovery failover: light maintenance off, an
   approval obtained in the same run, and what is filed is the automatic failover from the recorded master *)
Theorem C05_tail_files_only_when_approved : forall cfg env m c tr o,
  runs (manager_tail cfg env m c) tr o ->
  forall e, In e tr -> is_file_request (ev_call e) ->
    tc_light c = false /\
    (exists t, ev_call e = DcsCreate PSwitch (auto_request (tc_master c) t)) /\
    exists msd m1 tr_a, assoc (tc_master c) (tc_csd c) = Some msd /\
      runs (approve_failover cfg (tc_cs c) msd (tc_active c) m1 (tc_master c)) tr_a (Done true) /\ incl tr_a tr.
Proof. exact tail_files_only_when_approved. Qed.
Print Assumptions C05_tail_files_only_when_approved.

(* the quorum gate counts only what the manager itself reached: a replica of the published list that did not answer the
   manager's ping (refused, timed out, or answered with a "dubious" error - whatever its own health record says), a host
   the manager has no state for, and a host without a replication channel each contribute nothing to the count of alive
   replicas; and the count never exceeds the length of the list *)
Theorem C05_unreachable_replicas_do_not_count_towards_the_quorum : forall h nodes cs ns,
  assoc h cs = Some ns -> ns_ping_ok ns = false ->
  count_alive_ha_slaves_within (h :: nodes) cs = count_alive_ha_slaves_within nodes cs.
Proof. exact unreachable_not_counted_within. Qed.
Print Assumptions C05_unreachable_replicas_do_not_count_towards_the_quorum.

Theorem C05_unknown_and_channelless_hosts_do_not_count : forall h nodes cs,
  (assoc h cs = None \/ exists ns, assoc h cs = Some ns /\ ns_slave ns = None) ->
  count_alive_ha_slaves_within (h :: nodes) cs = count_alive_ha_slaves_within nodes cs.
Proof. exact unknown_or_channelless_not_counted. Qed.
Print Assumptions C05_unknown_and_channelless_hosts_do_not_count.

Theorem C05_quorum_count_is_bounded_by_the_list : forall nodes cs,
  (0 <= count_alive_ha_slaves_within nodes cs <= Z.of_nat (length nodes))%Z.
Proof. exact count_within_le. Qed.
Print Assumptions C05_quorum_count_is_bounded_by_the_list.
