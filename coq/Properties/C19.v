(* C19 - Replication optimisation never leaves untracked relaxed durability.
   Theorems only.  Model: Procs/Optimization.v (Syncer.Sync, Controller.Enable /
   Disable / Wait, the pre-switchover phase) and opt_disable_all in
   Procs/Switchover.v.  The monitor of Proofs/OptimizationProofs.v calls a host
   RESTORED (o_rest) once SET innodb_flush_log_at_trx_commit and then SET
   sync_binlog to the master's values both returned OK on it with no other
   attempt to change either setting on that host in between or afterwards. *)
From Coq Require Import ZArith NArith Bool List.
From Mysync Require Import Gtid.Interval Gtid.GtidSet Base.Prog Base.ProgFacts Base.Hoare Base.Config Procs.NodeOps Procs.ActiveNodes Procs.Switchover Procs.Optimization Proofs.OptimizationProofs Env.World Proofs.DurabilityWorld.
Import ListNotations.
Open Scope Z_scope.

(* "a registered host is dropped only after its settings were restored (or once it is
   no longer a registered cluster host)" - every run of Sync, every response of every call *)
Theorem C19_sync_drops_only_restored : forall env tr o, runs (opt_sync env) tr o ->
  exists mrs, (Forall (fun e => readcall (ev_call e)) tr \/ master_seen env tr mrs) /\
              trace_ok ost (ostep mrs) (ookc (ov_cluster env)) ost0 tr.
Proof. exact sync_drops_only_restored. Qed.
Print Assumptions C19_sync_drops_only_restored.

(* "replicas without a known lag and replicas whose lag has converged are returned to
   the master's durability settings ..." (after a Sync that returned no error; k is the one
   host the sync keeps) *)
Theorem C19_sync_success_restores : forall env tr, runs (opt_sync env) tr (Done None) ->
  exists mrs k, master_seen env tr mrs /\
    forall h en, observed tr h en ->
      (classify env mrs en (assoc h (ov_states env)) = OcMalf \/ classify env mrs en (assoc h (ov_states env)) = OcOptimized) ->
      mem_host h (ov_cluster env) = true -> Some h <> k ->
      o_rest (fold_steps ost (ostep mrs) ost0 tr) h = true.
Proof. exact sync_success_restores. Qed.
Print Assumptions C19_sync_success_restores.

(* "... and then dropped from the optimisation registry" *)
Theorem C19_sync_success_deregisters : forall env tr, runs (opt_sync env) tr (Done None) ->
  exists mrs, master_seen env tr mrs /\
    forall h en, observed tr h en ->
      (classify env mrs en (assoc h (ov_states env)) = OcMalf \/ classify env mrs en (assoc h (ov_states env)) = OcOptimized) ->
      exists e, In e tr /\ ev_call e = DcsDelete (POptNode h) /\ (ev_resp e = ROk \/ ev_resp e = RErr ENotFound).
Proof. exact sync_success_deregisters. Qed.
Print Assumptions C19_sync_success_deregisters.

(* which classes those are *)
Theorem C19_no_lag_is_switched_off : forall env mrs en ns, opt_lag ns = None -> classify env mrs en (Some ns) = OcMalf.
Proof. exact classify_nolag. Qed.
Print Assumptions C19_no_lag_is_switched_off.
Theorem C19_converged_is_switched_off : forall env mrs en ns lag, ns_is_master ns = false -> opt_lag ns = Some lag ->
  (lag < ov_low env \/ (en = false /\ lag < ov_high env)) -> ov_low env <= ov_high env ->
  classify env mrs en (Some ns) = OcOptimized \/ classify env mrs en (Some ns) = OcMalf.
Proof. exact classify_converged. Qed.
Print Assumptions C19_converged_is_switched_off.

(* "at most one replica is left running with relaxed durability settings": in every run
   of Sync, settings other than the master's are given to at most one host k ... *)
Theorem C19_sync_relaxes_at_most_one : forall env tr o, runs (opt_sync env) tr o ->
  exists mrs k, (Forall (fun e => readcall (ev_call e)) tr \/ master_seen env tr mrs) /\
    Forall (fun e => tamper_ok mrs k (ev_call e)) tr.
Proof. exact sync_relaxes_at_most_one. Qed.
Print Assumptions C19_sync_relaxes_at_most_one.

(* ... and, plan given, every other optimising host is restored by a successful sync; the
   hosts it leaves alone are those whose settings already equal the master's *)
Theorem C19_surplus_optimising_hosts_restored : forall env mrs p st,
  wp ost (ostep mrs) (ookc (ov_cluster env)) st (sync_act env mrs p)
     (fun st' e => e = None -> forall h, In h (to_restore p) -> Some h <> kept p -> mem_host h (ov_cluster env) = true -> o_rest st' h = true).
Proof. exact wp_sync_act. Qed.
Print Assumptions C19_surplus_optimising_hosts_restored.
Theorem C19_left_alone_means_equal_settings : forall env mrs en ons, classify env mrs en ons = OcDisabled ->
  en = false /\ exists ns rs, ons = Some ns /\ ns_repl_settings ns = Some rs /\ rs_eqb rs mrs = true.
Proof. exact classify_disabled. Qed.
Print Assumptions C19_left_alone_means_equal_settings.

(* controller.DisableAll (the pre-switchover shut-off): deregisters only restored hosts, and when
   it returns no error every registered candidate was restored *)
Theorem C19_disable_all : forall cluster master nodes tr o, runs (opt_disable_all master nodes) tr o ->
  exists rs, settings_used tr rs /\ trace_ok ost (ostep rs) (ookc cluster) ost0 tr /\
    (o = Done None -> forall h, listed tr nodes h -> mem_host h nodes = true ->
       o_rest (fold_steps ost (ostep rs) ost0 tr) h = true).
Proof. exact disable_all_spec. Qed.
Print Assumptions C19_disable_all.

(* "optimisation is switched off on the candidates before a switchover freezes them": every run
   of performSwitchover is a complete DisableAll over the candidates, without error, followed by
   the rest - or stops there *)
Theorem C19_switchover_disables_first : forall cfg env sw mem tr o, runs (perform_switchover cfg env sw mem) tr o ->
  (* the candidates of the request that are registered hosts *)
  let active := registered_only (map fst (se_all_hosts env)) (switch_candidates env sw) in
  tr = [] \/
  exists tr1 tr2, tr = tr1 ++ tr2 /\
    Forall (fun e => disable_call (ev_call e)) tr1 /\
    (runs (opt_disable_all (se_old_master env) active) tr1 (Done None) \/
     (tr2 = [] /\ exists o1, runs (opt_disable_all_k (mem_host (se_old_master env) (map fst (se_all_hosts env))) (se_old_master env) active) tr1 o1 /\ o1 <> Done None)).
Proof. exact switchover_disables_first. Qed.
Print Assumptions C19_switchover_disables_first.

(* "any pre-switchover speed-up phase has ended, with settings restored, before the freeze" is
   FALSE of the code (known finding C19-F1..F3): a run of the phase that returns normally with the
   target registered, never deregistered, relaxed and not restored *)
Theorem C19_speedup_phase_restores_refuted : forall cfg, c_semi_sync cfg = true ->
  runs (optimization_phase 2 cfg w_env w_sw [1%N; 2%N] (10 * sec)) w_trace (Done tt) /\
  In (ev 50141 (DcsCreate (POptNode 2%N) (VOpt false)) ROk) w_trace /\
  (forall e, In e w_trace -> ev_call e <> DcsDelete (POptNode 2%N)) /\
  o_rest (fold_steps ost (ostep (1, 1)) ost0 w_trace) 2%N = false /\
  In (ev 11152 (Sql 2%N (SSetSyncBinlog 1000)) ROk) w_trace.
Proof. exact phase_leaves_target_relaxed_and_registered_refuted. Qed.
Print Assumptions C19_speedup_phase_restores_refuted.

(* non-vacuity: a successful run of Sync that restores and deregisters a converged host *)
Example C19_sync_success_exists :
  exists tr, runs (opt_sync {| ov_master := 1%N; ov_states := [(1%N, w_ns true None); (2%N, w_ns false (Some 10))]; ov_cluster := [1%N; 2%N]; ov_low := 60; ov_high := 120 |}) tr (Done None)
             /\ observed tr 2%N false.
Proof.
  exists [ ev 50080 (DcsChildren POptNodes) (RHosts [2%N]); ev 30044 (DcsGet (POptNode 2%N)) (RVal (VOpt false));
           ev 11195 (Sql 2%N (SSetFlush 1)) ROk; ev 11199 (Sql 2%N (SSetSyncBinlog 1)) ROk; ev 50125 (DcsDelete (POptNode 2%N)) ROk ].
  split.
  - cbn. repeat (split; [reflexivity|]). split; reflexivity.
  - eexists. split; [right; left; reflexivity|]. split; reflexivity.
Qed.

(* what relaxing and restoring DO to a server, executed against the fault-free server of the world model (Env/World.v,
   tied to the fake server by the K4 correspondence): relaxing sets innodb_flush_log_at_trx_commit = 2 and
   sync_binlog = 1000; restoring sets both to the given (master's) values; and a server relaxed by mysync and then
   restored differs from the server it was in nothing but carrying exactly those two values *)
Theorem C19_relaxing_sets_both_settings : forall h w, w_host w = h ->
  wout (wrun (optimize_replication h) w) = Done None /\
  s_flush (w_srv (wworld (wrun (optimize_replication h) w))) = 2 /\
  s_sync (w_srv (wworld (wrun (optimize_replication h) w))) = 1000.
Proof. exact relax_sets_both. Qed.
Print Assumptions C19_relaxing_sets_both_settings.

Theorem C19_restoring_sets_both_settings : forall s1 s2 h rs w, w_host w = h ->
  wout (wrun (set_repl_settings s1 s2 h rs) w) = Done None /\
  s_flush (w_srv (wworld (wrun (set_repl_settings s1 s2 h rs) w))) = fst rs /\
  s_sync (w_srv (wworld (wrun (set_repl_settings s1 s2 h rs) w))) = snd rs.
Proof. exact restore_sets_both. Qed.
Print Assumptions C19_restoring_sets_both_settings.

Theorem C19_relax_then_restore_leaves_the_masters_settings : forall s1 s2 h rs w, w_host w = h ->
  w_srv (wworld (wrun (set_repl_settings s1 s2 h rs) (wworld (wrun (optimize_replication h) w)))) =
  with_durability (w_srv w) (fst rs) (snd rs).
Proof. exact relax_then_restore. Qed.
Print Assumptions C19_relax_then_restore_leaves_the_masters_settings.
