(* C04 - Published active list covers every semi-sync acker and matches ack count.
   Theorems only; model Procs/ActiveNodes.v (calcActiveNodes, calcActiveNodesChanges,
   updateActiveNodes, SetRecovery and the semi-sync helpers).

   Status (DESIGN.md section 7/8): the membership rule, the eviction guard, the
   "recovery removes the host from the list first" ordering and the footprint of
   the update are proved for every response of every call.  The clauses
   "(b) after a completed iteration", "no download-lagging replica in the list"
   and "an interrupted update never destroys (a)/(b)" are REFUTED on the real
   code by concrete replays (KNOWN_FINDINGS.json, causes R1-R5); they are decided
   by the implementation-side monitor, not claimed here. *)
From Coq Require Import ZArith NArith Bool List.
From Mysync Require Import Gtid.Interval Gtid.GtidSet Base.Prog Base.ProgFacts Base.Config Procs.NodeOps Procs.ActiveNodes Proofs.ActiveNodesProofs Env.World Proofs.SemiSyncWorld.
Import ListNotations.
Open Scope Z_scope.

(* members are evicted only while the manager can reach the master: in every run
   (any responses, any crash prefix) a write of a list that drops a member of the
   old list is preceded by a successful ping of the master in the same update *)
Theorem C04_evict_needs_master : forall cfg env mem tr o, runs (update_active_nodes cfg env mem) tr o ->
  trace_ok bool (ev_step (ae_master env)) (ev_ok (ae_old_active env)) false tr.
Proof. exact evict_needs_master_trace. Qed.
Print Assumptions C04_evict_needs_master.

(* membership rule: a host other than the master is computed into the list only
   if it is not a cascade replica, not marked for recovery, and - when reachable -
   replicating (both threads) and not split-brained w.r.t. the master's executed
   set; an unreachable host can only be KEPT (it must already be a member) *)
Theorem C04_membership : forall cfg env rec mg mem h ns tr mem',
  runs (calc_active_host cfg env rec mg mem (h, ns)) tr (Done (true, mem')) ->
  h = ae_master env \/
  (ns_is_cascade ns = false /\ on_recovery rec h = false /\
   (ns_ping_ok ns = true ->
      exists rs, ns_slave ns = Some rs /\ repl_state_of rs = ReplRunning /\ split_brained (rs_executed rs) mg (ae_master_uuid env) = false) /\
   (ns_ping_ok ns = false -> In h (ae_old_active env))).
Proof. exact calc_active_host_member. Qed.
Print Assumptions C04_membership.

(* the update only ever issues semi-sync / replication-restart / durability
   statements, reads, the recovery listing, the list write and the optimisation
   registration - for every response of every call *)
Theorem C04_update_footprint : forall cfg env mem tr o, runs (update_active_nodes cfg env mem) tr o ->
  Forall (fun e => an_call_ok (ev_call e)) tr.
Proof. exact update_active_nodes_trace. Qed.
Print Assumptions C04_update_footprint.

(* marking for recovery: the recovery mark of h is created only after a list
   without h was successfully written *)
Theorem C04_recovery_removes_from_list_first : forall h tr o, runs (set_recovery h) tr o ->
  trace_ok bool (sr_step h) (sr_ok h) false tr.
Proof. intros h tr o. apply safe_sound. apply set_recovery_order. Qed.
Print Assumptions C04_recovery_removes_from_list_first.

(* what joining and leaving DO to a replica, executed against the fault-free server of the world model (Env/World.v, tied
   to the fake server by the K4 correspondence): a replica that joins ends with acknowledgement enabled and its receiver
   running from the same source, and the call reports success; a replica that leaves ends with acknowledgement off.
   (Clauses (a),(b) about the whole cluster after an update remain decided on the implementation.) *)
Theorem C04_joining_replica_acknowledges : forall h ss ms mg rs c w,
  w_host w = h -> ns_master_gtid ms = Some mg -> ns_slave ss = Some rs -> s_chan (w_srv w) = Some c ->
  wout (wrun (enable_semi_sync_on_slave h (Some ss) ms) w) = Done None /\
  s_semi_s (w_srv (wworld (wrun (enable_semi_sync_on_slave h (Some ss) ms) w))) = true /\
  s_semi_m (w_srv (wworld (wrun (enable_semi_sync_on_slave h (Some ss) ms) w))) = false /\
  (exists c', s_chan (w_srv (wworld (wrun (enable_semi_sync_on_slave h (Some ss) ms) w))) = Some c' /\ c_io c' = true /\ c_source c' = c_source c).
Proof. exact join_makes_acknowledging. Qed.
Print Assumptions C04_joining_replica_acknowledges.

Theorem C04_leaving_replica_stops_acknowledging : forall h restart c w,
  w_host w = h -> s_chan (w_srv w) = Some c ->
  wout (wrun (disable_semi_sync_on_slave h restart) w) = Done None /\
  s_semi_s (w_srv (wworld (wrun (disable_semi_sync_on_slave h restart) w))) = false.
Proof. exact leave_stops_acknowledging. Qed.
Print Assumptions C04_leaving_replica_stops_acknowledging.
