(* C13 - GTID relations and split-brain detection agree with set semantics.
   Theorems only.  [gmem s u t g] = transaction (uuid u, tag t, number g) is in
   set s; [wf] = what the GTID parser produces (distinct uuids/tags, non-empty
   normalized interval slices); subset/same are the set-theoretic relations. *)
From Coq Require Import ZArith NArith Bool List.
From Coq Require Import Permutation.
From Mysync Require Import Gtid.Interval Gtid.GtidSet Proofs.IntervalProofs Proofs.GtidProofs Proofs.GtidEqual Proofs.RecentOrder.
Import ListNotations.
Open Scope Z_scope.

Theorem C13_behind_or_equal_iff_subset : forall slave master, wf slave -> wf master ->
  (behind_or_equal slave master = true <-> subset slave master).
Proof. exact behind_or_equal_spec. Qed.
Print Assumptions C13_behind_or_equal_iff_subset.

Theorem C13_ahead_is_negation : forall slave master, wf slave -> wf master ->
  (slave_ahead slave master = true <-> ~ subset slave master).
Proof. exact slave_ahead_spec. Qed.
Print Assumptions C13_ahead_is_negation.

(* interval subtraction is exact and keeps the normal form *)
Theorem C13_slice_minus_exact : forall a b, normalized a -> normalized b ->
  normalized (slice_minus a b) /\ forall g, mem (slice_minus a b) g = mem a g && negb (mem b g).
Proof. intros a b Ha Hb. split; [apply slice_minus_normalized; assumption|intros g; apply slice_minus_mem; assumption]. Qed.
Print Assumptions C13_slice_minus_exact.

Theorem C13_set_minus_exact : forall a b, wf a -> wf b ->
  wf (set_minus a b) /\ forall u t g, gmem (set_minus a b) u t g = gmem a u t g && negb (gmem b u t g).
Proof. exact set_minus_spec. Qed.
Print Assumptions C13_set_minus_exact.

(* the textual difference names exactly the two set differences; its four
   messages correspond to the four emptiness combinations *)
Theorem C13_diff_names_both_differences : forall replica source, wf replica -> wf source ->
  let '(k, ds, dr) := gtid_diff replica source in
  (forall u t g, gmem ds u t g = gmem source u t g && negb (gmem replica u t g)) /\
  (forall u t g, gmem dr u t g = gmem replica u t g && negb (gmem source u t g)) /\
  (k = DiffEqual <-> (subset source replica /\ subset replica source)) /\
  (k = DiffSourceAhead <-> (~ subset source replica /\ subset replica source)) /\
  (k = DiffReplicaAhead <-> (subset source replica /\ ~ subset replica source)) /\
  (k = DiffSplitBrain <-> (~ subset source replica /\ ~ subset replica source)).
Proof. exact gtid_diff_spec. Qed.
Print Assumptions C13_diff_names_both_differences.

Theorem C13_subset_never_split_brained : forall slave master master_uuid, wf slave -> wf master ->
  subset slave master -> split_brained slave master master_uuid = false.
Proof. intros; apply split_brained_subset; assumption. Qed.
Print Assumptions C13_subset_never_split_brained.

Theorem C13_foreign_extra_transaction_is_split_brain : forall slave master master_uuid u t g,
  wf slave -> wf master ->
  gmem slave u t g = true -> gmem master u t g = false -> u <> master_uuid ->
  split_brained slave master master_uuid = true.
Proof. intros; eapply split_brained_foreign; eassumption. Qed.
Print Assumptions C13_foreign_extra_transaction_is_split_brain.

(* choosing the most recent node: the result is one of the nodes and contains
   all the others; split brain is reported exactly when no such node exists *)
Theorem C13_most_recent_contains_all : forall ps h st, all_wf ps -> most_recent ps = RecentFound h st ->
  exists p, In p ps /\ p_host p = h /\ p_set p = st /\ contains_all ps p.
Proof. exact most_recent_found. Qed.
Print Assumptions C13_most_recent_contains_all.

Theorem C13_split_brain_iff_no_maximum : forall ps, all_wf ps -> ps <> nil ->
  (most_recent ps = RecentSplitBrain <-> ~ exists p, In p ps /\ contains_all ps p).
Proof. exact most_recent_splitbrain_iff. Qed.
Print Assumptions C13_split_brain_iff_no_maximum.

(* the interval membership test of the library (binary search restated as first
   match) is subset on normalized slices, and Normalize() keeps the members *)
Theorem C13_slice_contain_iff_subset : forall s sub, normalized s -> nonempty_ivs sub ->
  (slice_contain s sub = true <-> forall g, mem sub g = true -> mem s g = true).
Proof. exact slice_contain_spec. Qed.
Print Assumptions C13_slice_contain_iff_subset.

Theorem C13_normalize_keeps_members : forall s lo, (forall i, In i s -> lo < fst i < snd i) ->
  sep lo (normalize s) /\ forall g, mem (normalize s) g = mem s g.
Proof. exact normalize_spec. Qed.
Print Assumptions C13_normalize_keeps_members.

(* non-vacuity: a concrete well-formed pair with gaps, two uuids and a tag *)
Example C13_example_wf :
  wf [(1%N, [(0%N, [(1, 4); (6, 8)])]); (2%N, [(0%N, [(1, 3)]); (5%N, [(2, 3)])])] /\
  behind_or_equal [(1%N, [(0%N, [(2, 4)])])] [(1%N, [(0%N, [(1, 4); (6, 8)])]); (2%N, [(0%N, [(1, 3)])])] = true.
Proof. split; [apply wfb_sound; vm_compute; reflexivity|vm_compute; reflexivity]. Qed.

(* Equal is exact on well-formed sets: it answers true precisely for sets with the same transactions
   (soundness above; completeness needs the uniqueness of the normalised representation) *)
Theorem C13_equal_iff_same_transactions : forall s o, wf s -> wf o -> (set_equal s o = true <-> same s o).
Proof. exact set_equal_iff. Qed.
Print Assumptions C13_equal_iff_same_transactions.

(* the positions come from ranging over a Go map, in arbitrary order: the split-brain verdict does not depend on the
   order, and the sets returned for two orders hold the same transactions *)
Theorem C13_split_brain_verdict_is_order_independent : forall ps qs, Permutation ps qs -> all_wf ps ->
  (most_recent ps = RecentSplitBrain <-> most_recent qs = RecentSplitBrain).
Proof. exact most_recent_splitbrain_order_independent. Qed.
Print Assumptions C13_split_brain_verdict_is_order_independent.

Theorem C13_most_recent_set_is_order_independent : forall ps qs h st h' st', Permutation ps qs -> all_wf ps ->
  most_recent ps = RecentFound h st -> most_recent qs = RecentFound h' st' -> same st st'.
Proof. exact most_recent_found_order_independent. Qed.
Print Assumptions C13_most_recent_set_is_order_independent.
