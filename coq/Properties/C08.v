(* C08 - Lost coordination service: fence the node unless provably safe.
   Theorems only; model: Procs/Lost.v (stateLost, checkHAReplicasRunning,
   stopReplicationOnMaster) over Procs/NodeOps.v (node.go methods).
   [runs p tr o] = p can produce trace tr when every external call may return ANY
   response (failing, timing out, lying); a crash is a prefix of such a trace. *)
From Coq Require Import ZArith NArith Bool List.
From Mysync Require Import Gtid.Interval Gtid.GtidSet Base.Prog Base.Config Procs.NodeOps Procs.Lost Proofs.LostProofs Env.World Proofs.LostWorld.
Import ListNotations.
Open Scope Z_scope.

(* while disconnected mysync never promotes, re-points, un-fences, starts
   replication, sets anything online, writes to the coordination service or
   touches another host: every call is a read, or one of {read-only, offline,
   semi-sync off, kill session} on the LOCAL node *)
Theorem C08_never_unfences_never_touches_others : forall cfg env tr o,
  runs (state_lost cfg env) tr o -> Forall (fun e => lost_call_ok (le_local env) (ev_call e)) tr.
Proof. exact state_lost_trace_ok. Qed.
Print Assumptions C08_never_unfences_never_touches_others.

(* single-node clusters, non-HA hosts, fencing disabled: nothing but the connectivity test *)
Theorem C08_noop_cases : forall cfg env tr o, lost_static_noop cfg env = true ->
  runs (state_lost cfg env) tr o ->
  exists r, tr = [{| ev_site := 260; ev_call := DcsConnected; ev_resp := r |}] /\
            (o = Done (StCandidate, None) \/ o = Done (StLost, le_lost_at env)).
Proof. exact state_lost_noop. Qed.
Print Assumptions C08_noop_cases.

(* the decision fences iff the node is not (a master with a live group) and the
   postponement does not apply: no unreachable replica, or the loss clock is
   older than the inactivation delay *)
Theorem C08_fence_iff : forall cfg env is_master repl_running has_unreach now now2,
  (exists la, lost_decide cfg env is_master repl_running has_unreach now now2 = LdFence la) <->
  (is_master && repl_running = false) /\
  (has_unreach = false \/ now2 - (match le_lost_at env with Some t => t | None => now end) > c_inactivation_delay cfg).
Proof. exact lost_decide_fence_iff. Qed.
Print Assumptions C08_fence_iff.

Theorem C08_postpone_only_while_unreachable_and_within_delay : forall cfg env is_master repl_running has_unreach now now2 la,
  lost_decide cfg env is_master repl_running has_unreach now now2 = LdPostpone la ->
  has_unreach = true /\ exists t, la = Some t /\ now2 - t <= c_inactivation_delay cfg.
Proof. exact lost_decide_postpone_bounded. Qed.
Print Assumptions C08_postpone_only_while_unreachable_and_within_delay.

(* acting: without a fence decision nothing at all is issued; with it the first
   statement is the read-only statement on the local node *)
Theorem C08_no_fence_no_statement : forall local is_master d, (forall la, d <> LdFence la) ->
  lost_act local is_master d = Ret (StLost, match d with LdPostpone la => la | _ => None end).
Proof. exact lost_act_no_fence. Qed.
Print Assumptions C08_no_fence_no_statement.

Theorem C08_fence_issues_read_only_first : forall local is_master la tr o,
  runs (lost_act local is_master (LdFence la)) tr o ->
  exists e tr', tr = e :: tr' /\ ev_call e = Sql local (SSetRO true).
Proof. exact lost_act_fence_starts_with_read_only. Qed.
Print Assumptions C08_fence_issues_read_only_first.

(* ... and where it leads: executed against the fault-free server of the world model (Env/World.v, tied to the fake
   server by the K4 correspondence) a fence decision leaves the local node read-only with super_read_only set, from ANY
   flags, master or replica; the handler stays in the Lost state and keeps its loss clock *)
Theorem C08_fence_decision_makes_the_node_read_only : forall local is_master la w, w_host w = local ->
  wout (wrun (lost_act local is_master (LdFence la)) w) = Done (StLost, la) /\
  s_ro (w_srv (wworld (wrun (lost_act local is_master (LdFence la)) w))) = true /\
  s_sro (w_srv (wworld (wrun (lost_act local is_master (LdFence la)) w))) = true.
Proof. exact fence_leaves_read_only. Qed.
Print Assumptions C08_fence_decision_makes_the_node_read_only.
