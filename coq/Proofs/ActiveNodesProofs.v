From Coq Require Import ZArith NArith Bool List Lia.
From Mysync Require Import Gtid.Interval Gtid.GtidSet Pure.Quorum Base.Prog Base.ProgFacts Base.Config Procs.NodeOps Procs.ActiveNodes Proofs.NodeOpsProofs.
Import ListNotations.
Open Scope Z_scope.

(* ---------------------------------------------------------------- list facts *)
Lemma mem_host_In h l : mem_host h l = true <-> In h l.
Proof.
  unfold mem_host. rewrite existsb_exists. split.
  - intros (x & Hi & E). apply N.eqb_eq in E. subst. exact Hi.
  - intros Hi. exists h. split; [exact Hi|apply N.eqb_refl].
Qed.
Lemma filter_out_In h a b : In h (filter_out a b) -> In h a.
Proof. unfold filter_out. intros H. apply filter_In in H. tauto. Qed.
Lemma filter_out_nil_incl a b : filter_out a b = [] -> forall h, In h a -> In h b.
Proof.
  unfold filter_out. intros H h Hi. destruct (mem_host h b) eqn:E; [apply mem_host_In; exact E|].
  assert (In h (filter (fun x => negb (mem_host x b)) a)) as K by (apply filter_In; rewrite E; auto).
  rewrite H in K. destruct K.
Qed.
Lemma assoc_In {V} h (v : V) l : assoc h l = Some v -> In h (map fst l).
Proof.
  induction l as [|[k w] r IH]; cbn; [discriminate|]. destruct (N.eqb_spec h k); [intros _; left; congruence|intros H; right; auto].
Qed.

(* ---------------------------------------------------------------- eviction guard *)
Section Evict.
Variable master : host.
Variable old : list host.

Definition ev_step (st : bool) (c : call) (r : resp) : bool :=
  st || match c, r with Sql h SPing, RBool true => N.eqb h master | _, _ => false end.
Definition ev_ok (st : bool) (c : call) : Prop :=
  match c with
  | DcsSet PActiveNodes (VHosts l) => filter_out old l = [] \/ st = true
  | DcsSet PActiveNodes _ => False
  | _ => True
  end.

Definition quiet (c : call) : Prop :=   (* fine in every state, and does not move the monitor *)
  match c with
  | Sql _ SPing => False
  | DcsSet PActiveNodes _ => False
  | _ => True
  end.
Lemma quiet_ok c : quiet c -> (forall st, ev_ok st c) /\ neutral bool ev_step c.
Proof.
  intros Hq. split.
  - intros st. destruct c; cbn in *; auto. destruct p; auto. destruct Hq.
  - intros st r. unfold ev_step. destruct c; try (rewrite orb_false_r; reflexivity).
    destruct s; try (rewrite orb_false_r; reflexivity). destruct Hq.
Qed.

Lemma safe_quiet {A} (p : prog A) : allcalls (fun _ c => quiet c) p -> forall st, safe bool ev_step ev_ok st p.
Proof.
  intros H. apply safe_of_allcalls.
  assert (W : forall (X : Type) (q : prog X), allcalls (fun _ c => quiet c) q ->
              allcalls (fun _ c => (forall st, ev_ok st c) /\ neutral bool ev_step c) q).
  { fix F 2. intros X q. destruct q as [a|s|s c k|s bs k]; cbn [allcalls]; intros K; auto.
    - destruct K as [Kc Kk]. split; [apply quiet_ok; exact Kc|]. intros r. apply F. apply Kk.
    - destruct K as [Kb Kk]. split; [|intros rs; apply F; apply Kk].
      induction bs as [|[h' b'] r' IHr']; [exact I|]. destruct Kb as [K1 K2]. split; [apply F; exact K1|apply IHr'; exact K2]. }
  apply W. exact H.
Qed.
End Evict.

Ltac qac := repeat first
  [ exact I
  | apply ac_exec; exact I | apply ac_gtid_executed; exact I | apply ac_semi_sync_status; exact I
  | apply ac_repl_settings; exact I | apply ac_replica_status; exact I
  | match goal with
    | |- allcalls _ (bind _ _) => apply allcalls_bind; [|intros ?]
    | |- allcalls _ (match ?x with _ => _ end) => destruct x
    | |- allcalls _ (if ?x then _ else _) => destruct x
    | |- allcalls _ (let '(_, _) := ?x in _) => destruct x
    | |- allcalls _ (Do _ _ _) => cbn [allcalls]; split; [exact I|intros ?]
    | |- allcalls _ (Ret _) => exact I
    | |- allcalls _ (Panic _) => exact I
    end ].

Lemma q_calc_active_host cfg env rec mg mem hn : allcalls (fun _ c => quiet c) (calc_active_host cfg env rec mg mem hn).
Proof. unfold calc_active_host, now_. destruct hn as [h ns]. qac. Qed.

Lemma q_calc_active_loop cfg env rec mg l : forall mem, allcalls (fun _ c => quiet c) (calc_active_loop cfg env rec mg mem l).
Proof.
  induction l as [|hn r IH]; intros mem; cbn [calc_active_loop]; [exact I|].
  apply allcalls_bind; [apply q_calc_active_host|]. intros [member mem1].
  apply allcalls_bind; [apply IH|]. intros [rest mem2]. exact I.
Qed.

Lemma q_calc_active_nodes cfg env mem : allcalls (fun _ c => quiet c) (calc_active_nodes cfg env mem).
Proof.
  unfold calc_active_nodes, hosts_on_recovery.
  apply allcalls_bind; [qac|]. intros [rec e]. destruct e; [exact I|].
  apply allcalls_bind; [qac|]. intros [mg e2]. destruct e2; [exact I|].
  apply allcalls_bind; [apply q_calc_active_loop|]. intros [l m1]. exact I.
Qed.

Lemma q_lag_loop cfg env bl l : forall ina lag pos, allcalls (fun _ c => quiet c) (lag_loop cfg env bl l ina lag pos).
Proof.
  induction l as [|h r IH]; intros ina lag pos; cbn [lag_loop]; [exact I|].
  destruct (assoc h (ae_state env)) as [ns|]; [|exact I]. destruct (ns_slave ns) as [rs|]; [|exact I].
  destruct (_ <? _); [|apply IH]. destruct (pos_le _ _); apply IH.
Qed.

Lemma q_calc_changes cfg env active mem : allcalls (fun _ c => quiet c) (calc_changes cfg env active mem).
Proof.
  unfold calc_changes, binlogs_.
  match goal with |- allcalls _ (match ?x with _ => _ end) => destruct x end; [exact I|].
  apply allcalls_bind; [qac|]. intros [bl e]. destruct e; [exact I|].
  apply allcalls_bind; [apply q_lag_loop|]. intros [[ina lag] pos]. exact I.
Qed.

Lemma q_adjust master ms w : allcalls (fun _ c => quiet c) (adjust_semi_sync_on_master master ms w).
Proof. unfold adjust_semi_sync_on_master. qac. Qed.

Lemma q_restart_io h : allcalls (fun _ c => quiet c) (restart_io h).
Proof. unfold restart_io. qac. Qed.
Lemma q_restart_replica h : allcalls (fun _ c => quiet c) (restart_replica h).
Proof. unfold restart_replica. qac. Qed.

Lemma q_disable_slave h b : allcalls (fun _ c => quiet c) (disable_semi_sync_on_slave h b).
Proof. unfold disable_semi_sync_on_slave. apply allcalls_bind; [qac|]. intros [e|]; [exact I|]. destruct b; [apply q_restart_io|exact I]. Qed.

Lemma q_disable_slaves ina lag : allcalls (fun _ c => quiet c) (disable_semi_sync_on_slaves ina lag).
Proof.
  unfold disable_semi_sync_on_slaves. cbn [allcalls]. split.
  - apply (allcalls_branches_map _ ina (fun h => h)). intros h _. apply allcalls_bind; [apply q_disable_slave|]. intros _. exact I.
  - intros _. apply allcalls_forM_. intros h _. apply allcalls_bind; [apply q_disable_slave|]. intros [e|]; [exact I|].
    unfold opt_enable. qac.
Qed.

Lemma q_enable_loop env ms l : forall w active, allcalls (fun _ c => quiet c) (enable_loop env ms l w active).
Proof.
  induction l as [|h r IH]; intros w active; cbn [enable_loop]; [exact I|].
  apply allcalls_bind.
  - unfold enable_semi_sync_on_slave. destruct (assoc h (ae_state env)) as [ss|]; [|exact I].
    destruct (ns_master_gtid ms); [|exact I]. destruct (ns_slave ss); [|exact I].
    apply allcalls_bind; [qac|]. intros [e|]; [exact I|].
    destruct (slave_ahead _ _); [apply q_restart_replica|apply q_restart_io].
  - intros [e|]; [apply IH|]. apply allcalls_bind; [unfold set_default_repl_settings; qac|]. intros _. apply IH.
Qed.

(* eviction guard: members are evicted only after a successful ping of the master *)
Theorem evict_needs_master cfg env mem :
  safe bool (ev_step (ae_master env)) (ev_ok (ae_old_active env)) false (update_active_nodes cfg env mem).
Proof.
  set (M := ae_master env). set (O := ae_old_active env).
  assert (Hshrink : forall s (act : list host) (mm : an_mem) st,
     safe bool (ev_step M) (ev_ok O) st
       (ok <- can_shrink M O act ;;
        if negb ok then Ret (AnOk, mm)
        else e <- set_active_nodes s act ;; Ret (match e with Some x => AnFail x | None => AnOk end, mm))).
  { intros s act mm st. unfold can_shrink. destruct (filter_out O act) eqn:Ef.
    - cbn. split; [left; exact Ef|]. intros r. destruct r; try destruct e; exact I.
    - cbn. split; [exact I|]. intros r.
      destruct r; cbn; try exact I; try (destruct e; exact I).
      destruct b; cbn; [|exact I]. split; [right; unfold ev_step; fold M; rewrite N.eqb_refl; apply orb_true_r|].
      intros r2. destruct r2; try destruct e; exact I. }
  unfold update_active_nodes. fold M O. destruct (assoc M (ae_state env)) as [ms|]; [|exact I].
  apply safe_bind; [apply safe_quiet; apply q_calc_active_nodes|]. intros st [oactive mem1].
  destruct oactive as [active|]; [|exact I].
  destruct (negb (c_semi_sync cfg)).
  - cbn [safe]. split.
    + assert (G : allcalls (fun _ c => quiet c) (Par 983 (map (fun '(h, ns) => (h, disable_semi_sync_if_not_needed h ns)) (ae_state env)) (fun _ => Ret tt))).
      { cbn [allcalls]. split; [|intros; exact I].
        induction (ae_state env) as [|[h ns] r IH]; [exact I|]. cbn. split; [|exact IH].
        unfold disable_semi_sync_if_not_needed. qac. }
      destruct G as [G _].
      clear - G. induction (map _ (ae_state env)) as [|[h b] r IH]; [exact I|]. destruct G as [G1 G2]. split; [|apply IH; exact G2].
      assert (W : forall (X : Type) (q : prog X), allcalls (fun _ c => quiet c) q ->
                allcalls (fun _ c => ev_ok O st c /\ neutral bool (ev_step M) c) q).
      { fix F 2. intros X q. destruct q as [a|s|s c k|s bs k]; cbn [allcalls]; intros K; auto.
        - destruct K as [Kc Kk]. destruct (quiet_ok M O c Kc) as [Q1 Q2]. split; [split; [apply Q1|exact Q2]|]. intros r0. apply F. apply Kk.
        - destruct K as [Kb Kk]. split; [|intros rs; apply F; apply Kk].
          induction bs as [|[h' b'] r' IHr']; [exact I|]. destruct Kb as [K1 K2]. split; [apply F; exact K1|apply IHr'; exact K2]. }
      apply W. exact G1.
    + intros _. apply Hshrink.
  - apply safe_bind; [apply safe_quiet; apply q_calc_changes|]. intros st2 [och mem2].
    destruct och as [ch|]; [|exact I].
    cbn [bind ping safe]. split; [exact I|]. intros r.
    set (st3 := ev_step M st2 (Sql M SPing) r).
    destruct r; cbn [bind fst snd negb]; try exact I; try (destruct e; exact I).
    destruct b; cbn [negb]; [|exact I].
    assert (Est : st3 = true) by (unfold st3, ev_step; rewrite N.eqb_refl; apply orb_true_r).
    apply safe_bind.
    { destruct (if c_master_first_adjust cfg then _ else _); [apply safe_quiet; apply q_adjust|exact I]. }
    intros st4 [e1|]; [exact I|].
    apply safe_bind; [apply safe_quiet; apply q_disable_slaves|]. intros st5 _.
    apply safe_bind; [apply safe_quiet; apply q_enable_loop|]. intros st6 [w' active'].
    apply safe_bind.
    { destruct (if c_master_first_adjust cfg then _ else _); [|exact I].
      apply safe_bind; [apply safe_quiet; apply q_adjust|]. intros; exact I. }
    intros st7 _. apply Hshrink.
Qed.

Theorem evict_needs_master_trace cfg env mem tr o : runs (update_active_nodes cfg env mem) tr o ->
  trace_ok bool (ev_step (ae_master env)) (ev_ok (ae_old_active env)) false tr.
Proof. apply safe_sound. apply evict_needs_master. Qed.

(* ---------------------------------------------------------------- membership rule *)
Definition on_recovery (rec : option (list host)) (h : host) : bool :=
  match rec with Some l => mem_host h l | None => false end.

Theorem calc_active_host_member cfg env rec mg mem h ns tr mem' :
  runs (calc_active_host cfg env rec mg mem (h, ns)) tr (Done (true, mem')) ->
  h = ae_master env \/
  (ns_is_cascade ns = false /\ on_recovery rec h = false /\
   (ns_ping_ok ns = true ->
      exists rs, ns_slave ns = Some rs /\ repl_state_of rs = ReplRunning /\ split_brained (rs_executed rs) mg (ae_master_uuid env) = false) /\
   (ns_ping_ok ns = false -> In h (ae_old_active env))).
Proof.
  unfold calc_active_host, on_recovery. destruct (N.eqb_spec h (ae_master env)) as [->|Hne]; [intros _; left; reflexivity|].
  destruct (ns_is_cascade ns) eqn:Ec; [cbn; intros [_ E]; inversion E|].
  destruct (match rec with Some l => mem_host h l | None => false end) eqn:Er; [cbn; intros [_ E]; inversion E|].
  intros H. right. split; [reflexivity|]. split; [reflexivity|].
  destruct (ns_ping_ok ns) eqn:Ep; cbn [negb] in H.
  - split; [|discriminate]. intros _.
    destruct (ns_slave ns) as [rs|]; [|cbn in H; destruct H as [_ E]; inversion E].
    destruct (repl_state_of rs) eqn:Es; try (cbn in H; destruct H as [_ E]; inversion E; fail).
    destruct (split_brained (rs_executed rs) mg (ae_master_uuid env)) eqn:Esb; [cbn in H; destruct H as [_ E]; inversion E|].
    exists rs. auto.
  - split; [discriminate|]. intros _.
    destruct (assoc h (ae_state_dcs env)) as [dns|].
    + destruct (ns_ping_dubious ns || ns_ping_ok dns).
      * cbn in H. destruct H as [_ E]. inversion E as [[E1 E2]]. apply mem_host_In. symmetry. exact E1.
      * unfold now_ in H. cbn in H. destruct tr as [|e1 tr1]; [destruct H|]. destruct H as (_ & _ & H).
        destruct tr1 as [|e2 tr2]; [destruct H|]. destruct H as (_ & _ & H).
        match type of H with context [if ?c then _ else _] => destruct c end; cbn in H; destruct H as [_ E]; inversion E as [[E1 E2]].
        apply mem_host_In. symmetry. exact E1.
    + destruct (ns_ping_dubious ns); cbn in H; destruct H as [_ E]; [|inversion E].
      inversion E as [[E1 E2]]. apply mem_host_In. symmetry. exact E1.
Qed.

(* ---------------------------------------------------------------- what the update may touch *)
Definition an_stmt_ok (st : stmt) : bool :=
  match st with
  | SPing | SGtidExecuted | SBinlogs | SReplSettings
  | SSemiDisable | SSemiSetSlave | SSemiSetMaster | SSetWaitCount _
  | SStopIO | SStartIO | SStopRepl | SStartRepl | SSetFlush _ | SSetSyncBinlog _ => true
  | _ => false
  end.
Definition an_call_ok (c : call) : Prop :=
  match c with
  | Sql _ st => an_stmt_ok st = true
  | DcsChildren PRecoveryDir | DcsSet PActiveNodes _ | DcsCreate (POptNode _) _ | Now => True
  | _ => False
  end.

Ltac aac := repeat first
  [ exact I
  | apply ac_exec; reflexivity | apply ac_gtid_executed; reflexivity | apply ac_ping; reflexivity
  | apply ac_repl_settings; reflexivity
  | match goal with
    | |- allcalls _ (bind _ _) => apply allcalls_bind; [|intros ?]
    | |- allcalls _ (match ?x with _ => _ end) => destruct x
    | |- allcalls _ (if ?x then _ else _) => destruct x
    | |- allcalls _ (let '(_, _) := ?x in _) => destruct x
    | |- allcalls _ (Do _ _ _) => cbn [allcalls]; split; [first [exact I|reflexivity]|intros ?]
    | |- allcalls _ (Ret _) => exact I
    | |- allcalls _ (Panic _) => exact I
    end ].

Lemma a_calc_active_loop cfg env rec mg l : forall mem, allcalls (fun _ c => an_call_ok c) (calc_active_loop cfg env rec mg mem l).
Proof.
  induction l as [|[h ns] r IH]; intros mem; cbn [calc_active_loop]; [exact I|].
  apply allcalls_bind; [unfold calc_active_host, now_; aac|]. intros [member mem1].
  apply allcalls_bind; [apply IH|]. intros [rest mem2]. exact I.
Qed.
Lemma a_lag_loop cfg env bl l : forall ina lag pos, allcalls (fun _ c => an_call_ok c) (lag_loop cfg env bl l ina lag pos).
Proof.
  induction l as [|h r IH]; intros ina lag pos; cbn [lag_loop]; [exact I|].
  destruct (assoc h (ae_state env)) as [ns|]; [|exact I]. destruct (ns_slave ns) as [rs|]; [|exact I].
  destruct (_ <? _); [|apply IH]. destruct (pos_le _ _); apply IH.
Qed.
Lemma a_enable_loop env ms l : forall w active, allcalls (fun _ c => an_call_ok c) (enable_loop env ms l w active).
Proof.
  induction l as [|h r IH]; intros w active; cbn [enable_loop]; [exact I|].
  apply allcalls_bind.
  - unfold enable_semi_sync_on_slave, restart_replica, restart_io. destruct (assoc h (ae_state env)) as [ss|]; [|exact I]. aac.
  - intros [e|]; [apply IH|]. apply allcalls_bind; [unfold set_default_repl_settings; aac|]. intros _. apply IH.
Qed.

Theorem update_active_nodes_calls cfg env mem : allcalls (fun _ c => an_call_ok c) (update_active_nodes cfg env mem).
Proof.
  unfold update_active_nodes. destruct (assoc (ae_master env) (ae_state env)) as [ms|]; [|exact I].
  apply allcalls_bind.
  { unfold calc_active_nodes, hosts_on_recovery. apply allcalls_bind; [aac|]. intros [rec e]. destruct e; [exact I|].
    apply allcalls_bind; [aac|]. intros [mg e2]. destruct e2; [exact I|].
    apply allcalls_bind; [apply a_calc_active_loop|]. intros [l m1]. exact I. }
  intros [oactive mem1]. destruct oactive as [active|]; [|exact I].
  assert (Hshrink : forall s act (mm : an_mem), allcalls (fun _ c => an_call_ok c)
     (ok <- can_shrink (ae_master env) (ae_old_active env) act ;;
      if negb ok then Ret (AnOk, mm) else e <- set_active_nodes s act ;; Ret (match e with Some x => AnFail x | None => AnOk end, mm))).
  { intros s act mm. unfold can_shrink, set_active_nodes. aac. }
  destruct (negb (c_semi_sync cfg)).
  - cbn [allcalls]. split.
    + induction (ae_state env) as [|[h ns] r IH]; [exact I|]. cbn [map]. split; [|exact IH].
      unfold disable_semi_sync_if_not_needed. aac.
    + intros _. apply Hshrink.
  - apply allcalls_bind.
    { unfold calc_changes, binlogs_.
      match goal with |- allcalls _ (match ?x with _ => _ end) => destruct x end; [exact I|].
      apply allcalls_bind; [aac|]. intros [bl e]. destruct e; [exact I|].
      apply allcalls_bind; [apply a_lag_loop|]. intros [[ina lag] pos]. exact I. }
    intros [och mem2]. destruct och as [ch|]; [|exact I].
    apply allcalls_bind; [aac|]. intros [pok pe]. cbn [fst snd]. destruct (negb pok); [exact I|].
    apply allcalls_bind.
    { destruct (if c_master_first_adjust cfg then _ else _); [unfold adjust_semi_sync_on_master; aac|exact I]. }
    intros [e1|]; [exact I|].
    apply allcalls_bind.
    { unfold disable_semi_sync_on_slaves. cbn [allcalls]. split.
      - apply (allcalls_branches_map _ (ch_inactive ch) (fun h => h)). intros h _.
        unfold disable_semi_sync_on_slave, restart_io. aac.
      - intros _. apply allcalls_forM_. intros h _. unfold disable_semi_sync_on_slave, restart_io, opt_enable. aac. }
    intros _. apply allcalls_bind; [apply a_enable_loop|]. intros [w' active'].
    apply allcalls_bind.
    { destruct (if c_master_first_adjust cfg then _ else _); [|exact I].
      apply allcalls_bind; [unfold adjust_semi_sync_on_master; aac|]. intros; exact I. }
    intros _. apply Hshrink.
Qed.

Theorem update_active_nodes_trace cfg env mem tr o : runs (update_active_nodes cfg env mem) tr o ->
  Forall (fun e => an_call_ok (ev_call e)) tr.
Proof. intros H. exact (allcalls_sound _ _ (update_active_nodes_calls cfg env mem) tr o H). Qed.

(* SetRecovery: the host leaves the published list before the mark is created *)
Definition sr_step (h : host) (st : bool) (c : call) (r : resp) : bool :=
  st || match c, r with DcsSet PActiveNodes (VHosts l), ROk => negb (mem_host h l) | _, _ => false end.
Definition sr_ok (h : host) (st : bool) (c : call) : Prop :=
  match c with
  | DcsCreate (PRecovery h') _ => h' = h /\ st = true
  | _ => True
  end.
Theorem set_recovery_order h : safe bool (sr_step h) (sr_ok h) false (set_recovery h).
Proof.
  unfold set_recovery.
  apply safe_bind.
  { apply safe_of_allcalls. unfold get_active_nodes. cbn [allcalls]. split.
    - split; [intros st; exact I|intros st r; unfold sr_step; rewrite orb_false_r; reflexivity].
    - intros r. destruct r; try exact I; [destruct e; exact I|destruct v; exact I]. }
  intros st [l e]. destruct e; [exact I|].
  assert (Hf : mem_host h (filter (fun n => negb (N.eqb n h)) l) = false).
  { apply not_true_iff_false. intros K. apply mem_host_In in K. apply filter_In in K. destruct K as [_ K].
    rewrite N.eqb_refl in K. discriminate. }
  unfold set_active_nodes, dcs_create_tolerant. cbn [bind safe]. split; [exact I|]. intros r0.
  destruct r0; cbn [bind safe]; try exact I; try (destruct e; exact I).
  split; [exact I|]. intros r1.
  assert (Hst : forall c r, sr_step h (sr_step h st (DcsSet PActiveNodes (VHosts (filter (fun n => negb (N.eqb n h)) l))) ROk) c r = true).
  { intros c r. unfold sr_step. rewrite Hf. cbn. rewrite orb_true_r. reflexivity. }
  destruct r1; cbn [bind safe]; try exact I; try (destruct e; cbn [bind safe]; try exact I);
    (split; [split; [reflexivity|apply Hst]|]); intros r2; destruct r2; try destruct e; exact I.
Qed.
