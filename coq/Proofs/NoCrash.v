(* C20: no manager iteration terminates the process - for every response of every call.
   The model's crash leaves (Panic) are nil dereferences / index errors of the Go code.  Most
   procedures have none ([nopanic], syntactic).  The remaining leaves sit behind a lookup in one of
   the two views of the cluster; they are unreachable because both views are built over the SAME host
   list and the recorded master is checked to be on it.  That argument needs to know what the join of a
   parallel section hands on (one result per branch) - the [post] judgement of Base/Post.v. *)
From Coq Require Import ZArith NArith Bool List Lia Permutation.
From Mysync Require Import Gtid.Interval Gtid.GtidSet Pure.Quorum Pure.Desirable Base.Prog Base.ProgFacts Base.Post Base.Config
  Procs.NodeOps Procs.Lost Procs.DiskGuard Procs.ActiveNodes Procs.Switchover Procs.OfflineMode Procs.Repair Procs.Optimization Procs.Manager
  Proofs.SwitchoverProofs Proofs.ManagerProofs Proofs.RepairProofs.
Import ListNotations.
Open Scope Z_scope.

(* ---------------------------------------------------------------- leaves: node.go methods *)
Lemma np_exec s h st : nopanic (exec_ s h st). Proof. unfold exec_. pnp. Qed.
Lemma np_ping s h : nopanic (ping s h). Proof. unfold ping. pnp. Qed.
Lemma np_is_read_only s h : nopanic (is_read_only s h). Proof. unfold is_read_only. pnp. Qed.
Lemma np_is_offline s h : nopanic (is_offline s h). Proof. unfold is_offline. pnp. Qed.
Lemma np_replica_status s h : nopanic (replica_status s h). Proof. unfold replica_status. pnp. Qed.
Lemma np_gtid_executed s h : nopanic (gtid_executed s h). Proof. unfold gtid_executed. pnp. Qed.
Lemma np_semi_sync_status s h : nopanic (semi_sync_status s h). Proof. unfold semi_sync_status. pnp. Qed.
Lemma np_repl_settings s h : nopanic (repl_settings s h). Proof. unfold repl_settings. pnp. Qed.
Lemma np_now s : nopanic (now_ s). Proof. unfold now_. pnp. Qed.
Lemma np_dcs_set s p v : nopanic (dcs_set_ s p v). Proof. unfold dcs_set_. pnp. Qed.
Lemma np_dcs_delete s p : nopanic (dcs_delete_ s p). Proof. unfold dcs_delete_. pnp. Qed.
Lemma np_dcs_children s p : nopanic (dcs_children_ s p). Proof. unfold dcs_children_. pnp. Qed.
Lemma np_lock s : nopanic (lock_acquire s). Proof. unfold lock_acquire. pnp. Qed.

Lemma np_set_read_only_once h super : nopanic (set_read_only_once h super).
Proof.
  unfold set_read_only_once. apply nopanic_bind; [apply np_exec|]. intros [x|]; [exact I|].
  apply nopanic_bind; [apply np_is_read_only|]. intros [[ro sro] e]. destruct e; [exact I|]. pnp.
Qed.
Lemma np_set_read_only h super : nopanic (set_read_only h super). Proof. apply np_set_read_only_once. Qed.

Lemma np_kill_loop fuel h : nopanic (kill_loop fuel h).
Proof.
  induction fuel as [|f IH]; cbn [kill_loop]; [exact I|]. cbn [nopanic]. intros more.
  destruct more; try exact I. destruct b; [|exact I]. cbn [nopanic]. intros r. destruct r; try exact IH.
  apply nopanic_bind; [|intros; exact IH]. apply nopanic_forM_. intros id _. apply nopanic_bind; [apply np_exec|intros; exact I].
Qed.
Lemma np_set_read_only_with_force fuel h super : nopanic (set_read_only_with_force fuel h super).
Proof.
  unfold set_read_only_with_force.
  apply nopanic_bind; [apply np_set_read_only_once|]. intros [e1|]; [|exact I].
  apply nopanic_bind; [apply np_set_read_only_once|]. intros [e2|]; [|exact I].
  apply nopanic_bind; [apply np_set_read_only_once|]. intros [e3|]; [|exact I].
  cbn [nopanic]. split.
  - split; [apply nopanic_bind; [apply np_set_read_only_once|intros; exact I]|]. split; [apply np_kill_loop|exact I].
  - intros rs. match goal with |- nopanic (match ?x with _ => _ end) => destruct x as [[k r]|] end; exact I.
Qed.

Lemma np_gns_fail h ns : nopanic (gns_fail h ns).
Proof. unfold gns_fail. destruct (ns_ping_ok ns); [|exact I]. apply nopanic_bind; [apply np_ping|]. intros [ok e]. exact I. Qed.
Lemma np_get_node_state h casc : nopanic (get_node_state h casc).
Proof.
  unfold get_node_state. cbn [nopanic]. intros tnow.
  apply nopanic_bind; [apply np_ping|]. intros [ok e]. destruct e; [apply np_gns_fail|]. destruct (negb ok); [apply np_gns_fail|].
  apply nopanic_bind; [apply np_is_read_only|]. intros [[ro sro] e2]. destruct e2; [apply np_gns_fail|].
  apply nopanic_bind; [apply np_is_offline|]. intros [off e3]. destruct e3; [apply np_gns_fail|].
  apply nopanic_bind; [apply np_replica_status|]. intros [st e4]. destruct e4; [apply np_gns_fail|].
  apply nopanic_bind; [apply np_repl_settings|]. intros [rset e5]. destruct e5; [apply np_gns_fail|].
  destruct st as [rstat|].
  - apply nopanic_bind; [apply np_semi_sync_status|]. intros [semi e7]. destruct e7; [apply np_gns_fail|exact I].
  - apply nopanic_bind; [apply np_gtid_executed|]. intros [gs e6]. destruct e6; [apply np_gns_fail|].
    apply nopanic_bind; [apply np_semi_sync_status|]. intros [semi e7]. destruct e7; [apply np_gns_fail|exact I].
Qed.

(* ---------------------------------------------------------------- the two views of the cluster *)
Notation nocrash p := (post (fun _ : site => False) (fun _ => True) p) (only parsing).
Lemma nocrash_of_nopanic {A} (p : prog A) : nopanic p -> nocrash p.
Proof. intros H. apply panics_in_post. apply nopanic_panics_in. exact H. Qed.
Lemma post_of_nopanic {A} (R : A -> Prop) (p : prog A) : nopanic p -> rets R p -> post (fun _ => False) R p.
Proof. intros H1 H2. apply post_panics_rets; [apply nopanic_panics_in; exact H1|exact H2]. Qed.

Definition functional {V} (l : list (host * V)) : Prop := forall h v, In (h, v) l -> assoc h l = Some v.
Definition view_ok {V} (hosts : list (host * bool)) (cs : list (host * V)) : Prop :=
  map fst cs = map fst hosts /\ functional cs.

Lemma assoc_some_in {V} h (v : V) l : assoc h l = Some v -> In (h, v) l.
Proof.
  induction l as [|[k w] r IH]; cbn [assoc]; [discriminate|]. destruct (N.eqb_spec h k) as [->|_].
  - intros E. inversion E. left. reflexivity.
  - intros E. right. exact (IH E).
Qed.
Lemma in_keys_assoc {V} h (l : list (host * V)) : In h (map fst l) -> exists v, assoc h l = Some v.
Proof.
  induction l as [|[k w] r IH]; cbn [map fst assoc]; [intros []|]. destruct (N.eqb_spec h k) as [->|Hne].
  - intros _. exists w. reflexivity.
  - intros [E|H]; [exfalso; apply Hne; symmetry; exact E|exact (IH H)].
Qed.
Lemma mem_keys_assoc {V} h (l : list (host * V)) : mem_host h (map fst l) = true -> exists v, assoc h l = Some v.
Proof. intros H. apply in_keys_assoc. apply ActiveNodesProofs.mem_host_In. exact H. Qed.

Lemma view_of_results (hosts : list (host * bool)) (rs : list (host * resp)) :
  (forall h c, In (h, c) hosts -> exists ns, assoc h rs = Some (RNodeState ns)) ->
  view_ok hosts (flat_map (fun '((h, _) : host * bool) => match assoc h rs with Some (RNodeState ns) => [(h, ns)] | _ => [] end) hosts).
Proof.
  intros H. split.
  - induction hosts as [|[h c] r IH]; [reflexivity|]. cbn [flat_map map fst].
    destruct (H h c (or_introl eq_refl)) as [ns E]. rewrite E. cbn [app map fst]. f_equal. apply IH. intros h' c' Hin'. apply (H h' c'). right. exact Hin'.
  - assert (G : forall l h v, In (h, v) (flat_map (fun '((h, _) : host * bool) => match assoc h rs with Some (RNodeState ns) => [(h, ns)] | _ => [] end) l) ->
                 assoc h rs = Some (RNodeState v)).
    { induction l as [|[k c] r IH]; cbn [flat_map]; [intros h v []|]. intros h v Hin. apply in_app_or in Hin. destruct Hin as [Hin|Hin]; [|exact (IH _ _ Hin)].
      destruct (assoc k rs) as [x|] eqn:E; [|destruct Hin]. destruct x; try contradiction. destruct Hin as [K|[]]. inversion K; subst. exact E. }
    clear H. induction hosts as [|[k c] r IH]; cbn [flat_map]; [intros h v []|]. intros h v Hin.
    pose proof (G ((k, c) :: r) h v Hin) as Ev.
    destruct (assoc k rs) as [x|] eqn:E; [|exact (IH h v Hin)]. destruct x; try exact (IH h v Hin).
    cbn [app assoc]. destruct (N.eqb_spec h k) as [->|Hne].
    + rewrite E in Ev. inversion Ev. reflexivity.
    + cbn [app] in Hin. destruct Hin as [K|Hin]; [inversion K; subst; contradiction|exact (IH h v Hin)].
Qed.

Lemma post_branches_map {X} Q (l : list X) (hf : X -> host) (f : X -> prog resp) :
  (forall x, In x l -> post Q (fun _ => True) (f x)) ->
  (fix go (bs : list (host * prog resp)) : Prop :=
     match bs with [] => True | (_, b) :: r => post Q (fun _ => True) b /\ go r end) (map (fun x => (hf x, f x)) l).
Proof.
  induction l as [|x r IH]; intros H; [exact I|]. cbn [map]. split; [apply H; left; reflexivity|]. apply IH. intros y Hy. apply H. right. exact Hy.
Qed.

(* a key the branches have is a key of what the join receives *)
Lemma results_have_key (bs : list (host * prog resp)) (rs : list (host * resp)) h :
  Permutation (map fst bs) (map fst rs) -> In h (map fst bs) -> exists r, assoc h rs = Some r /\ In (h, r) rs.
Proof.
  intros Hp Hin. assert (In h (map fst rs)) as K by (eapply Permutation_in; eauto).
  destruct (in_keys_assoc h rs K) as [r E]. exists r. split; [exact E|exact (assoc_some_in _ _ _ E)].
Qed.

Lemma rets_node_state_branch h casc :
  rets (fun r => exists ns, r = RNodeState ns) (ns <- get_node_state h casc ;; Ret (RNodeState ns)).
Proof. apply rets_bind. intros ns. cbn [rets]. exists ns. reflexivity. Qed.

Theorem cluster_state_from_db_view s hosts :
  post (fun _ => False) (fun cs => view_ok hosts cs) (cluster_state_from_db s hosts).
Proof.
  unfold cluster_state_from_db. cbn [post]. split.
  - induction hosts as [|[h c] r IH]; [exact I|]. cbn [map]. split; [|exact IH].
    apply nocrash_of_nopanic. apply nopanic_bind; [apply np_get_node_state|intros; exact I].
  - intros rs Hperm Hres. apply view_of_results. intros h c Hin.
    assert (In h (map fst (map (fun '(h, casc) => (h, ns <- get_node_state h casc;; Ret (RNodeState ns))) hosts))) as Hk.
    { rewrite map_map. apply in_map_iff. exists (h, c). split; [reflexivity|exact Hin]. }
    destruct (results_have_key _ rs h Hperm Hk) as (r & Ea & Hr).
    destruct (Hres h r Hr) as (b & Hb & Hc).
    apply in_map_iff in Hb. destruct Hb as ([h' c'] & E & _). injection E as E1 E2. subst h'. subst b.
    destruct (can_ret_rets _ _ r (rets_node_state_branch h c') Hc) as [ns ->]. exists ns. exact Ea.
Qed.

Lemma rets_health_of h : rets (fun r => match r with RNodeState _ | RErr _ => True | _ => False end) (health_of h).
Proof. unfold health_of. cbn [rets]. intros r. destruct r; try exact I. destruct e; exact I. Qed.

Theorem cluster_state_from_dcs_view s hosts :
  post (fun _ => False) (fun o => match o with Some csd => view_ok hosts csd | None => True end) (cluster_state_from_dcs s hosts).
Proof.
  unfold cluster_state_from_dcs. cbn [post]. split.
  - induction hosts as [|[h c] r IH]; [exact I|]. cbn [map]. split; [|exact IH].
    apply nocrash_of_nopanic. unfold health_of. pnp.
  - intros rs Hperm Hres. destruct (existsb _ rs) eqn:Ex; [exact I|]. cbn [post]. apply view_of_results. intros h c Hin.
    assert (In h (map fst (map (fun '(h, _) => (h, health_of h)) hosts))) as Hk.
    { rewrite map_map. apply in_map_iff. exists (h, c). split; [reflexivity|exact Hin]. }
    destruct (results_have_key _ rs h Hperm Hk) as (r & Ea & Hr).
    assert (K : (fun '(_, r) => match r with RNodeState _ => false | _ => true end) (h, r) = false).
    { rewrite <- Bool.not_true_iff_false. intros T. rewrite <- Bool.not_true_iff_false in Ex. apply Ex. apply existsb_exists. exists (h, r). split; assumption. }
    cbn in K. destruct r; try discriminate K. exists ns. exact Ea.
Qed.

(* ---------------------------------------------------------------- updateActiveNodes *)
Definition member_ok (env : an_env) (h : host) : Prop :=
  h = ae_master env \/
  exists ns, In (h, ns) (ae_state env) /\
    ((ns_ping_ok ns = true /\ ns_slave ns <> None) \/ (ns_ping_ok ns = false /\ mem_host h (ae_old_active env) = true)).

Lemma np_calc_active_host cfg env rec mg mem hn :
  In (fst hn) (map fst (ae_state_dcs env)) -> nopanic (calc_active_host cfg env rec mg mem hn).
Proof.
  intros Hk. destruct hn as [h ns]. cbn [fst] in Hk. unfold calc_active_host.
  destruct (N.eqb h (ae_master env)); [exact I|]. destruct (ns_is_cascade ns); [exact I|].
  destruct (match rec with Some l => mem_host h l | None => false end); [exact I|].
  destruct (negb (ns_ping_ok ns)).
  - destruct (in_keys_assoc h _ Hk) as [dns ->]. destruct (ns_ping_dubious ns || ns_ping_ok dns); [exact I|].
    apply nopanic_bind; [apply np_now|]. intros t1. apply nopanic_bind; [apply np_now|]. intros t2. pnp.
  - pnp.
Qed.

Lemma rets_calc_active_host cfg env rec mg mem h ns : In (h, ns) (ae_state env) ->
  rets (fun x => fst x = true -> member_ok env h) (calc_active_host cfg env rec mg mem (h, ns)).
Proof.
  intros Hin. unfold calc_active_host.
  destruct (N.eqb_spec h (ae_master env)) as [->|Hne]; [cbn [rets fst]; intros _; left; reflexivity|].
  destruct (ns_is_cascade ns); [cbn [rets fst]; discriminate|].
  destruct (match rec with Some l => mem_host h l | None => false end); [cbn [rets fst]; discriminate|].
  destruct (ns_ping_ok ns) eqn:Ep; cbn [negb].
  - destruct (ns_slave ns) as [rs|] eqn:Es; [|cbn [rets fst]; discriminate].
    destruct (repl_state_of rs); try (cbn [rets fst]; discriminate).
    destruct (split_brained _ _ _); cbn [rets fst]; [discriminate|]. intros _. right. exists ns. split; [exact Hin|]. left. split; [exact Ep|]. rewrite Es. discriminate.
  - assert (K : forall m0, rets (fun x : bool * an_mem => fst x = true -> member_ok env h) (Ret (mem_host h (ae_old_active env), m0))).
    { intros m0. cbn [rets fst]. intros E. right. exists ns. split; [exact Hin|]. right. split; [exact Ep|exact E]. }
    destruct (assoc h (ae_state_dcs env)) as [dns|].
    + destruct (ns_ping_dubious ns || ns_ping_ok dns); [apply K|].
      unfold now_. cbn [bind rets]. intros r1 r2. match goal with |- rets _ (if ?c then _ else _) => destruct c end; [apply K|cbn [rets fst]; discriminate].
    + destruct (ns_ping_dubious ns); [apply K|exact I].
Qed.

Lemma sort_hosts_in h l : In h (sort_hosts l) -> In h l.
Proof.
  assert (INS : forall x l0, In h (insert_sorted x l0) -> h = x \/ In h l0).
  { intros x l0. induction l0 as [|y r IH]; cbn [insert_sorted].
    - intros [E|[]]; left; symmetry; exact E.
    - destruct (N.leb x y).
      + intros [E|K]; [left; symmetry; exact E|right; exact K].
      + intros [E|K]; [right; left; exact E|]. destruct (IH K) as [E|K2]; [left; exact E|right; right; exact K2]. }
  unfold sort_hosts. induction l as [|x r IH]; cbn [fold_right]; [intros []|].
  intros H. destruct (INS _ _ H) as [E|K]; [left; symmetry; exact E|right; exact (IH K)].
Qed.

Lemma post_calc_active_loop cfg env rec mg l : forall mem,
  incl l (ae_state env) -> incl (map fst l) (map fst (ae_state_dcs env)) ->
  post (fun _ => False) (fun x => Forall (member_ok env) (fst x)) (calc_active_loop cfg env rec mg mem l).
Proof.
  induction l as [|[h ns] r IH]; intros mem Hi Hk; cbn [calc_active_loop]; [cbn [post fst]; constructor|].
  eapply post_bind.
  - apply post_of_nopanic; [apply np_calc_active_host; apply Hk; left; reflexivity|apply (rets_calc_active_host cfg env rec mg mem h ns); apply Hi; left; reflexivity].
  - intros [member mem1] Hm. cbn [fst] in Hm. eapply post_bind.
    + apply IH; [intros x Hx; apply Hi; right; exact Hx|intros x Hx; apply Hk; right; exact Hx].
    + intros [rest mem2] Hr. cbn [fst] in Hr. cbn [post fst]. destruct member; [constructor; [apply Hm; reflexivity|exact Hr]|exact Hr].
Qed.

Lemma post_calc_active_nodes cfg env mem :
  incl (map fst (ae_state env)) (map fst (ae_state_dcs env)) ->
  post (fun _ => False) (fun x => match fst x with Some l => Forall (member_ok env) l | None => True end) (calc_active_nodes cfg env mem).
Proof.
  intros Hk. unfold calc_active_nodes.
  eapply post_bind; [apply nocrash_of_nopanic; unfold hosts_on_recovery; pnp|]. intros [recovery e] _.
  destruct e; [exact I|]. eapply post_bind; [apply nocrash_of_nopanic; apply np_gtid_executed|]. intros [mgtid e2] _.
  destruct e2; [exact I|]. eapply post_bind; [apply post_calc_active_loop; [apply incl_refl|exact Hk]|].
  intros [l mem1] Hl. cbn [fst] in Hl. cbn [post fst]. apply Forall_forall. intros h Hh. rewrite Forall_forall in Hl. apply Hl. apply sort_hosts_in. exact Hh.
Qed.

Lemma np_lag_loop cfg env bl l : forall ina lag pos,
  (forall h, In h l -> exists ns, assoc h (ae_state env) = Some ns /\ ns_slave ns <> None) ->
  nopanic (lag_loop cfg env bl l ina lag pos).
Proof.
  induction l as [|h r IH]; intros ina lag pos H; cbn [lag_loop]; [exact I|].
  destruct (H h (or_introl eq_refl)) as (ns & -> & Hs). destruct (ns_slave ns) as [rs|]; [|contradiction].
  assert (K : forall h0, In h0 r -> exists ns0, assoc h0 (ae_state env) = Some ns0 /\ ns_slave ns0 <> None) by (intros h0 H0; apply H; right; exact H0).
  destruct (_ <? _); [|apply IH; exact K]. destruct (pos_le _ _); apply IH; exact K.
Qed.

Lemma in_dead h ns (st : list (host * node_state)) :
  In (h, ns) st -> (negb (ns_ping_ok ns) || match ns_slave ns with None => true | Some _ => false end) = true ->
  In h (map fst (filter (fun '(_, ns) => negb (ns_ping_ok ns) || match ns_slave ns with None => true | Some _ => false end) st)).
Proof.
  intros Hin Hd. apply in_map_iff. exists (h, ns). split; [reflexivity|]. apply filter_In. split; [exact Hin|exact Hd].
Qed.

Lemma np_calc_changes cfg env active mem :
  functional (ae_state env) -> In (ae_master env) (map fst (ae_state env)) ->
  Forall (member_ok env) active -> nopanic (calc_changes cfg env active mem).
Proof.
  intros Hf Hm Ha. unfold calc_changes.
  set (sync := map fst (filter _ (ae_state env))).
  set (dead := map fst (filter (fun '(_, ns) => negb (ns_ping_ok ns) || match ns_slave ns with None => true | Some _ => false end) (ae_state env))).
  set (ba0 := filter_out (filter_out active sync) dead).
  set (bi0 := filter_out sync active).
  set (ba1 := match ae_old_active env, ba0 with
              | [o], [] => if N.eqb o (ae_master env) then filter (fun h => negb (N.eqb h (ae_master env))) active else ba0
              | _, _ => ba0 end).
  assert (G0 : forall h, In h ba0 -> exists ns, assoc h (ae_state env) = Some ns /\ ns_slave ns <> None).
  { intros h Hh. unfold ba0 in Hh. unfold filter_out in Hh. apply filter_In in Hh. destruct Hh as [Hh Hnd]. apply filter_In in Hh. destruct Hh as [Hact _].
    rewrite Forall_forall in Ha. assert (In h (map fst (ae_state env))) as Hk.
    { destruct (Ha h Hact) as [->|(ns & Hin & _)]; [exact Hm|]. apply in_map_iff. exists (h, ns). split; [reflexivity|exact Hin]. }
    destruct (in_keys_assoc h _ Hk) as [ns1 E]. exists ns1. split; [exact E|].
    intros Hs. apply assoc_some_in in E.
    assert (In h dead) as Hd. { unfold dead. apply (in_dead h ns1); [exact E|]. rewrite Hs. apply orb_true_r. }
    apply ActiveNodesProofs.mem_host_In in Hd. rewrite Hd in Hnd. discriminate Hnd. }
  assert (G1 : forall h, In h ba1 -> exists ns, assoc h (ae_state env) = Some ns /\ ns_slave ns <> None).
  { intros h Hh. unfold ba1 in Hh. destruct (ae_old_active env) as [|o [|o2 rest]] eqn:Eo; try exact (G0 h Hh).
    destruct ba0 as [|b0 br] eqn:Eb; [|exact (G0 h Hh)].
    destruct (N.eqb_spec o (ae_master env)) as [->|Hne]; [|destruct Hh].
    apply filter_In in Hh. destruct Hh as [Hact Hnm]. rewrite Forall_forall in Ha.
    destruct (Ha h Hact) as [->|(ns & Hin & [[Hp Hs]|[Hp Ho]])].
    - rewrite N.eqb_refl in Hnm. discriminate Hnm.
    - exists ns. split; [apply Hf; exact Hin|exact Hs].
    - exfalso. rewrite Eo in Ho. cbn in Ho. rewrite orb_false_r in Ho. rewrite Ho in Hnm. discriminate Hnm. }
  clearbody ba1. destruct ba1 as [|b1 br1]; [exact I|].
  apply nopanic_bind; [unfold binlogs_; pnp|]. intros [bl e]. destruct e; [exact I|].
  apply nopanic_bind; [apply np_lag_loop; exact G1|]. intros [[ina lagg] pos]. exact I.
Qed.

Lemma np_adjust master ms w : nopanic (adjust_semi_sync_on_master master ms w).
Proof. unfold adjust_semi_sync_on_master. destruct (ns_semi ms) as [[[a b] c]|]; [|exact I]. destruct (w =? 0); [destruct a; [apply np_exec|exact I]|].
  apply nopanic_bind; [destruct (negb _); [apply np_exec|exact I]|]. intros [x|]; [exact I|]. destruct (negb a); [apply np_exec|exact I]. Qed.
Lemma np_restart_io h : nopanic (restart_io h).
Proof. unfold restart_io. apply nopanic_bind; [apply np_exec|]. intros [x|]; [exact I|apply np_exec]. Qed.
Lemma np_disable_slave h b : nopanic (disable_semi_sync_on_slave h b).
Proof. unfold disable_semi_sync_on_slave. apply nopanic_bind; [apply np_exec|]. intros [x|]; [exact I|]. destruct b; [apply np_restart_io|exact I]. Qed.
Lemma np_opt_enable h : nopanic (ActiveNodes.opt_enable h).
Proof. unfold ActiveNodes.opt_enable. pnp. Qed.
Lemma np_disable_slaves ina lag : nopanic (disable_semi_sync_on_slaves ina lag).
Proof.
  unfold disable_semi_sync_on_slaves. cbn [nopanic]. split.
  - apply (nopanic_branches_map ina (fun h => h)). intros h _. apply nopanic_bind; [apply np_disable_slave|intros; exact I].
  - intros _. apply nopanic_forM_. intros h _. apply nopanic_bind; [apply np_disable_slave|]. intros [x|]; [exact I|].
    apply nopanic_bind; [apply np_opt_enable|intros; exact I].
Qed.
Lemma np_can_shrink master old new : nopanic (can_shrink master old new).
Proof. unfold can_shrink. destruct (filter_out old new); [exact I|]. apply nopanic_bind; [apply np_ping|intros; exact I]. Qed.
Lemma np_set_active s l : nopanic (set_active_nodes s l).
Proof. unfold set_active_nodes. pnp. Qed.

Theorem update_active_nodes_nocrash cfg env mem :
  functional (ae_state env) -> In (ae_master env) (map fst (ae_state env)) ->
  incl (map fst (ae_state env)) (map fst (ae_state_dcs env)) ->
  nocrash (update_active_nodes cfg env mem).
Proof.
  intros Hf Hm Hk. unfold update_active_nodes.
  destruct (in_keys_assoc _ _ Hm) as [ms ->].
  eapply post_bind; [apply post_calc_active_nodes; exact Hk|]. intros [oactive mem1] Ha. cbn [fst] in Ha.
  destruct oactive as [active|]; [|exact I].
  apply nocrash_of_nopanic.
  destruct (negb (c_semi_sync cfg)).
  - cbn [nopanic]. split.
    + clear Hf Hm Hk. generalize (ae_state env) as st. intros st.
      induction st as [|[h ns] r IH]; [exact I|]. cbn [map]. split; [|exact IH].
      unfold disable_semi_sync_if_not_needed. destruct (ns_semi ns) as [[[a b] c]|]; [|exact I]. destruct (a || b); [|exact I].
      apply nopanic_bind; [apply np_exec|intros; exact I].
    + intros _. apply nopanic_bind; [apply np_can_shrink|]. intros ok. destruct (negb ok); [exact I|].
      apply nopanic_bind; [apply np_set_active|intros; exact I].
  - apply nopanic_bind; [apply np_calc_changes; assumption|]. intros [och mem2]. destruct och as [ch|]; [|exact I].
    apply nopanic_bind; [apply np_ping|]. intros p. destruct (negb (fst p)); [exact I|].
    apply nopanic_bind; [match goal with |- nopanic (if ?c then _ else _) => destruct c end; [apply np_adjust|exact I]|]. intros [x|]; [exact I|].
    apply nopanic_bind; [apply np_disable_slaves|]. intros _.
    apply nopanic_bind; [apply enable_loop_nopanic|]. intros [w' active'].
    apply nopanic_bind; [match goal with |- nopanic (if ?c then _ else _) => destruct c end; [apply nopanic_bind; [apply np_adjust|intros; exact I]|exact I]|]. intros _.
    apply nopanic_bind; [apply np_can_shrink|]. intros ok. destruct (negb ok); [exact I|].
    apply nopanic_bind; [apply np_set_active|intros; exact I].
Qed.

(* ---------------------------------------------------------------- repairCluster *)
Lemma find_best_is_ret fuel cfg env topo self : forall path, exists r, find_best_stream_from fuel cfg env topo self path = Ret r.
Proof.
  induction fuel as [|f IH]; intros path; cbn [find_best_stream_from]; [eauto|].
  destruct (match assoc _ topo with Some sf => sf | None => None end) as [sf|]; [|eauto].
  destruct (mem_host sf path); [eauto|].
  match goal with |- context [if ?c then Ret sf else _] => destruct c end; [eauto|].
  destruct (assoc sf (re_state env)) as [cand|]; [|eauto].
  match goal with |- context [if ?c then Ret sf else _] => destruct c end; [eauto|]. apply IH.
Qed.

Lemma find_best_result fuel cfg env topo self : forall path r, path <> [] ->
  find_best_stream_from fuel cfg env topo self path = Ret r ->
  r = re_master env \/ (exists c, assoc r (re_state env) = Some c) \/
  (exists me rs, assoc self (re_state env) = Some me /\ ns_repl_running me = true /\ ns_slave me = Some rs /\ N.eqb (rs_source rs) r = true).
Proof.
  induction fuel as [|f IH]; intros path r Hne H; cbn [find_best_stream_from] in H.
  - inversion H. left. reflexivity.
  - destruct (match assoc _ topo with Some sf => sf | None => None end) as [sf|]; [|inversion H; left; reflexivity].
    destruct (mem_host sf path); [inversion H; left; reflexivity|].
    match type of H with context [if ?c then Ret sf else _] => destruct c eqn:Es end.
    + inversion H; subst r. right. right.
      destruct path as [|x [|y t]]; try discriminate Es.
      destruct (assoc self (re_state env)) as [me|]; [|discriminate Es].
      apply andb_true_iff in Es. destruct Es as [E1 E2]. destruct (ns_slave me) as [rs|] eqn:Esl; [|discriminate E2].
      exists me, rs. auto.
    + destruct (assoc sf (re_state env)) as [cand|] eqn:Ec; [|inversion H; left; reflexivity].
      match type of H with context [if ?c then Ret sf else _] => destruct c end.
      * inversion H; subst r. right. left. exists cand. exact Ec.
      * apply (IH (sf :: path) r); [discriminate|exact H].
Qed.

Lemma np_wait_repl f h d : nopanic (wait_repl_start f h d). Proof. apply np_wait_repl_start. Qed.
Lemma np_change_master cfg h m : h <> m -> nopanic (perform_change_master cfg h m).
Proof.
  intros Hne. unfold perform_change_master. destruct (N.eqb_spec h m) as [->|_]; [contradiction|].
  apply nopanic_bind; [apply np_exec|]. intros [x1|]; [exact I|].
  apply nopanic_bind; [apply np_exec|]. intros [x2|]; [exact I|].
  apply nopanic_bind; [apply np_exec|]. intros [x3|]; [exact I|].
  apply nopanic_bind; [apply np_now|]. intros t. apply nopanic_bind; [apply np_wait_repl|intros; exact I].
Qed.

Theorem np_repair_cascade_node cfg env topo h ns la :
  h <> re_master env -> assoc h (re_state env) = Some ns -> In (re_master env) (map fst (re_state env)) ->
  nopanic (repair_cascade_node cfg env topo h ns la).
Proof.
  intros Hm Hns Hmk. unfold repair_cascade_node.
  destruct (find_best_is_ret (S (S (length topo))) cfg env topo h [h]) as [cand Ec]. rewrite Ec. cbn [bind].
  assert (Hself : cand <> h) by (apply (find_best_never_self (S (S (length topo))) cfg env topo h [h] cand); [left; reflexivity|exact Hm|exact Ec]).
  pose proof (find_best_result (S (S (length topo))) cfg env topo h [h] cand ltac:(discriminate) Ec) as Hres.
  destruct (ns_slave ns) as [rs|] eqn:Esl.
  - destruct (ns_repl_running ns && N.eqb cand (rs_source rs)) eqn:E1; [exact I|].
    destruct (negb (ns_repl_running ns) && N.eqb cand (rs_source rs)).
    { destruct (perm_broken ns); [exact I|]. apply nopanic_bind; [apply np_exec|intros; exact I]. }
    apply nopanic_bind.
    { destruct (negb (ns_repl_running ns) && _); [|exact I]. apply nopanic_bind; [apply np_now|intros; exact I]. }
    intros la'. apply nopanic_bind.
    { destruct (ns_repl_running ns); [|exact I]. apply nopanic_bind; [apply np_exec|intros; exact I]. }
    intros stopped. destruct (negb stopped); [exact I|].
    apply nopanic_bind; [apply np_replica_status|]. intros [my e]. cbn [fst snd].
    destruct e; [exact I|]. destruct my as [myrs|]; [|exact I].
    assert (exists cst, assoc cand (re_state env) = Some cst) as [cst Ecst].
    { destruct Hres as [->|[K|(me & rs' & Eme & Erun & Esl' & Esrc)]]; [apply in_keys_assoc; exact Hmk|exact K|].
      exfalso. rewrite Hns in Eme. inversion Eme; subst me. rewrite Esl in Esl'. inversion Esl'; subst rs'.
      rewrite Erun in E1. cbn [andb] in E1. rewrite N.eqb_sym in E1. rewrite Esrc in E1. discriminate E1. }
    rewrite Ecst. destruct (node_gtid cst) as [cg|]; [|exact I].
    destruct (slave_ahead _ _); [exact I|]. destruct (split_brained _ _ _); [cbn [nopanic]; intros; exact I|].
    destruct (behind_or_equal _ _); [|exact I].
    apply nopanic_bind; [apply np_change_master; auto|]. intros [e|]; [exact I|]. apply nopanic_bind; [apply np_exec|intros; exact I].
  - apply nopanic_bind; [apply np_change_master; auto|]. intros [e|]; [exact I|]. apply nopanic_bind; [apply np_exec|intros; exact I].
Qed.

Lemma np_cooldown cfg st : nopanic (cooldown_passed cfg st).
Proof. unfold cooldown_passed. apply nopanic_bind; [apply np_now|intros; exact I]. Qed.
Lemma np_reset_algo h m : nopanic (reset_slave_algorithm h m).
Proof.
  unfold reset_slave_algorithm.
  apply nopanic_bind; [apply np_exec|]. intros [x|]; [exact I|].
  apply nopanic_bind; [apply np_set_read_only|]. intros [x|]; [exact I|].
  apply nopanic_bind; [apply np_exec|]. intros [x|]; [exact I|].
  apply nopanic_bind; [apply np_exec|]. intros [x|]; [exact I|].
  apply nopanic_bind; [apply np_exec|]. intros [x|]; [exact I|apply np_exec].
Qed.
Lemma np_try_repair cfg h master mem : nopanic (try_repair_replication cfg h master mem).
Proof.
  unfold try_repair_replication. apply nopanic_bind.
  - destruct (assoc h (rm_repair mem)); [exact I|]. apply nopanic_bind; [apply np_replica_status|]. intros [st e]. cbn [fst snd].
    destruct e; [exact I|]. destruct st; [|exact I]. apply nopanic_bind; [apply np_now|intros; exact I].
  - intros [st|]; [|exact I]. apply nopanic_bind; [apply np_cooldown|]. intros cp. destruct (negb cp); [exact I|].
    destruct (suitable_algo cfg st) as [[alg count]|]; [|exact I].
    apply nopanic_bind; [destruct alg; [apply np_exec|apply np_reset_algo]|]. intros _.
    apply nopanic_bind; [apply np_now|intros; exact I].
Qed.
Lemma np_mark_running cfg h mem : nopanic (mark_replication_running cfg h mem).
Proof.
  unfold mark_replication_running. destruct (assoc h (rm_repair mem)) as [st|]; [|exact I].
  apply nopanic_bind; [apply np_cooldown|]. intros cp. destruct (negb cp); [exact I|].
  apply nopanic_bind; [apply np_replica_status|]. intros [s e]. cbn [fst snd]. destruct e; [exact I|]. destruct s; [|exact I].
  destruct (slave_ahead _ _); exact I.
Qed.
Lemma np_fetch_topology : nopanic fetch_cascade_topology.
Proof.
  unfold fetch_cascade_topology. apply nopanic_bind; [apply np_dcs_children|]. intros [l e]. cbn [fst snd]. destruct e; [exact I|].
  induction l as [|h r IH]; [exact I|]. cbn [nopanic]. intros x. destruct x; try exact I. destruct v; try exact I.
  apply nopanic_bind; [exact IH|intros; exact I].
Qed.
Lemma np_set_recovery h : nopanic (set_recovery h).
Proof. unfold set_recovery, get_active_nodes, set_active_nodes, dcs_create_tolerant. pnp. Qed.

Theorem np_repair_slave_node cfg env h ns mem :
  h <> re_master env -> assoc h (re_state env) = Some ns -> In (re_master env) (map fst (re_state env)) ->
  nopanic (repair_slave_node cfg env h ns mem).
Proof.
  intros Hne Hns Hmk. unfold repair_slave_node.
  apply nopanic_bind; [destruct (negb (ns_ro ns)); [apply nopanic_bind; [apply np_set_read_only|intros; exact I]|exact I]|]. intros _.
  destruct (ns_is_master ns).
  - apply nopanic_bind; [unfold stop_replication_on_master; apply nopanic_bind; [apply np_exec|]; intros [x|]; [exact I|apply np_exec]|]. intros _.
    apply nopanic_bind; [apply np_change_master; exact Hne|]. intros _. apply nopanic_bind; [apply np_set_recovery|intros; exact I].
  - apply nopanic_bind.
    { destruct (ns_is_cascade ns); [|exact I]. apply nopanic_bind; [apply np_fetch_topology|]. intros [tp|]; [|exact I].
      apply nopanic_bind; [apply np_repair_cascade_node; assumption|intros; exact I]. }
    intros [mem1|]; [|exact I].
    apply nopanic_bind.
    { destruct (negb (ns_is_cascade ns)); [|exact I]. destruct (ns_slave ns) as [rs|]; [|exact I].
      destruct (negb (N.eqb (rs_source rs) (re_master env))); [apply nopanic_bind; [apply np_change_master; exact Hne|intros; exact I]|].
      destruct (repl_state_of rs); try exact I. apply nopanic_bind; [apply np_exec|intros; exact I]. }
    intros _. destruct (ns_slave ns) as [rs|]; [|exact I].
    destruct (repl_state_of rs); try apply np_mark_running. destruct (perm_broken ns); [exact I|apply np_try_repair].
Qed.

Lemma np_repair_master_node cfg env ms : nopanic (repair_master_node cfg env ms).
Proof.
  unfold repair_master_node. apply nopanic_bind; [|intros; cbn [nopanic]; intros; exact I].
  unfold repair_read_only_on_master. destruct (guard_decide _ _ _ _).
  - apply nopanic_bind; [apply np_set_read_only_with_force|]. intros [x|]; [exact I|]. cbn [nopanic]. intros; exact I.
  - apply nopanic_bind; [apply np_exec|]. intros [x|]; [exact I|]. cbn [nopanic]. intros; exact I.
  - exact I.
Qed.

Theorem np_repair_cluster cfg env mem :
  In (re_master env) (map fst (re_state env)) -> nopanic (repair_cluster cfg env mem).
Proof.
  intros Hmk. unfold repair_cluster. generalize (re_order env) as l. intros l. revert mem.
  induction l as [|h r IH]; intros mem; cbn [repair_cluster_loop]; [exact I|].
  destruct (assoc h (re_state env)) as [ns|] eqn:Ens; [|apply IH].
  destruct (negb (ns_ping_ok ns)); [apply IH|].
  destruct (N.eqb_spec h (re_master env)) as [->|Hne].
  - apply nopanic_bind; [apply np_repair_master_node|intros; apply IH].
  - apply nopanic_bind; [apply np_repair_slave_node; assumption|intros; apply IH].
Qed.

(* ---------------------------------------------------------------- repairOfflineMode *)
Lemma np_set_default_repl h m : nopanic (set_default_repl_settings h m).
Proof. unfold set_default_repl_settings. apply nopanic_bind; [apply np_repl_settings|]. intros [rs e]. destruct e; [exact I|].
  apply nopanic_bind; [apply np_exec|]. intros [x|]; [exact I|apply np_exec]. Qed.

Lemma np_repair_slave_offline cfg env h ns ms pending : nopanic (repair_slave_offline cfg env h ns ms pending).
Proof.
  unfold repair_slave_offline. destruct (slave_lag ns) as [lag|]; [|exact I].
  destruct (ns_offline ns && (lag <=? c_offline_disable_lag cfg)).
  - destruct (perm_broken ns); [exact I|]. cbn [nopanic]. intros r. destruct r; try exact I. destruct v; try exact I.
    apply nopanic_bind; [unfold startup_time; pnp|]. intros st. destruct (snd st); [exact I|].
    destruct (status || _); [exact I|]. apply nopanic_bind; [apply np_set_default_repl|]. intros _. apply nopanic_bind; [apply np_exec|intros; exact I].
  - apply nopanic_bind.
    { destruct (_ && _ && _); [|exact I]. destruct (can_set_offline cfg env h pending); [|exact I].
      apply nopanic_bind; [apply np_exec|]. intros [x|]; [exact I|]. apply nopanic_bind; [apply np_opt_enable|intros; exact I]. }
    intros p1. destruct (negb (perm_broken ns)); [exact I|]. cbn [nopanic]. intros r.
    assert (C : forall last, nopanic (t <- now_ 1673 ;;
              if negb (ns_offline ns) && (c_offline_enable_interval cfg <? t - last) then
                tn <- now_ 30174 ;; dcs_set_ 30174 PLastShutdown (VTime tn) ;;; exec_ 1679 h SSetOffline ;;; Ret p1
              else Ret p1)).
    { intros last. apply nopanic_bind; [apply np_now|]. intros t. destruct (_ && _); [|exact I].
      apply nopanic_bind; [apply np_now|]. intros tn. apply nopanic_bind; [apply np_dcs_set|]. intros _. apply nopanic_bind; [apply np_exec|intros; exact I]. }
    destruct r; try apply C.
    + destruct e; try exact I. apply nopanic_bind; [apply np_now|]. intros t1. cbn [nopanic]. intros r2.
      destruct r2; try (apply nopanic_bind; [apply np_now|intros; exact I]). apply nopanic_bind; [apply np_now|]. intros t2. apply C.
    + destruct v; try apply C.
Qed.

Theorem np_repair_offline_mode cfg env :
  In (oe_master env) (map fst (oe_state env)) -> nopanic (repair_offline_mode cfg env).
Proof.
  intros Hmk. unfold repair_offline_mode. destruct (in_keys_assoc _ _ Hmk) as [ms ->].
  generalize (oe_order env) as l. intros l. generalize (@nil (N * Z)) as pending.
  induction l as [|h r IH]; intros pending; cbn [repair_offline_loop]; [exact I|].
  destruct (assoc h (oe_state env)) as [ns|]; [|apply IH]. destruct (negb (ns_ping_ok ns)); [apply IH|].
  destruct (N.eqb h (oe_master env)).
  - apply nopanic_bind; [|intros; apply IH]. unfold repair_master_offline. destruct (ns_offline ns); [|exact I].
    apply nopanic_bind; [unfold is_recovery_needed; pnp|]. intros rn. destruct rn; [exact I|]. apply nopanic_bind; [apply np_exec|intros; exact I].
  - apply nopanic_bind; [apply np_repair_slave_offline|intros; apply IH].
Qed.

(* ---------------------------------------------------------------- optimisation sync *)
Lemma np_set_rs s1 s2 h rs : nopanic (set_repl_settings s1 s2 h rs).
Proof. unfold set_repl_settings. apply nopanic_bind; [apply np_exec|]. intros [x|]; [exact I|apply np_exec]. Qed.
Lemma np_stop_nodes env l rs : nopanic (stop_nodes env l rs).
Proof. induction l as [|h r IH]; cbn [stop_nodes]; [exact I|]. destruct (mem_host h (ov_cluster env)); [|exact IH].
  apply nopanic_bind; [apply np_set_rs|]. intros [x|]; [exact I|exact IH]. Qed.
Lemma np_delete_hosts l : nopanic (delete_hosts l).
Proof. induction l as [|h r IH]; cbn [delete_hosts]; [exact I|]. apply nopanic_bind; [unfold opt_delete_host; pnp|]. intros [x|]; [exact I|exact IH]. Qed.
Lemma np_optimize h : nopanic (optimize_replication h).
Proof. unfold optimize_replication. apply nopanic_bind; [apply np_exec|]. intros [x|]; [exact I|apply np_exec]. Qed.

(* what the read phase puts into the plan's "optimising" and "disabled" classes are hosts with a health record *)
Definition known_hosts (env : opt_env) (l : list host) : Prop := forall h, In h l -> In h (map fst (ov_states env)).
Definition plan_known (env : opt_env) (p : opt_plan) : Prop := known_hosts env (op_optimizing p) /\ known_hosts env (op_disabled p).

Lemma classify_known env mrs en h c : classify env mrs en (assoc h (ov_states env)) = c -> c = OcOptimizing \/ c = OcDisabled -> In h (map fst (ov_states env)).
Proof.
  intros E Hc. destruct (assoc h (ov_states env)) as [ns|] eqn:Ea; [exact (ActiveNodesProofs.assoc_In _ _ _ Ea)|].
  cbn in E. subst c. destruct Hc; discriminate.
Qed.

Lemma plan_add_known env mrs en h p : plan_known env p -> plan_known env (plan_add p h (classify env mrs en (assoc h (ov_states env)))).
Proof.
  intros [H1 H2]. destruct (classify env mrs en (assoc h (ov_states env))) eqn:E; cbn [plan_add]; split; cbn; try assumption.
  - intros x Hx. apply in_app_or in Hx. destruct Hx as [Hx|[<-|[]]]; [exact (H1 x Hx)|]. eapply classify_known; [exact E|left; reflexivity].
  - intros x Hx. apply in_app_or in Hx. destruct Hx as [Hx|[<-|[]]]; [exact (H2 x Hx)|]. eapply classify_known; [exact E|right; reflexivity].
Qed.

Lemma post_read_states env mrs l : forall p, plan_known env p ->
  post (fun _ => False) (fun r => match r with RdOk q => plan_known env q | RdErr _ => True end) (read_states env mrs l p).
Proof.
  induction l as [|h r IH]; intros p Hp; cbn [read_states]; [exact Hp|].
  unfold opt_get_state. cbn [bind post]. intros x.
  destruct x; cbn [bind post]; try exact I.
  - destruct e; cbn [post]; try exact I. apply IH. exact Hp.
  - destruct v; cbn [post]; try exact I. apply IH. apply plan_add_known. exact Hp.
Qed.

Theorem opt_sync_nocrash env :
  incl (map fst (ov_states env)) (ov_cluster env) -> In (ov_master env) (ov_cluster env) -> nocrash (opt_sync env).
Proof.
  intros Hk Hm. unfold opt_sync.
  eapply post_bind.
  { apply nocrash_of_nopanic. unfold master_settings.
    destruct (match assoc (ov_master env) (ov_states env) with Some ns => ns_repl_settings ns | None => None end); [exact I|].
    apply ActiveNodesProofs.mem_host_In in Hm. rewrite Hm. apply np_repl_settings. }
  intros [mrs e] _. cbn [fst snd]. destruct e; [exact I|]. unfold sync_with.
  eapply post_bind; [apply nocrash_of_nopanic; apply np_dcs_children|]. intros [hs e] _. cbn [fst snd]. destruct e; [exact I|].
  eapply post_bind; [apply post_read_states; split; intros x []|]. intros r Hr. destruct r as [p|x]; [|exact I].
  apply nocrash_of_nopanic. destruct Hr as [H1 H2]. unfold sync_act.
  apply nopanic_bind.
  { unfold disable_nodes. destruct (op_optimized p ++ op_malf p) eqn:E; [exact I|]. rewrite <- E.
    apply nopanic_bind; [apply np_stop_nodes|]. intros [x|]; [exact I|apply np_delete_hosts]. }
  intros [x|]; [exact I|]. unfold balance.
  assert (SN : forall h, In h (op_optimizing p) -> nopanic (sync_node_options env h)).
  { intros h Hh. unfold sync_node_options. assert (mem_host h (ov_cluster env) = true) as -> by (apply ActiveNodesProofs.mem_host_In; apply Hk; apply H1; exact Hh).
    cbn [negb]. apply nopanic_bind; [apply np_repl_settings|]. intros r. destruct (snd r); [exact I|]. destruct (can_be_optimized (fst r)); [apply np_optimize|exact I]. }
  destruct (op_optimizing p) as [|h [|h2 rest]] eqn:Eo.
  - destruct (op_disabled p) as [|d ds] eqn:Ed; [exact I|].
    assert (mem_host d (ov_cluster env) = true) as -> by (apply ActiveNodesProofs.mem_host_In; apply Hk; apply H2; left; reflexivity). apply np_optimize.
  - apply SN. left. reflexivity.
  - apply nopanic_bind; [apply np_stop_nodes|]. intros [x|]; [exact I|]. apply SN. left. reflexivity.
Qed.

(* ---------------------------------------------------------------- the tail of the iteration *)
Definition ctx_ok (m : mgr_mem) (c : tail_ctx) : Prop :=
  view_ok (all_hosts m) (tc_cs c) /\ view_ok (all_hosts m) (tc_csd c) /\ In (tc_master c) (map fst (all_hosts m)).

Theorem manager_tail_nocrash cfg env m c : ctx_ok m c -> nocrash (manager_tail cfg env m c).
Proof.
  intros ([Kcs Fcs] & [Kcsd Fcsd] & Hm). unfold manager_tail, tail_envs.
  assert (Hmcs : In (tc_master c) (map fst (tc_cs c))) by (rewrite Kcs; exact Hm).
  assert (Hmcsd : In (tc_master c) (map fst (tc_csd c))) by (rewrite Kcsd; exact Hm).
  eapply post_bind; [apply nocrash_of_nopanic; apply np_repair_offline_mode; exact Hmcs|]. intros _ _.
  eapply post_bind; [apply nocrash_of_nopanic; apply np_repair_cluster; exact Hmcs|]. intros rm _.
  destruct (in_keys_assoc _ _ Hmcsd) as [msd ->].
  eapply post_bind.
  { apply nocrash_of_nopanic. destruct (_ && _ && _); [|exact I]. destruct (tc_light c); [exact I|].
    apply nopanic_bind; [apply np_approve|]. intros ap. destruct ap; [|exact I]. apply nopanic_bind; [apply np_issue|intros; exact I]. }
  intros filed _. destruct filed; [exact I|].
  eapply post_bind.
  { apply update_active_nodes_nocrash; cbn [ae_state ae_master ae_state_dcs]; [exact Fcs|exact Hmcs|rewrite Kcs, Kcsd; apply incl_refl]. }
  intros ua _. eapply post_bind; [apply nocrash_of_nopanic; destruct (c_repl_mon cfg); [cbn [nopanic]; intros; exact I|exact I]|]. intros _ _.
  eapply post_bind; [|intros; exact I].
  apply opt_sync_nocrash; cbn [ov_states ov_cluster ov_master]; [rewrite Kcsd; apply incl_refl|exact Hm].
Qed.

(* ---------------------------------------------------------------- performSwitchover *)
Lemma np_reenable h : nopanic (reenable_events h).
Proof. unfold reenable_events. pnp. Qed.

Lemma state_ping_known (cs : list (host * node_state)) h : In h (map fst cs) -> exists b, state_ping cs h = Some b.
Proof. intros H. unfold state_ping. destruct (in_keys_assoc _ _ H) as [ns ->]. eauto. Qed.

Theorem sw_promote_nocrash cfg env mem active nm mrs :
  In nm (map fst (se_all_hosts env)) -> nocrash (sw_promote cfg env mem active nm mrs).
Proof.
  intros Hnm. unfold sw_promote.
  eapply post_bind; [apply nocrash_of_nopanic; apply np_lock|]. intros l2 _. destruct (negb l2); [exact I|].
  eapply post_bind; [apply cluster_state_from_db_view|]. intros cs2 [K2 F2].
  assert (Hk : In nm (map fst cs2)) by (rewrite K2; exact Hnm).
  destruct (state_ping_known cs2 nm Hk) as [b ->]. destruct b; [|exact I].
  match goal with |- post _ _ (if ?c then _ else _) => destruct c end; [exact I|].
  eapply post_bind; [apply nocrash_of_nopanic; apply np_exec|]. intros [x|] _; [exact I|].
  cbn [post]. split.
  - apply (post_branches_map (fun _ => False) active (fun h => h)). intros h _. apply nocrash_of_nopanic.
    destruct (state_ping cs2 h) as [pok|]; [|exact I]. destruct (N.eqb_spec h nm) as [->|Hne]; [exact I|]. cbn [orb].
    destruct (negb pok); [exact I|]. apply nopanic_bind; [apply np_change_master; exact Hne|intros; exact I].
  - intros errs3 _ _. match goal with |- post _ _ (if ?c then _ else _) => destruct c end; [exact I|].
    eapply post_bind; [apply nocrash_of_nopanic; apply np_replica_status|]. intros os _.
    eapply post_bind.
    { apply nocrash_of_nopanic. destruct (snd os); [apply np_set_recovery|]. destruct (fst os) as [rs|]; [|apply np_set_recovery].
      destruct (is_slave_permanently_lost rs mrs); [apply np_set_recovery|exact I]. }
    intros [x|] _; [exact I|].
    eapply post_bind; [apply nocrash_of_nopanic; apply np_exec|]. intros [x|] _; [exact I|].
    eapply post_bind; [apply nocrash_of_nopanic; apply np_exec|]. intros [x|] _; [exact I|].
    eapply post_bind; [apply cluster_state_from_db_view|]. intros cs3 [K3 F3].
    eapply post_bind.
    { apply update_active_nodes_nocrash; cbn [ae_state ae_master ae_state_dcs]; [exact F3|rewrite K3; exact Hnm|apply incl_refl]. }
    intros ua _. eapply post_bind; [apply nocrash_of_nopanic; apply np_exec|]. intros [x|] _; [exact I|].
    eapply post_bind; [apply nocrash_of_nopanic; apply np_stop_timing|]. intros _ _.
    eapply post_bind; [apply nocrash_of_nopanic; apply np_reenable|]. intros _ _.
    eapply post_bind; [apply nocrash_of_nopanic; apply np_dcs_set|]. intros e9 _. exact I.
Qed.

Lemma np_async cfg h sw : nopanic (async_switch_allowed cfg h sw).
Proof. unfold async_switch_allowed. destruct (sw_cause_ sw); try exact I. destruct (_ && _); [|exact I]. pnp. Qed.
Lemma np_catch_up fuel cfg h target sw dl : nopanic (wait_for_catch_up fuel cfg h target sw dl).
Proof.
  induction fuel as [|f IH]; cbn [wait_for_catch_up]; [exact I|].
  apply nopanic_bind; [apply np_gtid_executed|]. intros g. destruct (snd g); [exact I|]. destruct (set_contain _ _); [exact I|].
  cbn [nopanic]. intros r.
  assert (S : nopanic (Do 2308 (Sleep sec) (fun _ => t <- now_ 2309 ;; if dl <? t then Ret (Some false) else wait_for_catch_up f cfg h target sw dl))).
  { cbn [nopanic]. intros _. apply nopanic_bind; [apply np_now|]. intros t. destruct (dl <? t); [exact I|exact IH]. }
  destruct r; try exact S.
  - destruct e; try exact S. exact I.
  - destruct v; try exact S. apply nopanic_bind; [apply np_async|]. intros a. destruct a; [exact I|exact S].
Qed.

Theorem sw_after_positions_nocrash cfg env sw mem active positions :
  positions <> [] -> nocrash (sw_after_positions cfg env sw mem active positions).
Proof.
  intros Hne. unfold sw_after_positions. remember 2000%nat as fuel eqn:Efuel. clear Efuel. destruct positions as [|p0 ps]; [contradiction|].
  unfold most_recent. destruct (detect_splitbrain _ _); [cbn [post]; intros; exact I|].
  set (mrh := p_host _). set (mrs := p_set _).
  destruct (sw_choose cfg sw (p0 :: ps) mrh) as [nm|]; [|exact I].
  destruct (mem_host nm (map fst (se_all_hosts env))) eqn:Ereg; cbn [negb]; [|exact I].
  apply ActiveNodesProofs.mem_host_In in Ereg.
  eapply post_bind.
  { apply nocrash_of_nopanic. destruct (N.eqb_spec nm mrh) as [->|Hd]; cbn [negb]; [exact I|].
    apply nopanic_bind; [apply np_exec|]. intros [x|]; [exact I|]. apply nopanic_bind; [apply np_change_master; exact Hd|intros; exact I]. }
  intros pre _. destruct (negb pre); [exact I|].
  eapply post_bind; [apply nocrash_of_nopanic; apply np_now|]. intros t0 _.
  eapply post_bind; [apply nocrash_of_nopanic; apply np_catch_up|]. intros cu _.
  destruct cu as [[|]|]; try exact I. apply sw_promote_nocrash. exact Ereg.
Qed.

Lemma quorum_needs_one ss w n p : check_quorum ss w n p = true -> 0 <= p -> p <> 0.
Proof.
  unfold check_quorum, failover_quorum. destruct ss.
  - intros H _. apply negb_true_iff in H. apply Z.ltb_ge in H. lia.
  - intros H _. apply negb_true_iff in H. apply Z.eqb_neq in H. exact H.
Qed.

Lemma np_finish sw ok : nopanic (finish_switchover sw ok).
Proof.
  unfold finish_switchover. apply nopanic_bind; [apply np_now|]. intros t.
  apply nopanic_bind; [destruct (negb ok); [apply np_log_failure|]; destruct (negb _); apply np_stop_timing|]. intros _.
  apply nopanic_bind; [apply np_dcs_delete|]. intros [x|]; [exact I|]. destruct ok; apply np_dcs_set.
Qed.

Lemma np_position_of h : nopanic (position_of h).
Proof.
  unfold position_of. apply nopanic_bind; [apply np_replica_status|]. intros s. destruct (snd s); [exact I|].
  apply nopanic_bind.
  { destruct (fst s); [exact I|]. apply nopanic_bind; [apply np_gtid_executed|intros; exact I]. }
  intros [gs|]; [|exact I]. apply nopanic_bind; [unfold get_priority; pnp|]. intros p. destruct (snd p); exact I.
Qed.

Lemma np_freeze env h : nopanic (freeze_host env h).
Proof.
  unfold freeze_host. destruct (state_ping _ _) as [[|]|]; try exact I.
  apply nopanic_bind; [apply np_set_read_only|]. intros [x|]; [|exact I].
  apply nopanic_bind; [apply np_set_read_only_with_force|intros; exact I].
Qed.
Lemma np_stop_io env h c : nopanic (stop_io_host env h c).
Proof.
  unfold stop_io_host. destruct (state_ping _ _) as [[|]|]; try exact I.
  apply nopanic_bind; [apply np_exec|]. intros [x|]; [exact I|]. apply nopanic_bind; [apply np_get_node_state|]. intros ns. destruct (perm_broken ns); exact I.
Qed.

Theorem perform_switchover_nocrash cfg env sw mem :
  mem_host (se_old_master env) (map fst (se_all_hosts env)) = true -> view_ok (se_all_hosts env) (se_state env) ->
  nocrash (perform_switchover cfg env sw mem).
Proof.
  intros Hold [Kcs Fcs]. unfold perform_switchover.
  match goal with |- post _ _ (if ?c then _ else _) => destruct c end; [exact I|].
  match goal with |- post _ _ (if ?c then _ else _) => destruct c end; [exact I|].
  set (active := match sw_cause_ sw, sw_from sw with
                 | CauseAuto, Some f => if N.eqb f (se_old_master env) then filter_out (se_active env) [se_old_master env] else se_active env
                 | _, _ => se_active env end).
  rewrite Hold.
  eapply post_bind; [apply nocrash_of_nopanic; apply disable_all_nopanic|]. intros [x|] _; [exact I|].
  eapply post_bind; [apply nocrash_of_nopanic; destruct (negb (is_failover sw)); [unfold start_timing_now; apply nopanic_bind; [apply np_now|]; intros t; apply nopanic_bind; [apply np_dcs_set|intros; exact I]|exact I]|]. intros _ _.
  cbn [post]. split.
  { apply (post_branches_map (fun _ => False) active (fun h => h)). intros h _. apply nocrash_of_nopanic. apply np_freeze. }
  intros errs _ _.
  match goal with |- post _ _ (if ?c then _ else _) => destruct c end.
  { eapply post_bind; [apply nocrash_of_nopanic; apply np_finish|]. intros e _. exact I. }
  assert (Hk : In (se_old_master env) (map fst (se_state env))) by (rewrite Kcs; apply ActiveNodesProofs.mem_host_In; exact Hold).
  destruct (state_ping_known _ _ Hk) as [b ->].
  cbn [post]. split.
  { apply (post_branches_map (fun _ => False) (filter_out active [se_old_master env]) (fun h => h)). intros h _. apply nocrash_of_nopanic. apply np_stop_io. }
  intros errs2 _ _.
  set (frozen := filter (fun h => res_ok errs h && res_ok errs2 h) active).
  destruct (check_quorum _ _ _ _) eqn:Eq; cbn [negb]; [|exact I].
  eapply post_bind; [apply nocrash_of_nopanic; apply np_lock|]. intros l1 _. destruct (negb l1); [exact I|].
  eapply post_bind.
  { apply nocrash_of_nopanic. unfold node_positions. cbn [nopanic]. split.
    - apply (nopanic_branches_map frozen (fun h => h)). intros h _. apply np_position_of.
    - intros rs. destruct (existsb _ rs); exact I. }
  intros [positions|] _; [|exact I].
  destruct (Nat.eqb (length positions) (length frozen)) eqn:El; cbn [negb]; [|exact I].
  match goal with |- post _ _ (if ?c then _ else _) => destruct c end; [exact I|].
  apply sw_after_positions_nocrash. intros ->. cbn [length] in El. apply Nat.eqb_eq in El.
  apply quorum_needs_one in Eq; [|lia]. apply Eq. rewrite <- El. reflexivity.
Qed.

(* ---------------------------------------------------------------- the gates *)
Lemma np_ensure cs : nopanic (ensure_current_master cs).
Proof. unfold ensure_current_master. destruct (alive_masters cs) as [|m [|m2 r]]; try exact I. apply nopanic_bind; [apply np_dcs_set|intros; exact I]. Qed.
Lemma np_get_master cs : nopanic (get_current_master cs).
Proof. unfold get_current_master. cbn [nopanic]. intros r. destruct r; try exact I; [destruct e|destruct v]; try exact I; apply np_ensure. Qed.

Lemma alive_master_is_key (cs : list (host * node_state)) m : In m (alive_masters cs) -> In m (map fst cs).
Proof. unfold alive_masters. intros H. apply in_map_iff in H. destruct H as (x & E & Hx). apply filter_In in Hx. apply in_map_iff. exists x. split; [exact E|exact (proj1 Hx)]. Qed.

(* what ensureCurrentMaster returns as the master is a host of the view *)
Lemma rets_ensure cs : rets (fun r => match r with MrOk m => In m (map fst cs) | _ => True end) (ensure_current_master cs).
Proof.
  unfold ensure_current_master. destruct (alive_masters cs) as [|m [|m2 r]] eqn:E; try exact I.
  apply rets_bind. intros [x|]; cbn [rets]; [exact I|]. apply alive_master_is_key. rewrite E. left. reflexivity.
Qed.

Theorem handle_switchover_nocrash cfg env m cs active master sw :
  mem_host master (map fst (all_hosts m)) = true -> view_ok (all_hosts m) cs ->
  nocrash (handle_switchover cfg env m cs active master sw).
Proof.
  intros Hm Hv. unfold handle_switchover.
  eapply post_bind; [apply nocrash_of_nopanic; apply np_now|]. intros t _.
  match goal with |- post _ _ (if ?c then _ else _) => destruct c end.
  { eapply post_bind; [apply nocrash_of_nopanic; apply np_finish|intros; exact I]. }
  destruct (approve_switchover cfg sw active cs).
  { eapply post_bind; [apply nocrash_of_nopanic; apply np_finish|intros; exact I]. }
  eapply post_bind.
  { apply nocrash_of_nopanic. unfold start_switchover. apply nopanic_bind; [apply np_now|]. intros t1.
    apply nopanic_bind; [destruct (negb (is_failover sw)); [apply np_start_timing_at|exact I]|]. intros _.
    apply nopanic_bind; [apply np_dcs_set|intros; exact I]. }
  intros [sw1 e] _. destruct e; [exact I|].
  eapply post_bind; [apply perform_switchover_nocrash; cbn [se_old_master se_all_hosts se_state]; assumption|]. intros r _.
  destruct (lock_lost (fst r)); [exact I|]. cbn [post]. intros g.
  assert (F : nocrash (fail_switchover sw1 ;;; Ret (with_an m (snd r)))).
  { eapply post_bind; [apply nocrash_of_nopanic; unfold fail_switchover; apply nopanic_bind; [apply np_now|intros; apply np_dcs_set]|intros; exact I]. }
  assert (G : nocrash (finish_switchover sw1 true ;;; Ret (with_an m (snd r)))).
  { eapply post_bind; [apply nocrash_of_nopanic; apply np_finish|intros; exact I]. }
  destruct g as [er| | | | | | | | | | | | | |]; try (destruct (fst r); [exact G|exact F]).
  destruct er; try (destruct (fst r); [exact G|exact F]). exact I.
Qed.

Theorem leave_maintenance_nocrash cfg env m : nocrash (leave_maintenance cfg env m).
Proof.
  unfold leave_maintenance.
  eapply post_bind; [apply nocrash_of_nopanic; apply np_update_hosts|]. intros [ok m1] _. destruct (negb ok); [exact I|].
  eapply post_bind; [apply cluster_state_from_db_view|]. intros cs [Kcs Fcs].
  eapply post_bind; [apply post_of_nopanic; [apply np_ensure|apply rets_ensure]|]. intros mr Hmr.
  destruct mr as [master| | |]; try exact I; [|cbn [post]; intros; exact I].
  eapply post_bind; [apply cluster_state_from_dcs_view|]. intros [csd|] Hcsd; [|exact I]. destruct Hcsd as [Kcsd Fcsd].
  unfold tail_envs.
  eapply post_bind; [apply nocrash_of_nopanic; apply np_repair_cluster; exact Hmr|]. intros rm _.
  eapply post_bind; [apply cluster_state_from_db_view|]. intros cs2 [Kcs2 Fcs2].
  eapply post_bind.
  { apply update_active_nodes_nocrash; cbn [ae_state ae_master ae_state_dcs]; [exact Fcs2| |].
    - change (all_hosts (with_repair m1 rm)) with (all_hosts m1) in Kcs2. rewrite Kcs2, <- Kcs. exact Hmr.
    - change (all_hosts (with_repair m1 rm)) with (all_hosts m1) in Kcs2. rewrite Kcs2, Kcsd. apply incl_refl. }
  intros ua _. destruct (fst ua); [|exact I]. cbn [post]. intros r.
  destruct r; try exact I; [destruct e; exact I|]. destruct v; try exact I. destruct l; [exact I|].
  eapply post_bind; [apply nocrash_of_nopanic; apply np_dcs_delete|intros; exact I].
Qed.

Theorem try_leave_nocrash cfg env m : nocrash (try_leave_maintenance cfg env m).
Proof.
  unfold try_leave_maintenance. eapply post_bind; [apply nocrash_of_nopanic; apply np_lock|]. intros l _. destruct l.
  - eapply post_bind; [apply leave_maintenance_nocrash|]. intros r _. destruct (fst r); [exact I|]. cbn [post]. intros; exact I.
  - cbn [post]. intros; exact I.
Qed.

Theorem handle_maintenance_nocrash cfg env m omt master :
  mem_host master (map fst (all_hosts m)) = true -> nocrash (handle_maintenance cfg env m omt master).
Proof.
  intros Hm. unfold handle_maintenance. destruct omt as [mt|]; [|exact I].
  destruct (mt_light mt).
  - destruct (mt_should_leave mt); [eapply post_bind; [apply try_leave_nocrash|intros; exact I]|].
    destruct (negb (mt_paused mt)); [|exact I]. eapply post_bind; [apply nocrash_of_nopanic; unfold set_maintenance; apply np_dcs_set|intros; exact I].
  - destruct (negb (mt_paused mt)); [|exact I].
    eapply post_bind; [|intros; exact I]. apply nocrash_of_nopanic. unfold enter_maintenance. rewrite Hm. cbn [negb].
    apply nopanic_bind.
    + destruct (c_disable_semisync_on_maint cfg); [|exact I]. apply nopanic_bind; [apply np_exec|]. intros [x|]; [exact I|apply np_dcs_delete].
    + intros [x|]; [exact I|]. unfold set_maintenance. apply np_dcs_set.
Qed.

Lemma post_rets {A} Q (R1 R2 : A -> Prop) (p : prog A) : post Q R1 p -> rets R2 p -> post Q (fun a => R1 a /\ R2 a) p.
Proof.
  induction p as [a0|s|s c k IH|s bs k IH] using prog_ind_k; cbn [post rets]; intros H1 H2; auto.
  destruct H1 as [Hb Hk]. split; [exact Hb|]. intros rs Hp Hres. apply IH; [apply Hk; assumption|apply H2].
Qed.

Lemma rets_handle_maintenance cfg env m omt master :
  rets (fun mh => fst mh = None -> snd mh = m) (handle_maintenance cfg env m omt master).
Proof.
  unfold handle_maintenance. destruct omt as [mt|]; [|cbn [rets]; reflexivity].
  destruct (mt_light mt).
  - destruct (mt_should_leave mt); [apply rets_bind; intros r; cbn [rets fst]; discriminate|].
    destruct (negb (mt_paused mt)); [|cbn [rets]; reflexivity]. apply rets_bind. intros e. cbn [rets fst snd]. reflexivity.
  - destruct (negb (mt_paused mt)); [|cbn [rets fst]; discriminate]. apply rets_bind. intros [x|]; cbn [rets fst]; discriminate.
Qed.

Lemma rets_bind2 {A B} (R' : A -> Prop) (R : B -> Prop) (p : prog A) (f : A -> prog B) :
  rets R' p -> (forall a, R' a -> rets R (f a)) -> rets R (bind p f).
Proof.
  induction p as [a0|s|s c k IH|s bs k IH] using prog_ind_k; cbn [bind rets]; intros H1 H2; auto.
Qed.

Definition tail_ok (g : gate_res * mgr_mem) : Prop := match fst g with GTail c => ctx_ok (snd g) c | GNext _ => True end.

Lemma rets_failure_detection cfg cs msd active m master light :
  rets (fun fd => all_hosts (snd fd) = all_hosts m) (failure_detection cfg cs msd active m master light).
Proof.
  unfold failure_detection. destruct (negb (ns_ping_ok msd) || ns_fs_ro msd).
  - eapply rets_bind2 with (R' := fun m1 => all_hosts m1 = all_hosts m).
    + destruct (failed_at m master =? 0); [|cbn [rets]; reflexivity]. unfold now_. cbn [bind rets]. intros r.
      apply rets_bind. intros _. apply rets_bind. intros _. cbn [rets]. reflexivity.
    + intros m1 Hm1. destruct light; [cbn [rets snd]; exact Hm1|]. apply rets_bind. intros ap. apply rets_bind. intros _. cbn [rets snd]. exact Hm1.
  - destruct (negb (failed_at m master =? 0)); [|cbn [rets]; reflexivity].
    apply rets_bind. intros _. apply rets_bind. intros _. cbn [rets snd]. reflexivity.
Qed.

Lemma after_requests_post cfg cs csd active m master light :
  view_ok (all_hosts m) cs -> view_ok (all_hosts m) csd -> In master (map fst (all_hosts m)) ->
  post (fun _ => False) tail_ok (after_requests cfg cs csd active m master light).
Proof.
  intros Hcs Hcsd Hm.
  destruct (in_keys_assoc master csd ltac:(rewrite (proj1 Hcsd); exact Hm)) as [msd Emsd].
  destruct (in_keys_assoc master cs ltac:(rewrite (proj1 Hcs); exact Hm)) as [ms Ems].
  apply post_of_nopanic; [exact (after_requests_nopanic cfg cs csd active m master light msd ms Emsd Ems)|].
  unfold after_requests. rewrite Emsd. eapply rets_bind2; [apply rets_failure_detection|]. intros fd Hfd.
  destruct (fst fd); [exact I|]. rewrite Ems. destruct (negb (ns_ping_ok ms)); [exact I|].
  cbn [rets]. unfold tail_ok, ctx_ok. cbn [fst snd tc_cs tc_csd tc_master]. rewrite Hfd. auto.
Qed.

Theorem manager_decide_post cfg env m cs csd :
  view_ok (all_hosts m) cs -> view_ok (all_hosts m) csd -> post (fun _ => False) tail_ok (manager_decide cfg env m cs csd).
Proof.
  intros Hcs Hcsd. unfold manager_decide. cbn [post]. intros rm.
  eapply post_bind.
  { apply nocrash_of_nopanic. match goal with |- nopanic (if ?c then _ else _) => destruct c end; [cbn [nopanic]; intros; exact I|exact I]. }
  intros fe _. destruct fe; [exact I|].
  match goal with |- post _ _ (if ?c then _ else _) => destruct c end; [exact I|].
  match goal with |- post _ _ (if ?c then _ else _) => destruct c end; [exact I|].
  eapply post_bind; [apply nocrash_of_nopanic; apply np_get_master|]. intros mr _.
  destruct mr as [master| | |]; try exact I; [|cbn [post]; intros; exact I].
  destruct (mem_host master (map fst (all_hosts m))) eqn:Hm; cbn [negb]; [|exact I].
  cbn [post]. intros ra.
  match goal with |- post _ _ (match ?x with Some _ => _ | None => _ end) => destruct x as [active|] end; [|exact I].
  eapply post_bind; [apply post_rets; [apply handle_maintenance_nocrash; exact Hm|apply rets_handle_maintenance]|]. intros mh [_ Hmh].
  destruct (fst mh); [exact I|]. rewrite (Hmh eq_refl). cbn [post]. intros rs.
  assert (AFTER : forall light, post (fun _ => False) tail_ok (after_requests cfg cs csd active m master light)).
  { intros light. apply after_requests_post; [assumption|assumption|]. apply ActiveNodesProofs.mem_host_In. exact Hm. }
  destruct rs; try exact I.
  - destruct e; try exact I. apply AFTER.
  - destruct v; try exact I. destruct (_ && is_failover s); [apply AFTER|].
    eapply post_bind; [apply handle_switchover_nocrash; assumption|intros; exact I].
Qed.

Theorem manager_gates_post cfg env m : post (fun _ => False) tail_ok (manager_gates cfg env m).
Proof.
  unfold manager_gates. cbn [bind post]. intros r0. match goal with |- post _ _ (if ?c then _ else _) => destruct c end; [exact I|].
  eapply post_bind; [apply nocrash_of_nopanic; apply np_lock|]. intros l _. destruct (negb l); [exact I|].
  eapply post_bind; [apply nocrash_of_nopanic; apply np_update_hosts|]. intros u _.
  eapply post_bind; [apply cluster_state_from_db_view|]. intros cs Hcs.
  eapply post_bind; [apply cluster_state_from_dcs_view|]. intros [csd|] Hcsd; [|exact I].
  apply manager_decide_post; assumption.
Qed.

(* ---------------------------------------------------------------- the iteration *)
Theorem state_manager_nocrash cfg env m : nocrash (state_manager cfg env m).
Proof.
  unfold state_manager. eapply post_bind; [apply manager_gates_post|]. intros [g m'] Hg. unfold tail_ok in Hg. cbn [fst snd] in *.
  destruct g as [n|c]; [exact I|]. eapply post_bind; [apply manager_tail_nocrash; exact Hg|intros; exact I].
Qed.

Theorem state_manager_never_crashes cfg env m tr o : runs (state_manager cfg env m) tr o -> exists a, o = Done a.
Proof.
  intros H. destruct (post_no_panic _ _ (state_manager_nocrash cfg env m) _ _ H) as (a & E & _). exists a. exact E.
Qed.

Theorem state_maintenance_nocrash cfg env m : nocrash (state_maintenance cfg env m).
Proof.
  unfold state_maintenance. cbn [bind post]. intros r.
  eapply post_bind; [apply nocrash_of_nopanic; match goal with |- nopanic (if ?c then _ else _) => destruct c end; [exact I|cbn [nopanic]; intros; exact I]|]. intros _ _.
  cbn [post]. intros rm. destruct rm; try exact I.
  - destruct e; try exact I. apply try_leave_nocrash.
  - destruct v; try exact I. destruct (mt_should_leave m0); [apply try_leave_nocrash|exact I].
Qed.

(* ---------------------------------------------------------------- the Lost state *)
Lemma np_probe cfg local h : nopanic (probe_replica cfg local h).
Proof.
  unfold probe_replica. apply nopanic_bind; [apply np_replica_status|]. intros [st e]. destruct e; [exact I|]. destruct st as [rs|]; [|exact I].
  destruct (negb (rs_io rs && rs_sql rs)); [exact I|]. destruct (negb (N.eqb (rs_source rs) local)); [exact I|]. destruct (negb (c_semi_sync cfg)); [exact I|].
  apply nopanic_bind; [apply np_semi_sync_status|]. intros [[[a sl] w] e2]. destruct e2; [exact I|]. destruct sl; exact I.
Qed.
Lemma np_is_waiting_ack s h : nopanic (is_waiting_ack s h). Proof. unfold is_waiting_ack. pnp. Qed.
Theorem state_lost_nopanic cfg env : nopanic (state_lost cfg env).
Proof.
  unfold state_lost. cbn [nopanic]. intros c.
  assert (G : nopanic (if lost_static_noop cfg env then Ret (StLost, le_lost_at env)
    else ns <- get_node_state (le_local env) (le_local_is_cascade env) ;;
         rr <- check_ha_replicas_running cfg env ;;
         let '(repl_running, has_unreach) := rr in
         if ns_is_master ns && repl_running then Ret (StLost, None)
         else Do 287 Now (fun tn => let now := match tn with RZ z => z | _ => 0 end in
              Do 289 Now (fun tn2 => let now2 := match tn2 with RZ z => z | _ => 0 end in
              lost_act (le_local env) (ns_is_master ns) (lost_decide cfg env (ns_is_master ns) repl_running has_unreach now now2))))).
  { destruct (lost_static_noop cfg env); [exact I|].
    apply nopanic_bind; [apply np_get_node_state|]. intros ns.
    apply nopanic_bind.
    { unfold check_ha_replicas_running. cbn [nopanic]. split.
      - apply (nopanic_branches_map (le_ha_hosts env) (fun h => h)). intros h _. apply np_probe.
      - intros rs. destruct (c_semi_sync cfg); [|exact I]. apply nopanic_bind; [apply np_semi_sync_status|]. intros [[[a b] w] e]. destruct e; exact I. }
    intros [rr hu]. destruct (ns_is_master ns && rr); [exact I|]. cbn [nopanic]. intros tn tn2.
    unfold lost_act. destruct (lost_decide _ _ _ _ _ _ _); try exact I. destruct (ns_is_master ns).
    - unfold fence_master. apply nopanic_bind; [apply np_set_read_only_with_force|]. intros e. destruct (negb (lost_continue e)); [exact I|].
      apply nopanic_bind; [apply np_is_waiting_ack|]. intros [blocked e2]. destruct e2; [exact I|]. destruct blocked.
      + apply nopanic_bind; [unfold stop_replication_on_master; apply nopanic_bind; [apply np_exec|]; intros [x|]; [exact I|apply np_exec]|]. intros [x|]; [exact I|].
        apply nopanic_bind; [apply np_set_read_only_with_force|]. intros [x|]; [exact I|]. apply nopanic_bind; [apply np_gtid_executed|intros; exact I].
      + apply nopanic_bind; [apply np_gtid_executed|intros; exact I].
    - unfold fence_replica. apply nopanic_bind; [apply np_set_read_only|]. intros _. apply nopanic_bind; [apply np_gtid_executed|intros; exact I]. }
  destruct c; try exact G. destruct b; [exact I|exact G].
Qed.

Theorem state_maintenance_never_crashes cfg env m tr o : runs (state_maintenance cfg env m) tr o -> exists a, o = Done a.
Proof.
  intros H. destruct (post_no_panic _ _ (state_maintenance_nocrash cfg env m) _ _ H) as (a & E & _). exists a. exact E.
Qed.
Lemma state_manager_has_runs cfg env m :
  runs (state_manager cfg env m) [{| ev_site := 368; ev_call := DcsConnected; ev_resp := RBool false |}] (Done (NxLost, m)).
Proof. cbn. auto. Qed.

(* ---------------------------------------------------------------- the speed-up phase *)
Lemma np_opt_get_state s h : nopanic (opt_get_state s h). Proof. unfold opt_get_state. pnp. Qed.
Lemma np_wait_check low h : nopanic (wait_check low h).
Proof.
  unfold wait_check. apply nopanic_bind; [apply np_opt_get_state|]. intros [a e].
  destruct e as [e|]; [destruct a as [[[|]|]|]; exact I|].
  destruct a as [[[|]|]|]; try exact I. apply nopanic_bind; [apply np_replica_status|]. intros st. destruct (snd st); [exact I|].
  destruct (match fst st with Some rs => rs_lag rs | None => None end) as [lag|]; [|exact I].
  destruct (lag <? low); [|exact I]. apply nopanic_bind; [apply np_delete_hosts|intros; exact I].
Qed.
Lemma np_opt_wait fuel low h dl : forall errors, nopanic (opt_wait fuel low h dl errors).
Proof.
  induction fuel as [|f IH]; intros errors; cbn [opt_wait]; [exact I|]. cbn [nopanic]. intros _.
  apply nopanic_bind; [apply np_now|]. intros t. destruct (dl <? t); [exact I|].
  apply nopanic_bind; [apply np_wait_check|]. intros c. destruct (fst c); [exact I|]. destruct (3 <? _); [exact I|apply IH].
Qed.

Lemma syncer_loop_nocrash fuel env :
  incl (map fst (ov_states env)) (ov_cluster env) -> In (ov_master env) (ov_cluster env) -> nocrash (syncer_loop fuel env).
Proof.
  intros Hk Hm. induction fuel as [|f IH]; cbn [syncer_loop post]; [exact I|]. intros more.
  destruct more; try exact I. destruct b; [|exact I].
  eapply post_bind; [apply opt_sync_nocrash; assumption|]. intros _ _. exact IH.
Qed.

Theorem optimization_phase_nocrash fuel cfg env sw active timeout :
  incl (map fst (ov_states env)) (ov_cluster env) -> In (ov_master env) (ov_cluster env) ->
  nocrash (optimization_phase fuel cfg env sw active timeout).
Proof.
  intros Hk Hm. unfold optimization_phase.
  eapply post_bind.
  { apply nocrash_of_nopanic. unfold phase_prefix. destruct (negb (c_semi_sync cfg)); [exact I|].
    apply nopanic_bind.
    { unfold choose_replica_to_optimize. destruct (sw_to sw); [exact I|].
      apply nopanic_bind.
      - unfold node_positions. cbn [nopanic]. split.
        + apply (nopanic_branches_map _ (fun h => h)). intros h _. apply np_position_of.
        + intros rs. destruct (existsb _ rs); exact I.
      - intros [positions|]; [|exact I]. destruct (most_desirable _ _ _); exact I. }
    intros [target|]; [|exact I]. destruct (negb (mem_host target (ov_cluster env))); [exact I|].
    apply nopanic_bind; [unfold Optimization.opt_enable; pnp|]. intros [x|]; exact I. }
  intros [target|] _; [|exact I].
  eapply post_bind; [apply nocrash_of_nopanic; apply np_now|]. intros t0 _.
  cbn [post]. split; [|intros; exact I].
  split; [apply nocrash_of_nopanic; unfold wait_branch; apply nopanic_bind; [apply np_opt_wait|intros; exact I]|].
  split; [|exact I]. apply syncer_loop_nocrash; assumption.
Qed.

Theorem optimization_phase_never_crashes fuel cfg env sw active timeout tr o :
  incl (map fst (ov_states env)) (ov_cluster env) -> In (ov_master env) (ov_cluster env) ->
  runs (optimization_phase fuel cfg env sw active timeout) tr o -> exists a, o = Done a.
Proof.
  intros Hk Hm H. destruct (post_no_panic _ _ (optimization_phase_nocrash fuel cfg env sw active timeout Hk Hm) _ _ H) as (a & E & _). exists a. exact E.
Qed.
