(* One writable master, from the side of what mysync does: in the repair tail of a manager iteration
   (offline-mode repair, topology repair incl. the disk guard, crash-recovery failover request, active-list
   update, optimisation sync) the ONLY server that is ever told SET read_only=0 is the recorded master -
   for every response of every call.  (Inside a switchover the promoted node is the other one: C01.) *)
From Coq Require Import ZArith NArith Bool List Lia.
From Mysync Require Import Gtid.Interval Gtid.GtidSet Pure.Quorum Pure.Desirable Base.Prog Base.ProgFacts Base.Hoare Base.Config
  Procs.NodeOps Procs.ActiveNodes Procs.Switchover Procs.DiskGuard Procs.OfflineMode Procs.Repair Procs.Optimization Procs.Manager
  Proofs.NodeOpsProofs Proofs.ActiveNodesProofs Proofs.SwitchoverProofs Proofs.DiskGuardProofs Proofs.OfflineProofs Proofs.RepairProofs
  Proofs.ManagerProofs Proofs.GatesProofs.
Import ListNotations.
Open Scope Z_scope.

Definition wrok (mst : host) (c : call) : Prop := match c with Sql h SSetWritable => h = mst | _ => True end.
Definition nowr (c : call) : bool := match c with Sql _ SSetWritable => false | _ => true end.
Lemma nowr_wrok mst c : nowr c = true -> wrok mst c.
Proof. destruct c; try (intros; exact I). destruct s; try (intros; exact I). discriminate. Qed.
Lemma wr_of_b {A} mst (p : prog A) : allcalls (fun _ c => nowr c = true) p -> allcalls (fun _ c => wrok mst c) p.
Proof. apply allcalls_impl. intros s c. apply nowr_wrok. Qed.

Ltac wk := first [exact I | reflexivity | (intros; exact I)].
Ltac wka := repeat first
  [ exact I
  | reflexivity
  | match goal with
    | |- allcalls _ (bind _ _) => apply allcalls_bind; [|intros ?]
    | |- allcalls _ (match ?x with _ => _ end) => destruct x
    | |- allcalls _ (if ?x then _ else _) => destruct x
    | |- allcalls _ (let '(_, _) := ?x in _) => destruct x
    | |- allcalls _ (Do _ _ _) => cbn [allcalls]; split; [|intros ?]
    | |- allcalls _ (Ret _) => exact I
    | |- allcalls _ (Panic _) => exact I
    end ].

Section Tail.
Variable mst : host.
Notation W := (fun (_ : site) (c : call) => nowr c = true).

Lemma nw_update_active cfg env mem : allcalls W (update_active_nodes cfg env mem).
Proof.
  eapply allcalls_impl; [|apply update_active_nodes_calls]. intros s c H.
  destruct c; try reflexivity. destruct s0; try reflexivity. cbn in H. discriminate H.
Qed.
Lemma rs_ok_nowr h c : rs_ok h c -> nowr c = true.
Proof. intros H. destruct c; try reflexivity. destruct s; try reflexivity. destruct H. Qed.
Lemma nw_offline_loop cfg env ms l : forall pending, allcalls W (repair_offline_loop cfg env ms l pending).
Proof.
  induction l as [|h r IH]; intros pending; cbn [repair_offline_loop]; [exact I|].
  destruct (assoc h (oe_state env)) as [ns|]; [|apply IH]. destruct (negb (ns_ping_ok ns)); [apply IH|].
  destruct (N.eqb h (oe_master env)).
  - apply allcalls_bind; [|intros; apply IH].
    eapply allcalls_impl; [|apply master_offline_calls]. intros s c H. destruct c; try reflexivity. destruct s0; try reflexivity. destruct H.
  - destruct ms as [m|]; [|exact I]. apply allcalls_bind; [|intros p; apply IH].
    eapply allcalls_impl; [|apply slave_offline_calls]. intros s c H. destruct c; try reflexivity. destruct s0; try reflexivity. destruct H.
Qed.
Lemma nw_set_rs s1 s2 h rs : allcalls W (set_repl_settings s1 s2 h rs).
Proof. unfold set_repl_settings, exec_. wka. Qed.
Lemma nw_stop_nodes env l rs : allcalls W (stop_nodes env l rs).
Proof.
  induction l as [|h r IH]; cbn [stop_nodes]; [exact I|]. destruct (mem_host h (ov_cluster env)); [|exact IH].
  apply allcalls_bind; [apply nw_set_rs|]. intros [e|]; [exact I|exact IH].
Qed.
Lemma nw_delete_hosts l : allcalls W (delete_hosts l).
Proof.
  induction l as [|h r IH]; cbn [delete_hosts]; [exact I|].
  apply allcalls_bind; [unfold opt_delete_host; wka|]. intros [e|]; [exact I|exact IH].
Qed.
Lemma nw_optimize h : allcalls W (optimize_replication h).
Proof. unfold optimize_replication, exec_. wka. Qed.
Lemma nw_sync_node env h : allcalls W (sync_node_options env h).
Proof.
  unfold sync_node_options. destruct (negb (mem_host h (ov_cluster env))); [exact I|].
  apply allcalls_bind; [unfold repl_settings; wka|]. intros r. destruct (snd r); [exact I|]. destruct (can_be_optimized (fst r)); [apply nw_optimize|exact I].
Qed.
Lemma nw_read_states env mrs l : forall p, allcalls W (read_states env mrs l p).
Proof.
  induction l as [|h r IH]; intros p; cbn [read_states]; [exact I|].
  apply allcalls_bind; [unfold opt_get_state; wka|]. intros [a e].
  destruct a as [[en|]|]; destruct e; try exact I; try apply IH.
Qed.
Lemma nw_opt_sync env : allcalls W (opt_sync env).
Proof.
  unfold opt_sync. apply allcalls_bind.
  { unfold master_settings. destruct (match assoc (ov_master env) (ov_states env) with Some ns => ns_repl_settings ns | None => None end); [exact I|].
    destruct (mem_host _ _); [unfold repl_settings; wka|exact I]. }
  intros m. destruct (snd m); [exact I|]. unfold sync_with.
  apply allcalls_bind; [unfold dcs_children_; wka|]. intros hs. destruct (snd hs); [exact I|].
  apply allcalls_bind; [apply nw_read_states|]. intros r. destruct r as [p|e]; try exact I.
  unfold sync_act. apply allcalls_bind.
  { unfold disable_nodes. destruct (op_optimized p ++ op_malf p) eqn:E; [exact I|]. rewrite <- E.
    apply allcalls_bind; [apply nw_stop_nodes|]. intros [x|]; [exact I|apply nw_delete_hosts]. }
  intros [x|]; [exact I|]. unfold balance.
  destruct (op_optimizing p) as [|h [|h2 rest]].
  - destruct (op_disabled p) as [|d r]; [exact I|]. destruct (mem_host d (ov_cluster env)); [apply nw_optimize|exact I].
  - apply nw_sync_node.
  - apply allcalls_bind; [apply nw_stop_nodes|]. intros [x|]; [exact I|apply nw_sync_node].
Qed.
Lemma nw_approve cfg cs msd active m master : allcalls W (approve_failover cfg cs msd active m master).
Proof. unfold approve_failover, approve_pre, approve_tail, now_. wka. Qed.
Lemma nw_issue master : allcalls W (issue_failover master).
Proof. unfold issue_failover, now_. wka. Qed.

(* topology repair: replicas are never made writable; the disk guard addresses only the master *)
Lemma w_repair_loop cfg env l : re_master env = mst -> forall mem, allcalls (fun _ c => wrok mst c) (repair_cluster_loop cfg env l mem).
Proof.
  intros Hm. induction l as [|h r IH]; intros mem; cbn [repair_cluster_loop]; [exact I|].
  destruct (assoc h (re_state env)) as [ns|]; [|apply IH].
  destruct (negb (ns_ping_ok ns)); [apply IH|].
  destruct (N.eqb_spec h (re_master env)) as [E|NE].
  - apply allcalls_bind; [|intros _; apply IH].
    unfold repair_master_node. apply allcalls_bind.
    + eapply allcalls_impl; [|apply guard_allcalls]. intros s c H. destruct c; try exact I. destruct s0; try exact I.
      cbn in H. destruct H as [Hh _]. rewrite Hh. exact Hm.
    + intros _. cbn [allcalls]. split; [exact I|intros; exact I].
  - apply allcalls_bind; [|intros m; apply IH]. apply wr_of_b.
    eapply allcalls_impl; [|apply (repair_slave_calls cfg env h ns mem NE)]. intros s c. apply rs_ok_nowr.
Qed.

Theorem tail_only_master_writable cfg env m c : tc_master c = mst ->
  allcalls (fun _ x => wrok mst x) (manager_tail cfg env m c).
Proof.
  intros Hm. unfold manager_tail. unfold tail_envs.
  apply allcalls_bind; [apply wr_of_b; apply nw_offline_loop|]. intros _.
  apply allcalls_bind; [apply w_repair_loop; exact Hm|]. intros rm.
  destruct (assoc (tc_master c) (tc_csd c)) as [msd|]; [|exact I].
  apply allcalls_bind.
  { apply wr_of_b. destruct (c_resetup_crashed cfg && (1 <? count_ha_nodes (tc_cs c)) && crash_recovered cfg msd); [|exact I].
    destruct (tc_light c); [exact I|]. apply allcalls_bind; [apply nw_approve|]. intros ap. destruct ap; [|exact I].
    apply allcalls_bind; [apply nw_issue|]. intros; exact I. }
  intros filed. destruct filed; [exact I|]. apply wr_of_b.
  apply allcalls_bind; [apply nw_update_active|]. intros ua.
  apply allcalls_bind; [destruct (c_repl_mon cfg); [cbn [allcalls]; split; [reflexivity|intros; exact I]|exact I]|]. intros _.
  apply allcalls_bind; [apply nw_opt_sync|]. intros; exact I.
Qed.
End Tail.

(* on traces: every SET read_only=0 issued by the repair tail of an iteration goes to the recorded master *)
Theorem tail_writable_is_recorded_master cfg env m c tr o : runs (manager_tail cfg env m c) tr o ->
  forall e h, In e tr -> ev_call e = Sql h SSetWritable -> h = tc_master c.
Proof.
  intros R e h Hin Ec.
  pose proof (allcalls_sound _ _ (tail_only_master_writable (tc_master c) cfg env m c eq_refl) tr o R) as F.
  rewrite Forall_forall in F. specialize (F e Hin). unfold ProgFacts.ev_ok in F. cbv beta in F. rewrite Ec in F. exact F.
Qed.
