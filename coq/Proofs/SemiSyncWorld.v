(* C04 in the world model (Env/World.v): what joining and leaving the acknowledging group does to the replica. *)
From Coq Require Import ZArith NArith Bool List.
From Mysync Require Import Gtid.Interval Gtid.GtidSet Base.Prog Base.ProgFacts Base.Config Env.World Procs.NodeOps Procs.ActiveNodes.
Import ListNotations.
Open Scope Z_scope.

(* a replica that joins: acknowledgement enabled on the server, the receiver thread running again (restarted so that
   the setting takes effect), and the call reports success *)
Theorem join_makes_acknowledging h ss ms mg rs c w :
  w_host w = h -> ns_master_gtid ms = Some mg -> ns_slave ss = Some rs -> s_chan (w_srv w) = Some c ->
  wout (wrun (enable_semi_sync_on_slave h (Some ss) ms) w) = Done None /\
  s_semi_s (w_srv (wworld (wrun (enable_semi_sync_on_slave h (Some ss) ms) w))) = true /\
  s_semi_m (w_srv (wworld (wrun (enable_semi_sync_on_slave h (Some ss) ms) w))) = false /\
  (exists c', s_chan (w_srv (wworld (wrun (enable_semi_sync_on_slave h (Some ss) ms) w))) = Some c' /\ c_io c' = true /\ c_source c' = c_source c).
Proof.
  intros <- Hm Hs Hc. unfold enable_semi_sync_on_slave. rewrite Hm, Hs. unfold exec_, restart_replica, restart_io, exec_.
  cbn [bind wrun wstep]. rewrite N.eqb_refl. cbn [srv_step wrun wstep bind w_host w_srv with_semi s_chan].
  destruct (slave_ahead (rs_executed rs) mg);
    repeat (first [rewrite N.eqb_refl | rewrite Hc | progress cbn [wrun wstep bind srv_step fst snd w_host w_srv with_semi with_chan s_chan s_semi_s s_semi_m s_retr threads c_io c_sql c_source wout wworld]]);
    (split; [reflexivity|split; [reflexivity|split; [reflexivity|eexists; split; [reflexivity|split; reflexivity]]]]).
Qed.

(* a replica that leaves: acknowledgement switched off on the server (with or without the receiver restart) *)
Theorem leave_stops_acknowledging h restart c w :
  w_host w = h -> s_chan (w_srv w) = Some c ->
  wout (wrun (disable_semi_sync_on_slave h restart) w) = Done None /\
  s_semi_s (w_srv (wworld (wrun (disable_semi_sync_on_slave h restart) w))) = false.
Proof.
  intros <- Hc. unfold disable_semi_sync_on_slave, restart_io, exec_.
  cbn [bind wrun wstep]. rewrite N.eqb_refl. cbn [srv_step wrun wstep bind w_host w_srv with_semi s_chan].
  destruct restart;
    repeat (first [rewrite N.eqb_refl | rewrite Hc | progress cbn [wrun wstep bind srv_step fst snd w_host w_srv with_semi with_chan s_chan s_semi_s s_semi_m s_retr threads wout wworld]]);
    split; reflexivity.
Qed.
