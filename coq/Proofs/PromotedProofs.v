(* Who can be promoted: every SET read_only=0 that performSwitchover issues goes to a host of the active
   list the procedure was given (minus nothing: the old master included only as far as the list has it).
   Together with C11 (a marked host is not in the computed list) and C04/C16 (cascade replicas are not in
   it): marked hosts and cascade replicas are never promoted under a list computed after the mark. *)
From Coq Require Import ZArith NArith Bool List Lia.
From Mysync Require Import Gtid.Interval Gtid.GtidSet Pure.Quorum Pure.Desirable Base.Prog Base.ProgFacts Base.Hoare Base.Config
  Procs.NodeOps Procs.ActiveNodes Procs.Switchover Proofs.GtidProofs Proofs.DesirableProofs
  Proofs.NodeOpsProofs Proofs.ActiveNodesProofs Proofs.SwitchoverProofs.
Import ListNotations.
Open Scope Z_scope.

Definition wr_in (l : list host) (c : call) : Prop := match c with Sql h SSetWritable => In h l | _ => True end.
Definition nowrb (c : call) : bool := match c with Sql _ SSetWritable => false | _ => true end.
Lemma nowrb_in l c : nowrb c = true -> wr_in l c.
Proof. destruct c; try (intros; exact I). destruct s; try (intros; exact I). discriminate. Qed.
Lemma wi_of_b {A} l (p : prog A) : allcalls (fun _ c => nowrb c = true) p -> allcalls (fun _ c => wr_in l c) p.
Proof. apply allcalls_impl. intros s c. apply nowrb_in. Qed.
Lemma calmb_nowr c : calmb c = true -> nowrb c = true.
Proof. destruct c; try reflexivity. destruct s; try reflexivity. cbn. discriminate. Qed.
Lemma calm1b_nowr c : calm1b c = true -> nowrb c = true.
Proof. destruct c; try reflexivity. destruct s; try reflexivity. cbn. discriminate. Qed.
Lemma wi_calm {A} l (p : prog A) : allcalls (fun _ c => calmb c = true) p -> allcalls (fun _ c => wr_in l c) p.
Proof. intros H. apply wi_of_b. eapply allcalls_impl; [|exact H]. intros s c. apply calmb_nowr. Qed.
Lemma wi_calm1 {A} l (p : prog A) : allcalls (fun _ c => calm1b c = true) p -> allcalls (fun _ c => wr_in l c) p.
Proof. intros H. apply wi_of_b. eapply allcalls_impl; [|exact H]. intros s c. apply calm1b_nowr. Qed.

(* stage 3 makes only the candidate writable *)
Lemma promote_only_candidate cfg env mem active nm mrs l : In nm l ->
  allcalls (fun _ c => wr_in l c) (sw_promote cfg env mem active nm mrs).
Proof.
  intros Hin. pose proof CRb as CR. unfold sw_promote.
  apply allcalls_bind; [unfold lock_acquire; cbn [allcalls]; split; [exact I|intros r; destruct r; exact I]|]. intros l2.
  destruct (negb l2); [exact I|].
  apply allcalls_bind; [apply wi_calm; apply (c_cluster_state calmb); first [exact CR | intros; reflexivity]|]. intros cs2.
  destruct (state_ping cs2 nm) as [[|]|]; try exact I.
  match goal with |- allcalls _ (if ?c then _ else _) => destruct c end; [exact I|].
  apply allcalls_bind; [apply wi_calm; apply ac_exec; reflexivity|]. intros [e5|]; [exact I|].
  cbn [allcalls]. split.
  { induction active as [|h r IH]; [exact I|]. cbn [map]. split; [|exact IH].
    apply wi_calm1. destruct (state_ping cs2 h) as [pok|]; [|exact I].
    destruct (N.eqb h nm || negb pok); [exact I|]. apply allcalls_bind; [apply pcm_calm1|]. intros; exact I. }
  intros errs3. match goal with |- allcalls _ (if ?c then _ else _) => destruct c end; [exact I|].
  apply allcalls_bind; [apply wi_calm; apply ac_replica_status; reflexivity|]. intros os.
  apply allcalls_bind.
  { apply wi_calm. destruct (snd os); [dapp d_set_recovery|].
    destruct (fst os) as [rs|]; [|dapp d_set_recovery].
    destruct (is_slave_permanently_lost rs mrs); [dapp d_set_recovery|exact I]. }
  intros [rec|]; [exact I|].
  apply allcalls_bind; [apply wi_calm; apply ac_exec; reflexivity|]. intros [e6|]; [exact I|].
  apply allcalls_bind; [apply wi_of_b; apply ac_exec; reflexivity|]. intros [e7|]; [exact I|].
  apply allcalls_bind; [apply wi_calm; apply (c_cluster_state calmb); first [exact CR | intros; reflexivity]|]. intros cs3.
  apply allcalls_bind; [apply wi_calm; dapp d_update_active|]. intros ua. cbn zeta.
  apply allcalls_bind; [unfold exec_; cbn [allcalls]; split; [exact Hin|intros r; destruct r; exact I]|]. intros [e8|]; [exact I|].
  apply allcalls_bind; [apply wi_calm; dapp d_stop_timing|]. intros _.
  apply allcalls_bind; [apply wi_calm; apply (d_reenable calmb); first [exact calmb_stmt | exact calmb_dcs]|]. intros _.
  unfold dcs_set_. cbn [bind allcalls]. split; [exact I|]. intros r9. destruct r9; try destruct e; exact I.
Qed.

(* the candidate is the requested host or one of the hosts whose positions were collected *)
Lemma most_recent_member ps h st : most_recent ps = RecentFound h st -> exists p, In p ps /\ p_host p = h.
Proof.
  destruct ps as [|p0 r]; [discriminate|]. cbn [most_recent].
  destruct (detect_splitbrain (p0 :: r) (fold_left recent_step r p0)); [discriminate|]. intros E. inversion E; subst.
  exists (fold_left recent_step r p0). split; [apply fold_recent_in|reflexivity].
Qed.
Lemma sw_choose_member cfg sw positions mrh mrs nm :
  most_recent positions = RecentFound mrh mrs -> sw_choose cfg sw positions mrh = Some nm ->
  sw_to sw = Some nm \/ exists p, In p positions /\ p_host p = nm.
Proof.
  intros Hmr. unfold sw_choose. destruct (sw_to sw) as [t|]; [intros E; inversion E; left; reflexivity|].
  destruct (sw_from sw) as [f|].
  - destruct (most_desirable _ _ _) as [h| |] eqn:Ed; try discriminate. intros E; inversion E; subst.
    destruct (most_desirable_member _ _ _ _ Ed) as (p & Hp & Hh). right. exists p. split; [|exact Hh].
    unfold filter_out_host in Hp. apply filter_In in Hp. apply Hp.
  - intros E; inversion E; subst. right. exact (most_recent_member _ _ _ Hmr).
Qed.

Lemma after_positions_only_candidates cfg env sw mem active positions l :
  (forall t, sw_to sw = Some t -> In t l) -> (forall p, In p positions -> In (p_host p) l) ->
  allcalls (fun _ c => wr_in l c) (sw_after_positions cfg env sw mem active positions).
Proof.
  intros Hto Hpos. pose proof CRb as CR. unfold sw_after_positions.
  destruct (most_recent positions) as [|mrh mrs|] eqn:Emr; [| |exact I].
  { cbn [allcalls]. split; [exact I|intros; exact I]. }
  destruct (sw_choose cfg sw positions mrh) as [nm|] eqn:Ech; [|exact I].
  assert (Hnm : In nm l).
  { destruct (sw_choose_member _ _ _ _ _ _ Emr Ech) as [E|(p & Hp & Hh)]; [exact (Hto _ E)|rewrite <- Hh; exact (Hpos _ Hp)]. }
  destruct (negb (mem_host nm (map fst (se_all_hosts env)))); [exact I|].
  apply allcalls_bind.
  { destruct (negb (N.eqb nm mrh)); [|exact I].
    apply allcalls_bind; [apply wi_calm; apply ac_exec; reflexivity|]. intros [e|]; [exact I|].
    apply allcalls_bind; [apply wi_calm1; apply pcm_calm1|]. intros; exact I. }
  intros pre. destruct (negb pre); [exact I|].
  apply allcalls_bind; [apply wi_calm; apply (c_now calmb); first [exact CR | intros; reflexivity]|]. intros t0.
  apply allcalls_bind; [apply wi_calm; apply (c_wait_catch_up calmb); first [exact CR | intros; reflexivity]|]. intros cu.
  destruct cu as [[|]|]; try exact I. apply promote_only_candidate. exact Hnm.
Qed.

(* positions are those of the hosts asked *)
Lemma position_of_host h : rets (fun r => match r with RPos p => p_host p = h | _ => True end) (position_of h).
Proof.
  unfold position_of. apply rets_bind. intros s. destruct (snd s); [exact I|].
  apply rets_bind. intros g. destruct g as [gs|]; [|exact I].
  apply rets_bind. intros p. destruct (snd p); [exact I|]. reflexivity.
Qed.
Lemma node_positions_hosts s hosts tr ps : runs (node_positions s hosts) tr (Done (Some ps)) ->
  forall p, In p ps -> In (p_host p) hosts.
Proof.
  unfold node_positions. intros R p Hp.
  destruct (runs_par_results _ _ _ _ _ R) as [(rs & tk & tpar & Hrs & _ & Rk)|(s' & E)]; [|discriminate E].
  destruct (existsb _ rs); [cbn in Rk; destruct Rk as [_ E]; discriminate E|].
  cbn in Rk. destruct Rk as [_ E]. inversion E; subst ps. clear E.
  apply in_flat_map in Hp. destruct Hp as ([h r] & Hin & Hp).
  destruct r; cbn in Hp; try contradiction. destruct Hp as [<-|[]].
  destruct (Hrs _ _ Hin) as (b & tb & Hb & Rb).
  apply in_map_iff in Hb. destruct Hb as (h0 & E & Hh0). inversion E as [[E1 E2]]. subst h0. subst b.
  pose proof (rets_sound _ _ (position_of_host h) _ _ Rb) as K. cbn in K. rewrite K. exact Hh0.
Qed.

(* ---- the theorem --------------------------------------------------------------------------- *)
Definition wr_trace (l : list host) (tr : trace) : Prop := Forall (ProgFacts.ev_ok (fun _ c => wr_in l c)) tr.
Lemma wt_app l a b : wr_trace l a -> wr_trace l b -> wr_trace l (a ++ b).
Proof. intros; apply Forall_app; split; assumption. Qed.
Lemma wt_of {A} l (p : prog A) tr o : allcalls (fun _ c => wr_in l c) p -> runs p tr o -> wr_trace l tr.
Proof. intros H R. exact (allcalls_sound _ p H tr o R). Qed.

Lemma peel_bind {A B} l (p : prog A) (f : A -> prog B) tr o :
  allcalls (fun _ c => wr_in l c) p -> runs (bind p f) tr o ->
  (forall a t2, runs (f a) t2 o -> wr_trace l t2) -> wr_trace l tr.
Proof.
  intros Hq R K. destruct (runs_bind_inv _ _ _ _ R) as [(t1 & t2 & a & R1 & R2 & ->)|(s & R1 & ->)].
  - apply wt_app; [exact (wt_of _ _ _ _ Hq R1)|exact (K a t2 R2)].
  - exact (wt_of _ _ _ _ Hq R1).
Qed.
Lemma peel_par {A} l s (bs : list (host * prog resp)) (k : list (host * resp) -> prog A) tr o :
  (fix go (bs : list (host * prog resp)) : Prop :=
     match bs with [] => True | (_, b) :: r => allcalls (fun _ c => wr_in l c) b /\ go r end) bs ->
  runs (Par s bs k) tr o ->
  (forall rs t2, runs (k rs) t2 o -> wr_trace l t2) -> wr_trace l tr.
Proof.
  intros Hb R K. destruct (runs_par_split _ _ _ _ _ _ Hb R) as [(rs & tk & tpar & -> & F & Rk)|(F & _)].
  - apply wt_app; [exact F|exact (K rs tk Rk)].
  - exact F.
Qed.

Theorem promoted_is_listed cfg env sw mem tr o :
  runs (perform_switchover cfg env sw mem) tr o -> wr_trace (se_active env) tr.
Proof.
  pose proof CRb as CR. unfold perform_switchover. intros H.
  destruct (match sw_to sw with Some t => negb (mem_host t (se_active env)) | None => false end) eqn:Eto.
  { cbn in H. destruct H as [-> _]. constructor. }
  assert (Hto : forall t, sw_to sw = Some t -> In t (se_active env)).
  { intros t E. rewrite E in Eto. apply negb_false_iff in Eto. apply mem_host_In. exact Eto. }
  destruct (match dubious_ha_hosts (se_state env) with [] => false | _ => true end); [cbn in H; destruct H as [-> _]; constructor|].
  set (active := match sw_cause_ sw, sw_from sw with
                 | CauseAuto, Some f => if N.eqb f (se_old_master env) then filter_out (se_active env) [se_old_master env] else se_active env
                 | _, _ => se_active env end) in *.
  assert (Hincl : incl active (se_active env)).
  { subst active. destruct (sw_cause_ sw); try apply incl_refl. destruct (sw_from sw); try apply incl_refl.
    destruct (N.eqb _ _); try apply incl_refl. unfold filter_out. intros x Hx. apply filter_In in Hx. apply Hx. }
  eapply (peel_bind _ _ _ _ _ _ H). Unshelve. 2:{ apply wi_calm. dapp d_opt_disable_all_k. }
  intros [e0|] t1 R1; [cbn in R1; destruct R1 as [-> _]; constructor|].
  eapply (peel_bind _ _ _ _ _ _ R1). Unshelve. 2:{ destruct (negb (is_failover sw)); [apply wi_calm; dapp d_timing_now|exact I]. }
  intros _ t2 R2.
  eapply (peel_par _ _ _ _ _ _ _ R2). Unshelve.
  2:{ generalize active as l0. induction l0 as [|h r IH]; [exact I|]. cbn [map]. split; [|exact IH].
      apply wi_calm. dapp d_freeze. }
  intros errs t3 R3.
  match type of R3 with runs (if ?c then _ else _) _ _ => destruct c end.
  { eapply (peel_bind _ _ _ _ _ _ R3). Unshelve. 2:{ apply wi_calm. dapp d_finish. }
    intros e t4 R4. cbn in R4. destruct R4 as [-> _]. constructor. }
  destruct (state_ping (se_state env) (se_old_master env)); [|cbn in R3; destruct R3 as [-> _]; constructor].
  eapply (peel_par _ _ _ _ _ _ _ R3). Unshelve.
  2:{ generalize (filter_out active [se_old_master env]) as l0. induction l0 as [|h r IH]; [exact I|]. cbn [map]. split; [|exact IH]. apply wi_calm. dapp d_stop_io. }
  intros errs2 t4 R4.
  set (frozen := filter (fun h => res_ok errs h && res_ok errs2 h) active) in *.
  match type of R4 with runs (if ?c then _ else _) _ _ => destruct c end; [cbn in R4; destruct R4 as [-> _]; constructor|].
  eapply (peel_bind _ _ _ _ _ _ R4). Unshelve. 2:{ unfold lock_acquire. cbn [allcalls]. split; [exact I|intros r; destruct r; exact I]. }
  intros l1 t5 R5. destruct (negb l1); [cbn in R5; destruct R5 as [-> _]; constructor|].
  (* the positions: here the run itself is needed, not only its calls *)
  assert (NP : allcalls (fun _ c => calmb c = true) (node_positions 1356 frozen)) by (apply (c_node_positions calmb); first [exact CR | intros; reflexivity]).
  destruct (runs_bind_inv _ _ _ _ R5) as [(p1 & p2 & op & P1 & P2 & ->)|(s & P1 & ->)].
  2:{ exact (wt_of _ _ _ _ (wi_calm _ _ NP) P1). }
  apply wt_app; [exact (wt_of _ _ _ _ (wi_calm _ _ NP) P1)|].
  destruct op as [positions|]; [|cbn in P2; destruct P2 as [-> _]; constructor].
  match type of P2 with runs (if ?c then _ else _) _ _ => destruct c end; [cbn in P2; destruct P2 as [-> _]; constructor|].
  match type of P2 with runs (if ?c then _ else _) _ _ => destruct c end; [cbn in P2; destruct P2 as [-> _]; constructor|].
  eapply wt_of; [|exact P2]. apply after_positions_only_candidates; [exact Hto|].
  intros p Hp. apply Hincl. pose proof (node_positions_hosts _ _ _ _ P1 p Hp) as Hf.
  unfold frozen in Hf. apply filter_In in Hf. apply Hf.
Qed.

Theorem promoted_host_is_listed cfg env sw mem tr o :
  runs (perform_switchover cfg env sw mem) tr o ->
  forall e h, In e tr -> ev_call e = Sql h SSetWritable -> In h (se_active env).
Proof.
  intros R e h Hin Ec. pose proof (promoted_is_listed _ _ _ _ _ _ R) as F. unfold wr_trace in F.
  rewrite Forall_forall in F. specialize (F e Hin). unfold ProgFacts.ev_ok in F. cbv beta in F. rewrite Ec in F. exact F.
Qed.
