(* C19 in the world model (Env/World.v): what relaxing and restoring the durability settings does to the server. *)
From Coq Require Import ZArith NArith Bool List.
From Mysync Require Import Gtid.Interval Gtid.GtidSet Base.Prog Base.ProgFacts Base.Config Env.World Procs.NodeOps Procs.ActiveNodes Procs.Switchover Procs.Optimization.
Import ListNotations.
Open Scope Z_scope.

Theorem restore_sets_both s1 s2 h rs w : w_host w = h ->
  wout (wrun (set_repl_settings s1 s2 h rs) w) = Done None /\
  s_flush (w_srv (wworld (wrun (set_repl_settings s1 s2 h rs) w))) = fst rs /\
  s_sync (w_srv (wworld (wrun (set_repl_settings s1 s2 h rs) w))) = snd rs.
Proof.
  intros <-. unfold set_repl_settings, exec_.
  repeat (first [rewrite N.eqb_refl | progress cbn [wrun wstep bind srv_step fst snd w_host w_srv with_durability s_flush s_sync wout wworld]]).
  auto.
Qed.

Theorem relax_sets_both h w : w_host w = h ->
  wout (wrun (optimize_replication h) w) = Done None /\
  s_flush (w_srv (wworld (wrun (optimize_replication h) w))) = 2 /\
  s_sync (w_srv (wworld (wrun (optimize_replication h) w))) = 1000.
Proof.
  intros <-. unfold optimize_replication, exec_.
  repeat (first [rewrite N.eqb_refl | progress cbn [wrun wstep bind srv_step fst snd w_host w_srv with_durability s_flush s_sync wout wworld]]).
  auto.
Qed.

(* the round trip: a server relaxed by mysync and then restored to the master's settings runs with exactly those, and
   nothing else on it has changed compared with setting them directly *)
Theorem relax_then_restore s1 s2 h rs w : w_host w = h ->
  w_srv (wworld (wrun (set_repl_settings s1 s2 h rs) (wworld (wrun (optimize_replication h) w)))) =
  with_durability (w_srv w) (fst rs) (snd rs).
Proof.
  intros <-. unfold set_repl_settings, optimize_replication, exec_.
  repeat (first [rewrite N.eqb_refl | progress cbn [wrun wstep bind srv_step fst snd w_host w_srv with_durability s_flush s_sync wout wworld
    s_ro s_sro s_offline s_chan s_semi_m s_semi_s s_wait s_exec s_retr]]).
  reflexivity.
Qed.
