(* Completeness of MysqlGTIDSet.Equal on well-formed sets: sets with the same transactions are Equal.
   (Soundness is set_equal_sound in GtidProofs.v.)  Needed for the "then with less lag" tie-break of C14. *)
From Coq Require Import ZArith NArith Bool List Lia.
From Mysync Require Import Gtid.Interval Gtid.GtidSet Proofs.IntervalProofs Proofs.GtidProofs.
Import ListNotations.
Open Scope Z_scope.

Lemma nodup_same_length {X} (a b : list X) : NoDup a -> NoDup b -> incl a b -> incl b a -> length a = length b.
Proof.
  intros Ha Hb Hab Hba. apply Nat.le_antisymm; apply NoDup_incl_length; assumption.
Qed.

Lemma same_key s o u sm : wf s -> wf o -> same s o -> lookup u s = Some sm -> exists om, lookup u o = Some om.
Proof.
  intros Hs Ho Hsame Ls.
  destruct (wf_entry _ _ _ Hs Ls) as (Hne & _ & _). destruct sm as [|[t sl] r]; [contradiction|].
  assert (lookup t ((t, sl) :: r) = Some sl) as Lt by (cbn; rewrite N.eqb_refl; reflexivity).
  destruct (wf_tag_witness s u _ t sl Hs Ls Lt) as [g Hg]. rewrite (Hsame u t g) in Hg.
  apply gmem_true in Hg. destruct Hg as (om & _ & Lo & _). exists om. exact Lo.
Qed.

Lemma same_tag s o u sm om t i : wf s -> wf o -> same s o -> lookup u s = Some sm -> lookup u o = Some om ->
  lookup t sm = Some i -> lookup t om = Some i.
Proof.
  intros Hs Ho Hsame Ls Lo Lt.
  destruct (wf_tag_witness s u sm t i Hs Ls Lt) as [g Hg]. pose proof Hg as Hg2. rewrite (Hsame u t g) in Hg2.
  apply gmem_true in Hg2. destruct Hg2 as (om' & j & Lo' & Ltj & _). rewrite Lo in Lo'. inversion Lo'; subst om'.
  rewrite Ltj. f_equal. symmetry.
  destruct (wf_slice _ _ _ (wf_entry _ _ _ Hs Ls) Lt) as [_ Ni]. destruct (wf_slice _ _ _ (wf_entry _ _ _ Ho Lo) Ltj) as [_ Nj].
  apply normalized_ext; [exact Ni|exact Nj|]. intros g'.
  pose proof (Hsame u t g') as E. unfold gmem in E. rewrite Ls, Lo, Lt, Ltj in E. exact E.
Qed.

Theorem set_equal_complete s o : wf s -> wf o -> same s o -> set_equal s o = true.
Proof.
  intros Hs Ho Hsame. unfold set_equal. apply andb_true_iff. split.
  - apply Nat.eqb_eq. rewrite <- (map_length fst s), <- (map_length fst o).
    apply nodup_same_length; [apply Hs|apply Ho| |].
    + intros u Hu. apply in_map_iff in Hu. destruct Hu as ([u' sm] & <- & Hi). cbn.
      assert (lookup u' s = Some sm) as Ls by (apply In_lookup; [apply Hs|exact Hi]).
      destruct (same_key s o u' sm Hs Ho Hsame Ls) as [om Lo]. eapply lookup_some_key; eauto.
    + intros u Hu. apply in_map_iff in Hu. destruct Hu as ([u' om] & <- & Hi). cbn.
      assert (lookup u' o = Some om) as Lo by (apply In_lookup; [apply Ho|exact Hi]).
      destruct (same_key o s u' om Ho Hs (same_sym _ _ Hsame) Lo) as [sm Ls]. eapply lookup_some_key; eauto.
  - apply forallb_forall. intros [u sm] Hi.
    assert (lookup u s = Some sm) as Ls by (apply In_lookup; [apply Hs|exact Hi]).
    destruct (same_key s o u sm Hs Ho Hsame Ls) as [om Lo]. rewrite Lo.
    destruct (wf_entry _ _ _ Hs Ls) as (_ & Nds & _). destruct (wf_entry _ _ _ Ho Lo) as (_ & Ndo & _).
    apply andb_true_iff. split.
    + apply Nat.eqb_eq. rewrite <- (map_length fst sm), <- (map_length fst om).
      apply nodup_same_length; [exact Nds|exact Ndo| |].
      * intros t Ht. apply in_map_iff in Ht. destruct Ht as ([t' i] & <- & Hti). cbn.
        assert (lookup t' sm = Some i) as Lt by (apply In_lookup; [exact Nds|exact Hti]).
        pose proof (same_tag s o u sm om t' i Hs Ho Hsame Ls Lo Lt) as K. eapply lookup_some_key; eauto.
      * intros t Ht. apply in_map_iff in Ht. destruct Ht as ([t' j] & <- & Htj). cbn.
        assert (lookup t' om = Some j) as Lt by (apply In_lookup; [exact Ndo|exact Htj]).
        pose proof (same_tag o s u om sm t' j Ho Hs (same_sym _ _ Hsame) Lo Ls Lt) as K. eapply lookup_some_key; eauto.
    + apply forallb_forall. intros [t i] Hti.
      assert (lookup t sm = Some i) as Lt by (apply In_lookup; [exact Nds|exact Hti]).
      pose proof (same_tag s o u sm om t i Hs Ho Hsame Ls Lo Lt) as K. unfold lookup_or_nil. rewrite K. apply slice_equal_eq. reflexivity.
Qed.

Corollary set_equal_iff s o : wf s -> wf o -> (set_equal s o = true <-> same s o).
Proof. intros Hs Ho. split; [apply set_equal_sound; assumption|apply set_equal_complete; assumption]. Qed.
