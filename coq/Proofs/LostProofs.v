From Coq Require Import ZArith NArith Bool List Lia.
From Mysync Require Import Gtid.Interval Gtid.GtidSet Base.Prog Base.ProgFacts Base.Config Procs.NodeOps Procs.Lost Proofs.NodeOpsProofs.
Import ListNotations.
Open Scope Z_scope.

(* what the lost-state handler may ever do: read anything; on the LOCAL node
   only: make it read-only, cut sessions (offline), disable semi-sync, kill
   sessions.  Nothing else - no coordination write, nothing on another host. *)
Definition lost_call_ok (local : host) (c : call) : Prop :=
  match c with
  | Sql h st =>
      if stmt_reads st then True
      else match st with
           | SSetRO _ | SSetOffline | SSemiDisable | SKill _ => h = local
           | _ => False
           end
  | DcsConnected | Now | Peek _ => True
  | _ => False
  end.

Lemma ac_probe cfg local h : allcalls (fun _ c => lost_call_ok local c) (probe_replica cfg local h).
Proof.
  unfold probe_replica. apply allcalls_bind; [apply ac_replica_status; exact I|]. intros [st e].
  destruct e; [exact I|]. destruct st as [rs|]; [|exact I].
  destruct (negb (rs_io rs && rs_sql rs)); [exact I|]. destruct (negb (N.eqb (rs_source rs) local)); [exact I|].
  destruct (negb (c_semi_sync cfg)); [exact I|].
  apply allcalls_bind; [apply ac_semi_sync_status; exact I|]. intros [[[m sl] w] e2]. destruct e2; [exact I|]. destruct sl; exact I.
Qed.

Lemma ac_check_ha cfg env : allcalls (fun _ c => lost_call_ok (le_local env) c) (check_ha_replicas_running cfg env).
Proof.
  unfold check_ha_replicas_running. cbn [allcalls]. split.
  - apply (allcalls_branches_map _ (le_ha_hosts env) (fun h => h)). intros h _. apply ac_probe.
  - intros rs. destruct (c_semi_sync cfg); [|exact I].
    apply allcalls_bind; [apply ac_semi_sync_status; exact I|]. intros [[[m sl] w] e]. destruct e; exact I.
Qed.

Lemma ac_force local : allcalls (fun _ c => lost_call_ok local c) (set_read_only_with_force 64 local true).
Proof. apply ac_set_read_only_with_force; cbn; auto. Qed.

Lemma ac_lost_act local is_master d : allcalls (fun _ c => lost_call_ok local c) (lost_act local is_master d).
Proof.
  destruct d as [|la|la]; cbn [lost_act]; try exact I. destruct is_master.
  - unfold fence_master. apply allcalls_bind; [apply ac_force|]. intros e.
    destruct (negb (lost_continue e)); [exact I|].
    apply allcalls_bind; [apply ac_is_waiting_ack; exact I|]. intros [blocked e2]. destruct e2; [exact I|].
    destruct blocked.
    + apply allcalls_bind.
      * unfold stop_replication_on_master. apply allcalls_bind; [apply ac_exec; cbn; reflexivity|].
        intros [x|]; [exact I|]. apply ac_exec; cbn; reflexivity.
      * intros [x|]; [exact I|]. apply allcalls_bind; [apply ac_force|]. intros [y|]; [exact I|].
        apply allcalls_bind; [apply ac_gtid_executed; exact I|]. intros _. exact I.
    + apply allcalls_bind; [apply ac_gtid_executed; exact I|]. intros _. exact I.
  - unfold fence_replica. apply allcalls_bind; [apply ac_set_read_only_once; cbn; auto|]. intros _.
    apply allcalls_bind; [apply ac_gtid_executed; exact I|]. intros _. exact I.
Qed.

Theorem state_lost_allcalls cfg env : allcalls (fun _ c => lost_call_ok (le_local env) c) (state_lost cfg env).
Proof.
  unfold state_lost. split; [exact I|]. intros c.
  assert (G : allcalls (fun _ c0 => lost_call_ok (le_local env) c0)
    (if lost_static_noop cfg env then Ret (StLost, le_lost_at env)
     else ns <- get_node_state (le_local env) (le_local_is_cascade env);;
          rr <- check_ha_replicas_running cfg env;;
          (let '(repl_running, has_unreach) := rr in
           if ns_is_master ns && repl_running then Ret (StLost, None)
           else Do 287 Now (fun tn => let now := match tn with RZ z => z | _ => 0 end in
                Do 289 Now (fun tn2 => let now2 := match tn2 with RZ z => z | _ => 0 end in
                lost_act (le_local env) (ns_is_master ns) (lost_decide cfg env (ns_is_master ns) repl_running has_unreach now now2)))))).
  { destruct (lost_static_noop cfg env); [exact I|].
    apply allcalls_bind; [apply ac_get_node_state; unfold gns_calls_ok; cbn; tauto|]. intros ns.
    apply allcalls_bind; [apply ac_check_ha|]. intros [rr hu].
    destruct (ns_is_master ns && rr); [exact I|].
    split; [exact I|]. intros tn. split; [exact I|]. intros tn2. apply ac_lost_act. }
  destruct c; try exact G. destruct b; [exact I|exact G].
Qed.

Theorem state_lost_trace_ok cfg env tr o : runs (state_lost cfg env) tr o ->
  Forall (fun e => lost_call_ok (le_local env) (ev_call e)) tr.
Proof.
  intros H. pose proof (allcalls_sound _ _ (state_lost_allcalls cfg env) tr o H) as F.
  eapply Forall_impl; [|exact F]. intros e He. exact He.
Qed.

(* no-op cases: exactly one call (the connectivity test) and the node is left alone *)
Theorem state_lost_noop cfg env tr o : lost_static_noop cfg env = true ->
  runs (state_lost cfg env) tr o ->
  exists r, tr = [{| ev_site := 260; ev_call := DcsConnected; ev_resp := r |}] /\
            (o = Done (StCandidate, None) \/ o = Done (StLost, le_lost_at env)).
Proof.
  intros Hn H. unfold state_lost in H. cbn [runs] in H. destruct tr as [|e tr']; [destruct H|].
  destruct H as (Hs & Hc & Hr). rewrite Hn in Hr.
  exists (ev_resp e). destruct e as [s c r]. cbn in *. subst s c.
  destruct r; cbn in Hr; try (destruct Hr as [-> ->]; split; [reflexivity|right; reflexivity]).
  destruct b; destruct Hr as [-> ->]; split; try reflexivity; [left|right]; reflexivity.
Qed.

(* the decision *)
Theorem lost_decide_fence_iff cfg env is_master repl_running has_unreach now now2 :
  (exists la, lost_decide cfg env is_master repl_running has_unreach now now2 = LdFence la) <->
  (is_master && repl_running = false) /\
  (has_unreach = false \/
   now2 - (match le_lost_at env with Some t => t | None => now end) > c_inactivation_delay cfg).
Proof.
  unfold lost_decide. destruct (is_master && repl_running) eqn:E.
  - split; [intros [la H]; discriminate|intros [H _]; discriminate].
  - destruct has_unreach; cbn [andb].
    + destruct (le_lost_at env) as [t|].
      * destruct (Z.leb_spec (now2 - t) (c_inactivation_delay cfg)) as [Hle|Hgt]; split.
        -- intros [la K]; discriminate.
        -- intros [_ [K|K]]; [discriminate|lia].
        -- intros _. split; [reflexivity|right; lia].
        -- intros _. eauto.
      * destruct (Z.leb_spec (now2 - now) (c_inactivation_delay cfg)) as [Hle|Hgt]; split.
        -- intros [la K]; discriminate.
        -- intros [_ [K|K]]; [discriminate|lia].
        -- intros _. split; [reflexivity|right; lia].
        -- intros _. eauto.
    + split; [intros _; split; [reflexivity|left; reflexivity]|intros _; eauto].
Qed.

Theorem lost_decide_postpone_bounded cfg env is_master repl_running has_unreach now now2 la :
  lost_decide cfg env is_master repl_running has_unreach now now2 = LdPostpone la ->
  has_unreach = true /\ exists t, la = Some t /\ now2 - t <= c_inactivation_delay cfg.
Proof.
  unfold lost_decide. destruct (is_master && repl_running); [discriminate|].
  destruct has_unreach; cbn [andb]; [|discriminate].
  destruct (le_lost_at env) as [t|].
  - destruct (Z.leb_spec (now2 - t) (c_inactivation_delay cfg)); [|discriminate]. intros E; inversion E. split; [reflexivity|eauto].
  - destruct (Z.leb_spec (now2 - now) (c_inactivation_delay cfg)); [|discriminate]. intros E; inversion E. split; [reflexivity|eauto].
Qed.

(* acting on the decision: a read-only statement is issued iff the decision is to fence *)
Definition is_set_ro (local : host) (c : call) : Prop := exists s, c = Sql local (SSetRO s).

Theorem lost_act_no_fence local is_master d : (forall la, d <> LdFence la) ->
  lost_act local is_master d = Ret (StLost, match d with LdPostpone la => la | _ => None end).
Proof. destruct d as [|la|la]; intros H; [reflexivity|reflexivity|exfalso; eapply H; reflexivity]. Qed.

Theorem lost_act_fence_starts_with_read_only local is_master la tr o :
  runs (lost_act local is_master (LdFence la)) tr o ->
  exists e tr', tr = e :: tr' /\ ev_call e = Sql local (SSetRO true).
Proof.
  intros H. eapply runs_head; [|exact H]. destruct is_master; reflexivity.
Qed.

(* how the live group is counted *)
Theorem repl_running_spec_semisync (available w : Z) : (w <=? available) = true <-> w <= available.
Proof. apply Z.leb_le. Qed.
