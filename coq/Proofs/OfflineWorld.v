(* C17 in the world model (Env/World.v): where taking a lagging replica offline leads. *)
From Coq Require Import ZArith NArith Bool List.
From Mysync Require Import Gtid.Interval Gtid.GtidSet Base.Prog Base.ProgFacts Base.Config Env.World Procs.NodeOps Procs.ActiveNodes Procs.Switchover Procs.Repair Procs.OfflineMode.
Import ListNotations.
Open Scope Z_scope.

(* an online replica whose lag exceeds the enable threshold, under a writable master, replication not permanently broken,
   the zone cap allowing it: after the pass the server is in offline mode and the zone's counter of this pass went up by one *)
Theorem lagging_replica_goes_offline cfg env h ns ms pending lag w :
  w_host w = h -> slave_lag ns = Some lag -> ns_offline ns = false -> ns_ro ms = false ->
  (c_offline_enable_lag cfg <? lag) = true -> can_set_offline cfg env h pending = true -> perm_broken ns = false ->
  wout (wrun (repair_slave_offline cfg env h ns ms pending) w) =
    Done (assoc_set (zone_of env h) (pending_get (zone_of env h) pending + 1) pending) /\
  s_offline (w_srv (wworld (wrun (repair_slave_offline cfg env h ns ms pending) w))) = true /\
  s_ro (w_srv (wworld (wrun (repair_slave_offline cfg env h ns ms pending) w))) = s_ro (w_srv w).
Proof.
  intros <- Hl Ho Hm Hg Hc Hb. unfold repair_slave_offline. rewrite Hl, Ho, Hm, Hg, Hc, Hb. cbn [andb negb].
  unfold exec_, opt_enable.
  repeat (first [rewrite N.eqb_refl | progress cbn [wrun wstep bind srv_step fst snd w_host w_srv with_offline s_offline s_ro wout wworld negb]]).
  auto.
Qed.

(* a replica that is online and not lagging beyond the threshold is not touched *)
Theorem healthy_replica_stays_online cfg env h ns ms pending lag w :
  slave_lag ns = Some lag -> ns_offline ns = false -> (c_offline_enable_lag cfg <? lag) = false -> perm_broken ns = false ->
  wrun (repair_slave_offline cfg env h ns ms pending) w = (Done pending, w, []).
Proof.
  intros Hl Ho Hg Hb. unfold repair_slave_offline. rewrite Hl, Ho, Hg, Hb. cbn [andb negb]. rewrite andb_false_r. cbn [bind wrun negb]. reflexivity.
Qed.
