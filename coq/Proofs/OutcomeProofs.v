(* The success record of a switch request (last_switch) is written only by an iteration whose
   performSwitchover made the promoted host writable and recorded it as master, both answered OK. *)
From Coq Require Import ZArith NArith Bool List Lia.
From Mysync Require Import Gtid.Interval Gtid.GtidSet Pure.Quorum Base.Prog Base.ProgFacts Base.Hoare Base.Config
  Procs.NodeOps Procs.ActiveNodes Procs.Switchover Procs.Manager Proofs.NodeOpsProofs Proofs.SwitchoverProofs Proofs.MasterLast Proofs.ManagerProofs.
Import ListNotations.
Open Scope Z_scope.

Definition no_success_record (tr : trace) : Prop := Forall (fun e => forall v, ev_call e <> DcsSet PLastSwitch v) tr.

Lemma nsr_of_calm {A} (p : prog A) tr o : allcalls (fun _ c => calmb c = true) p -> runs p tr o -> no_success_record tr.
Proof.
  intros H R. pose proof (allcalls_sound _ p H tr o R) as F. eapply Forall_impl; [|exact F].
  intros e K v E. unfold ev_ok in K. rewrite E in K. discriminate K.
Qed.
Lemma nsr_app a b : no_success_record a -> no_success_record b -> no_success_record (a ++ b).
Proof. intros; apply Forall_app; split; assumption. Qed.

Lemma finish_false_calm sw : allcalls (fun _ c => calmb c = true) (finish_switchover sw false).
Proof. dapp d_finish. Qed.
Lemma fail_calm sw : allcalls (fun _ c => calmb c = true) (fail_switchover sw).
Proof. unfold fail_switchover, now_, dcs_set_. pac. Qed.
Lemma start_calm sw : allcalls (fun _ c => calmb c = true) (start_switchover sw).
Proof.
  unfold start_switchover. apply allcalls_bind; [unfold now_; pac|]. intros t.
  apply allcalls_bind.
  { destruct (negb (is_failover sw)); [|exact I]. unfold start_timing_at.
    destruct (sw_initiated_at sw =? 0); [dapp d_timing_now|unfold dcs_set_; pac]. }
  intros _. unfold dcs_set_. pac.
Qed.

Definition promoted_and_recorded (tr : trace) : Prop :=
  exists h w x, In w tr /\ ev_call w = Sql h SSetWritable /\ ev_resp w = ROk /\
                In x tr /\ ev_call x = DcsSet PMaster (VHost h) /\ ev_resp x = ROk.

Lemma par_app_l a b : promoted_and_recorded a -> promoted_and_recorded (a ++ b).
Proof. intros (h & w & x & H1 & H2 & H3 & H4 & H5 & H6). exists h, w, x. repeat split; auto; apply in_or_app; left; assumption. Qed.
Lemma par_app_r a b : promoted_and_recorded b -> promoted_and_recorded (a ++ b).
Proof. intros (h & w & x & H1 & H2 & H3 & H4 & H5 & H6). exists h, w, x. repeat split; auto; apply in_or_app; right; assumption. Qed.

Theorem success_record_means_promoted cfg env m cs active master sw tr o :
  runs (handle_switchover cfg env m cs active master sw) tr o ->
  no_success_record tr \/ promoted_and_recorded tr.
Proof.
  unfold handle_switchover. intros H. apply run_now in H. destruct H as (e0 & tr0 & -> & Ec & H).
  assert (N0 : no_success_record [e0]) by (constructor; [intros v E; rewrite Ec in E; discriminate E|constructor]).
  assert (LIFT : no_success_record tr0 \/ promoted_and_recorded tr0 -> no_success_record (e0 :: tr0) \/ promoted_and_recorded (e0 :: tr0)).
  { intros [K|K]; [left; exact (nsr_app [e0] tr0 N0 K)|right; exact (par_app_r [e0] tr0 K)]. }
  apply LIFT. clear LIFT N0.
  match type of H with runs (if ?c then _ else _) _ _ => destruct c end.
  { left. destruct (runs_bind_inv _ _ _ _ H) as [(t1 & t2 & u & R1 & R2 & ->)|(s & R1 & ->)].
    - cbn in R2. destruct R2 as [-> _]. rewrite app_nil_r. exact (nsr_of_calm _ _ _ (finish_false_calm sw) R1).
    - exact (nsr_of_calm _ _ _ (finish_false_calm sw) R1). }
  destruct (approve_switchover cfg sw active cs).
  { left. destruct (runs_bind_inv _ _ _ _ H) as [(t1 & t2 & u & R1 & R2 & ->)|(s & R1 & ->)].
    - cbn in R2. destruct R2 as [-> _]. rewrite app_nil_r. exact (nsr_of_calm _ _ _ (finish_false_calm sw) R1).
    - exact (nsr_of_calm _ _ _ (finish_false_calm sw) R1). }
  destruct (runs_bind_inv _ _ _ _ H) as [(t1 & t2 & st & R1 & R2 & ->)|(s & R1 & ->)].
  2:{ left. exact (nsr_of_calm _ _ _ (start_calm sw) R1). }
  pose proof (nsr_of_calm _ _ _ (start_calm sw) R1) as N1.
  destruct st as [sw1 e]. destruct e as [x|].
  { cbn in R2. destruct R2 as [-> _]. left. rewrite app_nil_r. exact N1. }
  destruct (runs_bind_inv _ _ _ _ R2) as [(p1 & p2 & r & P1 & P2 & ->)|(s & P1 & ->)].
  2:{ left. apply nsr_app; [exact N1|]. exact (switchover_never_records_success _ _ _ _ _ _ P1). }
  pose proof (switchover_never_records_success _ _ _ _ _ _ P1) as N2.
  destruct (lock_lost (fst r)).
  { cbn in P2. destruct P2 as [-> _]. left. rewrite app_nil_r. apply nsr_app; assumption. }
  cbn [runs] in P2. destruct p2 as [|g p3]; [destruct P2|]. destruct P2 as (_ & Eg & P2).
  assert (Ng : no_success_record [g]) by (constructor; [intros v E; rewrite Eg in E; discriminate E|constructor]).
  assert (REST : forall q (B : Type) (oo : outcome B) (pp : prog B), allcalls (fun _ c => calmb c = true) pp -> runs pp q oo ->
            no_success_record (t1 ++ p1 ++ g :: q)).
  { intros q B oo pp Hc Rq. apply nsr_app; [exact N1|]. apply nsr_app; [exact N2|]. apply (nsr_app [g] q Ng). exact (nsr_of_calm _ _ _ Hc Rq). }
  assert (DONE : forall (mm : mgr_mem), runs (Ret mm) p3 o -> no_success_record (t1 ++ p1 ++ g :: p3)).
  { intros mm Rr. cbn in Rr. destruct Rr as [-> _]. apply nsr_app; [exact N1|]. apply nsr_app; [exact N2|]. exact Ng. }
  assert (FAIL : runs (fail_switchover sw1 ;;; Ret (with_an m (snd r))) p3 o -> no_success_record (t1 ++ p1 ++ g :: p3)).
  { intros Rf. destruct (runs_bind_inv _ _ _ _ Rf) as [(f1 & f2 & u & F1 & F2 & ->)|(s & F1 & ->)].
    - cbn in F2. destruct F2 as [-> _]. rewrite app_nil_r. exact (REST _ _ _ _ (fail_calm sw1) F1).
    - exact (REST _ _ _ _ (fail_calm sw1) F1). }
  assert (FIN : fst r = SwOk -> promoted_and_recorded (t1 ++ p1 ++ g :: p3)).
  { intros Ok. destruct r as [re mem']. cbn in Ok. subst re.
    destruct (success_means_master_recorded _ _ _ _ _ _ P1) as (q1 & x & h & w & -> & Hx & Hxr & Hw & Hwc & Hwr).
    apply par_app_r. apply par_app_l. exists h, w, x. repeat split; auto.
    - apply in_or_app; left; exact Hw.
    - apply in_or_app; right; left; reflexivity. }
  destruct (ev_resp g) as [er| | | | | | | | | | | | | |] eqn:Er;
    try (destruct (fst r) eqn:Efr; [right; apply FIN; reflexivity|left; apply FAIL; exact P2]).
  destruct er; try (destruct (fst r) eqn:Efr; [right; apply FIN; reflexivity|left; apply FAIL; exact P2]).
  left. exact (DONE _ P2).
Qed.
