From Coq Require Import ZArith NArith Bool List Lia.
From Mysync Require Import Dcs.ZkModel.
Import ListNotations.
Open Scope Z_scope.

(* ---------------------------------------------------------------- trees *)
Lemma path_eqb_eq a : forall b, path_eqb a b = true <-> a = b.
Proof.
  induction a as [|x a IH]; destruct b as [|y b]; cbn; split; intros H; try reflexivity; try discriminate.
  - apply andb_true_iff in H. destruct H as [H1 H2]. apply N.eqb_eq in H1. apply IH in H2. subst. reflexivity.
  - inversion H; subst. rewrite N.eqb_refl. cbn. apply IH. reflexivity.
Qed.
Lemma path_eqb_refl a : path_eqb a a = true. Proof. apply path_eqb_eq. reflexivity. Qed.
Lemma path_eqb_neq a b : a <> b -> path_eqb a b = false.
Proof. intros H. destruct (path_eqb a b) eqn:E; [apply path_eqb_eq in E; contradiction|reflexivity]. Qed.
Lemma path_eqb_sym a b : path_eqb a b = path_eqb b a.
Proof. destruct (path_eqb a b) eqn:E; [apply path_eqb_eq in E; subst; rewrite path_eqb_refl; reflexivity|]. destruct (path_eqb b a) eqn:E2; [apply path_eqb_eq in E2; subst; rewrite path_eqb_refl in E; discriminate|reflexivity]. Qed.

Lemma tget_tdel_same t p : tget (tdel t p) p = None.
Proof. induction t as [|[q n] r IH]; [reflexivity|]. cbn. destruct (path_eqb p q) eqn:E; [exact IH|]. cbn. rewrite E. exact IH. Qed.
Lemma tget_tdel_other t p q : p <> q -> tget (tdel t p) q = tget t q.
Proof.
  intros H. induction t as [|[x n] r IH]; [reflexivity|]. cbn. destruct (path_eqb p x) eqn:E.
  - apply path_eqb_eq in E. subst x. rewrite (path_eqb_neq q p) by congruence. exact IH.
  - cbn. destruct (path_eqb q x); [reflexivity|exact IH].
Qed.
Lemma tget_tput_same t p n : tget (tput t p n) p = Some n.
Proof. unfold tput. cbn. rewrite path_eqb_refl. reflexivity. Qed.
Lemma tget_tput_other t p n q : p <> q -> tget (tput t p n) q = tget t q.
Proof. intros H. unfold tput. cbn. rewrite (path_eqb_neq q p) by congruence. apply tget_tdel_other. exact H. Qed.

Fixpoint uniq (t : ztree) : Prop := match t with [] => True | (q, _) :: r => tget r q = None /\ uniq r end.
Lemma tget_none_tdel t p q : tget t q = None -> tget (tdel t p) q = None.
Proof. intros H. destruct (list_eq_dec N.eq_dec p q) as [->|Hn]; [apply tget_tdel_same|rewrite tget_tdel_other by exact Hn; exact H]. Qed.
Lemma uniq_tdel t p : uniq t -> uniq (tdel t p).
Proof.
  induction t as [|[q n] r IH]; [exact (fun x => x)|]. cbn. intros [H1 H2]. destruct (path_eqb p q); [apply IH; exact H2|].
  cbn. split; [apply tget_none_tdel; exact H1|apply IH; exact H2].
Qed.
Lemma uniq_tput t p n : uniq t -> uniq (tput t p n).
Proof. intros H. unfold tput. cbn. split; [apply tget_tdel_same|apply uniq_tdel; exact H]. Qed.
Lemma tget_none_filter (f : path * znode -> bool) t q : tget t q = None -> tget (filter f t) q = None.
Proof.
  induction t as [|[x n] r IH]; [reflexivity|]. cbn. destruct (path_eqb q x) eqn:E; [discriminate|]. intros H.
  destruct (f (x, n)); [cbn; rewrite E; apply IH; exact H|apply IH; exact H].
Qed.
Lemma uniq_filter f t : uniq t -> uniq (filter f t).
Proof.
  induction t as [|[q n] r IH]; [exact (fun x => x)|]. cbn. intros [H1 H2]. destruct (f (q, n)); [|apply IH; exact H2].
  cbn. split; [apply tget_none_filter; exact H1|apply IH; exact H2].
Qed.
Lemma tget_filter (g : znode -> bool) t p : uniq t ->
  tget (filter (fun '(_, n) => g n) t) p = match tget t p with Some n => if g n then Some n else None | None => None end.
Proof.
  induction t as [|[q n] r IH]; [reflexivity|]. cbn. intros [H1 H2]. destruct (path_eqb p q) eqn:E.
  - apply path_eqb_eq in E. subst q. destruct (g n); [cbn; rewrite path_eqb_refl; reflexivity|].
    apply tget_none_filter. exact H1.
  - destruct (g n); [cbn; rewrite E|]; apply IH; exact H2.
Qed.

(* ---------------------------------------------------------------- C15: the data plane *)
Definition texists (st : zstate) (p : path) : Prop := p = [] \/ tget (zs_tree st) p <> None.

Lemma srv_create_exists t p n : snd (srv_create t p n) = ZExists <-> (p = [] \/ tget t p <> None).
Proof.
  unfold srv_create. destruct p as [|x r]; [cbn; split; [left; reflexivity|reflexivity]|].
  destruct (tget t (x :: r)) eqn:E.
  - cbn. split; [right; discriminate|reflexivity].
  - destruct (parent_of (x :: r)) as [|s l]; [cbn; split; [discriminate|intros [H|H]; [discriminate|contradiction]]|].
    destruct (tget t (s :: l)) as [pn|]; [destruct (zn_eph pn)|]; cbn; split; try discriminate; intros [H|H]; try discriminate; contradiction.
Qed.

(* create fails with "exists" exactly when the key exists *)
Theorem create_exists_iff st c rp v eph :
  snd (zstep st (OCreate c rp v eph)) = ZExists <-> texists st (normalize rp).
Proof.
  cbn [zstep]. destruct (srv_create (zs_tree st) (normalize rp) _) as [t' r] eqn:E. cbn [snd].
  replace r with (snd (srv_create (zs_tree st) (normalize rp) {| zn_val := ZJson v; zn_eph := eph_owner st c eph |})) by (rewrite E; reflexivity).
  apply srv_create_exists.
Qed.

(* get distinguishes a missing key from an unparsable one *)
Theorem get_missing_iff st c rp : normalize rp <> [] ->
  (snd (zstep st (OGet c rp)) = ZNotFound <-> tget (zs_tree st) (normalize rp) = None).
Proof.
  intros Hn. cbn [zstep]. destruct (normalize rp) as [|x r] eqn:E; [contradiction|].
  destruct (tget (zs_tree st) (x :: r)) as [n|]; cbn; split; try reflexivity; try discriminate.
  destruct (zn_val n); discriminate.
Qed.
Theorem get_malformed_iff st c rp : normalize rp <> [] ->
  (snd (zstep st (OGet c rp)) = ZMalformed <->
   exists n, tget (zs_tree st) (normalize rp) = Some n /\ (zn_val n = ZGarbage \/ zn_val n = ZEmpty)).
Proof.
  intros Hn. cbn [zstep]. destruct (normalize rp) as [|x r] eqn:E; [contradiction|].
  destruct (tget (zs_tree st) (x :: r)) as [n|]; cbn; split.
  - intros H. exists n. split; [reflexivity|]. destruct (zn_val n); try discriminate; auto.
  - intros (n' & E' & H). inversion E'; subst n'. destruct H as [H|H]; rewrite H; reflexivity.
  - discriminate.
  - intros (n' & E' & _). discriminate.
Qed.
Theorem get_changes_nothing st c rp : fst (zstep st (OGet c rp)) = st.
Proof. cbn [zstep]. destruct (normalize rp); [reflexivity|]. destruct (tget _ _); reflexivity. Qed.

(* delete is idempotent: deleting a missing key succeeds and changes nothing; after a successful delete the key is missing *)
Theorem delete_missing st c rp : normalize rp <> [] -> tget (zs_tree st) (normalize rp) = None ->
  zstep st (ODelete c rp) = (st, ZOk).
Proof. intros Hn H. cbn [zstep]. destruct (normalize rp) as [|x r]; [contradiction|]. rewrite H. reflexivity. Qed.
Theorem delete_then_missing st c rp : snd (zstep st (ODelete c rp)) = ZOk ->
  normalize rp <> [] /\ tget (zs_tree (fst (zstep st (ODelete c rp)))) (normalize rp) = None.
Proof.
  cbn [zstep]. destruct (normalize rp) as [|x r] eqn:E; [cbn; discriminate|].
  destruct (tget (zs_tree st) (x :: r)) eqn:Et; [|cbn; intros _; split; [discriminate|exact Et]].
  destruct (has_children _ _); [cbn; discriminate|]. cbn. intros _. split; [discriminate|apply tget_tdel_same].
Qed.

(* listing the children of a missing key reports "not found" *)
Theorem children_missing_iff st c rp : normalize rp <> [] ->
  (snd (zstep st (OChildren c rp)) = ZNotFound <-> tget (zs_tree st) (normalize rp) = None).
Proof.
  intros Hn. cbn [zstep]. destruct (normalize rp) as [|x r]; [contradiction|].
  destruct (tget (zs_tree st) (x :: r)); cbn; split; try reflexivity; discriminate.
Qed.

(* keys differing only by redundant slashes are the same key *)
Lemma normalize_app a b : normalize (a ++ b) = normalize a ++ normalize b.
Proof. unfold normalize. apply flat_map_app. Qed.
Theorem redundant_slashes_ignored a b : normalize (a ++ None :: b) = normalize (a ++ b).
Proof. rewrite !normalize_app. reflexivity. Qed.
Definition op_with_path (o : zop) (rp : raw_path) : zop :=
  match o with
  | OCreate c _ v e => OCreate c rp v e | OSet c _ v e => OSet c rp v e | OGet c _ => OGet c rp | ODelete c _ => ODelete c rp
  | OChildren c _ => OChildren c rp | OAcquire c _ => OAcquire c rp | ORelease c _ => ORelease c rp | ORawGarbage _ => ORawGarbage rp
  | o => o
  end.
Theorem same_key_same_behaviour st o r1 r2 : normalize r1 = normalize r2 -> zstep st (op_with_path o r1) = zstep st (op_with_path o r2).
Proof. intros H. destruct o; cbn [op_with_path zstep]; rewrite ?H; reflexivity. Qed.

(* set on an existing key overwrites the value and keeps the kind of the key; an ephemeral set on a plain key is refused *)
Theorem set_existing st c rp v eph n : normalize rp <> [] -> tget (zs_tree st) (normalize rp) = Some n ->
  (eph = true /\ zn_eph n = None -> zstep st (OSet c rp v eph) = (st, ZErr)) /\
  (~ (eph = true /\ zn_eph n = None) ->
     snd (zstep st (OSet c rp v eph)) = ZOk /\
     tget (zs_tree (fst (zstep st (OSet c rp v eph)))) (normalize rp) = Some {| zn_val := ZJson v; zn_eph := zn_eph n |}).
Proof.
  intros Hn Ht. cbn [zstep]. destruct (normalize rp) as [|x r] eqn:E; [contradiction|]. rewrite Ht. split.
  - intros [-> He]. rewrite He. reflexivity.
  - intros Hno. destruct eph; [destruct (zn_eph n) eqn:Ee; [|exfalso; apply Hno; auto]|]; cbn [andb fst snd zs_tree with_tree]; (split; [reflexivity|apply tget_tput_same]).
Qed.

(* a plain key is never silently turned into an ephemeral one: an ephemeral set is refused (set_existing), a plain
   set keeps the kind (set_existing), and create on an existing key changes nothing *)
Theorem create_existing_unchanged st c rp v eph : texists st (normalize rp) -> zstep st (OCreate c rp v eph) = (st, ZExists).
Proof.
  intros H. cbn [zstep]. unfold srv_create. destruct (normalize rp) as [|x r]; [destruct st; reflexivity|].
  destruct H as [H|H]; [discriminate|]. destruct (tget (zs_tree st) (x :: r)); [destruct st; reflexivity|contradiction].
Qed.

(* ephemeral keys disappear with the session that created them; everything else stays *)
Theorem expire_removes_ephemerals st c : uniq (zs_tree st) ->
  let s := zc_session (cget (zs_clients st) c) in
  let st' := fst (zstep st (OExpire c)) in
  forall p, tget (zs_tree st') p =
            match tget (zs_tree st) p with
            | Some n => match zn_eph n with Some s' => if N.eqb s' s then None else Some n | None => Some n end
            | None => None
            end.
Proof.
  intros Hu s st' p. subst st'. cbn [zstep fst zs_tree].
  rewrite (tget_filter (fun n => match zn_eph n with Some s0 => negb (N.eqb s0 (zc_session (cget (zs_clients st) c))) | None => true end)) by exact Hu.
  destruct (tget (zs_tree st) p) as [n|]; [|reflexivity]. destruct (zn_eph n) as [s'|]; [|reflexivity]. subst s. destruct (N.eqb s' _); reflexivity.
Qed.

(* ---------------------------------------------------------------- C03: the lock *)
Lemma srv_create_keeps t q m p n : tget t p = Some n -> tget (fst (srv_create t q m)) p = Some n.
Proof.
  intros H. unfold srv_create. destruct q as [|x r]; [exact H|]. destruct (tget t (x :: r)) eqn:Eq; [exact H|].
  assert (NE : (x :: r) <> p) by (intros E'; subst p; rewrite Eq in H; discriminate).
  destruct (parent_of (x :: r)) as [|s l]; [cbn [fst]; rewrite tget_tput_other by exact NE; exact H|].
  destruct (tget t (s :: l)) as [pn|]; [destruct (zn_eph pn)|]; cbn [fst]; rewrite ?tget_tput_other by exact NE; exact H.
Qed.
Lemma srv_create_uniq t q m : uniq t -> uniq (fst (srv_create t q m)).
Proof.
  intros H. unfold srv_create. destruct q as [|x r]; [exact H|]. destruct (tget t (x :: r)); [exact H|].
  destruct (parent_of (x :: r)) as [|s l]; [apply uniq_tput; exact H|].
  destruct (tget t (s :: l)) as [pn|]; [destruct (zn_eph pn)|]; cbn [fst]; try exact H. apply uniq_tput; exact H.
Qed.
(* a node that srv_create adds is exactly the one it was given *)
Lemma srv_create_new t q m p n : tget t p = None -> tget (fst (srv_create t q m)) p = Some n -> p = q /\ n = m.
Proof.
  intros H0 H. unfold srv_create in H. destruct q as [|x r]; [cbn [fst] in H; rewrite H0 in H; discriminate|]. destruct (tget t (x :: r)) eqn:Eq; [cbn [fst] in H; rewrite H0 in H; discriminate|].
  assert (PUT : tget (tput t (x :: r) m) p = Some n -> p = x :: r /\ n = m).
  { intros K. destruct (list_eq_dec N.eq_dec (x :: r) p) as [<-|NE]; [rewrite tget_tput_same in K; inversion K; auto|rewrite tget_tput_other in K by exact NE; rewrite H0 in K; discriminate]. }
  destruct (parent_of (x :: r)) as [|s l]; [cbn [fst] in H; apply PUT; exact H|].
  destruct (tget t (s :: l)) as [pn|]; [destruct (zn_eph pn)|]; cbn [fst] in H; try (rewrite H0 in H; discriminate). apply PUT; exact H.
Qed.

Definition mp_step := (fun '(t, ok) (q : path) =>
     if negb ok then (t, ok) else
     match tget t q with
     | Some _ => (t, true)
     | None => let '(t', r) := srv_create t q {| zn_val := ZEmpty; zn_eph := None |} in (t', match r with ZOk => true | _ => false end)
     end) : ztree * bool -> path -> ztree * bool.
Lemma make_path_unfold t p : make_path t p = fold_left mp_step (prefixes p) (t, true). Proof. reflexivity. Qed.
Lemma mp_fold_keeps l : forall t ok p n, tget t p = Some n -> tget (fst (fold_left mp_step l (t, ok))) p = Some n.
Proof.
  induction l as [|q l IH]; intros t ok p n H; [exact H|]. cbn [fold_left mp_step]. destruct (negb ok); [apply IH; exact H|].
  destruct (tget t q); [apply IH; exact H|]. destruct (srv_create t q _) as [t' r] eqn:E. apply IH.
  replace t' with (fst (srv_create t q {| zn_val := ZEmpty; zn_eph := None |})) by (rewrite E; reflexivity). apply srv_create_keeps. exact H.
Qed.
Lemma mp_fold_uniq l : forall t ok, uniq t -> uniq (fst (fold_left mp_step l (t, ok))).
Proof.
  induction l as [|q l IH]; intros t ok H; [exact H|]. cbn [fold_left mp_step]. destruct (negb ok); [apply IH; exact H|].
  destruct (tget t q); [apply IH; exact H|]. destruct (srv_create t q _) as [t' r] eqn:E. apply IH.
  replace t' with (fst (srv_create t q {| zn_val := ZEmpty; zn_eph := None |})) by (rewrite E; reflexivity). apply srv_create_uniq. exact H.
Qed.
Lemma mp_fold_new l : forall t ok p n, tget t p = None -> tget (fst (fold_left mp_step l (t, ok))) p = Some n -> zn_val n = ZEmpty /\ zn_eph n = None.
Proof.
  induction l as [|q l IH]; intros t ok p n H0 H; [cbn in H; rewrite H0 in H; discriminate|]. cbn [fold_left mp_step] in H. destruct (negb ok); [eapply IH; eauto|].
  destruct (tget t q); [eapply IH; eauto|]. destruct (srv_create t q _) as [t' r] eqn:E.
  assert (Et : t' = fst (srv_create t q {| zn_val := ZEmpty; zn_eph := None |})) by (rewrite E; reflexivity).
  destruct (tget t' p) as [n1|] eqn:E1.
  - rewrite Et in E1. destruct (srv_create_new _ _ _ _ _ H0 E1) as [_ ->]. rewrite (mp_fold_keeps l t' _ p _) in H by (rewrite Et; exact E1). inversion H; subst n. auto.
  - eapply IH; eauto.
Qed.

Lemma cache_get_del_same l p : cache_get (cache_del l p) p = None.
Proof. induction l as [|[q t] r IH]; [reflexivity|]. cbn. destruct (path_eqb p q) eqn:E; cbn; [exact IH|rewrite E; exact IH]. Qed.
Lemma cache_get_del_other l p q : p <> q -> cache_get (cache_del l p) q = cache_get l q.
Proof.
  intros H. induction l as [|[x t] r IH]; [reflexivity|]. cbn. destruct (path_eqb p x) eqn:E; cbn.
  - apply path_eqb_eq in E. subst x. rewrite (path_eqb_neq q p) by congruence. exact IH.
  - destruct (path_eqb q x); [reflexivity|exact IH].
Qed.
Lemma cget_cput_same l c v : cget (cput l c v) c = v.
Proof. induction l as [|[k w] r IH]; cbn; [rewrite N.eqb_refl; reflexivity|]. destruct (N.eqb c k) eqn:E; cbn; rewrite E; [reflexivity|exact IH]. Qed.
Lemma cget_cput_other l c v d : c <> d -> cget (cput l c v) d = cget l d.
Proof.
  intros H. induction l as [|[k w] r IH]; cbn.
  - destruct (N.eqb_spec d c); [congruence|reflexivity].
  - destruct (N.eqb c k) eqn:E; cbn.
    + apply N.eqb_eq in E. subst k. destruct (N.eqb_spec d c); [congruence|reflexivity].
    + destruct (N.eqb d k); [reflexivity|exact IH].
Qed.

(* the invariant that makes the lock exclusive *)
Record lock_inv (cs : list N) (p : path) (st : zstate) : Prop := {
  li_uniq : uniq (zs_tree st);
  li_sessions : forall c1 c2, In c1 cs -> In c2 cs -> c1 <> c2 ->
                zc_session (cget (zs_clients st) c1) <> zc_session (cget (zs_clients st) c2);
  li_fresh : forall c, In c cs -> N.lt (zc_session (cget (zs_clients st) c)) (zs_next st);
  li_owner : forall q n c, tget (zs_tree st) q = Some n -> zn_val n = ZOwner c -> In c cs /\ zn_eph n = Some (zc_session (cget (zs_clients st) c));
  li_cache : forall c t0, In c cs -> cache_get (zc_cache (cget (zs_clients st) c)) p = Some t0 ->
             exists n, tget (zs_tree st) p = Some n /\ zn_val n = ZOwner c }.

Definition op_client (o : zop) : option N :=
  match o with
  | OCreate c _ _ _ | OSet c _ _ _ | OGet c _ | ODelete c _ | OChildren c _ | OAcquire c _ | ORelease c _ | OExpire c | ODrop c => Some c
  | _ => None
  end.
(* mysync touches a lock path only through AcquireLock / ReleaseLock (and reads) *)
Definition wf_op (cs : list N) (p : path) (o : zop) : Prop :=
  match op_client o with Some c => In c cs | None => True end /\
  match o with
  | OCreate _ rp _ _ | OSet _ rp _ _ | ODelete _ rp | ORawGarbage rp => normalize rp <> p
  | _ => True
  end.

Lemma inv_tree_frame cs p st t' :
  lock_inv cs p st -> uniq t' ->
  (forall q n, tget (zs_tree st) q = Some n -> q = p \/ zn_val n <> ZEmpty \/ True -> tget t' q = Some n \/ q <> p) ->
  True.
Proof. intros; exact I. Qed.

(* a data operation elsewhere: existing nodes at p stay, new nodes are plain/ZJson/ZEmpty or the op's own *)
Lemma inv_after_tree cs p st t' :
  lock_inv cs p st -> uniq t' ->
  (forall n, tget (zs_tree st) p = Some n -> tget t' p = Some n) ->
  (forall q n c, tget t' q = Some n -> zn_val n = ZOwner c -> tget (zs_tree st) q = Some n) ->
  lock_inv cs p (with_tree st t').
Proof.
  intros I Hu Hk Hn. destruct I as [I1 I2 I3 I4 I5]. constructor; cbn [with_tree zs_tree zs_clients zs_next].
  - exact Hu.
  - exact I2.
  - exact I3.
  - intros q n c Hq Hv. apply (I4 q n c); [eapply Hn; eauto|exact Hv].
  - intros c t0 Hc Hcache. destruct (I5 c t0 Hc Hcache) as (n & H1 & H2). exists n. split; [apply Hk; exact H1|exact H2].
Qed.

Lemma inv_with_client cs p st c cl' :
  lock_inv cs p st -> zc_session cl' = zc_session (cget (zs_clients st) c) ->
  (forall t0, In c cs -> cache_get (zc_cache cl') p = Some t0 -> exists n, tget (zs_tree st) p = Some n /\ zn_val n = ZOwner c) ->
  lock_inv cs p (with_client st c cl').
Proof.
  intros [I1 I2 I3 I4 I5] Hs Hc. constructor; cbn [with_client zs_tree zs_clients zs_next].
  - exact I1.
  - intros c1 c2 H1 H2 Hne.
    assert (S : forall d, zc_session (cget (cput (zs_clients st) c cl') d) = zc_session (cget (zs_clients st) d)).
    { intros d. destruct (N.eq_dec c d) as [<-|Nd]; [rewrite cget_cput_same; exact Hs|rewrite cget_cput_other by exact Nd; reflexivity]. }
    rewrite !S. apply I2; assumption.
  - intros c1 H1. destruct (N.eq_dec c c1) as [<-|N1]; [rewrite cget_cput_same, Hs; apply I3; exact H1|rewrite cget_cput_other by exact N1; apply I3; exact H1].
  - intros x n c1 Hx Hv. destruct (I4 x n c1 Hx Hv) as [A B]. split; [exact A|].
    destruct (N.eq_dec c c1) as [<-|N1]; [rewrite cget_cput_same, Hs; exact B|rewrite cget_cput_other by exact N1; exact B].
  - intros c1 t0 H1 Hcache. destruct (N.eq_dec c c1) as [<-|N1].
    + rewrite cget_cput_same in Hcache. apply (Hc t0 H1 Hcache).
    + rewrite cget_cput_other in Hcache by exact N1. apply (I5 c1 t0 H1 Hcache).
Qed.

Theorem lock_inv_step cs p st o : lock_inv cs p st -> wf_op cs p o -> lock_inv cs p (fst (zstep st o)).
Proof.
  intros I [Wc Wp]. pose proof I as [I1 I2 I3 I4 I5].
  destruct o; cbn [zstep op_client] in *.
  - (* create *)
    destruct (srv_create (zs_tree st) (normalize p0) _) as [t' r] eqn:E. cbn [fst].
    assert (Et : t' = fst (srv_create (zs_tree st) (normalize p0) {| zn_val := ZJson v; zn_eph := eph_owner st c eph |})) by (rewrite E; reflexivity).
    apply inv_after_tree; [exact I|rewrite Et; apply srv_create_uniq; exact I1| |].
    + intros n Hn. rewrite Et. apply srv_create_keeps. exact Hn.
    + intros q n c0 Hq Hv. destruct (tget (zs_tree st) q) as [n0|] eqn:E0.
      * rewrite Et in Hq. rewrite (srv_create_keeps _ _ _ _ _ E0) in Hq. exact Hq.
      * rewrite Et in Hq. destruct (srv_create_new _ _ _ _ _ E0 Hq) as [_ ->]. discriminate Hv.
  - (* set *)
    destruct (normalize p0) as [|x r] eqn:En; [exact I|].
    destruct (tget (zs_tree st) (x :: r)) as [m|] eqn:Em.
    + destruct (eph && _); [exact I|]. cbn [fst]. apply inv_after_tree; [exact I|apply uniq_tput; exact I1| |].
      * intros n Hn. rewrite tget_tput_other by exact Wp. exact Hn.
      * intros q n c0 Hq Hv. destruct (list_eq_dec N.eq_dec (x :: r) q) as [<-|NE]; [rewrite tget_tput_same in Hq; inversion Hq; subst n; discriminate Hv|].
        rewrite tget_tput_other in Hq by exact NE. exact Hq.
    + rewrite make_path_unfold. destruct (fold_left mp_step _ _) as [t1 ok] eqn:Ef.
      assert (Et1 : t1 = fst (fold_left mp_step (prefixes (parent_of (x :: r))) (zs_tree st, true))) by (rewrite Ef; reflexivity).
      assert (U1 : uniq t1) by (rewrite Et1; apply mp_fold_uniq; exact I1).
      assert (K1 : forall q n, tget (zs_tree st) q = Some n -> tget t1 q = Some n) by (intros q n H; rewrite Et1; apply mp_fold_keeps; exact H).
      assert (N1 : forall q n c0, tget t1 q = Some n -> zn_val n = ZOwner c0 -> tget (zs_tree st) q = Some n).
      { intros q n c0 Hq Hv. destruct (tget (zs_tree st) q) as [n0|] eqn:E0; [rewrite (K1 _ _ E0) in Hq; exact Hq|].
        rewrite Et1 in Hq. destruct (mp_fold_new _ _ _ _ _ E0 Hq) as [Hz _]. rewrite Hz in Hv. discriminate Hv. }
      destruct (negb ok); [cbn [fst]; apply inv_after_tree; [exact I|exact U1|intros n Hn; apply K1; exact Hn|exact N1]|].
      destruct (srv_create t1 (x :: r) _) as [t2 rr] eqn:Ec. cbn [fst].
      assert (Et2 : t2 = fst (srv_create t1 (x :: r) {| zn_val := ZJson v; zn_eph := eph_owner st c eph |})) by (rewrite Ec; reflexivity).
      apply inv_after_tree; [exact I|rewrite Et2; apply srv_create_uniq; exact U1| |].
      * intros n Hn. rewrite Et2. apply srv_create_keeps. apply K1. exact Hn.
      * intros q n c0 Hq Hv. destruct (tget t1 q) as [n0|] eqn:E0.
        -- rewrite Et2 in Hq. rewrite (srv_create_keeps _ _ _ _ _ E0) in Hq. inversion Hq; subst n0. eapply N1; eauto.
        -- rewrite Et2 in Hq. destruct (srv_create_new _ _ _ _ _ E0 Hq) as [_ ->]. discriminate Hv.
  - (* get *) destruct (normalize p0) as [|x r]; [exact I|]. destruct (tget (zs_tree st) (x :: r)); exact I.
  - (* delete *)
    destruct (normalize p0) as [|x r] eqn:En; [exact I|]. destruct (tget (zs_tree st) (x :: r)) eqn:Em; [|exact I].
    destruct (has_children _ _); [exact I|]. cbn [fst]. apply inv_after_tree; [exact I|apply uniq_tdel; exact I1| |].
    + intros n Hn. rewrite tget_tdel_other by exact Wp. exact Hn.
    + intros q n c0 Hq Hv. destruct (list_eq_dec N.eq_dec (x :: r) q) as [<-|NE]; [rewrite tget_tdel_same in Hq; discriminate|].
      rewrite tget_tdel_other in Hq by exact NE. exact Hq.
  - (* children *) destruct (normalize p0) as [|x r]; [exact I|]. destruct (tget (zs_tree st) (x :: r)); exact I.
  - (* acquire *)
    set (q := normalize p0). set (cl := cget (zs_clients st) c).
    destruct (match cache_get (zc_cache cl) q with Some t0 => zs_now st - t0 <? zs_ttl st | None => false end); [exact I|].
    set (cl1 := {| zc_session := zc_session cl; zc_cache := cache_del (zc_cache cl) q |}).
    (* dropping the cache entry keeps the invariant *)
    assert (S1 : lock_inv cs p (with_client st c cl1)).
    { apply inv_with_client; [exact I|reflexivity|]. intros t0 Hc Hcache. cbn [zc_cache cl1] in Hcache.
      destruct (list_eq_dec N.eq_dec q p) as [Eq|Nq]; [rewrite Eq, cache_get_del_same in Hcache; discriminate|].
      rewrite cache_get_del_other in Hcache by exact Nq. apply (I5 c t0 Hc Hcache). }
    (* re-adding it when the node is the client's own *)
    assert (HOLD : forall st2, lock_inv cs p st2 -> cget (zs_clients st2) c = cl1 ->
              (exists n, tget (zs_tree st2) q = Some n /\ zn_val n = ZOwner c) ->
              lock_inv cs p (with_client st2 c {| zc_session := zc_session cl1; zc_cache := (q, zs_now st2) :: zc_cache cl1 |})).
    { intros st2 J Hcl Hnode. apply inv_with_client; [exact J|rewrite Hcl; reflexivity|]. intros t0 Hc Hcache. cbn [zc_cache cache_get] in Hcache.
      destruct (path_eqb p q) eqn:Epq.
      - apply path_eqb_eq in Epq. rewrite Epq. exact Hnode.
      - destruct J as [J1 J2 J3 J4 J5]. apply (J5 c t0 Hc). rewrite Hcl. exact Hcache. }
    assert (CL1 : cget (zs_clients (with_client st c cl1)) c = cl1) by (cbn; apply cget_cput_same).
    destruct (tget (zs_tree st) q) as [m|] eqn:Em.
    + destruct (zn_val m) eqn:Ev; try exact S1. destruct (N.eqb_spec c c0) as [<-|Nc]; [|exact S1]. cbn [fst].
      apply HOLD; [exact S1|exact CL1|exists m; auto].
    + destruct (srv_create (zs_tree st) q _) as [t' rr] eqn:Ec.
      assert (Et : t' = fst (srv_create (zs_tree st) q {| zn_val := self_owner c; zn_eph := Some (zc_session cl) |})) by (rewrite Ec; reflexivity).
      destruct rr eqn:Err; try exact S1. cbn [fst].
      (* the node was created: it is the client's own, under its current session *)
      assert (NEW : tget t' q = Some {| zn_val := self_owner c; zn_eph := Some (zc_session cl) |}).
      { rewrite Et. unfold srv_create in *. destruct q as [|x r]; [inversion Ec|]. rewrite Em in *.
        destruct (parent_of (x :: r)) as [|s l]; [cbn [fst]; apply tget_tput_same|].
        destruct (tget (zs_tree st) (s :: l)) as [pn|]; [destruct (zn_eph pn)|]; try (inversion Ec; fail). cbn [fst]. apply tget_tput_same. }
      assert (S2 : lock_inv cs p (with_tree (with_client st c cl1) t')).
      { destruct S1 as [J1 J2 J3 J4 J5]. constructor; cbn [with_tree with_client zs_tree zs_clients zs_next] in *.
        - rewrite Et. apply srv_create_uniq. exact I1.
        - exact J2.
        - exact J3.
        - intros x n c1 Hx Hv. destruct (tget (zs_tree st) x) as [n0|] eqn:E0.
          + rewrite Et in Hx. rewrite (srv_create_keeps _ _ _ _ _ E0) in Hx. inversion Hx; subst n0. apply (J4 x n c1 E0 Hv).
          + rewrite Et in Hx. destruct (srv_create_new _ _ _ _ _ E0 Hx) as [-> ->]. cbn in Hv. inversion Hv; subst c1. split; [exact Wc|].
            cbn [zn_eph]. rewrite cget_cput_same. reflexivity.
        - intros c1 t0 H1 Hcache. destruct (J5 c1 t0 H1 Hcache) as (n & A & B). exists n. split; [rewrite Et; apply srv_create_keeps; exact A|exact B]. }
      apply (HOLD (with_tree (with_client st c cl1) t')); [exact S2|exact CL1|]. eexists. split; [exact NEW|reflexivity].
  - (* release *)
    set (q := normalize p0). set (cl := cget (zs_clients st) c).
    set (cl1 := {| zc_session := zc_session cl; zc_cache := cache_del (zc_cache cl) q |}).
    assert (S1 : lock_inv cs p (with_client st c cl1)).
    { apply inv_with_client; [exact I|reflexivity|]. intros t0 Hc Hcache. cbn [zc_cache cl1] in Hcache.
      destruct (list_eq_dec N.eq_dec q p) as [Eq|Nq]; [rewrite Eq, cache_get_del_same in Hcache; discriminate|].
      rewrite cache_get_del_other in Hcache by exact Nq. apply (I5 c t0 Hc Hcache). }
    destruct (tget (zs_tree st) q) as [m|] eqn:Em; [|exact S1].
    destruct (zn_val m) eqn:Ev; try exact S1. destruct (N.eqb c c0 && negb (has_children (zs_tree st) q)) eqn:Eb; [|exact S1].
    apply andb_true_iff in Eb. destruct Eb as [Eb _]. apply N.eqb_eq in Eb. subst c0. cbn [fst].
    destruct S1 as [J1 J2 J3 J4 J5]. constructor; cbn [with_tree with_client zs_tree zs_clients zs_next] in *.
    + apply uniq_tdel. exact I1.
    + exact J2.
    + exact J3.
    + intros x n c1 Hx Hv. destruct (list_eq_dec N.eq_dec q x) as [<-|NE]; [rewrite tget_tdel_same in Hx; discriminate|].
      rewrite tget_tdel_other in Hx by exact NE. apply (J4 x n c1 Hx Hv).
    + intros c1 t0 H1 Hcache. destruct (J5 c1 t0 H1 Hcache) as (n & A & B).
      destruct (list_eq_dec N.eq_dec q p) as [Eq|Nq].
      * (* the released node was p: only its owner c could have it cached, and c's entry was just dropped *)
        exfalso. rewrite <- Eq in A. rewrite Em in A. inversion A; subst n. rewrite Ev in B. inversion B; subst c1.
        rewrite cget_cput_same in Hcache. cbn [zc_cache cl1] in Hcache. rewrite <- Eq, cache_get_del_same in Hcache. discriminate.
      * exists n. split; [rewrite tget_tdel_other by exact Nq; exact A|exact B].
  - (* expire *)
    cbn [fst]. set (s := zc_session (cget (zs_clients st) c)).
    set (g := fun n : znode => match zn_eph n with Some s0 => negb (N.eqb s0 s) | None => true end).
    constructor; cbn [zs_tree zs_clients zs_next].
    + apply uniq_filter. exact I1.
    + intros c1 c2 H1 H2 Hne. destruct (N.eq_dec c c1) as [<-|N1]; [rewrite cget_cput_same|rewrite cget_cput_other by exact N1];
        (destruct (N.eq_dec c c2) as [<-|N2]; [rewrite cget_cput_same|rewrite cget_cput_other by exact N2]); cbn [zc_session]; try (apply I2; assumption); try contradiction.
      * intros E. pose proof (I3 c2 H2) as L. rewrite <- E in L. apply N.lt_irrefl in L. exact L.
      * intros E. pose proof (I3 c1 H1) as L. rewrite E in L. apply N.lt_irrefl in L. exact L.
    + intros c1 H1. destruct (N.eq_dec c c1) as [<-|N1]; [rewrite cget_cput_same; cbn; apply N.lt_succ_diag_r|rewrite cget_cput_other by exact N1; apply N.lt_lt_succ_r; apply I3; exact H1].
    + intros x n c1 Hx Hv. rewrite (tget_filter g) in Hx by exact I1. destruct (tget (zs_tree st) x) as [n0|] eqn:E0; [|discriminate].
      destruct (g n0) eqn:Eg; [|discriminate]. inversion Hx; subst n0. destruct (I4 x n c1 E0 Hv) as [A B]. split; [exact A|].
      destruct (N.eq_dec c c1) as [<-|N1]; [|rewrite cget_cput_other by exact N1; exact B].
      exfalso. unfold g in Eg. rewrite B in Eg. subst s. rewrite N.eqb_refl in Eg. discriminate.
    + intros c1 t0 H1 Hcache. destruct (N.eq_dec c c1) as [<-|N1]; [rewrite cget_cput_same in Hcache; discriminate|].
      rewrite cget_cput_other in Hcache by exact N1. destruct (I5 c1 t0 H1 Hcache) as (n & A & B). exists n. split; [|exact B].
      rewrite (tget_filter g) by exact I1. rewrite A. destruct (I4 p n c1 A B) as [_ Be]. unfold g. rewrite Be.
      destruct (N.eqb_spec (zc_session (cget (zs_clients st) c1)) s) as [E|_]; [|reflexivity].
      exfalso. subst s. apply (I2 c1 c H1 Wc); [congruence|exact E].
  - (* advance *) cbn [fst]. destruct I as [J1 J2 J3 J4 J5]. constructor; cbn; assumption.
  - (* foreign bytes *)
    destruct (tget (zs_tree st) (normalize p0)) as [m|] eqn:Em; [|exact I]. cbn [fst]. apply inv_after_tree; [exact I|apply uniq_tput; exact I1| |].
    + intros n Hn. rewrite tget_tput_other by exact Wp. exact Hn.
    + intros q n c0 Hq Hv. destruct (list_eq_dec N.eq_dec (normalize p0) q) as [<-|NE]; [rewrite tget_tput_same in Hq; inversion Hq; subst n; discriminate Hv|].
      rewrite tget_tput_other in Hq by exact NE. exact Hq.
  - (* the connection is cut and re-established: only the beliefs are dropped *)
    cbn [fst]. apply (inv_with_client cs p st c {| zc_session := zc_session (cget (zs_clients st) c); zc_cache := [] |}); [exact I|reflexivity|].
    intros t0 _ H. discriminate H.
Qed.

(* the invariant holds initially and along every well-formed history of any length *)
Lemma lock_inv_init cs p ttl : NoDup cs -> (forall c, In c cs -> N.lt c 100) -> lock_inv cs p (zinit ttl cs).
Proof.
  intros Hnd Hlt.
  assert (G : forall c, In c cs -> cget (map (fun c0 => (c0, {| zc_session := c0; zc_cache := [] |})) cs) c = {| zc_session := c; zc_cache := [] |}).
  { clear. induction cs as [|x r IH]; intros c [].
    - subst x. cbn. rewrite N.eqb_refl. reflexivity.
    - cbn. destruct (N.eqb_spec c x) as [->|Hn]; [reflexivity|apply IH; exact H]. }
  constructor; cbn [zinit zs_tree zs_clients zs_next].
  - exact I.
  - intros c1 c2 H1 H2 Hne. rewrite (G c1 H1), (G c2 H2). cbn. exact Hne.
  - intros c H. rewrite (G c H). cbn. apply Hlt. exact H.
  - intros q n c H. discriminate H.
  - intros c t0 H Hc. rewrite (G c H) in Hc. discriminate Hc.
Qed.

Fixpoint zstates (st : zstate) (ops : list zop) : zstate :=
  match ops with [] => st | o :: r => zstates (fst (zstep st o)) r end.

Theorem lock_inv_reachable cs p ttl ops : NoDup cs -> (forall c, In c cs -> N.lt c 100) ->
  Forall (wf_op cs p) ops -> lock_inv cs p (zstates (zinit ttl cs) ops).
Proof.
  intros Hnd Hlt. generalize (lock_inv_init cs p ttl Hnd Hlt). generalize (zinit ttl cs).
  induction ops as [|o r IH]; intros st I F; [exact I|]. inversion F; subst. cbn [zstates]. apply IH; [apply lock_inv_step; assumption|assumption].
Qed.

(* what "told it holds the lock" implies in a state satisfying the invariant *)
Lemma acquire_true_owner cs p st c rp : lock_inv cs p st -> In c cs -> normalize rp = p ->
  snd (zstep st (OAcquire c rp)) = ZBool true ->
  exists n, tget (zs_tree (fst (zstep st (OAcquire c rp)))) p = Some n /\ zn_val n = ZOwner c.
Proof.
  intros I Hc Hp. pose proof I as [I1 I2 I3 I4 I5]. cbn [zstep]. rewrite Hp.
  destruct (cache_get (zc_cache (cget (zs_clients st) c)) p) as [t0|] eqn:Ecache.
  - destruct (zs_now st - t0 <? zs_ttl st) eqn:Ef.
    + cbn. intros _. apply (I5 c t0 Hc Ecache).
    + destruct (tget (zs_tree st) p) as [m|] eqn:Em.
      * destruct (zn_val m) eqn:Ev; cbn; try discriminate. destruct (N.eqb_spec c c0) as [<-|]; cbn; [|discriminate]. intros _. exists m. auto.
      * exfalso. destruct (I5 c t0 Hc Ecache) as (n & A & _). congruence.
  - destruct (tget (zs_tree st) p) as [m|] eqn:Em.
    + destruct (zn_val m) eqn:Ev; cbn; try discriminate. destruct (N.eqb_spec c c0) as [<-|]; cbn; [|discriminate]. intros _. exists m. auto.
    + destruct (srv_create (zs_tree st) p _) as [t' rr] eqn:Ec. destruct rr; cbn; try discriminate. intros _.
      assert (Et : t' = fst (srv_create (zs_tree st) p {| zn_val := self_owner c; zn_eph := Some (zc_session (cget (zs_clients st) c)) |})) by (rewrite Ec; reflexivity).
      exists {| zn_val := self_owner c; zn_eph := Some (zc_session (cget (zs_clients st) c)) |}. split; [|reflexivity]. rewrite Et. unfold srv_create in *. destruct p as [|x r]; [inversion Ec|]. rewrite Em in *.
      destruct (parent_of (x :: r)) as [|s l]; [cbn [fst]; apply tget_tput_same|].
      destruct (tget (zs_tree st) (s :: l)) as [pn|]; [destruct (zn_eph pn)|]; try (inversion Ec; fail). cbn [fst]. apply tget_tput_same.
Qed.

(* C03: exclusivity - in any reachable state, if one process is told it holds the lock and immediately
   afterwards another one is told so too, they are the same process *)
Theorem lock_is_exclusive cs p ttl ops c1 c2 rp1 rp2 :
  NoDup cs -> (forall c, In c cs -> N.lt c 100) -> Forall (wf_op cs p) ops ->
  In c1 cs -> In c2 cs -> normalize rp1 = p -> normalize rp2 = p ->
  let st := zstates (zinit ttl cs) ops in
  let st1 := fst (zstep st (OAcquire c1 rp1)) in
  snd (zstep st (OAcquire c1 rp1)) = ZBool true ->
  snd (zstep st1 (OAcquire c2 rp2)) = ZBool true ->
  c1 = c2.
Proof.
  intros Hnd Hlt F H1 H2 P1 P2 st st1 A1 A2.
  pose proof (lock_inv_reachable cs p ttl ops Hnd Hlt F) as I. fold st in I.
  assert (I' : lock_inv cs p st1) by (apply lock_inv_step; [exact I|split; [exact H1|exact Logic.I]]).
  destruct (acquire_true_owner cs p st c1 rp1 I H1 P1 A1) as (n1 & T1 & V1). fold st1 in T1.
  destruct (acquire_true_owner cs p st1 c2 rp2 I' H2 P2 A2) as (n2 & T2 & V2).
  (* the second acquire does not replace an existing node *)
  assert (K : tget (zs_tree (fst (zstep st1 (OAcquire c2 rp2)))) p = Some n1).
  { cbn [zstep]. rewrite P2. destruct (match cache_get _ p with Some t0 => _ | None => false end); [exact T1|].
    rewrite T1. destruct (zn_val n1); try exact T1. destruct (N.eqb c2 c); exact T1. }
  rewrite K in T2. inversion T2; subst n2. rewrite V1 in V2. inversion V2. reflexivity.
Qed.

(* releasing never removes a lock owned by another process *)
Theorem release_keeps_foreign_lock st c rp n c' :
  tget (zs_tree st) (normalize rp) = Some n -> zn_val n = ZOwner c' -> c <> c' ->
  zs_tree (fst (zstep st (ORelease c rp))) = zs_tree st.
Proof.
  intros Ht Hv Hne. cbn [zstep]. rewrite Ht, Hv. destruct (N.eqb_spec c c'); [contradiction|]. reflexivity.
Qed.

(* a lost session drops the cached belief: the next answer comes from the server's tree *)
Theorem expire_clears_cache st c : zc_cache (cget (zs_clients (fst (zstep st (OExpire c)))) c) = [].
Proof. cbn [zstep fst zs_clients]. rewrite cget_cput_same. reflexivity. Qed.
